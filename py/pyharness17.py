"""pyharness17: runs the REAL Python code of the repository (tm/*.py under
CPython 3.12, with a freshly built tm/rust_stuff.so) on case lines (stdin)
and prints one canonical answer line per case (stdout).  Same protocol as
bbh / bbm.  The repository root is taken from the environment variable
BB_PYROOT (a scratch copy; never /repo itself).

  id|pytape|<mode>|<tape>|<ops>   real tm.tape.Tape driven through the op stream;
                                   per-step records in the `tape3` format
  id|pyrun|<prog>|<cycles>        tm.machine.Machine(prog).run(sim_lim=cycles)
                                   -> kind|marks|rulapp|blanks|flags
  id|pydiff|<a>,<b>,<c>,<d>       tm.rules.calculate_diff
  id|pymkrule|<c1>|<c2>|<c3>|<c4> tm.rules.make_rule
  id|pycapps|<tape>|<rule>        tm.rules.count_apps
  id|pyapply|<tape>|<rule>        tm.rules.apply_rule
component commands (pieces that whole runs rarely reach):
  id|pysigc|<tapeA>|<tapeB>       A.sig_compatible(B.signature)
  id|pyenum|<tape>|<ops>          tm.tape.EnumTape (tape.to_enum()) driven through ops joined by ';':
                                   S<shift>,<colour>,<skip>  EnumTape.step
                                   A<rule>                   tm.rules.apply_rule(rule, enum_tape)
                                   G<index>                  EnumTape.get_count(index)
                                   one record per op: result offsets edges tape; an
                                   exception ends the stream with raise:<Name>
  id|pygetrule|<rules>|<state>|<tape>               Prover.get_rule(state, tape)
  id|pyminsig|<prog>|<rules>|<state>|<tape>|<steps> Prover.get_min_sig(steps, state, tape.to_enum(),
                                                     tape.signature)
                                   <rules>: <state>,<colour>=<sig>~<lex><rex>~<rule>;... joined by
                                   spaces, loaded with Prover.set_rule in this order
"""
import os
import resource
import signal
import sys

ROOT = os.environ.get('BB_PYROOT')
if not ROOT:
    sys.stderr.write('BB_PYROOT not set\n')
    sys.exit(2)
sys.path.insert(0, ROOT)
sys.setrecursionlimit(100000)

# pylint: disable = wrong-import-position
import tm.machine as tm_machine          # noqa: E402
import tm.prover as tm_prover            # noqa: E402
import tm.rules as tm_rules              # noqa: E402
from tm.tape import Block, Tape          # noqa: E402

TRUNCATE_COUNT = 10 ** 12                # tm/num.py:2254


def fnv(s):
    h = 0xcbf29ce484222325
    for b in s.encode():
        h ^= b
        h = (h * 0x100000001b3) & 0xFFFFFFFFFFFFFFFF
    return f'{h:016x}'


def b2s(b):
    return '1' if b else '0'


# ---------------------------------------------------------------- tapes

def span_of_field(s):
    if not s:
        return []
    out = []
    for b in s.split(','):
        c, n = b.split(':')
        out.append(Block(int(c), int(n)))
    return out


def tape_of_field(s):
    sc, l, r = s.split('/')
    # spans are stored nearest block first in both implementations
    return Tape(lspan=span_of_field(l), scan=int(sc), rspan=span_of_field(r))


def field_of_span(span):
    return ','.join(f'{b.color}:{b.count}' for b in span)


def field_of_tape(t):
    return f'{t.scan}/{field_of_span(t.lspan)}/{field_of_span(t.rspan)}'


def field_of_sigspan(s):
    # tape.py:113-122: a bare colour for count != 1 (Mult), a 1-tuple for count == 1 (Just)
    return ','.join((f'J{x[0]}' if isinstance(x, tuple) else f'M{x}') for x in s)


def field_of_sig(sig):
    scan, l, r = sig
    return f'{scan}/{field_of_sigspan(l)}/{field_of_sigspan(r)}'


def record3(t, stepped):
    """stepped tape marks blank edgeL edgeR counts lens sig display -- every
    field through the class's own observer"""
    cl, cr = t.counts
    ll, rl = t.span_lens
    big = any(n >= TRUNCATE_COUNT for n in cl + cr)
    return ' '.join([
        str(stepped),
        field_of_tape(t),
        str(t.marks),
        b2s(t.blank),
        b2s(t.at_edge(False)),
        b2s(t.at_edge(True)),
        ','.join(map(str, cl)) + '/' + ','.join(map(str, cr)),
        f'{ll},{rl}',
        field_of_sig(t.signature),
        '-' if big else str(t),
    ])


def cmd_pytape(mode, tape_f, ops_f):
    t = tape_of_field(tape_f)
    recs = []
    if ops_f:
        for o in ops_f.split(';'):
            sh, co, sk = o.split(',')
            stepped = t.step(sh == '1', int(co), sk == '1')
            recs.append(record3(t, stepped))
    if mode == 'v':
        return ';'.join(recs)
    return f'{len(recs)}|{fnv(";".join(recs))}|{recs[-1] if recs else field_of_tape(t)}'


# ---------------------------------------------------------------- rules

def field_of_op(o):
    if isinstance(o, int):
        return str(o) if o < 0 else f'+{o}'
    if isinstance(o, tuple) and len(o) == 2 and all(isinstance(x, int) for x in o):
        return f'*{o[0]}_{o[1]}'
    return 'ops'


def field_of_index(ix):
    return ('R' if ix[0] else 'L') + str(ix[1])


def field_of_rule(r):
    return ','.join(f'{field_of_index(ix)}:{field_of_op(o)}' for ix, o in r.items())


def rule_of_field(s):
    r = {}
    if not s:
        return r
    for e in s.split(','):
        ix, o = e.split(':')
        index = (1 if ix[0] == 'R' else 0, int(ix[1:]))
        if o[0] == '*':
            q, rr = o[1:].split('_')
            r[index] = (int(q), int(rr))
        else:
            r[index] = int(o)
    return r


def counts_of_field(s):
    l, r = s.split('/')
    return ([int(x) for x in l.split(',')] if l else [],
            [int(x) for x in r.split(',')] if r else [])


def raise_name(ex):
    n = type(ex).__name__
    if isinstance(ex, tm_rules.SuspectedRule):
        return f'raise:{n}:{ex.args[0]},{ex.args[1]}'
    return f'raise:{n}'


def cmd_pydiff(f):
    counts = [int(x) for x in f.split(',')]
    try:
        d = tm_rules.calculate_diff(*counts)
    except Exception as ex:          # pylint: disable = broad-exception-caught
        return raise_name(ex)
    return 'none' if d is None else field_of_op(d)


def cmd_pymkrule(c1, c2, c3, c4):
    try:
        r = tm_rules.make_rule(*(counts_of_field(c) for c in (c1, c2, c3, c4)))
    except Exception as ex:          # pylint: disable = broad-exception-caught
        return raise_name(ex)
    return 'none' if r is None else 'rule:' + field_of_rule(r)


def has_mult(rule):
    return any(not isinstance(o, int) for o in rule.values())


def cmd_pycapps(tape_f, rule_f):
    t, r = tape_of_field(tape_f), rule_of_field(rule_f)
    try:
        a = tm_rules.count_apps(r, t)
    except Exception as ex:          # pylint: disable = broad-exception-caught
        return raise_name(ex)
    if a is None:
        return 'none'
    times, pos, res = a
    return f'{times} {field_of_index(pos)} {res}'


def cmd_pyapply(tape_f, rule_f):
    t, r = tape_of_field(tape_f), rule_of_field(rule_f)
    if has_mult(r):
        # multiplicative ops build symbolic numbers: outside the model
        return 'unmodelled'
    try:
        res = tm_rules.apply_rule(r, t)
    except Exception as ex:          # pylint: disable = broad-exception-caught
        return raise_name(ex)
    return ('none' if res is None else f'some:{res}') + '|' + field_of_tape(t)


# ---------------------------------------------------------------- components

def cmd_pysigc(ta, tb):
    a, b = tape_of_field(ta), tape_of_field(tb)
    try:
        return b2s(a.sig_compatible(b.signature))
    except Exception as ex:          # pylint: disable = broad-exception-caught
        return raise_name(ex)


def index_of_field(s):
    return (1 if s[0] == 'R' else 0, int(s[1:]))


def enum_record(res, et):
    lo, ro = et.offsets
    le, re_ = et.edges
    return f'{res} {lo},{ro} {b2s(le)}{b2s(re_)} {field_of_tape(et.tape)}'


def cmd_pyenum(tape_f, ops_f):
    et = tape_of_field(tape_f).to_enum()
    recs = []
    for o in (ops_f.split(';') if ops_f else []):
        kind, arg = o[0], o[1:]
        try:
            if kind == 'S':
                sh, co, sk = arg.split(',')
                et.step(sh == '1', int(co), sk == '1')
                recs.append(enum_record('-', et))
            elif kind == 'A':
                res = tm_rules.apply_rule(rule_of_field(arg), et)
                recs.append(enum_record('none' if res is None else f'some:{res}', et))
            elif kind == 'G':
                recs.append(enum_record(str(et.get_count(index_of_field(arg))), et))
            else:
                return 'PYHARNESS-ERROR:bad enum op'
        except Exception as ex:      # pylint: disable = broad-exception-caught
            recs.append(raise_name(ex))
            break
    return ';'.join(recs)


def sigspan_of_field(s):
    return tuple(((int(x[1:]),) if x[0] == 'J' else int(x[1:])) for x in s.split(',')) if s else ()


def sig_of_field(s):
    sc, l, r = s.split('/')
    return (int(sc), sigspan_of_field(l), sigspan_of_field(r))


def prover_of_field(comp, rules_f):
    pv = tm_prover.Prover(comp)
    for slot_f in (rules_f.split(' ') if rules_f else []):
        key, ents = slot_f.split('=')
        st = int(key.split(',')[0])
        for e in ents.split(';'):
            g, fl, r = e.split('~')
            pv.set_rule(rule_of_field(r), st, (sig_of_field(g), (fl[0] == '1', fl[1] == '1')))
    return pv


def cmd_pygetrule(rules_f, st, tape_f):
    t = tape_of_field(tape_f)
    try:
        r = prover_of_field({}, rules_f).get_rule(int(st), t)
    except Exception as ex:          # pylint: disable = broad-exception-caught
        return raise_name(ex)
    return 'none' if r is None else 'rule:' + field_of_rule(r)


def cmd_pyminsig(prog, rules_f, st, tape_f, steps):
    from tm.parse import tcompile      # pylint: disable = import-outside-toplevel
    t = tape_of_field(tape_f)
    try:
        sig, (lex, rex) = prover_of_field(tcompile(prog), rules_f).get_min_sig(
            int(steps), int(st), t.to_enum(), t.signature)
    except Exception as ex:          # pylint: disable = broad-exception-caught
        return raise_name(ex)
    return f'{field_of_sig(sig)}~{b2s(lex)}{b2s(rex)}'


# ---------------------------------------------------------------- whole runs

class Watch:
    """records whether any rule handed to apply_rule (by the machine loop or
    by the prover's own simulator) is not purely additive"""
    def __init__(self):
        self.nonadd = False
        self.applied = 0

    def wrap(self, real):
        def apply_rule(rule, tape):
            if any(not isinstance(o, int) for o in rule.values()):
                self.nonadd = True
            res = real(rule, tape)
            if res is not None:
                self.applied += 1
            return res
        return apply_rule


REAL_APPLY = tm_rules.apply_rule
REAL_DIFF = tm_rules.calculate_diff
REAL_MAKE = tm_rules.make_rule

RUST_DELTA_CAP = 90_000                   # src/prover.rs:183

# budget of the CHECK (not a limit of the code under test): CPU seconds per run
RUN_CPU = float(os.environ.get('BB_PYRUN_CPU', '20'))


class Budget(Exception):
    pass


def on_alarm(_sig, _frm):
    raise Budget


def cmd_pyrun(prog, cycles):
    w = Watch()
    secdiff = [False]

    nonadd_diff = [False]
    maxdelta = [0]

    def calculate_diff(*counts):
        try:
            d = REAL_DIFF(*counts)
        except tm_rules.SecondDiffRule:
            secdiff[0] = True
            raise
        if d is not None and not isinstance(d, int):
            call_nonadd[0] = True
        return d

    call_nonadd = [False]

    def make_rule(*countses):
        # a multiplicative / op-sequence difference inferred for one block can
        # decide the run (InfiniteRule) without any rule ever being stored
        call_nonadd[0] = False
        try:
            return REAL_MAKE(*countses)
        except tm_rules.InfiniteRule:
            if call_nonadd[0]:
                nonadd_diff[0] = True
            raise

    real_sim = tm_prover.Prover.run_simulator

    def run_simulator(self, steps, state, tape):
        maxdelta[0] = max(maxdelta[0], steps)
        return real_sim(self, steps, state, tape)

    tm_machine.apply_rule = w.wrap(REAL_APPLY)
    tm_prover.apply_rule = w.wrap(REAL_APPLY)
    tm_rules.calculate_diff = calculate_diff
    tm_prover.Prover.run_simulator = run_simulator
    tm_prover.make_rule = make_rule
    flags = []
    signal.signal(signal.SIGVTALRM, on_alarm)
    signal.setitimer(signal.ITIMER_VIRTUAL, RUN_CPU)
    try:
        m = tm_machine.Machine(prog).run(sim_lim=int(cycles))
    except Budget:
        return 'budget|-|-|-|check-budget'
    except MemoryError:
        return 'budget|-|-|-|check-memory'
    except Exception as ex:          # pylint: disable = broad-exception-caught
        return f'exc|-|-|-|exc:{type(ex).__name__}'
    finally:
        signal.setitimer(signal.ITIMER_VIRTUAL, 0)
        tm_machine.apply_rule = REAL_APPLY
        tm_prover.apply_rule = REAL_APPLY
        tm_rules.calculate_diff = REAL_DIFF
        tm_prover.Prover.run_simulator = real_sim
        tm_prover.make_rule = REAL_MAKE
    kinds = []
    for cat in ('undfnd', 'spnout', 'infrul', 'xlimit', 'cfglim', 'limrul'):
        if getattr(m, cat, None) is not None:
            kinds.append(cat)
    kind = kinds[0] if len(kinds) == 1 else 'multi:' + '+'.join(kinds)
    if m.limrul is not None:
        flags.append('limrul')
    if m.cfglim is not None:
        flags.append('cfglim')
    if m.susrul is not None:
        flags.append('susrul')
    proved_nonadd = any(
        not isinstance(o, int)
        for lst in m.prover.rules.values() for _, rule in lst for o in rule.values())
    if w.nonadd or proved_nonadd or nonadd_diff[0]:
        flags.append('nonadd')
    if maxdelta[0] > RUST_DELTA_CAP:
        # the prover simulated more than 90_000 cycles ahead to confirm a rule:
        # src/prover.rs:183-185 declines such a confirmation (Rust's own limit)
        flags.append('bigdelta')
    if secdiff[0]:
        # a second-difference (quadratic) growth was recognised by calculate_diff:
        # an inference beyond additive rules (rules.py:129-131, 245-247)
        flags.append('secdiff')
    marks, rulapp = m.marks, m.rulapp
    if not isinstance(marks, int) or not isinstance(rulapp, int):
        flags.append('sym')
    blanks = ','.join(f'{s}:{n}' for s, n in sorted(m.blanks.items()))
    return '|'.join([
        kind,
        str(marks) if isinstance(marks, int) else 'sym',
        str(rulapp) if isinstance(rulapp, int) else 'sym',
        blanks,
        ','.join(flags),
    ])


def dispatch(f):
    match f:
        case ['pytape', mode, tp, ops]:
            return cmd_pytape(mode, tp, ops)
        case ['pyrun', prog, cycles]:
            return cmd_pyrun(prog, cycles)
        case ['pydiff', counts]:
            return cmd_pydiff(counts)
        case ['pymkrule', c1, c2, c3, c4]:
            return cmd_pymkrule(c1, c2, c3, c4)
        case ['pycapps', tp, rl]:
            return cmd_pycapps(tp, rl)
        case ['pyapply', tp, rl]:
            return cmd_pyapply(tp, rl)
        case ['pysigc', ta, tb]:
            return cmd_pysigc(ta, tb)
        case ['pyenum', tp, ops]:
            return cmd_pyenum(tp, ops)
        case ['pygetrule', rl, st, tp]:
            return cmd_pygetrule(rl, st, tp)
        case ['pyminsig', prog, rl, st, tp, steps]:
            return cmd_pyminsig(prog, rl, st, tp, steps)
    return 'PYHARNESS-ERROR:unknown command'


def main():
    gb = float(os.environ.get('BB_PY_MEM_GB', '4'))
    lim = int(gb * (1 << 30))
    resource.setrlimit(resource.RLIMIT_AS, (lim, lim))
    out = sys.stdout
    for line in sys.stdin:
        line = line.rstrip('\n')
        if not line:
            continue
        cid, _, rest = line.partition('|')
        try:
            ans = dispatch(rest.split('|'))
        except Exception as ex:      # pylint: disable = broad-exception-caught
            ans = f'PYHARNESS-ERROR:{type(ex).__name__}:{ex}'
        out.write(f'{cid}|{ans}\n')
    out.flush()


if __name__ == '__main__':
    main()
