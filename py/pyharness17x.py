"""pyharness17x: pyharness17 plus one command that prints more of the REAL
Machine object after the REAL run, so that the whole-run Python model
(coq/Model/PyProverModel.v, PyMachineModel.v; bbm command `pyrunx`) is tied
to tm/machine.py + tm/prover.py on more than the four compared fields.

  id|pyrunx|<prog>|<cycles>
      -> <answer of pyharness17 `pyrun`>|steps|cycles|tpcfgs|rules
         steps  = Machine.steps, cycles = Machine.cycles,
         tpcfgs = Machine.prover.config_count,
         rules  = Machine.prover.rules: slots sorted, entries in list order,
                  <state>,<colour>=<sig>~<lex><rex>~<rule>;...  joined by spaces

Everything else is passed to pyharness17 unchanged.  Nothing of tm/ is
modified: the Machine object is captured by wrapping Machine.run for the
duration of one call.
"""
import os
import resource
import sys

sys.path.insert(0, os.path.dirname(os.path.abspath(__file__)))

import pyharness17 as h                  # noqa: E402  pylint: disable = wrong-import-position

REAL_RUN = h.tm_machine.Machine.run


def field_of_rules(rules):
    out = []
    for (st, co), lst in sorted(rules.items()):
        ents = []
        for (sig, (lex, rex)), rule in lst:
            ents.append(f'{h.field_of_sig(sig)}~{h.b2s(lex)}{h.b2s(rex)}~{h.field_of_rule(rule)}')
        out.append(f'{st},{co}=' + ';'.join(ents))
    return ' '.join(out)


def cmd_pyrunx(prog, cycles):
    got = []

    def run(self, *a, **kw):
        got.append(self)
        return REAL_RUN(self, *a, **kw)

    h.tm_machine.Machine.run = run
    try:
        base = h.cmd_pyrun(prog, cycles)
    finally:
        h.tm_machine.Machine.run = REAL_RUN
    if base.startswith(('budget|', 'exc|')) or not got:
        return base
    m = got[0]
    try:
        extra = [str(m.steps), str(m.cycles), str(m.prover.config_count), field_of_rules(m.prover.rules)]
    except Exception as ex:          # pylint: disable = broad-exception-caught
        extra = [f'extra-failed:{type(ex).__name__}']
    return base + '|' + '|'.join(extra)


def dispatch(f):
    if len(f) == 3 and f[0] == 'pyrunx':
        return cmd_pyrunx(f[1], f[2])
    return h.dispatch(f)


def main():
    gb = float(os.environ.get('BB_PY_MEM_GB', '4'))
    lim = int(gb * (1 << 30))
    resource.setrlimit(resource.RLIMIT_AS, (lim, lim))
    out = sys.stdout
    for line in sys.stdin:
        line = line.rstrip('\n')
        if not line:
            continue
        cid, _, rest = line.partition('|')
        try:
            ans = dispatch(rest.split('|'))
        except Exception as ex:      # pylint: disable = broad-exception-caught
            ans = f'PYHARNESS-ERROR:{type(ex).__name__}:{ex}'
        out.write(f'{cid}|{ans}\n')
    out.flush()


if __name__ == '__main__':
    main()
