#!/root/.pyenv/versions/3.12.1/bin/python
"""pyharness: runs /repo's Python code (tm/num.py) on case lines (stdin) and
prints one canonical answer line per case (stdout).  Glue only.

Run with CPython >= 3.12; the directory that CONTAINS the package `tm` is taken
from the environment variable BB_PYROOT (default /repo).  Only `tm.num` is
imported (pure Python; the Rust extension is not needed).

Expression text (no '|' characters; tokens separated by blanks or parentheses):

    <expr> ::= <int> | (+ <expr> <expr>) | (* <expr> <expr>)
             | (/ <expr> <int>) | (^ <int> <expr>)

BUILDING an operand from its text is done bottom-up with the library's own
constructors and operators -- which is the point, the simplifier is under test:

    <int>      -> the Python int
    (+ a b)    -> build(a) + build(b)          (int.__add__ / Num.__add__ / Num.__radd__)
    (* a b)    -> build(a) * build(b)          (Num.__mul__ / Num.__rmul__)
    (/ a d)    -> build(a) // d                (Num.__floordiv__; int // int when a folded to an int)
    (^ b e)    -> make_exp(b, build(e))        (what `b ** Num` does through Num.__rpow__; with an int
                                                exponent make_exp is called directly, because b ** int
                                                is a plain Python int and never becomes an Exp)

SERIALISING a library object reads its fields, nothing else:

    int -> decimal;  Add -> (+ l r);  Mul -> (* l r);  Div -> (/ num den);  Exp -> (^ base exp);
    Tet -> (tet base height)   (not an expression of the checked language: callers treat it as no result)

Commands (answer lines are `id|...`):

    id|pybuild|<expr>               -> id|<built>
    id|pyop|<op>|<exprA>|<exprB>    -> id|<result>          op in + - * //      (exprB may be an int)
    id|pymod|<expr>|<m>             -> id|<built>|<int>     built % m
    id|pycmp|<op>|<exprA>|<exprB>   -> id|True / False      op in == != < <= > >=
    id|pypow|<expr>|<k>             -> id|<result>          built ** k
    id|pyneg|<expr>                 -> id|<result>          -built
    id|pyint|<expr>                 -> id|<built>|<int>     int(built); `toobig` when the log-size estimate
                                                             exceeds ~10^4 digits (int() is not called then)
    id|pytables                     -> id|<mod>:<k>=<v>,...;<mod>:...   the dict literals of
                                       exp_mod_special_cases read from the source text with `ast`

An exception raised by the operation under test prints `raise:<ExceptionClassName>`; an exception
raised while BUILDING an operand prints `raise-build:<ExceptionClassName>` (both mean: no result).
A case that runs longer than BB_PYTIMEOUT seconds (default 10) prints `raise:Timeout`.

COUNTERFACTUAL (attribution of a known-finding class, never used for a verdict): with
BB_PYCF=ltint the `isinstance(other, int)` branches of Add/Mul/Div/Exp.__lt__ (num.py:297-305,
588-589, 795-796, 1135-1136 -- they answer `x < int` from signs alone, without looking at the
int) are replaced AT RUN TIME, in this process only, by the exact comparison `int(x) < other`
whenever x has at most ~10^4 digits.  With BB_PYCF=ltall the whole of those four __lt__ methods
is replaced in the same way by `int(x) < int(other)` whenever both operands have at most ~10^4
digits (the comparison heuristics between two symbolic operands as one site).  With
BB_PYCF=gcdexact the module function `gcd(l, r)` (num.py:1306-1347; used by the __floordiv__
methods only) is replaced by `math.gcd(l, int(r))` whenever r has at most ~10^4 digits and every
exponent inside it is >= 0 (the helper cannot see the value of a symbolic exponent).  Nothing on
disk is touched.
"""
import ast
import os
import signal
import sys

PYROOT = os.environ.get('BB_PYROOT', '/repo')
sys.path.insert(0, PYROOT)
sys.setrecursionlimit(10000)
sys.dont_write_bytecode = True      # never write __pycache__ into the tree under test

from tm import num as N                                   # noqa: E402
from tm.num import Add, Mul, Div, Exp, Tet, Num, make_exp  # noqa: E402

MAX_DIGITS = 10_000
TIMEOUT = int(os.environ.get('BB_PYTIMEOUT', '10'))


class CaseTimeout(Exception):
    pass


class TooBig(Exception):
    pass


class BuildRaise(Exception):
    def __init__(self, inner):
        super().__init__(type(inner).__name__)
        self.inner = inner


# ------------------------------------------------------------ expression text

def tokens(s):
    return s.replace('(', ' ( ').replace(')', ' ) ').split()


def parse(s):
    """text -> nested tuples ('+', a, b) / ints"""
    toks = tokens(s)
    pos = 0

    def go():
        nonlocal pos
        t = toks[pos]
        pos += 1
        if t == '(':
            op = toks[pos]
            pos += 1
            a = go()
            b = go()
            assert toks[pos] == ')', s
            pos += 1
            return (op, a, b)
        return int(t)
    r = go()
    assert pos == len(toks), s
    return r


def build_tree(t):
    if isinstance(t, int):
        return t
    op, a, b = t
    if op == '+':
        return build_tree(a) + build_tree(b)
    if op == '*':
        return build_tree(a) * build_tree(b)
    if op == '/':
        assert isinstance(b, int)
        return build_tree(a) // b
    if op == '^':
        assert isinstance(a, int)
        return make_exp(a, build_tree(b))
    raise ValueError(op)


def build(s):
    try:
        return build_tree(parse(s))
    except CaseTimeout:
        raise
    except Exception as ex:          # the library raised while building
        raise BuildRaise(ex) from ex


def ser(x):
    if isinstance(x, bool):
        return str(x)
    if isinstance(x, int):
        return str(x)
    if isinstance(x, Add):
        return f'(+ {ser(x.l)} {ser(x.r)})'
    if isinstance(x, Mul):
        return f'(* {ser(x.l)} {ser(x.r)})'
    if isinstance(x, Div):
        return f'(/ {ser(x.num)} {ser(x.den)})'
    if isinstance(x, Exp):
        return f'(^ {ser(x.base)} {ser(x.exp)})'
    if isinstance(x, Tet):
        return f'(tet {x.base} {x.height})'
    return f'(unserialisable {type(x).__name__})'


# ------------------------------------------------------------ size estimate

def log2_est(x):
    """upper estimate of log2 |x| + 1 for a library object, without int().
    Raises TooBig as soon as the estimate passes the limit."""
    lim = MAX_DIGITS * 3.33
    if isinstance(x, int):
        return x.bit_length() + 1
    if isinstance(x, Add):
        r = max(log2_est(x.l), log2_est(x.r)) + 1
    elif isinstance(x, Mul):
        r = log2_est(x.l) + log2_est(x.r)
    elif isinstance(x, Div):
        r = log2_est(x.num)
    elif isinstance(x, Exp):
        e = x.exp
        if not isinstance(e, int):
            if log2_est(e) > 64:      # (an upper estimate: the exponent itself is then below 2^64 and int(e) is cheap)
                raise TooBig
            e = int(e)
        if e < 0:
            return 1
        r = (abs(x.base).bit_length() + 1) * e + 1
    else:
        raise TooBig
    if r > lim:
        raise TooBig
    return r


# ------------------------------------------------------------ counterfactual

def patch_ltint():
    for cls in (Add, Mul, Div, Exp):
        orig = cls.__lt__

        def lt(self, other, orig=orig):
            if isinstance(other, int):
                try:
                    log2_est(self)
                    return int(self) < other
                except (TooBig, TypeError):
                    pass
            return orig(self, other)
        cls.__lt__ = lt


def patch_ltall():
    for cls in (Add, Mul, Div, Exp):
        orig = cls.__lt__

        def lt(self, other, orig=orig):
            try:
                log2_est(self)
                if not isinstance(other, int):      # (an int operand has no size estimate: log2_est(0) is undefined)
                    log2_est(other)
                return int(self) < int(other)
            except (TooBig, TypeError, NotImplementedError):
                pass
            return orig(self, other)
        cls.__lt__ = lt


def patch_gcdexact():
    import math
    orig = N.gcd

    def exact_gcd(l, r):
        if isinstance(r, int):
            return orig(l, r)
        try:
            log2_est(r)
            return math.gcd(l, int(r))
        except (TooBig, TypeError, NotImplementedError, ValueError):
            return orig(l, r)
    N.gcd = exact_gcd


# ------------------------------------------------------------ commands

def py_binop(op, a, b):
    if op == '+':
        return a + b
    if op == '-':
        return a - b
    if op == '*':
        return a * b
    if op == '//':
        return a // b
    raise ValueError(op)


def py_cmp(op, a, b):
    if op == '==':
        return a == b
    if op == '!=':
        return a != b
    if op == '<':
        return a < b
    if op == '<=':
        return a <= b
    if op == '>':
        return a > b
    if op == '>=':
        return a >= b
    raise ValueError(op)


def tables():
    """the dict literals of exp_mod_special_cases, read from the source text"""
    src = open(N.__file__).read()
    tree = ast.parse(src)
    out = []
    for fn in tree.body:
        if isinstance(fn, ast.FunctionDef) and fn.name == 'exp_mod_special_cases':
            for node in ast.walk(fn):
                if isinstance(node, ast.match_case) and isinstance(node.pattern, ast.MatchValue):
                    mod = ast.literal_eval(node.pattern.value)
                    for st in node.body:
                        if isinstance(st, ast.Assign) and isinstance(st.value, ast.Dict):
                            d = ast.literal_eval(st.value)
                            out.append(f'{mod}:' + ','.join(f'{k}={v}' for k, v in d.items()))
    return ';'.join(out)


def run_case(f):
    cmd = f[0]
    if cmd == 'pybuild':
        return ser(build(f[1]))
    if cmd == 'pyop':
        a, b = build(f[2]), build(f[3])
        return ser(py_binop(f[1], a, b))
    if cmd == 'pymod':
        a = build(f[1])
        return ser(a) + '|' + ser(a % int(f[2]))
    if cmd == 'pycmp':
        a, b = build(f[2]), build(f[3])
        r = py_cmp(f[1], a, b)
        if r is NotImplemented or not isinstance(r, bool):
            return f'raise:NonBool({type(r).__name__})'
        return ser(r)
    if cmd == 'pypow':
        a = build(f[1])
        return ser(a ** int(f[2]))
    if cmd == 'pyneg':
        a = build(f[1])
        return ser(-a)
    if cmd == 'pyint':
        a = build(f[1])
        try:
            log2_est(a)
        except TooBig:
            return ser(a) + '|toobig'
        return ser(a) + '|' + str(int(a))
    if cmd == 'pytables':
        return tables()
    return 'HARNESS-ERROR:unknown command'


def on_alarm(signum, frame):
    raise CaseTimeout()


def main():
    cf = os.environ.get('BB_PYCF', '')
    if cf == 'ltint':
        patch_ltint()
    elif cf == 'ltall':
        patch_ltall()
    elif cf == 'gcdexact':
        patch_gcdexact()
    elif cf:
        sys.exit(f'unknown BB_PYCF={cf}')
    signal.signal(signal.SIGALRM, on_alarm)
    out = sys.stdout
    for line in sys.stdin:
        line = line.rstrip('\n')
        if not line:
            continue
        f = line.split('|')
        cid, f = f[0], f[1:]
        signal.alarm(TIMEOUT)
        try:
            ans = run_case(f)
        except CaseTimeout:
            ans = 'raise:Timeout'
        except BuildRaise as ex:
            ans = 'raise-build:' + type(ex.inner).__name__
        except RecursionError:
            ans = 'raise:RecursionError'
        except Exception as ex:      # the operation under test raised: "no result"
            ans = 'raise:' + type(ex).__name__
        finally:
            signal.alarm(0)
        out.write(f'{cid}|{ans}\n')
    out.flush()


if __name__ == '__main__':
    main()
