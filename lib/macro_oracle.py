"""Property oracle for the macro-machine properties C08, C09, C16.

Independent of coq/Model/MacrosModel.v and of src/macros.rs: a plain
cell-by-cell simulator on list/dict tapes plus the POSITIONAL decoding of macro
colours and macro states.  Nothing here looks at a colour cache.

Conventions (derived from macros.rs deconstruct_inputs / reconstruct_outputs and
re-validated by `lockstep` against runs of the base machine from the blank tape):

block:k over a machine with S states, C colours
    macro colour c  <-> k cells, most significant first: c = sum cell_i * C^(k-1-i)
    macro state ms  <-> base state ms // 2; the head stands on the LEFT-most cell
                        of the block when ms % 2 == 0 (block entered from the
                        left), on the RIGHT-most cell when ms % 2 == 1
    macro cell i    <-> base cells i*k .. i*k+k-1
    answer (c', sh, ms'): the base machine leaves the block on the right iff
                        sh = R(1), then ms' % 2 == 0; on the left iff sh = L(0),
                        then ms' % 2 == 1; c' = the block contents at that moment
back:k (backsymbol) over a machine with S states, C colours, B = C^k
    macro colour    =   one base cell
    macro state ms  <-> at_right = ms % 2, q = ms // 2, base state q // B,
                        remembered cells = positional decoding of q % B (k cells,
                        left-to-right in BASE orientation)
    window          =   remembered ++ [scan], head on the last cell (at_right = 0)
                        [scan] ++ remembered, head on the first cell (at_right = 1)
    the macro tape is the base tape MIRRORED with the remembered cells cut out:
    macro head at h: macro cell m < h  <-> base cell -m
                     macro cell m > h  <-> base cell -m-k
                     window            <-> base cells -h-k .. -h
    answer (c', sh, ms'): the base machine leaves the window on the RIGHT iff
                        sh = L(0): c' = left-most window cell, remembered' = the
                        other k cells, ms' % 2 == 0;  on the LEFT iff sh = R(1):
                        c' = right-most window cell, remembered' = the first k
                        cells, ms' % 2 == 1
no instruction: the base machine, started in the decoded window, halts inside
    it or repeats a (state, position, window) configuration before leaving it.
"""
import re

# ------------------------------------------------------------------ parsing


def parse_prog(text):
    table = {}
    for s, row in enumerate(text.split('  ')):
        for c, ins in enumerate(row.split(' ')):
            if ins[0] == '.':
                continue
            table[(s, c)] = (int(ins[0]), ins[1] == 'R', ord(ins[2]) - 65)
    return table


def parse_slots(field):
    if not field:
        return []
    return [tuple(int(x) for x in q.split(',')) for q in field.split(';')]


def slots_field(sl):
    return ';'.join(f'{a},{b}' for a, b in sl)


def parse_answer(a):
    """'P' | '-' | 'c,sh,st' -> 'P' | None | (c, bool, st)"""
    if a == 'P':
        return 'P'
    if a == '-':
        return None
    c, sh, st = a.split(',')
    return (int(c), sh == '1', int(st))


def parse_macro_answer(ans):
    """answer line of a `macro` case -> (answers list, c2t dict, memo dict) or None (whole-case PANIC)"""
    if ans is None or ans == 'PANIC' or 'ERROR' in ans or ans.startswith('MISSING'):
        return None
    a, c2t, memo = ans.split('|')
    answers = [parse_answer(x) for x in a.split(';')] if a else []
    d = {}
    body = c2t[len('c2t:'):]
    if body:
        for e in body.split(';'):
            k, v = e.split('=')
            d[int(k)] = [int(x) for x in v.split(',')] if v else []
    m = {}
    body = memo[len('memo:'):]
    if body:
        for e in body.split(';'):
            k, v = e.split('=')
            m[tuple(int(x) for x in k.split(','))] = parse_answer(v)
    return answers, d, m


def parse_spec(spec):
    out = []
    for e in spec.split('+'):
        kind, k = e.split(':')
        out.append(('back' if kind.startswith('back') else 'block', int(k)))
    return out


def fix_spec(spec):
    """the model-only counterfactual: every back:k -> backfix:k"""
    return re.sub(r'\bback:', 'backfix:', spec)


def has_back(spec):
    return 'back' in spec


# ------------------------------------------------------------------ reference machines

class BaseProg:
    """level 0: the program table; an instruction costs one base step"""

    def __init__(self, text, S, C):
        self.table = parse_prog(text)
        self.S, self.C = S, C

    def params(self):
        return self.S, self.C

    def get(self, slot):
        t = self.table.get(slot)
        return None if t is None else (t[0], t[1], t[2], 1)


class RefMacro:
    """the IDEAL macro machine over `inner` (anything with get/params)."""

    def __init__(self, inner, kind, k, params):
        self.inner, self.kind, self.k = inner, kind, k
        self.S, self.C = params
        self.B = self.C ** k
        if kind == 'block':
            self.macro_states, self.macro_colors = 2 * self.S, self.B
        else:
            self.macro_states, self.macro_colors = 2 * self.S * self.B, self.C
        self.memo = {}

    def params(self):
        return self.macro_states, self.macro_colors

    # positional coding, most significant cell first
    def decode_cells(self, c):
        if c < 0 or c >= self.B:
            return None
        out = [0] * self.k
        for i in range(self.k - 1, -1, -1):
            c, out[i] = divmod(c, self.C)
        return out

    def encode_cells(self, cells):
        v = 0
        for x in cells:
            v = v * self.C + x
        return v

    def decode_slot(self, slot):
        """-> (inner state, head position in window, window) or None when out of range"""
        ms, mc = slot
        if ms >= self.macro_states or mc >= self.macro_colors:
            return None
        if self.kind == 'block':
            win = self.decode_cells(mc)
            return ms // 2, (self.k - 1 if ms % 2 else 0), win
        q, at_right = divmod(ms, 2)
        st, b = divmod(q, self.B)
        rem = self.decode_cells(b)
        if at_right:
            return st, 0, [mc] + rem
        return st, self.k, rem + [mc]

    def encode_exit(self, side, st, win):
        """the instruction an exit on `side` (True = right) in inner state st with window win must give"""
        if self.kind == 'block':
            return self.encode_cells(win), side, 2 * st + (0 if side else 1)
        if side:
            return win[0], False, 2 * (st * self.B + self.encode_cells(win[1:]))
        return win[self.k], True, 1 + 2 * (st * self.B + self.encode_cells(win[:self.k]))

    def describe_instr(self, ins):
        """decoded reading of an instruction (for replay files)"""
        c, sh, ms = ins
        if self.kind == 'block':
            return {'cells': self.decode_cells(c), 'left_on': 'right' if sh else 'left',
                    'state': ms // 2, 'enters_next_block_at': 'right edge' if ms % 2 else 'left edge'}
        q, at_right = divmod(ms, 2)
        st, b = divmod(q, self.B)
        return {'pushed_cell': c, 'left_on': 'left' if sh else 'right', 'state': st,
                'remembered': self.decode_cells(b), 'remembered_side': 'right' if at_right else 'left'}

    def simulate(self, st, pos, win):
        """run the inner machine inside the window.
        -> ('exit', side, state, window, inner_steps, base_steps)
           ('halt', state, pos, window, inner_steps)     inner machine has no instruction
           ('loop', first_seen_at, inner_steps, (state, pos, window))  configuration repeated"""
        win = list(win)
        n = len(win)
        seen = {}
        steps = 0
        base_steps = 0
        get = self.inner.get
        while True:
            key = (st, pos, tuple(win))
            if key in seen:
                return ('loop', seen[key], steps, key)
            seen[key] = steps
            r = get((st, win[pos]))
            if r is None:
                return ('halt', st, pos, win, steps)
            win[pos] = r[0]
            st = r[2]
            steps += 1
            base_steps += r[3]
            if r[1]:
                pos += 1
                if pos >= n:
                    return ('exit', True, st, win, steps, base_steps)
            else:
                pos -= 1
                if pos < 0:
                    return ('exit', False, st, win, steps, base_steps)

    def expected(self, slot):
        """-> ('range',) | ('some', instr, base_steps, facts) | ('none', facts)"""
        r = self.memo.get(slot)
        if r is not None:
            return r
        d = self.decode_slot(slot)
        if d is None:
            r = ('range',)
        else:
            st, pos, win = d
            sim = self.simulate(st, pos, win)
            entry = {'state': st, 'head_at': pos, 'window': win}
            if sim[0] == 'exit':
                _, side, st2, win2, steps, bsteps = sim
                r = ('some', self.encode_exit(side, st2, win2), bsteps,
                     {'entry': entry, 'exit_side': 'right' if side else 'left', 'exit_state': st2,
                      'exit_window': win2, 'steps_of_the_base_machine': steps})
            elif sim[0] == 'halt':
                r = ('none', {'entry': entry, 'halts_inside': {'state': sim[1], 'head_at': sim[2],
                                                                'window': sim[3], 'after_steps': sim[4]}})
            else:
                r = ('none', {'entry': entry, 'loops_inside': {
                    'configuration': {'state': sim[3][0], 'head_at': sim[3][1], 'window': list(sim[3][2])},
                    'first_at_step': sim[1], 'again_at_step': sim[2]}})
        self.memo[slot] = r
        return r

    def get(self, slot):
        """as a base machine of a further layer"""
        e = self.expected(slot)
        if e[0] != 'some':
            return None
        return e[1] + (e[2],)

    def decode_head(self, ms, pos):
        """state and head position of the inner machine (independent of the tape)"""
        if ms >= self.macro_states:
            return None
        if self.kind == 'block':
            return ms // 2, pos * self.k + (self.k - 1 if ms % 2 else 0)
        q, at_right = divmod(ms, 2)
        return q // self.B, (-pos - self.k if at_right else -pos)

    # --- decoding of a whole macro configuration into a configuration of `inner`
    def decode_config(self, ms, tape, pos):
        """tape: dict position -> colour (absent = 0).  -> (state, tape, pos) of the inner machine, or None"""
        k = self.k
        if ms >= self.macro_states:
            return None
        out = {}
        if self.kind == 'block':
            for i, c in tape.items():
                if c:
                    cells = self.decode_cells(c)
                    if cells is None:
                        return None
                    for j, x in enumerate(cells):
                        if x:
                            out[i * k + j] = x
            return ms // 2, out, pos * k + (k - 1 if ms % 2 else 0)
        q, at_right = divmod(ms, 2)
        st, b = divmod(q, self.B)
        rem = self.decode_cells(b)
        h = pos
        for m, c in tape.items():
            if not c or m == h:
                continue
            if c >= self.C:
                return None
            out[-m if m < h else -m - k] = c
        scan = tape.get(h, 0)
        if scan >= self.C:
            return None
        if at_right:
            x = -h - k
            cells = [scan] + rem
            base = x
        else:
            x = -h
            cells = rem + [scan]
            base = x - k
        for j, v in enumerate(cells):
            if v:
                out[base + j] = v
        return st, out, x


def build_ref(prog, S, C, chain, spec):
    """reference stack for a case; None when the case is outside the oracle's scope
    (nested macro whose outer layers were NOT given the params of the layer below:
    colours of the inner macro then exceed the outer converter's base)."""
    layers = parse_spec(spec)
    if len(layers) > 1 and not chain:
        return None
    cur = BaseProg(prog, S, C)
    stack = [cur]
    for kind, k in layers:
        cur = RefMacro(cur, kind, k, cur.params())
        stack.append(cur)
    return stack


def split_params(params):
    f = params.split(',')
    return int(f[0]), int(f[1]), len(f) > 2 and f[2] == 'chain'


# ------------------------------------------------------------------ instruction-level oracle

def check_answer(ref, slot, ans):
    """ans: 'P' | None | instr.  -> (status, failure-dict-or-None)"""
    if ans == 'P':
        return 'panic', None
    e = ref.expected(slot)
    if e[0] == 'range':
        return 'range', None
    if e[0] == 'some':
        if ans == e[1]:
            return 'some', None
        why = {'slot': list(slot), 'answer': None if ans is None else list(ans),
               'the_base_machine_requires': list(e[1]), 'base_machine': e[3],
               'required_decoded': ref.describe_instr(e[1])}
        if ans is not None:
            why['answer_decoded'] = ref.describe_instr(ans)
            why['what'] = 'the instruction does not describe how the base machine leaves the window'
        else:
            why['what'] = 'no instruction although the base machine leaves the window'
        return 'FAIL', why
    if ans is None:
        return ('none-halt' if 'halts_inside' in e[1] else 'none-loop'), None
    return 'FAIL', {'slot': list(slot), 'answer': list(ans), 'the_base_machine_requires': None,
                    'base_machine': e[1], 'answer_decoded': ref.describe_instr(ans),
                    'what': 'an instruction although the base machine halts or loops inside the window'}


def check_c2t(ref, c2t, slots, answers):
    """every colour handed out decodes (in the implementation's own cache) to the
    cells that produced it = its positional decoding.  -> list of failure dicts"""
    fails = []
    need = set()
    for sl, a in zip(slots, answers):
        if a == 'P' or a is None:
            continue
        if ref.kind == 'block':
            need.add(a[0])
            need.add(sl[1])
        else:
            need.add((a[2] // 2) % ref.B)
            need.add((sl[0] // 2) % ref.B)
    for c in sorted(need):
        if c not in c2t:
            fails.append({'colour': c, 'cache_entry': None, 'positional_decoding': ref.decode_cells(c),
                          'what': 'a colour handed out is not in the colour cache'})
    for c, cells in sorted(c2t.items()):
        want = ref.decode_cells(c)
        if cells != want:
            fails.append({'colour': c, 'cache_entry': cells, 'positional_decoding': want,
                          'what': 'the colour cache does not decode a colour to the cells that produced it'})
    return fails


# ------------------------------------------------------------------ run-level oracle

def tape_runs(tape, pos):
    """run-length form 'scan/lspan/rspan' (nearest block first) of a dict tape, as the runners print it"""
    nz = [p for p, c in tape.items() if c]
    lo = min(nz + [pos])
    hi = max(nz + [pos])

    def span(rng):
        out = []
        for p in rng:
            c = tape.get(p, 0)
            if out and out[-1][0] == c:
                out[-1][1] += 1
            else:
                out.append([c, 1])
        while out and out[-1][0] == 0:
            out.pop()
        return ','.join(f'{c}:{n}' for c, n in out)
    return f'{tape.get(pos, 0)}/{span(range(pos - 1, lo - 1, -1))}/{span(range(pos + 1, hi + 1))}'


def strip0(t):
    return {p: c for p, c in t.items() if c}


def lockstep(stack, answers, max_cycles, max_steps, max_base_steps):
    """Drive a macro tape machine with the given get_instr answers (dict slot ->
    'P' | None | instr) from the blank tape and, in lockstep, the base machine.
    After every macro step the macro configuration, decoded layer by layer,
    must be the configuration of the base machine after the corresponding number
    of base steps (state and head position after every step; the whole tape on
    the first 100 steps, then on every 256th and on the last one).

    -> dict(status, macro_steps, cycles, base_steps, compared, failure, tape)
    status: limit | undef | spinout | panic | slot-unknown | instr-mismatch | budget | FAIL"""
    ref = stack[-1]
    base = stack[0]
    layers = stack[:0:-1]          # outermost first
    mst, mtape, mpos = 0, {}, 0
    bst, btape, bpos = 0, {}, 0
    table = base.table
    lo = hi = 0
    steps = cycles = bsteps = compared = 0
    prev = None                    # (slot) of the previous step when it was a same-state step
    res = {'failure': None}

    def decoded():
        cfg = (mst, mtape, mpos)
        for l in layers:
            cfg = l.decode_config(*cfg)
            if cfg is None:
                return None
        return cfg

    def compare(full):
        if not full:
            hd = (mst, mpos)
            for l in layers:
                hd = l.decode_head(*hd)
                if hd is None:
                    break
            if hd == (bst, bpos):
                return None
        cfg = decoded()
        if cfg is None:
            return {'what': 'the macro configuration does not decode (colour or state out of range)'}
        dst, dtape, dpos = cfg
        if dst != bst or dpos != bpos or (full and strip0(dtape) != strip0(btape)):
            return {'what': 'after this macro step the decoded macro configuration is not the configuration of the base machine',
                    'macro_step': steps, 'base_steps': bsteps,
                    'macro_configuration': {'state': mst, 'head': mpos, 'tape': tape_runs(mtape, mpos)},
                    'decoded': {'state': dst, 'head': dpos, 'tape': tape_runs(dtape, dpos)},
                    'base_machine': {'state': bst, 'head': bpos, 'tape': tape_runs(btape, bpos)}}
        return None

    status = 'limit'
    while True:
        scan = mtape.get(mpos, 0)
        slot = (mst, scan)
        new_cycle = slot != prev
        if new_cycle and cycles >= max_cycles:
            status = 'limit'
            break
        if steps >= max_steps or bsteps >= max_base_steps:
            status = 'budget'
            break
        if slot not in answers:
            status = 'slot-unknown'
            break
        a = answers[slot]
        if a == 'P':
            status = 'panic'
            break
        if a is None:
            status = 'undef'
            break
        e = ref.expected(slot)
        if e[0] != 'some' or e[1] != a:
            status = 'instr-mismatch'
            break
        co, sh, nst = a
        same = nst == mst
        if same and scan == 0 and new_cycle:
            # tape.rs at_edge: blank scan and nothing but blanks ahead
            rng = range(mpos + 1, hi + 1) if sh else range(lo, mpos)
            if not any(mtape.get(p, 0) for p in rng):
                status = 'spinout'
                break
        if new_cycle:
            cycles += 1
        # macro step
        mtape[mpos] = co
        mpos += 1 if sh else -1
        if mpos > hi:
            hi = mpos
        if mpos < lo:
            lo = mpos
        mst = nst
        prev = slot if same else None
        steps += 1
        # the base machine: e[2] plain steps
        n = e[2]
        halted = False
        for _ in range(n):
            ins = table.get((bst, btape.get(bpos, 0)))
            if ins is None:
                halted = True
                break
            btape[bpos] = ins[0]
            bpos += 1 if ins[1] else -1
            bst = ins[2]
        bsteps += n
        if halted:
            res['failure'] = {'what': 'the base machine halts while the macro machine goes on', 'macro_step': steps}
            status = 'FAIL'
            break
        full = steps <= 100 or steps % 256 == 0
        f = compare(full)
        compared += 1
        if f:
            res['failure'] = f
            status = 'FAIL'
            break
    if status != 'FAIL' and steps:
        f = compare(True)
        if f:
            res['failure'] = f
            status = 'FAIL'
    res.update(status=status, macro_steps=steps, cycles=cycles, base_steps=bsteps, compared=compared,
               tape=tape_runs(mtape, mpos), last_slot=(mst, mtape.get(mpos, 0)))
    return res


# ------------------------------------------------------------------ history independence

def history_conflicts(histories):
    """histories: list of (label, slots, answers).  A slot must get ONE answer in
    all histories/positions where it gets one at all ('P' = no answer).
    -> list of dict(slot, a=(label, index, answer), b=(label, index, answer))"""
    first = {}
    out = []
    bad = set()
    for label, slots, answers in histories:
        for i, (sl, a) in enumerate(zip(slots, answers)):
            if a == 'P':
                continue
            if sl not in first:
                first[sl] = (label, i, a)
            elif first[sl][2] != a and sl not in bad:
                bad.add(sl)
                out.append({'slot': list(sl),
                            'a': {'history': first[sl][0], 'index': first[sl][1],
                                  'answer': None if first[sl][2] is None else list(first[sl][2])},
                            'b': {'history': label, 'index': i, 'answer': None if a is None else list(a)}})
    return out
