"""Case generators for the cps family (src/cps.rs vs coq/Model/CpsModel.v).

Protocol:  id|cps|<goal>|<prog text>|<rad>   goal in halt, blank, spin
"""
import itertools
import random

from lib import gen

GOALS = ('halt', 'blank', 'spin')
SEED = 20260930


def exhaustive_2x2():
    """all 9^4 tables (every slot: one of 8 instructions or undefined)
    x goals x radii {0,1,2,3,4,5,7,9}"""
    lines = []
    n = 0
    for t in gen.exhaustive_tables(2, 2, first_defined=False):
        p = gen.prog_text(t)
        for g in GOALS:
            for r in (0, 1, 2, 3, 4, 5, 7, 9):
                lines.append(f'x{n}|cps|{g}|{p}|{r}')
                n += 1
    return lines


SIZES = [(3, 2), (2, 3), (4, 2), (2, 4), (3, 3), (5, 2), (6, 2), (2, 6), (4, 3)]
RADII = [2, 3, 3, 4, 4, 4, 5, 5, 5, 6, 6, 7, 7, 8, 9]       # weighted to small


def random_cases(count=24000, seed=SEED):
    rng = random.Random(seed)
    lines = []
    for n in range(count):
        S, C = SIZES[n % len(SIZES)]
        t = gen.random_table(rng, S, C, p_undef=0.10)
        g = rng.choice(GOALS)
        r = rng.choice(RADII)
        lines.append(f'r{n}|cps|{g}|{gen.prog_text(t)}|{r}')
    return lines


def named_cases():
    """every program string of /repo/test/prog_data.py x goals x radii 2..8"""
    lines = []
    n = 0
    for p in gen.named_machines():
        for g in GOALS:
            for r in range(2, 9):
                lines.append(f'n{n}|cps|{g}|{p}|{r}')
                n += 1
    return lines


def weird_cases(seed=SEED + 1):
    rng = random.Random(seed)
    progs = [
        '...', '... ...', '... ...  ... ...', '...  ...', '... ... ...',
        '1RA', '0RA', '1LA', '0LA', '1RA ...', '1RA 0LA', '0RA 1LA', '1RA 0RA',
        '1RA 1LA', '0LA 0RA', '1RA 2LA 0RA', '1RA 2LA ...', '2RA 0LA 1RA',
        '1RB ...  ... ...', '1RB 1LB  ... ...', '1RB ...  1LA ...', '1RB 0RA  ... ...',
        '1RB 1LA  1LA 1RB  ... ...', '1RB 1LC  1LA 0RB  ... ...',
        '1RB 1LA ...  0LA 1RB ...', '1RB 2LA ...  2LB 1RA ...',
        '1RC ...  ... ...  1LA 0RC', '1RC 1LC  ... ...  1LA 0RC',
        '1RB ... ...  ... ... ...', '... 1RB  1LA ...', '... ...  1LA 1RB',
        '1RD ...', '1RB 2LB',           # transitions/prints outside the table
        '1RB 1LB  1LA 1LZ', '1RB 9LB  1LA 0RA',
    ]
    # random tables whose last row / last column is entirely undefined
    for _ in range(150):
        S, C = rng.choice([(2, 2), (3, 2), (2, 3), (3, 3), (4, 2), (2, 4)])
        t = gen.random_table(rng, S, C, p_undef=0.10)
        k = rng.randrange(3)
        if k in (0, 2):
            t[-1] = [None] * C
        if k in (1, 2):
            for row in t:
                row[-1] = None
        progs.append(gen.prog_text(t))
    # single-state programs
    for C in (2, 3, 4):
        for _ in range(40):
            progs.append(gen.prog_text(gen.random_table(rng, 1, C, p_undef=0.15)))
    lines = []
    n = 0
    for p in progs:
        for g in GOALS:
            for r in (0, 1, 2, 3, 4, 6):
                lines.append(f'w{n}|cps|{g}|{p}|{r}')
                n += 1
    return lines


def deep_cases():
    """optional: every named program x goals at radii 9, 10, 11 (segments 8-10:
    this is where the real code runs hundreds of sweeps and hits MAX_LOOPS /
    MAX_DEPTH)"""
    lines = []
    n = 0
    for p in gen.named_machines():
        for g in GOALS:
            for r in (9, 10, 11):
                lines.append(f'd{n}|cps|{g}|{p}|{r}')
                n += 1
    return lines


def all_cases():
    return exhaustive_2x2() + random_cases() + named_cases() + weird_cases()
