"""Program and input generators shared by the checks."""
import itertools
import re

STATES = 'ABCDEFGHIJKLMNOPQRSTUVWXYZ'


def instr_text(i):
    if i is None:
        return '...'
    co, sh, tr = i
    return f'{co}{"R" if sh else "L"}{STATES[tr]}'


def prog_text(table):
    """table: list of rows, each a list of (co, sh, tr) or None"""
    return '  '.join(' '.join(instr_text(i) for i in row) for row in table)


def all_instrs(S, C):
    return [(co, sh, tr) for co in range(C) for sh in (False, True) for tr in range(S)]


def exhaustive_tables(S, C, first_defined=True, normal_first=False):
    """All S x C tables over instructions + undefined. (S*C slots)"""
    opts = all_instrs(S, C) + [None]
    n = S * C
    for combo in itertools.product(opts, repeat=n):
        if first_defined and combo[0] is None:
            continue
        if normal_first and combo[0] != (1, True, 1):
            continue
        yield [list(combo[r * C:(r + 1) * C]) for r in range(S)]


def random_table(rng, S, C, p_undef=0.15, first=None):
    opts = all_instrs(S, C)
    t = []
    for r in range(S):
        row = []
        for c in range(C):
            if rng.random() < p_undef:
                row.append(None)
            else:
                row.append(rng.choice(opts))
        t.append(row)
    if first is not None:
        t[0][0] = first
    elif t[0][0] is None:
        t[0][0] = rng.choice(opts)
    return t


def random_nf_table(rng, S, C, p_undef=0.1):
    """first instruction 1RB"""
    return random_table(rng, S, C, p_undef, first=(1, True, 1))


def named_machines():
    """program strings found in /repo/test/prog_data.py (parsed textually)."""
    txt = open('/repo/test/prog_data.py').read()
    progs = re.findall(r'"((?:[0-9.][LR.][A-Z.](?: |  )?)+)"', txt)
    out = []
    seen = set()
    for p in progs:
        p = p.strip()
        if p and p not in seen and re.fullmatch(r'(?:[0-9][LR][A-Z]|\.\.\.)(?:  ?(?:[0-9][LR][A-Z]|\.\.\.))*', p):
            seen.add(p)
            out.append(p)
    return out


def dims(prog):
    rows = prog.split('  ')
    return len(rows), len(rows[0].split(' '))


def random_span(rng, colours, maxblocks, maxcount, canonical=True):
    n = rng.randint(0, maxblocks)
    s = []
    prev = None
    for _ in range(n):
        c = rng.randrange(colours)
        if canonical:
            tries = 0
            while c == prev and tries < 10:
                c = rng.randrange(colours)
                tries += 1
            if c == prev:
                continue
        cnt = rng.choice([1, 1, 2, 3, rng.randint(1, maxcount)])
        s.append((c, cnt))
        prev = c
    if canonical:
        while s and s[-1][0] == 0:
            s.pop()
    return s


def span_field(s):
    return ','.join(f'{c}:{n}' for c, n in s)


def tape_field(scan, l, r):
    return f'{scan}/{span_field(l)}/{span_field(r)}'


def corpus_2x2(first_defined=True):
    return [prog_text(t) for t in exhaustive_tables(2, 2, first_defined)]


SIZES_SMALL = [(3, 2), (2, 3), (4, 2), (2, 4), (3, 3), (5, 2), (2, 5), (6, 2), (2, 6), (4, 3)]


def random_progs(rng, n, sizes=SIZES_SMALL, p_undef=0.08, nf_share=0.5):
    out = []
    for _ in range(n):
        S, C = rng.choice(sizes)
        first = (1, True, 1) if rng.random() < nf_share else None
        out.append(prog_text(random_table(rng, S, C, p_undef, first)))
    return out


def tree_leaves(rng, n, sizes=((3, 2), (2, 3), (4, 2), (2, 4)), per_tree=4000, lim=100):
    """programs produced by the REAL tree generator (tree::build_tree through the harness command `leaves`),
    both trees (halt 0/1) of each size, evenly sampled; these are the programs the deciders are run on in practice
    (holdouts of the pipeline), where e.g. closed-set provability is not monotone in the window size."""
    from lib import core
    lv = core.run_bbh([f'l{S}{C}{h}|leaves|{S},{C}|{h}|{lim}|{per_tree}' for S, C in sizes for h in (0, 1)])
    pool, seen = [], set()
    for k in sorted(lv):
        a = lv[k]
        if a.count('|') != 1:
            continue
        for p in a.split('|')[1].split(';'):
            if p and p not in seen:
                seen.add(p)
                pool.append(p)
    rng.shuffle(pool)
    return pool[:n]


def sibling_sequence(rng, S, C, k, p_undef=0.1, fix_first=False):
    """k program texts over one S x C table, each obtained from the previous one by changing ONE slot (the first
    slots of the table preferred, sometimes to `undefined` and back): the input shape that exposes state kept
    between calls (memo tables, per-thread caches keyed by a lossy fingerprint of the program, reused buffers)."""
    t = random_table(rng, S, C, p_undef, first=(1, True, 1) if (fix_first or rng.random() < 0.5) else None)
    opts = all_instrs(S, C)
    out = [prog_text(t)]
    for _ in range(k - 1):
        t = [list(r) for r in t]
        n = S * C
        i = rng.randrange(min(3, n)) if rng.random() < 0.6 else rng.randrange(n)
        if fix_first and i == 0:
            i = 1
        r, c = divmod(i, C)
        new = None if (rng.random() < 0.25 and (r, c) != (0, 0)) else rng.choice(opts)
        if new == t[r][c]:
            new = rng.choice(opts)
        t[r][c] = new
        out.append(prog_text(t))
    return out


HIST_SIZES = [(3, 3), (5, 2), (2, 5), (4, 3), (6, 2), (2, 6), (3, 2), (2, 3), (4, 2), (2, 4), (2, 2)]


def history_cases(rng, nseq, mk_line, k=6, sizes=HIST_SIZES, nf=False):
    """[(id, line)] : nseq sibling sequences (see sibling_sequence) of k programs each; mk_line(rng, S, C) returns a
    function prog -> command text that is the SAME question for all programs of one sequence.  To be run on ONE thread."""
    out = []
    for i in range(nseq):
        S, C = rng.choice(sizes)
        f = mk_line(rng, S, C)
        seq = sibling_sequence(rng, S, C, k, fix_first=nf)
        for j, p in enumerate(seq):
            out.append((f'h{i}_{j}', f(p)))
    return out


def history_of(hcs):
    """id -> the lines asked before it in its sequence"""
    hist = {}
    for i, (cid, line) in enumerate(hcs):
        j = int(cid.split('_')[1])
        hist[cid] = [l for _, l in hcs[i - j:i]]
    return hist


def hist_note(why, hist):
    """append the call history of a history case to the explanation of a failure"""
    if not hist:
        return why
    return why + ' — asked on ONE thread after these calls, in this order: ' + ' ; '.join(hist)


def lookahead_machine(m, k, la, dev_print, twin_exit, marker=3):
    """A 4-colour "transfer with look-ahead" machine as program text (<= 26 states):
       boot   : writes  marker 2^m 1^k  and walks back to the 2/1 boundary;
       period : MAIN turns the first 1 into a 2, looks `la` cells further ahead, walks back: 2^a [1] 1^b -> 2^(a+1) [1] 1^(b-1);
       when the look-ahead meets the blank (only `la` ones left) the walk back DEVIATES: it leaves `dev_print` in the cell
       the period ends on and, with twin_exit, ends in a state TWIN that has no instructions.
    These are the machines on which a rule inferred from a few periods stops being true near the end of the block
    (finding F14) and on which lax signature/state checks in the rule inference show (seeded changes C03-m2, C03-m4)."""
    L, R = False, True
    prog = {}
    s = 0
    prog[(s, 0)] = (marker, R, s + 1)
    s += 1
    for _ in range(m):
        prog[(s, 0)] = (2, R, s + 1)
        s += 1
    for _ in range(k - 1):
        prog[(s, 0)] = (1, R, s + 1)
        s += 1
    prog[(s, 0)] = (1, L, s + 1)
    s += 1
    back0 = s
    main = s + 1
    prog[(back0, 1)] = (1, L, back0)
    prog[(back0, 2)] = (2, R, main)
    look = [main + 1 + i for i in range(la)]
    back = [main + 1 + la + i for i in range(la)]
    dev = [main + 1 + 2 * la + i for i in range(la)]
    twin = main + 1 + 3 * la
    prog[(main, 1)] = (2, R, look[0])
    for i in range(la - 1):
        prog[(look[i], 1)] = (1, R, look[i + 1])
    prog[(look[-1], 1)] = (1, L, back[0])
    for i in range(la - 1):
        prog[(back[i], 1)] = (1, L, back[i + 1])
    prog[(back[-1], 2)] = (2, R, main)
    # the last look-ahead state meets the blank: exactly `la` ones are left after the converted cell
    prog[(look[-1], 0)] = (0, L, dev[0])
    for i in range(la - 2):
        prog[(dev[i], 1)] = (1, L, dev[i + 1])
    if la >= 2:
        last = dev[la - 2]
        if twin_exit:
            prog[(last, 1)] = (dev_print, L, dev[la - 1])
            prog[(dev[la - 1], 2)] = (2, R, twin)
        else:
            prog[(last, 1)] = (dev_print, L, back[-1])
    else:
        prog[(dev[0], 2)] = (2, R, twin if twin_exit else main)
    nstates = max(max(q, i[2]) for (q, _), i in prog.items()) + 1
    if nstates > 26:
        return None
    table = [[prog.get((q, c)) for c in range(4)] for q in range(nstates)]
    return prog_text(table)


def lookahead_machines():
    out = []
    for m in (1, 2):
        for k in range(6, 19):
            for la in (1, 2, 3):
                for dp in (0, 1, 2):
                    for tw in (False, True):
                        p = lookahead_machine(m, k, la, dp, tw)
                        if p and p not in out:
                            out.append(p)
    return out


def eraser_compositions(maxn=150):
    """2-colour named machines with a halt slot, the halt replaced by a jump into a three-state ERASER that eats the
    block of 1s next to the head from its far end, one cell per round trip (both orientations).  On these machines the
    prover meets tapes with ONE block on each side and rules with a single entry (a block eaten from the blank edge
    while the other side stays fixed) - the shape the two-block sweep filter of try_rule is about
    (after seeded change C17-m4, which no tree leaf and no named machine shows)."""
    out = []
    for p in named_machines():
        rows = [r.split(' ') for r in p.split('  ')]
        if any(len(r) != 2 for r in rows) or not any(i == '...' for r in rows for i in r) or len(rows) > 6:
            continue
        n = len(rows)
        E, F, G = STATES[n], STATES[n + 1], STATES[n + 2]
        for mirror in (False, True):
            a, b = ('L', 'R') if not mirror else ('R', 'L')
            body = [[(f'1{b}{E}' if i == '...' else i) for i in r] for r in rows]
            er = [[f'0{b}{F}', f'1{a}{E}'], [f'0{a}{G}', f'1{b}{F}'], ['...', f'0{a}{E}']]
            out.append('  '.join(' '.join(r) for r in body + er))
            if len(out) >= maxn:
                return out
    return out


def degenerate_programs():
    """tables with no instruction at all (every size up to 3x3) and small tables whose ONLY undefined slot is A0:
    the machine halts at step 0.  (after seeded change C15-m6: CompProg::halt_slots returning the empty set for an empty map)"""
    out = []
    for S in (1, 2, 3):
        for C in (1, 2, 3):
            out.append('  '.join(' '.join(['...'] * C) for _ in range(S)))
    out += ['... 1RB  0LA 1LB', '... 1LA  1RA 0RB', '... 0RA 1LB  1RA 2LB 0RB', '... 1RB  1LA 0LC  1RC 1LA']
    return out


# Programs kept because a seeded change showed only on them (regression corpus; each entry names the change).
REGRESSION_PROVER = [
    # C17-m8 (Prover.configs keyed by (state, signature)): a second state meets an already known signature at gaps d, 2d, 3d
    ('1RB 2LB 0LA 1RA  2LA 2LB 3RA 1LA', 2000),
    ('1RB 2LB 3LA 1LB  2LA 0RA 0RA 3RB', 2000),
    ('1RB 1RA 3LB 2LA  2LB 3LA 2LA 1RB', 2000),
    ('1RB 1LB 2RB 2LB  2LA 2RB 3RB 0LA', 2000),
    # C17-m7 (saturating i32 cast of counts): a rule proved while a changing count is already above 2^31
    ('1RB 2RB 3LA 2RA  2LA 2LB 1LA 3RB', 3000),
    # C03-m5 / C03-m6 (left-edge exactness of stored rules weakened in get_rule / EnumTape::check_step): a rule proved at
    # the left tape end meets, a thousand cycles later, a run of zeros / a merged block where the end was
    ('1RB 0LB  1LA 1RC  0RD 0RC  1RF 0LE  1LE 1LB  0LA ...', 3000),
    ('0RB 0LB  1LA 1RC  0RD 0RC  1RF 0LE  1LE 1LB  0LA ...', 3000),
]

# Witnesses of finding F16 (a rule proved while walking away from a tape end writing zeros gets an empty, NON-exact
# minimal signature on that side; applied later where that side is not empty it skips the zeros the machine writes):
# (a) the machine halts, run_prover says spin-out; (b) the machine spins out, run_prover says halt; (a) mirrored.
F16_WITNESSES = [
    ('3RB ... ... ...  3RC ... ... ...  3RD ... ... ...  3LE ... ... ...  0RF 1LE ... 3LE  2RM 0RG ... 0RH  0LS 0RF ... ...  1RI 1RH ... 3RH  1RJ ... ... ...  1RK ... ... ...  1RL ... ... ...  1LE ... ... ...  1RN ... ... ...  1RO ... ... ...  1RP ... ... ...  1RQ ... ... ...  1LR ... ... ...  ... 1LR 2RF ...  0LT ... 2RV ...  0LU ... ... ...  0LS ... ... ...  0RV ... ... ...', 1000),
    ('3RB ... ... ...  3RC ... ... ...  3RD ... ... ...  3LE ... ... ...  0RF 1LE ... 3LE  2RM 0RG ... 0RH  0LS 0RF ... ...  1RI 1RH ... 3RH  1RJ ... ... ...  1RK ... ... ...  1RL ... ... ...  1LE ... ... ...  1RN ... ... ...  1RO ... ... ...  1RP ... ... ...  1RQ ... ... ...  1LR ... ... ...  ... 1LR 2RF ...  0LT ... ... ...  0LU ... ... ...  0LS ... 2RV ...  0RV ... ... ...', 1000),
    ('3LB ... ... ...  3LC ... ... ...  3LD ... ... ...  3RE ... ... ...  0LF 1RE ... 3RE  2LM 0LG ... 0LH  0RS 0LF ... ...  1LI 1LH ... 3LH  1LJ ... ... ...  1LK ... ... ...  1LL ... ... ...  1RE ... ... ...  1LN ... ... ...  1LO ... ... ...  1LP ... ... ...  1LQ ... ... ...  1RR ... ... ...  ... 1RR 2LF ...  0RT ... 2LV ...  0RU ... ... ...  0RS ... ... ...  0LV ... ... ...', 1000),
]


def doubler_machine(counter):
    """4-colour machine: `counter` states write a unary counter, then three states run  a' = 2a + 1  once per counter
    cell and the machine HALTS when the counter is empty.  The prover meets a rule with a multiplying block and a
    shrinking one (its MultRule path, "no claim").  (after seeded changes C02-m2 / C02-m4, which turn MultRule into infrul)"""
    m, n, o = STATES[counter], STATES[counter + 1], STATES[counter + 2]
    rows = []
    for i in range(counter):
        nxt = STATES[i + 1] if i + 1 < counter else o
        rows.append(f'1R{nxt} ... ... ...')
    rows.append(f'3L{n} ... ... 3R{m}')
    rows.append(f'... 2R{o} 3R{m} 3L{n}')
    rows.append(f'0L{n} ... ... 2R{o}')
    return '  '.join(rows)
