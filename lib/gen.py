"""Program and input generators shared by the checks."""
import itertools
import re

STATES = 'ABCDEFGHIJKLMNOPQRSTUVWXYZ'


def instr_text(i):
    if i is None:
        return '...'
    co, sh, tr = i
    return f'{co}{"R" if sh else "L"}{STATES[tr]}'


def prog_text(table):
    """table: list of rows, each a list of (co, sh, tr) or None"""
    return '  '.join(' '.join(instr_text(i) for i in row) for row in table)


def all_instrs(S, C):
    return [(co, sh, tr) for co in range(C) for sh in (False, True) for tr in range(S)]


def exhaustive_tables(S, C, first_defined=True, normal_first=False):
    """All S x C tables over instructions + undefined. (S*C slots)"""
    opts = all_instrs(S, C) + [None]
    n = S * C
    for combo in itertools.product(opts, repeat=n):
        if first_defined and combo[0] is None:
            continue
        if normal_first and combo[0] != (1, True, 1):
            continue
        yield [list(combo[r * C:(r + 1) * C]) for r in range(S)]


def random_table(rng, S, C, p_undef=0.15, first=None):
    opts = all_instrs(S, C)
    t = []
    for r in range(S):
        row = []
        for c in range(C):
            if rng.random() < p_undef:
                row.append(None)
            else:
                row.append(rng.choice(opts))
        t.append(row)
    if first is not None:
        t[0][0] = first
    elif t[0][0] is None:
        t[0][0] = rng.choice(opts)
    return t


def random_nf_table(rng, S, C, p_undef=0.1):
    """first instruction 1RB"""
    return random_table(rng, S, C, p_undef, first=(1, True, 1))


def named_machines():
    """program strings found in /repo/test/prog_data.py (parsed textually)."""
    txt = open('/repo/test/prog_data.py').read()
    progs = re.findall(r'"((?:[0-9.][LR.][A-Z.](?: |  )?)+)"', txt)
    out = []
    seen = set()
    for p in progs:
        p = p.strip()
        if p and p not in seen and re.fullmatch(r'(?:[0-9][LR][A-Z]|\.\.\.)(?:  ?(?:[0-9][LR][A-Z]|\.\.\.))*', p):
            seen.add(p)
            out.append(p)
    return out


def dims(prog):
    rows = prog.split('  ')
    return len(rows), len(rows[0].split(' '))


def random_span(rng, colours, maxblocks, maxcount, canonical=True):
    n = rng.randint(0, maxblocks)
    s = []
    prev = None
    for _ in range(n):
        c = rng.randrange(colours)
        if canonical:
            tries = 0
            while c == prev and tries < 10:
                c = rng.randrange(colours)
                tries += 1
            if c == prev:
                continue
        cnt = rng.choice([1, 1, 2, 3, rng.randint(1, maxcount)])
        s.append((c, cnt))
        prev = c
    if canonical:
        while s and s[-1][0] == 0:
            s.pop()
    return s


def span_field(s):
    return ','.join(f'{c}:{n}' for c, n in s)


def tape_field(scan, l, r):
    return f'{scan}/{span_field(l)}/{span_field(r)}'


def corpus_2x2(first_defined=True):
    return [prog_text(t) for t in exhaustive_tables(2, 2, first_defined)]


SIZES_SMALL = [(3, 2), (2, 3), (4, 2), (2, 4), (3, 3), (5, 2), (2, 5), (6, 2), (2, 6), (4, 3)]


def random_progs(rng, n, sizes=SIZES_SMALL, p_undef=0.08, nf_share=0.5):
    out = []
    for _ in range(n):
        S, C = rng.choice(sizes)
        first = (1, True, 1) if rng.random() < nf_share else None
        out.append(prog_text(random_table(rng, S, C, p_undef, first)))
    return out
