"""Shared machinery of the checks: building, running both runners, auditing
the Coq development, evidence and violation reporting."""
import hashlib
import json
import os
import random
import re
import subprocess
import sys
import time

VERIF = os.path.dirname(os.path.dirname(os.path.abspath(__file__)))
COQ = f'{VERIF}/coq'
BBM = f'{VERIF}/ocaml/bbm'
HARNESS = f'{VERIF}/harness'
BBH_OVERRIDE = os.environ.get('BBH_OVERRIDE')      # self-tests only: a harness built from a scratch copy of /repo/src
BBH = BBH_OVERRIDE or f'{HARNESS}/target/release/bbh'
BBH_WRAP = f'{HARNESS}/target/wrap/bbh'
WORK = f'{VERIF}/work'
REPLAY_DIR = f'{VERIF}/evidence/replay'
ENV = dict(os.environ, CARGO_NET_OFFLINE='true')

FORBIDDEN = re.compile(
    r'\b(Admitted|admit|Axiom|Axioms|Parameter|Parameters|Conjecture|Conjectures|'
    r'Unset\s+Guard|bypass_check|Admit\s+Obligations|type-in-type|impredicative-set)\b|'
    r'Unset\s+(Positivity|Universe)\s+Checking')

# axioms of the standard library that may appear under Print Assumptions
AXIOM_ALLOW = {
    'functional_extensionality_dep', 'FunctionalExtensionality.functional_extensionality_dep',
}


def sh(cmd, timeout=3600, cwd=None, env=None, inp=None):
    p = subprocess.run(cmd, shell=isinstance(cmd, str), cwd=cwd, env=env or ENV,
                       input=inp, capture_output=True, text=True, timeout=timeout)
    return p.returncode, p.stdout, p.stderr


class BuildError(Exception):
    def __init__(self, what, log):
        super().__init__(what)
        self.what = what
        self.log = log


COQPROJECT_HEAD = ('-Q . BB\n-arg -w -arg -notation-overridden,-deprecated-hint-without-locality,'
                   '-deprecated-instance-without-locality\n')


def gen_coqproject():
    """_CoqProject lists every .v under Spec Model Proofs Properties Pins."""
    files = []
    for d in ('Spec', 'Model', 'Proofs', 'Properties', 'Pins'):
        if os.path.isdir(f'{COQ}/{d}'):
            files += sorted(f'{d}/{f}' for f in os.listdir(f'{COQ}/{d}') if f.endswith('.v'))
    txt = COQPROJECT_HEAD + '\n'.join(files) + '\n'
    path = f'{COQ}/_CoqProject'
    if not os.path.exists(path) or open(path).read() != txt:
        open(path, 'w').write(txt)


def coq_makefile():
    gen_coqproject()
    if (not os.path.exists(f'{COQ}/Makefile')
            or os.path.getmtime(f'{COQ}/Makefile') < os.path.getmtime(f'{COQ}/_CoqProject')):
        rc, o, e = sh('coq_makefile -f _CoqProject -o Makefile', cwd=COQ)
        if rc != 0:
            raise BuildError('coq_makefile', o + e)


def build_coq(targets=None, timeout=3000):
    """Full .vo build of the given targets (all when None). Returns log."""
    coq_makefile()
    tg = ' '.join(targets) if targets else ''
    rc, o, e = sh(f'timeout {timeout} make -j16 {tg}', cwd=COQ, timeout=timeout + 60)
    if rc != 0:
        raise BuildError('coq build ' + tg, (o + e)[-6000:])
    return o + e


def build_bbm():
    """Extract + compile the model runner when any model/spec .v is newer."""
    srcs = [f'{VERIF}/ocaml/{f}' for f in os.listdir(f'{VERIF}/ocaml') if f.endswith('.ml')]
    srcs += [f'{COQ}/extract/{f}' for f in os.listdir(f'{COQ}/extract')]
    for d in ('Spec', 'Model'):
        for f in os.listdir(f'{COQ}/{d}'):
            if f.endswith('.v'):
                srcs.append(f'{COQ}/{d}/{f}')
    if os.path.exists(BBM) and all(os.path.getmtime(s) <= os.path.getmtime(BBM) for s in srcs):
        return
    # models must be compiled first
    mods = [s[len(COQ) + 1:-2] + '.vo' for s in srcs if s.startswith(COQ + '/') and s.endswith('.v')]
    build_coq(mods)
    rc, o, e = sh(f'{VERIF}/ocaml/build.sh', timeout=900)
    if rc != 0:
        raise BuildError('bbm build', (o + e)[-4000:])


def build_bbh(profile='release', features=None):
    """Rebuild the harness from /repo's CURRENT working tree (cargo decides
    what changed). Hooks on, overflow checks as in cargo test.
    If the full build fails and `features` (the command families the calling check needs) is given, a
    second build with only those families is tried in its own target dir: a change to /repo that breaks
    the glue of one family must not raise an alarm for properties that never use that family."""
    global BBH, BBH_WRAP
    if BBH_OVERRIDE and profile == 'release':
        return
    env = dict(ENV, RUSTFLAGS='--cfg bb_verif')
    flag = '--release' if profile == 'release' else f'--profile {profile}'
    rc, o, e = sh(f'cargo build {flag} --offline', cwd=HARNESS, env=env, timeout=1800)
    if rc != 0 and features is not None:
        tdir = f'{HARNESS}/target_min'
        fl = f'--no-default-features --features "{" ".join(features)}"' if features else '--no-default-features'
        rc2, o2, e2 = sh(f'cargo build {flag} --offline {fl}', cwd=HARNESS, env=dict(env, CARGO_TARGET_DIR=tdir), timeout=1800)
        if rc2 == 0:
            if profile == 'release':
                BBH = f'{tdir}/release/bbh'
            else:
                BBH_WRAP = f'{tdir}/{profile}/bbh'
            sys.stderr.write('note: full harness build failed; using the reduced build with families %r\n' % (features,))
            return
    if rc != 0:
        raise BuildError('bbh build (does /repo compile with --cfg bb_verif?)', (o + e)[-6000:])


def run_lines(binary, lines, shards=1, timeout=3000, env=None):
    """Feed case lines to a runner, return dict id -> answer."""
    if not lines:
        return {}
    os.makedirs(WORK, exist_ok=True)
    out = {}
    if shards <= 1:
        rc, o, e = sh([binary], inp='\n'.join(lines) + '\n', timeout=timeout, env=env)
        if rc < 0:          # killed by a signal (not an answer of the runner): once more
            rc, o, e = sh([binary], inp='\n'.join(lines) + '\n', timeout=timeout, env=env)
        if rc != 0:
            raise BuildError(f'runner {binary} exited {rc}', (e or o)[-3000:])
        outs = [o]
    else:
        procs = []
        for i in range(shards):
            part = lines[i::shards]
            if not part:
                continue
            p = subprocess.Popen([binary], stdin=subprocess.PIPE, stdout=subprocess.PIPE,
                                 stderr=subprocess.PIPE, text=True, env=env or ENV)
            procs.append((p, part))
        # feed in threads to avoid pipe deadlock
        import threading
        results = [None] * len(procs)

        def feed(ix, p, part):
            o, e = p.communicate('\n'.join(part) + '\n', timeout=timeout)
            results[ix] = (p.returncode, o, e)
        ths = [threading.Thread(target=feed, args=(i, p, part)) for i, (p, part) in enumerate(procs)]
        for t in ths:
            t.start()
        for t in ths:
            t.join()
        outs = []
        for ix, (rc, o, e) in enumerate(results):
            if rc < 0:      # this shard was killed by a signal (not an answer of the runner): once more
                rc, o, e = sh([binary], inp='\n'.join(procs[ix][1]) + '\n', timeout=timeout, env=env)
            if rc != 0:
                raise BuildError(f'runner {binary} exited {rc}', (e or o)[-3000:])
            outs.append(o)
    for o in outs:
        for l in o.splitlines():
            if not l:
                continue
            i = l.find('|')
            out[l[:i]] = l[i + 1:]
    return out


def run_bbh(lines, threads=16, profile='release'):
    b = BBH if profile == 'release' else BBH_WRAP
    return run_lines(b, lines, env=dict(ENV, BBH_THREADS=str(threads)))


def run_bbm(lines, shards=16):
    n = min(shards, max(1, len(lines) // 8))
    return run_lines(BBM, lines, shards=n)


# ---------------------------------------------------------------- audit

def audit_sources():
    """No Admitted/Axiom/... anywhere in the development."""
    bad = []
    for root, _, files in os.walk(COQ):
        for f in files:
            if not f.endswith('.v'):
                continue
            path = os.path.join(root, f)
            txt = open(path).read()
            # strip comments (nested)
            txt = strip_comments(txt)
            for m in FORBIDDEN.finditer(txt):
                line = txt[:m.start()].count('\n') + 1
                bad.append(f'{path}:{line}: {m.group(0)}')
    # _CoqProject must not pass kernel-weakening flags
    cp = open(f'{COQ}/_CoqProject').read()
    for w in ('type-in-type', 'impredicative-set', '-vos', '-vok', 'bypass'):
        if w in cp:
            bad.append(f'_CoqProject: {w}')
    return bad


def strip_comments(txt):
    out = []
    depth = 0
    i = 0
    n = len(txt)
    while i < n:
        if txt.startswith('(*', i):
            depth += 1
            i += 2
        elif txt.startswith('*)', i) and depth > 0:
            depth -= 1
            i += 2
        else:
            if depth == 0:
                out.append(txt[i])
            elif txt[i] == '\n':
                out.append('\n')
            i += 1
    return ''.join(out)


def theorem_names(prop):
    """Names pinned in Pins/<prop>.v: lines 'Check name : ...'."""
    path = f'{COQ}/Pins/{prop}_pin.v'
    txt = strip_comments(open(path).read())
    return [n for n in re.findall(r'^\s*Check\s+([A-Za-z0-9_\.]+)\s*:', txt, re.M) if n != 'eq_refl']


def print_assumptions(prop, names):
    """Runs coqc on a generated audit file; returns {name: [axioms]}."""
    os.makedirs(WORK, exist_ok=True)
    path = f'{WORK}/Audit_{prop}.v'
    with open(path, 'w') as f:
        f.write(f'From BB.Properties Require Import {prop}.\n')
        for n in names:
            f.write(f'Goal True. idtac "@@BEGIN {n}". Abort.\nPrint Assumptions {n}.\n'
                    f'Goal True. idtac "@@END {n}". Abort.\n')
    rc, o, e = sh(f'coqc -Q {COQ} BB {path}', cwd=WORK, timeout=900)
    if rc != 0:
        raise BuildError(f'assumption audit {prop}', (o + e)[-3000:])
    res = {}
    for n in names:
        m = re.search(r'@@BEGIN ' + re.escape(n) + r'\n(.*?)@@END ' + re.escape(n), o, re.S)
        body = m.group(1) if m else 'MISSING'
        if 'Closed under the global context' in body:
            res[n] = []
        else:
            axs = re.findall(r'^([A-Za-z0-9_\.\']+)\s*:', body, re.M)
            res[n] = axs or ['UNPARSED:' + body.strip()[:200]]
    return res


# ---------------------------------------------------------------- reporting

class Report:
    def __init__(self, prop, tier, seed, level):
        self.prop = prop
        self.tier = tier
        self.seed = seed
        self.level = level
        self.t0 = time.time()
        self.coverage = {}
        self.assumptions = []
        self.violations = []       # (replay dict, found_input: bool)
        self.known = []            # strings
        self.notes = []

    def violation(self, replay, found=True):
        self.violations.append((replay, found))

    def known_finding(self, text):
        self.known.append(text)

    def finish(self):
        os.makedirs(f'{VERIF}/evidence', exist_ok=True)
        os.makedirs(REPLAY_DIR, exist_ok=True)
        for k in sorted(set(self.known)):
            print(f'KNOWN-FINDING: property={self.prop} {k}')
        lines = []
        for i, (rep, found) in enumerate(self.violations[:20]):
            path = f'{REPLAY_DIR}/{self.prop}-{i}.json'
            rep = dict(rep, property=self.prop, seed=self.seed, tier=self.tier,
                       rerun=f'./check {self.prop} --replay {path}')
            with open(path, 'w') as f:
                json.dump(rep, f, indent=1, default=str)
            lines.append(f'VIOLATION property={self.prop} replay={path}'
                         + ('' if found else ' no-failing-input-found'))
        ev = {
            'property_id': self.prop,
            'tier': self.tier,
            'seed': self.seed,
            'level': self.level,
            'coverage': self.coverage,
            'assumptions': self.assumptions,
            'wall_s': round(time.time() - self.t0, 2),
            'violations': len(self.violations),
        }
        ex = ev['coverage'].get('exhaustive')
        if ex is not None and not isinstance(ex, bool):
            ev['coverage']['exhaustive_note'] = str(ex)
            ev['coverage']['exhaustive'] = False
        if self.known:
            ev['coverage']['known_findings_seen'] = sorted(set(self.known))
        if self.notes:
            ev['coverage']['notes'] = self.notes
        with open(f'{VERIF}/evidence/{self.prop}.json', 'w') as f:
            json.dump(ev, f, indent=1, default=str)
        for l in lines:
            print(l)
        sys.stdout.flush()
        return 1 if self.violations else 0


def proof_stage(rep, prop, thorough=False):
    """Build Properties/<prop>.vo and Pins/<prop>.vo, audit. Fills coverage.
    Returns True when all obligations are discharged."""
    ok = True
    names = []
    try:
        names = theorem_names(prop)
        build_coq([f'Properties/{prop}.vo', f'Pins/{prop}_pin.vo'])
        bad = audit_sources()
        if bad:
            ok = False
            rep.violation({'kind': 'audit', 'forbidden': bad[:20],
                           'theorem': 'source audit (Admitted/Axiom/...)'}, found=False)
        ass = print_assumptions(prop, names)
        discharged = 0
        for n in names:
            extra = [a for a in ass[n] if a.split('.')[-1] not in {x.split('.')[-1] for x in AXIOM_ALLOW}]
            if extra:
                ok = False
                rep.violation({'kind': 'assumptions', 'theorem': n, 'axioms': extra}, found=False)
            else:
                discharged += 1
        rep.coverage['obligations'] = len(names)
        rep.coverage['discharged'] = discharged if not bad else 0
        rep.coverage['theorems'] = names
        rep.coverage['axioms_used'] = {n: a for n, a in ass.items() if a}
        rep.coverage['checker_cmd'] = (f'cd {COQ} && make Properties/{prop}.vo Pins/{prop}.vo '
                                       f'&& coqc Print Assumptions <each pinned theorem>'
                                       + ('; coqchk -o -silent' if thorough else ''))
        if thorough:
            rc, o, e = sh(f'timeout 1500 coqchk -o -silent -Q {COQ} BB BB.Properties.{prop}',
                          cwd=COQ, timeout=1600)
            rep.coverage['coqchk'] = (o + e)[-1500:]
            if rc != 0:
                ok = False
                rep.violation({'kind': 'coqchk', 'theorem': f'Properties/{prop}.vo',
                               'log': (o + e)[-2000:]}, found=False)
    except BuildError as ex:
        ok = False
        rep.coverage.setdefault('obligations', len(names))
        rep.coverage['discharged'] = 0
        rep.violation({'kind': 'proof-build', 'theorem': f'Properties/{prop}.v / Pins/{prop}.v',
                       'what': ex.what, 'log': ex.log[-3000:]}, found=False)
    return ok


TRUSTED_BASE = [
    'Coq 8.16.1 kernel (coqc; vm_compute used for finite sweeps and witnesses; no native_compute)',
    'Spec/Base.v, Spec/TM.v, Spec/Ref.v: the cell-by-cell Turing machine and event definitions',
    'hand-written Gallina models of /repo sources, tied to the code by the bbh/bbm correspondence run on every check',
    'extraction: ExtrOcamlBasic only (Extract Inductive for bool, option, unit, list, prod, sumbool, sumor); no Extract Constant; OCaml 4.13.1',
    'glue: ocaml/bbm.ml (parsing/printing), harness/src/*.rs (parsing/printing, catch_unwind), lib/*.py generators and differ',
]


def diff_answers(cases, h, m):
    """cases: list of (id, line). Returns list of (id, line, h_ans, m_ans) that differ."""
    out = []
    for cid, line in cases:
        a = h.get(cid, 'MISSING-H')
        b = m.get(cid, 'MISSING-M')
        if a != b:
            out.append((cid, line, a, b))
    return out


def mkrng(seed, salt):
    return random.Random(int(hashlib.sha256(f'{seed}:{salt}'.encode()).hexdigest()[:16], 16))


def known_findings():
    return json.load(open(f'{VERIF}/known_findings.json'))


def plain_kind(p):
    """parse bbm 'plain' answer: returns (kind, steps) kind in limit/halt:s,c/spinout"""
    a, n = p.split('|')
    return a, int(n)
