(** C16 — Lazily compiled macros are history independent.
    The instruction a macro program returns for a slot is a function of the
    base program, the macro parameters and the slot alone ([calc]); every
    macro colour handed out decodes back to the cells that produced it.
    Proved for block macros and for backsymbol macros with the one-token
    repair of F3; REFUTED for the faithful backsymbol logic (F3), which is
    history independent only while no query has left its window on the left.
    This file contains only the final statements; proofs are in
    Proofs/MacroHistory.v. *)
From BB Require Import Base InstrsModel MacrosModel MacroHistory.

(** ---- 1. positional encoding ---- *)
Theorem C16_dec_enc : forall bc cells tp,
  mt_len tp = cells -> cells_lt bc tp -> decode bc cells (encode bc tp) = tp.
Proof. exact dec_enc. Qed.
Print Assumptions C16_dec_enc.

Theorem C16_enc_dec : forall bc cells c,
  c < bc ^ cells -> encode bc (decode bc cells c) = c.
Proof. exact enc_dec. Qed.
Print Assumptions C16_enc_dec.

(** the checked u64 fold of [tape_to_color] computes [encode] and does not
    panic when the number of block colours fits a u64 *)
Theorem C16_t2c_fold_encode : forall bc tp,
  1 <= bc -> cells_lt bc tp -> bc ^ mt_len tp <= u64_max ->
  t2c_fold bc (rev tp) 0 0 = Ok (encode bc tp).
Proof. exact t2c_fold_encode. Qed.
Print Assumptions C16_t2c_fold_encode.

(** ---- 2. the cache invariant ---- *)
Theorem C16_cache_inv_new : forall lg comp,
  logic_wf lg -> cache_inv lg comp (mstate_new (lg_cells lg)).
Proof. exact cache_inv_new. Qed.
Print Assumptions C16_cache_inv_new.

Theorem C16_cache_inv_tape_to_color : forall lg comp m tp,
  logic_wf lg -> cache_inv lg comp m ->
  wf_tape (fun c => c < lg_base_colors lg) (lg_cells lg) tp ->
  fst (tape_to_color (lg_base_colors lg) m tp) = Ok (encode (lg_base_colors lg) tp) /\
  cache_inv lg comp (snd (tape_to_color (lg_base_colors lg) m tp)) /\
  color_to_tape (snd (tape_to_color (lg_base_colors lg) m tp)) (encode (lg_base_colors lg) tp) = Ok tp.
Proof. exact cache_inv_tape_to_color. Qed.
Print Assumptions C16_cache_inv_tape_to_color.

Theorem C16_cache_inv_get_instr : forall lg comp m q,
  logic_wf lg -> plain_ok (lg_base_colors lg) comp ->
  lg_kind lg = LkBlock \/ lg_split_fix lg = true ->
  cache_inv lg comp m -> slot_ok lg q ->
  exists m', snd (stack_get comp [lg] [m] q) = [m'] /\ cache_inv lg comp m'.
Proof. exact cache_inv_get_instr. Qed.
Print Assumptions C16_cache_inv_get_instr.

(** ---- 4./5. block macros ---- *)
Theorem C16_history_indep_block : forall lg comp qs sl,
  lg_kind lg = LkBlock -> logic_wf lg -> plain_ok (lg_base_colors lg) comp ->
  top_known (run_qs comp [lg] (stack_new [lg]) qs) (snd sl) ->
  fst (stack_get comp [lg] (run_qs comp [lg] (stack_new [lg]) qs) sl) = calc lg comp sl.
Proof. exact history_indep_block. Qed.
Print Assumptions C16_history_indep_block.

Theorem C16_handed_out_decodes_block : forall lg comp qs sl c' sh ns,
  lg_kind lg = LkBlock -> logic_wf lg -> plain_ok (lg_base_colors lg) comp ->
  top_known (run_qs comp [lg] (stack_new [lg]) qs) (snd sl) ->
  fst (stack_get comp [lg] (run_qs comp [lg] (stack_new [lg]) qs) sl) = Ok (Some (c', sh, ns)) ->
  exists m' st' side tp',
    snd (stack_get comp [lg] (run_qs comp [lg] (stack_new [lg]) qs) sl) = [m'] /\
    calc_cfg lg comp sl = Ok (Some (st', (side, tp'))) /\
    color_to_tape m' c' = Ok tp' /\
    tp' = decode (lg_base_colors lg) (lg_cells lg) c' /\
    encode (lg_base_colors lg) tp' = c'.
Proof. exact handed_out_decodes_block. Qed.
Print Assumptions C16_handed_out_decodes_block.

(** which colours are known: colour 0 on a fresh object, every colour handed
    out, and nothing is ever forgotten; an unknown colour panics *)
Theorem C16_known_fresh : forall lg, top_known (stack_new [lg]) 0.
Proof. exact top_known_fresh. Qed.
Print Assumptions C16_known_fresh.

Theorem C16_handed_out_known_block : forall lg comp qs sl c' sh ns,
  lg_kind lg = LkBlock -> logic_wf lg -> plain_ok (lg_base_colors lg) comp ->
  top_known (run_qs comp [lg] (stack_new [lg]) qs) (snd sl) ->
  fst (stack_get comp [lg] (run_qs comp [lg] (stack_new [lg]) qs) sl) = Ok (Some (c', sh, ns)) ->
  top_known (run_qs comp [lg] (stack_new [lg]) (qs ++ [sl])) c'.
Proof. exact handed_out_known_block. Qed.
Print Assumptions C16_handed_out_known_block.

Theorem C16_known_mono_block : forall lg comp qs q c,
  lg_kind lg = LkBlock -> logic_wf lg -> plain_ok (lg_base_colors lg) comp ->
  top_known (run_qs comp [lg] (stack_new [lg]) qs) c ->
  top_known (run_qs comp [lg] (stack_new [lg]) (qs ++ [q])) c.
Proof. exact top_known_mono_block. Qed.
Print Assumptions C16_known_mono_block.

Theorem C16_unknown_panics : forall lg comp m q,
  c2t_get (ms_c2t m) (slot_colour lg q) = None -> cp_get (ms_instrs m) q = None ->
  fst (stack_get comp [lg] [m] q) = Panic.
Proof. exact unknown_panics. Qed.
Print Assumptions C16_unknown_panics.

(** corollaries: order of earlier queries, repetition, a second object *)
Theorem C16_order_indep_block : forall lg comp qs1 qs2 sl,
  lg_kind lg = LkBlock -> logic_wf lg -> plain_ok (lg_base_colors lg) comp ->
  top_known (run_qs comp [lg] (stack_new [lg]) qs1) (snd sl) ->
  top_known (run_qs comp [lg] (stack_new [lg]) qs2) (snd sl) ->
  fst (stack_get comp [lg] (run_qs comp [lg] (stack_new [lg]) qs1) sl)
  = fst (stack_get comp [lg] (run_qs comp [lg] (stack_new [lg]) qs2) sl).
Proof. exact order_indep_block. Qed.
Print Assumptions C16_order_indep_block.

Theorem C16_repeat_same_block : forall lg comp qs sl,
  lg_kind lg = LkBlock -> logic_wf lg -> plain_ok (lg_base_colors lg) comp ->
  top_known (run_qs comp [lg] (stack_new [lg]) qs) (snd sl) ->
  fst (stack_get comp [lg] (run_qs comp [lg] (stack_new [lg]) (qs ++ [sl])) sl)
  = fst (stack_get comp [lg] (run_qs comp [lg] (stack_new [lg]) qs) sl).
Proof. exact repeat_same_block. Qed.
Print Assumptions C16_repeat_same_block.

Theorem C16_two_objects_indep : forall comp lgs qa sa sb qb,
  stack_queries2 comp lgs sa sb qa qb =
  (fst (stack_queries comp lgs sa qa), fst (stack_queries comp lgs sb qb)).
Proof. exact stack_queries2_indep. Qed.
Print Assumptions C16_two_objects_indep.

(** [run_qs] is the state [stack_queries] reaches; its answers are the
    [stack_get] answers in the states reached by the prefixes *)
Theorem C16_stack_queries_state : forall comp lgs qs st,
  snd (stack_queries comp lgs st qs) = run_qs comp lgs st qs.
Proof. exact stack_queries_snd. Qed.
Print Assumptions C16_stack_queries_state.

Theorem C16_stack_queries_last : forall comp lgs qs st q,
  fst (stack_queries comp lgs st (qs ++ [q])) =
  fst (stack_queries comp lgs st qs) ++ [fst (stack_get comp lgs (run_qs comp lgs st qs) q)].
Proof. exact stack_queries_last. Qed.
Print Assumptions C16_stack_queries_last.

(** ---- 6. backsymbol macros ---- *)
Theorem C16_history_indep_back_fix : forall lg comp qs sl,
  lg_kind lg = LkBacksymbol -> lg_split_fix lg = true ->
  logic_wf lg -> plain_ok (lg_base_colors lg) comp ->
  back_ok lg qs -> snd sl < lg_base_colors lg ->
  top_known (run_qs comp [lg] (stack_new [lg]) qs) ((fst sl / 2) mod lg_backsymbols lg) ->
  fst (stack_get comp [lg] (run_qs comp [lg] (stack_new [lg]) qs) sl) = calc lg comp sl.
Proof. exact history_indep_back_fix. Qed.
Print Assumptions C16_history_indep_back_fix.

Theorem C16_handed_out_decodes_back_fix : forall lg comp qs sl c' sh ns,
  lg_kind lg = LkBacksymbol -> lg_split_fix lg = true ->
  logic_wf lg -> plain_ok (lg_base_colors lg) comp ->
  back_ok lg qs -> snd sl < lg_base_colors lg ->
  top_known (run_qs comp [lg] (stack_new [lg]) qs) ((fst sl / 2) mod lg_backsymbols lg) ->
  fst (stack_get comp [lg] (run_qs comp [lg] (stack_new [lg]) qs) sl) = Ok (Some (c', sh, ns)) ->
  exists m' st' side tp' backspan,
    snd (stack_get comp [lg] (run_qs comp [lg] (stack_new [lg]) qs) sl) = [m'] /\
    calc_cfg lg comp sl = Ok (Some (st', (side, tp'))) /\
    backsymbol_split lg (negb side) tp' = Ok (backspan, c') /\
    color_to_tape m' ((ns / 2) mod lg_backsymbols lg) = Ok backspan /\
    backspan = decode (lg_base_colors lg) (lg_cells lg) ((ns / 2) mod lg_backsymbols lg) /\
    encode (lg_base_colors lg) backspan = (ns / 2) mod lg_backsymbols lg.
Proof. exact handed_out_decodes_back_fix. Qed.
Print Assumptions C16_handed_out_decodes_back_fix.

(** F3: the code as written is history dependent.  Program [1RB 1LB  1LA ...],
    backsymbol macro with k = 1: a fresh object answers (0, L, 6) for slot
    (0,0) — the pure reference — and (1, L, 4) after the single query (0,1),
    which leaves its window on the left *)
Theorem C16_history_dep_refuted :
  let lg := f3_lg false in
  let fresh := run_qs f3_comp [lg] (stack_new [lg]) [] in
  let later := run_qs f3_comp [lg] (stack_new [lg]) [(0, 1)] in
  top_known fresh (slot_colour lg (0, 0)) /\ top_known later (slot_colour lg (0, 0)) /\
  fst (stack_get f3_comp [lg] fresh (0, 0)) = Ok (Some (0, false, 6)) /\
  fst (stack_get f3_comp [lg] later (0, 0)) = Ok (Some (1, false, 4)) /\
  calc lg f3_comp (0, 0) = Ok (Some (0, false, 6)) /\
  left_exit lg (plain_bf f3_comp) (0, 1).
Proof. exact history_dep_refuted. Qed.
Print Assumptions C16_history_dep_refuted.

(** the witness satisfies every hypothesis of the repaired theorem *)
Theorem C16_refuted_hyps : forall fix_,
  backsymbol_new fix_ 1 (2, 2) = Ok (f3_lg fix_) /\ logic_wf (f3_lg fix_) /\
  plain_ok (lg_base_colors (f3_lg fix_)) f3_comp /\ back_ok (f3_lg fix_) [(0, 1)].
Proof.
  intros fix_. split; [apply f3_lg_new|]. split; [apply f3_wf|]. split; [exact f3_plain|].
  repeat constructor.
Qed.
Print Assumptions C16_refuted_hyps.

(** outside class F3 the faithful logic is history independent *)
Theorem C16_history_indep_back_no_left_exit : forall lg comp qs sl,
  lg_kind lg = LkBacksymbol ->
  logic_wf lg -> plain_ok (lg_base_colors lg) comp ->
  back_ok lg qs -> snd sl < lg_base_colors lg ->
  no_left_exit lg comp qs ->
  top_known (run_qs comp [lg] (stack_new [lg]) qs) ((fst sl / 2) mod lg_backsymbols lg) ->
  fst (stack_get comp [lg] (run_qs comp [lg] (stack_new [lg]) qs) sl) = calc lg comp sl.
Proof. exact history_indep_back_no_left_exit. Qed.
Print Assumptions C16_history_indep_back_no_left_exit.

(** ---- 7. nested macros, any depth ---- *)
Theorem C16_nested_pure : forall comp bc0 lgs,
  plain_ok bc0 comp -> layers_ok bc0 lgs ->
  pure_base (stack_get comp lgs) (stk_bf comp lgs) (stk_inv comp bc0 lgs)
            (stk_ks lgs) (stk_kc bc0 lgs) (stk_ncol bc0 lgs).
Proof. exact stack_pure. Qed.
Print Assumptions C16_nested_pure.

Theorem C16_nested_new_inv : forall comp bc0 lgs,
  plain_ok bc0 comp -> layers_ok bc0 lgs -> stk_inv comp bc0 lgs (stack_new lgs).
Proof. exact stack_new_inv. Qed.
Print Assumptions C16_nested_new_inv.

Theorem C16_nested_history_indep : forall comp bc0 lgs,
  plain_ok bc0 comp -> layers_ok bc0 lgs ->
  forall qs st sl, stk_inv comp bc0 lgs st -> known_run comp bc0 lgs st (qs ++ [sl]) ->
  fst (stack_get comp lgs (run_qs comp lgs st qs) sl) = stk_bf comp lgs sl /\
  stk_inv comp bc0 lgs (run_qs comp lgs st qs).
Proof. exact stack_history_indep. Qed.
Print Assumptions C16_nested_history_indep.

(** ---- non-vacuity ---- *)
Local Ltac wf_tac :=
  split; [|split]; [vm_compute; discriminate|vm_compute; discriminate|
                    first [discriminate|intros _; reflexivity]].

(** a block macro (k = 2) over [1RB 1LB  1LA ...]: two different histories
    (one with a repetition and a panicking unknown colour), same slot, the
    same non-trivial answer, which is [calc]; the colour handed out decodes *)
Example C16_nonvacuous_block :
  let lg := mkLogic LkBlock 2 2 2 0 false in
  block_new 2 (2, 2) = Ok lg /\
  fst (stack_get f3_comp [lg] (run_qs f3_comp [lg] (stack_new [lg]) [(1, 0); (1, 0); (2, 2)]) (0, 0))
    = Ok (Some (3, false, 3)) /\
  fst (stack_get f3_comp [lg] (run_qs f3_comp [lg] (stack_new [lg]) [(0, 0); (3, 3)]) (0, 0))
    = calc lg f3_comp (0, 0) /\
  fst (stack_get f3_comp [lg] (run_qs f3_comp [lg] (stack_new [lg]) [(0, 0)]) (2, 2)) = Panic /\
  calc lg f3_comp (2, 2) = Ok None /\
  decode 2 2 3 = [1; 1].
Proof.
  cbv zeta. split; [reflexivity|]. split; [|split; [|split; [|split]]].
  - rewrite C16_history_indep_block.
    + vm_compute. reflexivity.
    + reflexivity.
    + wf_tac.
    + exact f3_plain.
    + vm_compute. eexists. reflexivity.
  - apply C16_history_indep_block.
    + reflexivity.
    + wf_tac.
    + exact f3_plain.
    + vm_compute. eexists. reflexivity.
  - vm_compute. reflexivity.
  - vm_compute. reflexivity.
  - vm_compute. reflexivity.
Qed.

(** a repaired backsymbol macro (k = 1) over a block macro (k = 2) over the
    same table: the two-layer stack answers by its pure reference *)
Example C16_nonvacuous_nested :
  let lgs := [mkLogic LkBacksymbol 1 4 4 4 true; mkLogic LkBlock 2 2 2 0 false] in
  layers_ok 2 lgs /\
  known_run f3_comp 2 lgs (stack_new lgs) ([(1, 0)] ++ [(31, 0)]) /\
  fst (stack_get f3_comp lgs (run_qs f3_comp lgs (stack_new lgs) [(1, 0)]) (31, 0))
    = stk_bf f3_comp lgs (31, 0) /\
  stk_bf f3_comp lgs (1, 0) = Ok (Some (0, true, 31)).
Proof.
  cbv zeta.
  assert (Hok : layers_ok 2 [mkLogic LkBacksymbol 1 4 4 4 true; mkLogic LkBlock 2 2 2 0 false]).
  { cbn [layers_ok]. split; [wf_tac|]. split; [reflexivity|]. split; [right; reflexivity|].
    split; [wf_tac|]. split; [reflexivity|]. split; [left; reflexivity|]. vm_compute; discriminate. }
  assert (Hk : known_run f3_comp 2 [mkLogic LkBacksymbol 1 4 4 4 true; mkLogic LkBlock 2 2 2 0 false]
                 (stack_new [mkLogic LkBacksymbol 1 4 4 4 true; mkLogic LkBlock 2 2 2 0 false])
                 ([(1, 0)] ++ [(31, 0)])).
  { vm_compute. repeat split; try (eexists; reflexivity). }
  split; [exact Hok|]. split; [exact Hk|]. split.
  - apply (C16_nested_history_indep f3_comp 2 _ f3_plain Hok [(1, 0)] _ (31, 0)).
    + apply C16_nested_new_inv; [exact f3_plain|exact Hok].
    + exact Hk.
  - vm_compute. reflexivity.
Qed.

(** the F3 witness with the repair: both histories give the pure reference *)
Example C16_nonvacuous_back_fix :
  let lg := f3_lg true in
  fst (stack_get f3_comp [lg] (run_qs f3_comp [lg] (stack_new [lg]) [(0, 1)]) (0, 0))
    = calc lg f3_comp (0, 0) /\
  calc lg f3_comp (0, 0) = Ok (Some (0, false, 6)) /\
  calc lg f3_comp (0, 1) = Ok (Some (1, true, 3)).
Proof.
  cbv zeta. destruct (C16_refuted_hyps true) as (_ & Hwf & Hp & Hqs).
  split; [|split; vm_compute; reflexivity].
  apply C16_history_indep_back_fix;
    [reflexivity|reflexivity|exact Hwf|exact Hp|exact Hqs|vm_compute; reflexivity|].
  vm_compute. eexists. reflexivity.
Qed.

(** the faithful logic outside class F3: the query (0,0) leaves its window on
    the right, after it the slot (6,1) — state and backsymbol handed out by
    that answer — is answered by the pure reference *)
Example C16_nonvacuous_no_left_exit :
  let lg := f3_lg false in
  no_left_exit lg f3_comp [(0, 0)] /\
  fst (stack_get f3_comp [lg] (run_qs f3_comp [lg] (stack_new [lg]) [(0, 0)]) (6, 0))
    = calc lg f3_comp (6, 0) /\
  calc lg f3_comp (6, 0) = Ok (Some (1, true, 5)) /\
  left_exit lg (plain_bf f3_comp) (6, 0).
Proof.
  cbv zeta. destruct (C16_refuted_hyps false) as (_ & Hwf & Hp & _).
  assert (Hnl : no_left_exit (f3_lg false) f3_comp [(0, 0)]).
  { constructor; [|constructor]. intros (st & tp & H). vm_compute in H. discriminate. }
  split; [exact Hnl|]. split.
  - apply C16_history_indep_back_no_left_exit;
      [reflexivity|exact Hwf|exact Hp|repeat constructor|vm_compute; reflexivity|exact Hnl|].
    vm_compute. eexists. reflexivity.
  - split; [vm_compute; reflexivity|]. eexists. eexists. vm_compute. reflexivity.
Qed.
