(** C15 — Raising a limit never changes an answer already given.
    Every decider loop of the models is [for_upto limit body] with a body
    that does not mention the limit, so one generic lemma gives all cases;
    that the REAL code's loop bodies do not read the limit is what the
    correspondence on pairs of limits checks. *)
From BB Require Import Base Ref TapeModel InstrsModel MachineModel ReasonModel SegmentModel CpsModel.
From BB Require Import Loops MonoMachine ReasonFacts SegmentFacts CpsSound.
From BB Require Import ProverModel ProverSound.

Theorem C15_for_upto_mono : forall (St Rs : Type) (body : St -> St + Rs) n m s r,
  for_upto n body s = inr r -> n <= m -> for_upto m body s = inr r.
Proof. intros St Rs body n m s r. apply for_upto_mono. Qed.
Print Assumptions C15_for_upto_mono.

Theorem C15_quick_mono : forall comp n m,
  r_result (run_quick comp n) <> xlimit -> n <= m -> run_quick comp m = run_quick comp n.
Proof. exact quick_mono. Qed.
Print Assumptions C15_quick_mono.

Theorem C15_rec_mono : forall comp n m,
  quick_term_or_rec comp n <> RLimit -> n <= m -> quick_term_or_rec comp m = quick_term_or_rec comp n.
Proof. exact rec_mono. Qed.
Print Assumptions C15_rec_mono.

(** a refutation found at depth d is returned with the same step number for every depth above d *)
Theorem C15_bw_mono : forall sw comp d d', d <= d' ->
  (cant_halt_sw sw comp d <> Ok BwStepLimit -> cant_halt_sw sw comp d' = cant_halt_sw sw comp d) /\
  (cant_blank_sw sw comp d <> Ok BwStepLimit -> cant_blank_sw sw comp d' = cant_blank_sw sw comp d) /\
  (cant_spin_out_sw sw comp d <> Ok BwStepLimit -> cant_spin_out_sw sw comp d' = cant_spin_out_sw sw comp d).
Proof. exact bw_mono. Qed.
Print Assumptions C15_bw_mono.

(** a settled segment verdict is kept for every larger segment limit *)
Theorem C15_seg_mono : forall prog params goal s s',
  2 <= s -> s <= s' ->
  sg_segment_cant_reach prog params s goal <> Ok SgrSegmentLimit ->
  sg_segment_cant_reach prog params s' goal = sg_segment_cant_reach prog params s goal.
Proof. exact seg_mono. Qed.
Print Assumptions C15_seg_mono.

(** a closed-set proof found at radius r is found for every radius above r *)
Theorem C15_cps_mono : forall order prog goal r r',
  cps_run order prog r goal = Ok true -> r <= r' -> cps_run order prog r' goal = Ok true.
Proof. intros order prog goal r r'. apply cps_run_mono. Qed.
Print Assumptions C15_cps_mono.

(** the same loop under ANY two limits: two answers are the same answer *)
Theorem C15_for_upto_agree : forall (St Rs : Type) (body : St -> St + Rs) n m s r r',
  for_upto n body s = inr r -> for_upto m body s = inr r' -> r = r'.
Proof.
  intros St Rs body n m s r r' Hn Hm.
  destruct (N.le_ge_cases n m) as [Hle|Hle].
  - rewrite (for_upto_mono body n m s r Hn Hle) in Hm. injection Hm as <-. reflexivity.
  - rewrite (for_upto_mono body m n s r' Hm Hle) in Hn. injection Hn as <-. reflexivity.
Qed.
Print Assumptions C15_for_upto_agree.

(** the rule-accelerated run (machine.rs run_prover, loop over cycle in 0..sim_lim) *)
Theorem C15_prover_mono : forall comp n m r,
  run_prover comp n = Ok r -> r_result r <> xlimit -> n <= m -> run_prover comp m = Ok r.
Proof. exact prover_mono. Qed.
Print Assumptions C15_prover_mono.

(** symmetric forms: whichever of the two limits is larger, two settled answers coincide *)
Theorem C15_quick_agree : forall comp n m,
  r_result (run_quick comp n) <> xlimit -> r_result (run_quick comp m) <> xlimit ->
  run_quick comp m = run_quick comp n.
Proof.
  intros comp n m Hn Hm. destruct (N.le_ge_cases n m) as [Hle|Hle].
  - apply C15_quick_mono; assumption.
  - symmetry. apply C15_quick_mono; assumption.
Qed.
Print Assumptions C15_quick_agree.

Theorem C15_rec_agree : forall comp n m,
  quick_term_or_rec comp n <> RLimit -> quick_term_or_rec comp m <> RLimit ->
  quick_term_or_rec comp m = quick_term_or_rec comp n.
Proof.
  intros comp n m Hn Hm. destruct (N.le_ge_cases n m) as [Hle|Hle].
  - apply C15_rec_mono; assumption.
  - symmetry. apply C15_rec_mono; assumption.
Qed.
Print Assumptions C15_rec_agree.

Theorem C15_bw_halt_agree : forall sw comp d d',
  cant_halt_sw sw comp d <> Ok BwStepLimit -> cant_halt_sw sw comp d' <> Ok BwStepLimit ->
  cant_halt_sw sw comp d' = cant_halt_sw sw comp d.
Proof.
  intros sw comp d d' Hd Hd'. destruct (N.le_ge_cases d d') as [Hle|Hle].
  - apply (C15_bw_mono sw comp d d' Hle); assumption.
  - symmetry. apply (C15_bw_mono sw comp d' d Hle); assumption.
Qed.
Print Assumptions C15_bw_halt_agree.

Theorem C15_bw_blank_agree : forall sw comp d d',
  cant_blank_sw sw comp d <> Ok BwStepLimit -> cant_blank_sw sw comp d' <> Ok BwStepLimit ->
  cant_blank_sw sw comp d' = cant_blank_sw sw comp d.
Proof.
  intros sw comp d d' Hd Hd'. destruct (N.le_ge_cases d d') as [Hle|Hle].
  - apply (C15_bw_mono sw comp d d' Hle); assumption.
  - symmetry. apply (C15_bw_mono sw comp d' d Hle); assumption.
Qed.
Print Assumptions C15_bw_blank_agree.

Theorem C15_bw_spin_agree : forall sw comp d d',
  cant_spin_out_sw sw comp d <> Ok BwStepLimit -> cant_spin_out_sw sw comp d' <> Ok BwStepLimit ->
  cant_spin_out_sw sw comp d' = cant_spin_out_sw sw comp d.
Proof.
  intros sw comp d d' Hd Hd'. destruct (N.le_ge_cases d d') as [Hle|Hle].
  - apply (C15_bw_mono sw comp d d' Hle); assumption.
  - symmetry. apply (C15_bw_mono sw comp d' d Hle); assumption.
Qed.
Print Assumptions C15_bw_spin_agree.

Theorem C15_seg_agree : forall prog params goal s s',
  2 <= s -> 2 <= s' ->
  sg_segment_cant_reach prog params s goal <> Ok SgrSegmentLimit ->
  sg_segment_cant_reach prog params s' goal <> Ok SgrSegmentLimit ->
  sg_segment_cant_reach prog params s' goal = sg_segment_cant_reach prog params s goal.
Proof.
  intros prog params goal s s' H2 H2' Hs Hs'. destruct (N.le_ge_cases s s') as [Hle|Hle].
  - apply C15_seg_mono; assumption.
  - symmetry. apply C15_seg_mono; assumption.
Qed.
Print Assumptions C15_seg_agree.

Example C15_nonvacuous :
  cant_halt f1_halt_prog 9 = Ok BwStepLimit /\ cant_halt f1_halt_prog 10 = Ok (BwRefuted 9) /\
  cant_halt f1_halt_prog 300 = Ok (BwRefuted 9).
Proof. vm_compute. repeat split; reflexivity. Qed.
