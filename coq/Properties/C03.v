(** C03 — Bulk application of a proved rule is a run of the real machine.
    Final statements only; proofs in Proofs/RuleSound.v, Proofs/ReplaySound.v,
    Proofs/ProverSound.v (and Proofs/RulesExact.v for the arithmetic).

    The rule INFERENCE of src/prover.rs / src/rules.rs (four observations of
    block counts => "rule") is a generalisation and not a theorem.  Proved:
    - IF a rule is valid for one application on its family of tapes
      ([RuleValid]), THEN the accelerated [apply_rule] (any number of
      applications at once) is a run of real steps from the tape before to
      the tape after, through no halt and no spin-out, and no block of any
      intermediate tape is driven to zero or below;
    - the replay checker, which the run-time check uses on every explored
      application, is sound: a "reached" answer IS such a run;
    - every application that [run_prover] records is a successful
      [apply_rule] of a rule with distinct keys on a canonical tape reached by
      the run (so both results above apply to it). *)
From BB Require Import Base TM Ref TapeModel InstrsModel RulesModel MachineModel ProverModel ReplayModel.
From BB Require Import TapeCanon StepSim RulesExact RuleSound ReplaySound ProverSound.
Open Scope N_scope.

(** the accelerated application is a run of real machine steps *)
Theorem C03_apply_sound : forall P q r t0 t times t',
  RuleValid P q r t0 -> canon_tape t -> same_shape t t0 -> lens_eq t t0 ->
  rule_keys_nodup r -> apply_rule t r = Ok (Some times, t') ->
  exists n z, (N.to_nat times <= n)%nat /\
    tm_steps P n (q, unroll_tape t) = Some (q, z) /\
    tape_eq z (unroll_tape t') /\ canon_tape t'.
Proof. exact apply_sound. Qed.
Print Assumptions C03_apply_sound.

(** no block is ever driven to zero or below: all intermediate tapes t + k.r *)
Theorem C03_apply_no_zero_block : forall r t times t',
  canon_tape t -> rule_keys_nodup r -> apply_rule t r = Ok (Some times, t') ->
  forall k, (k <= N.to_nat times)%nat ->
    Shifted r k t (shift_tape r k t) /\
    counts_pos_tape (shift_tape r k t) /\ canon_tape (shift_tape r k t).
Proof. exact apply_no_zero_block. Qed.
Print Assumptions C03_apply_no_zero_block.

(** ... through no spin-out, and no halt before the end *)
Theorem C03_apply_no_spinout : forall P q r t0 t times t',
  RuleValid P q r t0 -> canon_tape t -> same_shape t t0 -> lens_eq t t0 ->
  rule_keys_nodup r -> apply_rule t r = Ok (Some times, t') ->
  exists n z, (N.to_nat times <= n)%nat /\
    tm_steps P n (q, unroll_tape t) = Some (q, z) /\
    tape_eq z (unroll_tape t') /\ canon_tape t' /\
    forall j c, (j <= n)%nat -> tm_steps P j (q, unroll_tape t) = Some c ->
      ~ spinout_cfg P c /\ ((j < n)%nat -> ~ halted_cfg P c).
Proof. exact apply_no_spinout. Qed.
Print Assumptions C03_apply_no_spinout.

(** the replay checker: "true" exhibits a run of real machine steps *)
Theorem C03_replay_sound : forall comp q t tq tt fuel,
  canon_tape t -> replay comp q t tq tt fuel = true ->
  exists k z', (1 <= k)%nat /\ tm_steps (to_prog comp) k (q, unroll_tape t) = Some (tq, z') /\
               tape_eq z' (unroll_tape tt).
Proof. exact replay_sound. Qed.
Print Assumptions C03_replay_sound.

Theorem C03_replay3_reached : forall comp q t tq tt fuel n,
  replay3 comp q t tq tt fuel = RpReached n -> replay comp q t tq tt fuel = true.
Proof. exact replay3_reached. Qed.
Print Assumptions C03_replay3_reached.

(** rules made by [make_rule] have distinct keys *)
Theorem C03_make_rule_keys_nodup : forall c1 c2 c3 c4 r,
  make_rule c1 c2 c3 c4 = Ok (Some r) -> rule_keys_nodup r.
Proof. exact make_rule_keys_nodup. Qed.
Print Assumptions C03_make_rule_keys_nodup.

(** every recorded application of a run is an [apply_rule] of a rule with
    distinct keys on a canonical tape (unconditional) *)
Theorem C03_trace_apps_are_applications : forall comp lim r apps,
  run_prover_trace comp lim = Ok (r, apps) ->
  forall a, In a apps ->
    apply_rule (app_before a) (app_rule a) = Ok (Some (app_times a), app_after a) /\
    canon_tape (app_before a) /\ rule_keys_nodup (app_rule a).
Proof. exact trace_apps_are_applications. Qed.
Print Assumptions C03_trace_apps_are_applications.

(** the tape of the accelerated run is canonical at every cycle (unconditional) *)
Theorem C03_prover_tape_canon : forall comp m s,
  iter_nat m (prover_body comp) prover_init = inl s -> canon_tape (q_tape (ps_q s)).
Proof. exact prover_tape_canon. Qed.
Print Assumptions C03_prover_tape_canon.

(** if the applied rules are valid, every recorded application is a run of
    the real machine: at least [times] steps, no spin-out, no halt on the way *)
Theorem C03_trace_valid_apps_real : forall comp lim r apps,
  run_prover_trace comp lim = Ok (r, apps) -> apps_valid (to_prog comp) apps ->
  forall a, In a apps ->
    exists n z, (N.to_nat (app_times a) <= n)%nat /\
      tm_steps (to_prog comp) n (app_state a, unroll_tape (app_before a)) = Some (app_state a, z) /\
      tape_eq z (unroll_tape (app_after a)) /\ canon_tape (app_after a) /\
      forall j c, (j <= n)%nat ->
        tm_steps (to_prog comp) j (app_state a, unroll_tape (app_before a)) = Some c ->
        ~ spinout_cfg (to_prog comp) c /\ ((j < n)%nat -> ~ halted_cfg (to_prog comp) c).
Proof. exact trace_valid_apps_real. Qed.
Print Assumptions C03_trace_valid_apps_real.

(** the run-time check: recorded applications confirmed by the replay checker
    are runs of the real machine, with no hypothesis on the rules *)
Theorem C03_trace_replayed_apps_real : forall comp lim r apps fuel,
  run_prover_trace comp lim = Ok (r, apps) -> apps_replay_ok comp fuel apps = true ->
  forall a, In a apps ->
    exists n z, tm_steps (to_prog comp) n (app_state a, unroll_tape (app_before a)) = Some (app_state a, z) /\
                tape_eq z (unroll_tape (app_after a)).
Proof. exact trace_replayed_real. Qed.
Print Assumptions C03_trace_replayed_apps_real.

(** non-vacuity 1: a machine and a rule for which [RuleValid] is PROVED, and
    2^62 - 1 applications at once *)
Example C03_rule_valid_nonvacuous : RuleValid exP 0 ex_rule (ex_tape 1 2).
Proof. exact rule_valid_nonvacuous. Qed.

Example C03_apply_sound_instance :
  exists n z, (N.to_nat 4611686018427387903 <= n)%nat /\
    tm_steps exP n (0, unroll_tape (ex_tape 3 4611686018427387904)) = Some (0, z) /\
    tape_eq z (unroll_tape (ex_tape 4611686018427387906 1)).
Proof. exact apply_sound_instance. Qed.

(** non-vacuity 2: the repo's own test machine (tests of run_prover):
    1000 cycles record 8 applications of the rule "left block -3, right block
    +5" (987 rule steps in total); the replay checker confirms every one of
    them, so each is a run of the real machine. *)
Definition C03_test_machine : comp_prog :=
  [((0,0),(1,true,1)); ((0,1),(2,false,0)); ((0,2),(1,true,0)); ((0,3),(1,true,0));
   ((1,0),(1,false,1)); ((1,1),(1,false,0)); ((1,2),(3,true,1))].

Example C03_test_machine_apps :
  match run_prover_trace C03_test_machine 1000 with
  | Ok (r, apps) =>
      length apps = 8%nat /\ r_rulapp r = 987 /\
      map app_times apps = [6; 17; 30; 51; 86; 145; 244; 408] /\
      forallb (fun a => match app_rule a with
                        | [((false, 0), Plus (-3)); ((true, 0), Plus 5)] => true
                        | _ => false end) apps = true /\
      apps_replay_ok C03_test_machine 5000 apps = true
  | Panic => False
  end.
Proof. vm_compute. repeat split; reflexivity. Qed.

Example C03_test_machine_apps_real :
  forall r apps, run_prover_trace C03_test_machine 1000 = Ok (r, apps) ->
  apps <> [] /\
  forall a, In a apps ->
    exists n z, tm_steps (to_prog C03_test_machine) n (app_state a, unroll_tape (app_before a))
                  = Some (app_state a, z) /\ tape_eq z (unroll_tape (app_after a)).
Proof.
  intros r apps H. pose proof C03_test_machine_apps as E. rewrite H in E.
  destruct E as (Hlen & _ & _ & _ & Hrp). split.
  - intros Hnil. rewrite Hnil in Hlen. discriminate Hlen.
  - exact (C03_trace_replayed_apps_real _ _ _ _ _ H Hrp).
Qed.
Print Assumptions C03_test_machine_apps_real.
