(** C03 — Bulk application of a proved rule is a run of the real machine.
    Final statements only; proofs in Proofs/RuleSound.v, Proofs/ReplaySound.v,
    Proofs/ProverSound.v (and Proofs/RulesExact.v for the arithmetic).

    The rule INFERENCE of src/prover.rs / src/rules.rs (four observations of
    block counts => "rule") is a generalisation and not a theorem.  Proved:
    - IF a rule is valid for one application on its family of tapes
      ([RuleValid]), THEN the accelerated [apply_rule] (any number of
      applications at once) is a run of real steps from the tape before to
      the tape after, through no halt and no spin-out, and no block of any
      intermediate tape is driven to zero or below;
    - the replay checker, which the run-time check uses on every explored
      application, is sound: a "reached" answer IS such a run;
    - every application that [run_prover] records is a successful
      [apply_rule] of a rule with distinct keys on a canonical tape reached by
      the run (so both results above apply to it). *)
From BB Require Import Base TM Ref TapeModel InstrsModel RulesModel MachineModel ProverModel ReplayModel.
From BB Require Import TapeCanon StepSim RulesExact RuleSound ReplaySound ProverSound.
From BB Require Import SymRule SymRuleSound.
Open Scope N_scope.

(** the accelerated application is a run of real machine steps *)
Theorem C03_apply_sound : forall P q r t0 t times t',
  RuleValid P q r t0 -> canon_tape t -> same_shape t t0 -> lens_eq t t0 ->
  rule_keys_nodup r -> apply_rule t r = Ok (Some times, t') ->
  exists n z, (N.to_nat times <= n)%nat /\
    tm_steps P n (q, unroll_tape t) = Some (q, z) /\
    tape_eq z (unroll_tape t') /\ canon_tape t'.
Proof. exact apply_sound. Qed.
Print Assumptions C03_apply_sound.

(** no block is ever driven to zero or below: all intermediate tapes t + k.r *)
Theorem C03_apply_no_zero_block : forall r t times t',
  canon_tape t -> rule_keys_nodup r -> apply_rule t r = Ok (Some times, t') ->
  forall k, (k <= N.to_nat times)%nat ->
    Shifted r k t (shift_tape r k t) /\
    counts_pos_tape (shift_tape r k t) /\ canon_tape (shift_tape r k t).
Proof. exact apply_no_zero_block. Qed.
Print Assumptions C03_apply_no_zero_block.

(** ... through no spin-out, and no halt before the end *)
Theorem C03_apply_no_spinout : forall P q r t0 t times t',
  RuleValid P q r t0 -> canon_tape t -> same_shape t t0 -> lens_eq t t0 ->
  rule_keys_nodup r -> apply_rule t r = Ok (Some times, t') ->
  exists n z, (N.to_nat times <= n)%nat /\
    tm_steps P n (q, unroll_tape t) = Some (q, z) /\
    tape_eq z (unroll_tape t') /\ canon_tape t' /\
    forall j c, (j <= n)%nat -> tm_steps P j (q, unroll_tape t) = Some c ->
      ~ spinout_cfg P c /\ ((j < n)%nat -> ~ halted_cfg P c).
Proof. exact apply_no_spinout. Qed.
Print Assumptions C03_apply_no_spinout.

(** the replay checker: "true" exhibits a run of real machine steps *)
Theorem C03_replay_sound : forall comp q t tq tt fuel,
  canon_tape t -> replay comp q t tq tt fuel = true ->
  exists k z', (1 <= k)%nat /\ tm_steps (to_prog comp) k (q, unroll_tape t) = Some (tq, z') /\
               tape_eq z' (unroll_tape tt).
Proof. exact replay_sound. Qed.
Print Assumptions C03_replay_sound.

Theorem C03_replay3_reached : forall comp q t tq tt fuel n,
  replay3 comp q t tq tt fuel = RpReached n -> replay comp q t tq tt fuel = true.
Proof. exact replay3_reached. Qed.
Print Assumptions C03_replay3_reached.

(** rules made by [make_rule] have distinct keys *)
Theorem C03_make_rule_keys_nodup : forall c1 c2 c3 c4 r,
  make_rule c1 c2 c3 c4 = Ok (Some r) -> rule_keys_nodup r.
Proof. exact make_rule_keys_nodup. Qed.
Print Assumptions C03_make_rule_keys_nodup.

(** every recorded application of a run is an [apply_rule] of a rule with
    distinct keys on a canonical tape (unconditional) *)
Theorem C03_trace_apps_are_applications : forall comp lim r apps,
  run_prover_trace comp lim = Ok (r, apps) ->
  forall a, In a apps ->
    apply_rule (app_before a) (app_rule a) = Ok (Some (app_times a), app_after a) /\
    canon_tape (app_before a) /\ rule_keys_nodup (app_rule a).
Proof. exact trace_apps_are_applications. Qed.
Print Assumptions C03_trace_apps_are_applications.

(** the tape of the accelerated run is canonical at every cycle (unconditional) *)
Theorem C03_prover_tape_canon : forall comp m s,
  iter_nat m (prover_body comp) prover_init = inl s -> canon_tape (q_tape (ps_q s)).
Proof. exact prover_tape_canon. Qed.
Print Assumptions C03_prover_tape_canon.

(** if the applied rules are valid, every recorded application is a run of
    the real machine: at least [times] steps, no spin-out, no halt on the way *)
Theorem C03_trace_valid_apps_real : forall comp lim r apps,
  run_prover_trace comp lim = Ok (r, apps) -> apps_valid (to_prog comp) apps ->
  forall a, In a apps ->
    exists n z, (N.to_nat (app_times a) <= n)%nat /\
      tm_steps (to_prog comp) n (app_state a, unroll_tape (app_before a)) = Some (app_state a, z) /\
      tape_eq z (unroll_tape (app_after a)) /\ canon_tape (app_after a) /\
      forall j c, (j <= n)%nat ->
        tm_steps (to_prog comp) j (app_state a, unroll_tape (app_before a)) = Some c ->
        ~ spinout_cfg (to_prog comp) c /\ ((j < n)%nat -> ~ halted_cfg (to_prog comp) c).
Proof. exact trace_valid_apps_real. Qed.
Print Assumptions C03_trace_valid_apps_real.

(** the run-time check: recorded applications confirmed by the replay checker
    are runs of the real machine, with no hypothesis on the rules *)
Theorem C03_trace_replayed_apps_real : forall comp lim r apps fuel,
  run_prover_trace comp lim = Ok (r, apps) -> apps_replay_ok comp fuel apps = true ->
  forall a, In a apps ->
    exists n z, tm_steps (to_prog comp) n (app_state a, unroll_tape (app_before a)) = Some (app_state a, z) /\
                tape_eq z (unroll_tape (app_after a)).
Proof. exact trace_replayed_real. Qed.
Print Assumptions C03_trace_replayed_apps_real.

(** non-vacuity 1: a machine and a rule for which [RuleValid] is PROVED, and
    2^62 - 1 applications at once *)
Example C03_rule_valid_nonvacuous : RuleValid exP 0 ex_rule (ex_tape 1 2).
Proof. exact rule_valid_nonvacuous. Qed.

Example C03_apply_sound_instance :
  exists n z, (N.to_nat 4611686018427387903 <= n)%nat /\
    tm_steps exP n (0, unroll_tape (ex_tape 3 4611686018427387904)) = Some (0, z) /\
    tape_eq z (unroll_tape (ex_tape 4611686018427387906 1)).
Proof. exact apply_sound_instance. Qed.

(** non-vacuity 2: the repo's own test machine (tests of run_prover):
    1000 cycles record 8 applications of the rule "left block -3, right block
    +5" (987 rule steps in total); the replay checker confirms every one of
    them, so each is a run of the real machine. *)
Definition C03_test_machine : comp_prog :=
  [((0,0),(1,true,1)); ((0,1),(2,false,0)); ((0,2),(1,true,0)); ((0,3),(1,true,0));
   ((1,0),(1,false,1)); ((1,1),(1,false,0)); ((1,2),(3,true,1))].

Example C03_test_machine_apps :
  match run_prover_trace C03_test_machine 1000 with
  | Ok (r, apps) =>
      length apps = 8%nat /\ r_rulapp r = 987 /\
      map app_times apps = [6; 17; 30; 51; 86; 145; 244; 408] /\
      forallb (fun a => match app_rule a with
                        | [((false, 0), Plus (-3)); ((true, 0), Plus 5)] => true
                        | _ => false end) apps = true /\
      apps_replay_ok C03_test_machine 5000 apps = true
  | Panic => False
  end.
Proof. vm_compute. repeat split; reflexivity. Qed.

Example C03_test_machine_apps_real :
  forall r apps, run_prover_trace C03_test_machine 1000 = Ok (r, apps) ->
  apps <> [] /\
  forall a, In a apps ->
    exists n z, tm_steps (to_prog C03_test_machine) n (app_state a, unroll_tape (app_before a))
                  = Some (app_state a, z) /\ tape_eq z (unroll_tape (app_after a)).
Proof.
  intros r apps H. pose proof C03_test_machine_apps as E. rewrite H in E.
  destruct E as (Hlen & _ & _ & _ & Hrp). split.
  - intros Hnil. rewrite Hnil in Hlen. discriminate Hlen.
  - exact (C03_trace_replayed_apps_real _ _ _ _ _ H Hrp).
Qed.
Print Assumptions C03_test_machine_apps_real.


(** ------------------------------------------------------------------ *)
(** ESTABLISHING [RuleValid]: the verified SYMBOLIC rule checker
    (Model/SymRule.v, Proofs/SymRuleSound.v).  [check_rule] runs the compressed
    simulator on a tape whose block counts are unknowns and answers a
    requirement vector [req]; the rule is then a run of real machine steps on
    EVERY tape of the family (same colours; blocks not in the mask pinned to
    their counts in [t0]) whose counts are >= [req]. *)
Theorem C03_check_rule_sound : forall comp q t0 r m cycles restarts n req,
  check_rule comp q t0 r m cycles restarts = CCert n req ->
  forall t t1, canon_tape t -> same_shape t t0 -> lens_eq t t0 ->
    fixed_ok m t t0 -> req_ok req t -> Shifted r 1 t t1 ->
    exists k z, (1 <= k)%nat /\
      tm_steps (to_prog comp) k (q, unroll_tape t) = Some (q, z) /\
      tape_eq z (unroll_tape t1).
Proof. exact check_rule_sound. Qed.
Print Assumptions C03_check_rule_sound.

(** a certificate whose requirement is within the guard of rules.rs
    (decreasing blocks > |d|, every block >= 1) gives [RuleValid] ... *)
Theorem C03_check_rule_valid : forall comp q r t0 cycles restarts n req,
  check_rule comp q t0 r mask_all cycles restarts = CCert n req ->
  req_le_guard r t0 req = true ->
  RuleValid (to_prog comp) q r t0.
Proof. exact check_rule_guard_valid. Qed.
Print Assumptions C03_check_rule_valid.

(** ... and so does the complete check [cover], which splits the tapes between
    the guard and the requirement into finitely many cases (typically the last
    application of a bulk application, which leaves a block of one cell) *)
Theorem C03_cover_rule_valid : forall comp q r t0 cycles restarts fuel,
  cover comp q r cycles restarts (guard_bounds 1 mask_all r t0) fuel mask_all t0 = true ->
  RuleValid (to_prog comp) q r t0.
Proof. exact cover_rule_valid. Qed.
Print Assumptions C03_cover_rule_valid.

(** hence the bulk application is a run of the real machine FOR ALL COUNTS *)
Theorem C03_cover_apply_sound : forall comp q r t0 cycles restarts fuel t times t',
  cover comp q r cycles restarts (guard_bounds 1 mask_all r t0) fuel mask_all t0 = true ->
  canon_tape t -> same_shape t t0 -> rule_keys_nodup r ->
  apply_rule t r = Ok (Some times, t') ->
  exists n z, (N.to_nat times <= n)%nat /\
    tm_steps (to_prog comp) n (q, unroll_tape t) = Some (q, z) /\
    tape_eq z (unroll_tape t') /\ canon_tape t'.
Proof. exact cover_apply_sound. Qed.
Print Assumptions C03_cover_apply_sound.

(** a certificate valid only above [req] still covers the bulk applications
    all of whose intermediate tapes are above [req]: decidable condition
    [app_covered] on (tape before, times) *)
Theorem C03_apply_sound_above : forall comp q t0 r m cycles restarts n req t times t',
  check_rule comp q t0 r m cycles restarts = CCert n req ->
  app_covered m req t0 t r times = true ->
  canon_tape t -> same_shape t t0 -> rule_keys_nodup r ->
  apply_rule t r = Ok (Some times, t') ->
  exists k z, (N.to_nat times <= k)%nat /\
    tm_steps (to_prog comp) k (q, unroll_tape t) = Some (q, z) /\
    tape_eq z (unroll_tape t') /\ canon_tape t'.
Proof. exact apply_sound_above. Qed.
Print Assumptions C03_apply_sound_above.

(** splitting a bulk application at the threshold: the certificate takes the
    run from [t] through the first K = [max_covered ..] single applications
    (those that start above [req]) to the tape t + K.r; the remaining
    [times - K] single applications start below the threshold and are left to
    the concrete replay checker ([C03_replay_sound]) *)
Theorem C03_apply_split_above : forall comp q t0 r m cycles restarts n req t times t',
  check_rule comp q t0 r m cycles restarts = CCert n req ->
  canon_tape t -> same_shape t t0 -> rule_keys_nodup r ->
  apply_rule t r = Ok (Some times, t') ->
  let K := max_covered m req t0 t r times in
  exists k z, (N.to_nat K <= k)%nat /\
    tm_steps (to_prog comp) k (q, unroll_tape t) = Some (q, z) /\
    tape_eq z (unroll_tape (shift_tape_N r K t)) /\
    canon_tape (shift_tape_N r K t) /\
    Shifted r (N.to_nat K) t (shift_tape_N r K t).
Proof. exact apply_split_above. Qed.
Print Assumptions C03_apply_split_above.

(** the tapes run_prover applies a rule to have the SIGNATURE of the tape the
    rule was made on (which blocks have exactly one cell): with those blocks
    pinned and the others >= 2, the complete check [cover_sig] proves the bulk
    application on every canonical tape of that signature *)
Theorem C03_cover_sig_apply_sound : forall comp q r cycles restarts fuel t0,
  cover_sig comp q r cycles restarts fuel t0 = true ->
  forall t times t', canon_tape t -> tape_sig t = tape_sig t0 -> rule_keys_nodup r ->
  apply_rule t r = Ok (Some times, t') ->
  exists n z, (N.to_nat times <= n)%nat /\
    tm_steps (to_prog comp) n (q, unroll_tape t) = Some (q, z) /\
    tape_eq z (unroll_tape t') /\ canon_tape t'.
Proof. exact cover_sig_apply_sound. Qed.
Print Assumptions C03_cover_sig_apply_sound.

(** the hypothesis [apps_valid] of [C03_trace_valid_apps_real] (and of the
    C02 verdict theorems) is decidable-by-certificate *)
Theorem C03_apps_certified_valid : forall comp cycles restarts fuel apps,
  apps_certified comp cycles restarts fuel apps = true -> apps_valid (to_prog comp) apps.
Proof. exact apps_certified_valid. Qed.
Print Assumptions C03_apps_certified_valid.

(** non-vacuity 3: the rule "left block -3, right block +5" of the repo's test
    machine is CERTIFIED: 12 cycles per application, for every tape
    3^a 1^b [3] 2^c with a >= 4, c >= 2; the case c = 1 by a second
    certificate; hence [RuleValid], for all counts. *)
Definition C03_test_rule : rule := [((false, 0), Plus (-3)%Z); ((true, 0), Plus 5%Z)].
Definition C03_test_tape : tape := mkTape 3 [(3, 19); (1, 1)] [(2, 22)].

Example C03_test_rule_certified :
  check_rule C03_test_machine 0 C03_test_tape C03_test_rule mask_all 100 16 = CCert 12 ([4; 1], [2]) /\
  cover C03_test_machine 0 C03_test_rule 100 16
        (guard_bounds 1 mask_all C03_test_rule C03_test_tape) 4 mask_all C03_test_tape = true.
Proof. vm_compute. split; reflexivity. Qed.

Example C03_test_rule_valid : RuleValid (to_prog C03_test_machine) 0 C03_test_rule C03_test_tape.
Proof. exact (C03_cover_rule_valid _ _ _ _ _ _ _ (proj2 C03_test_rule_certified)). Qed.
Print Assumptions C03_test_rule_valid.

(** all 8 applications recorded in 1000 cycles are applications of certified
    rules: [apps_valid] holds, so [C03_trace_valid_apps_real] applies with no
    hypothesis left (at least [times] real steps each, no halt, no spin-out) *)
Example C03_test_machine_apps_certified :
  match run_prover_trace C03_test_machine 1000 with
  | Ok (_, apps) => apps_certified C03_test_machine 100 16 4 apps = true
  | Panic => False
  end.
Proof. vm_compute. reflexivity. Qed.

Example C03_test_machine_apps_valid_real :
  forall r apps, run_prover_trace C03_test_machine 1000 = Ok (r, apps) ->
  forall a, In a apps ->
    exists n z, (N.to_nat (app_times a) <= n)%nat /\
      tm_steps (to_prog C03_test_machine) n (app_state a, unroll_tape (app_before a)) = Some (app_state a, z) /\
      tape_eq z (unroll_tape (app_after a)) /\ canon_tape (app_after a).
Proof.
  intros r apps H a Ha. pose proof C03_test_machine_apps_certified as E. rewrite H in E.
  destruct (C03_trace_valid_apps_real _ _ _ _ H (C03_apps_certified_valid _ _ _ _ _ E) a Ha)
    as (n & z & A & B & C & D & _).
  exists n, z. auto.
Qed.
Print Assumptions C03_test_machine_apps_valid_real.

(** ------------------------------------------------------------------ *)
(** F14 (Proofs/F14Witness.v): the hypothesis [apps_valid] / [RuleValid]
    CANNOT be dropped.  For the faithful model of the unchanged code there is
    a recorded application that is NOT a run of the real machine: program
    [f14_prog] (23 states, 4 colours; text [f14_text]), cycle limit 400.  At
    cycle 43, in state 14 = O, on the tape 1 / 2:6,3:1 / 1:5 (scan / left span /
    right span, nearest block first) the inferred rule "L0 +1, R0 -1" is
    applied 4 times at once, giving 1 / 2:10,3:1 / 1:1.  From the tape before,
    the real machine halts after 28 steps and none of its 29 configurations
    is the configuration after.  The first three single applications are real
    (7 steps each); the fourth, which passes the guard of rules.rs (the
    decreasing block has 2 > 1 cells), is not: one application too many. *)
From BB Require Import F14Witness.

(** the negation of the conclusion of [C03_trace_replayed_apps_real] (no lower
    bound on the number of steps: the weakest of the conclusions above, so
    that of [C03_trace_valid_apps_real] and of [C03_apply_sound] fail too),
    for an application recorded by a run of the model *)
Theorem C03_application_refuted_F14 :
  exists comp lim r apps a,
    run_prover_trace comp lim = Ok (r, apps) /\ In a apps /\
    app_state a = 14 /\
    app_before a = mkTape 1 [(2, 6); (3, 1)] [(1, 5)] /\
    app_rule a = [((false, 0), Plus 1%Z); ((true, 0), Plus (-1)%Z)] /\
    app_times a = 4 /\
    app_after a = mkTape 1 [(2, 10); (3, 1)] [(1, 1)] /\
    apply_rule (app_before a) (app_rule a) = Ok (Some (app_times a), app_after a) /\
    ~ (exists n z, tm_steps (to_prog comp) n (app_state a, unroll_tape (app_before a)) = Some (app_state a, z) /\
                   tape_eq z (unroll_tape (app_after a))).
Proof. exact application_refuted_F14. Qed.
Print Assumptions C03_application_refuted_F14.

(** the same with the data spelled out: after no number of steps is the real
    machine in state 14 on the tape after the application *)
Theorem C03_application_not_real_F14 : forall n z,
  tm_steps (to_prog f14_prog) n (14, unroll_tape (mkTape 1 [(2, 6); (3, 1)] [(1, 5)])) = Some (14, z) ->
  ~ tape_eq z (unroll_tape (mkTape 1 [(2, 10); (3, 1)] [(1, 1)])).
Proof. exact f14_app_not_real. Qed.
Print Assumptions C03_application_not_real_F14.

(** which single application fails: the first three are real (replay checker
    + [C03_replay_sound]); the fourth, 1/2:9,3:1/1:2 -> 1/2:10,3:1/1:1, is an
    instance of the rule on a canonical tape that passes the guard, and is
    not a run of the machine; hence the rule is not [RuleValid] *)
Theorem C03_first_three_applications_real_F14 :
  (exists k z, (1 <= k)%nat /\
     tm_steps (to_prog f14_prog) k (14, unroll_tape f14_t0) = Some (14, z) /\
     tape_eq z (unroll_tape f14_t3)) /\
  Shifted f14_rule 1 f14_t3 f14_t4 /\ rule_guard f14_rule f14_t3 /\ canon_tape f14_t3 /\
  (forall n z, tm_steps (to_prog f14_prog) n (14, unroll_tape f14_t3) = Some (14, z) ->
     ~ tape_eq z (unroll_tape f14_t4)) /\
  ~ RuleValid (to_prog f14_prog) 14 f14_rule f14_t0.
Proof. exact first_three_applications_real_F14. Qed.
Print Assumptions C03_first_three_applications_real_F14.

Theorem C03_rule_invalid_F14 :
  ~ RuleValid (to_prog f14_prog) 14
      [((false, 0), Plus 1%Z); ((true, 0), Plus (-1)%Z)] (mkTape 1 [(2, 6); (3, 1)] [(1, 5)]).
Proof. exact f14_rule_invalid. Qed.
Print Assumptions C03_rule_invalid_F14.

(** the replay checker tells the four single applications apart *)
Example C03_F14_replay :
  replay3 f14_prog 14 f14_t0 14 f14_t1 100 = RpReached 7 /\
  replay3 f14_prog 14 f14_t1 14 f14_t2 100 = RpReached 7 /\
  replay3 f14_prog 14 f14_t2 14 f14_t3 100 = RpReached 7 /\
  replay3 f14_prog 14 f14_t3 14 f14_t4 100 = RpStopped 7 /\
  replay3 f14_prog 14 f14_t0 14 f14_t4 100 = RpStopped 28.
Proof. vm_compute. repeat split; reflexivity. Qed.

(** ------------------------------------------------------------------ *)
(** F16 (Proofs/F16Witness.v): a second recorded application that is NOT a
    run of the real machine, of another kind: the rule is applied once, to a
    tape that is not the machine's.  Program [f16_prog] (22 states, 4
    colours; text [f16_text]), cycle limit 1000.  At cycle 66, in state 5 = F,
    on the tape 1 / 2:1 / 1:4 the rule "R0 -2" is applied once, giving
    1 / 2:1 / 1:2.  From the tape before, the real machine halts after 11
    steps (at slot (20, 2) = U2) and none of its 12 configurations is the
    configuration after; after 2 steps it is in state 5 on 1 / 0:2, 2:1 / 1:2:
    the two zeros it pushed on the left are missing from the claimed tape.
    (The first application, cycle 55, 1 / - / 1:11 -> 1 / - / 1:1, 5 times,
    is real.) *)
From BB Require Import F16Witness.

Theorem C03_application_refuted_F16 :
  exists comp lim r apps a,
    run_prover_trace comp lim = Ok (r, apps) /\ In a apps /\
    app_cycle a = 66 /\
    app_state a = 5 /\
    app_before a = mkTape 1 [(2, 1)] [(1, 4)] /\
    app_rule a = [((true, 0), Plus (-2)%Z)] /\
    app_times a = 1 /\
    app_after a = mkTape 1 [(2, 1)] [(1, 2)] /\
    apply_rule (app_before a) (app_rule a) = Ok (Some (app_times a), app_after a) /\
    ~ (exists n z, tm_steps (to_prog comp) n (app_state a, unroll_tape (app_before a)) = Some (app_state a, z) /\
                   tape_eq z (unroll_tape (app_after a))).
Proof. exact application_refuted_F16. Qed.
Print Assumptions C03_application_refuted_F16.

(** the same with the data spelled out *)
Theorem C03_application_not_real_F16 : forall n z,
  tm_steps (to_prog f16_prog) n (5, unroll_tape (mkTape 1 [(2, 1)] [(1, 4)])) = Some (5, z) ->
  ~ tape_eq z (unroll_tape (mkTape 1 [(2, 1)] [(1, 2)])).
Proof. exact f16_app_not_real. Qed.
Print Assumptions C03_application_not_real_F16.

(** where the machine really is: it reaches the tape with the two zeros
    (after exactly 2 steps), never the claimed one, and halts after 11 steps;
    the replay checker says the same *)
Theorem C03_real_tape_has_zeros_F16 :
  (exists k z, (1 <= k)%nat /\
     tm_steps (to_prog f16_prog) k (5, unroll_tape (mkTape 1 [(2, 1)] [(1, 4)])) = Some (5, z) /\
     tape_eq z (unroll_tape (mkTape 1 [(0, 2); (2, 1)] [(1, 2)]))) /\
  tm_steps (to_prog f16_prog) 2 (5, unroll_tape (mkTape 1 [(2, 1)] [(1, 4)]))
    = Some (5, unroll_tape (mkTape 1 [(0, 2); (2, 1)] [(1, 2)])) /\
  (forall n z, tm_steps (to_prog f16_prog) n (5, unroll_tape (mkTape 1 [(2, 1)] [(1, 4)])) = Some (5, z) ->
     ~ tape_eq z (unroll_tape (mkTape 1 [(2, 1)] [(1, 2)]))) /\
  halts_at (to_prog f16_prog) (5, unroll_tape (mkTape 1 [(2, 1)] [(1, 4)])) 11 (20, 2) /\
  replay3 f16_prog 5 (mkTape 1 [(2, 1)] [(1, 4)]) 5 (mkTape 1 [(2, 1)] [(1, 2)]) 100 = RpStopped 11 /\
  replay3 f16_prog 5 (mkTape 1 [(2, 1)] [(1, 4)]) 5 (mkTape 1 [(0, 2); (2, 1)] [(1, 2)]) 100 = RpReached 2.
Proof. exact real_tape_has_zeros_F16. Qed.
Print Assumptions C03_real_tape_has_zeros_F16.

(** the first recorded application of that run is real *)
Theorem C03_first_application_real_F16 :
  exists k z, (1 <= k)%nat /\
    tm_steps (to_prog f16_prog) k (5, unroll_tape (mkTape 1 [] [(1, 11)])) = Some (5, z) /\
    tape_eq z (unroll_tape (mkTape 1 [] [(1, 1)])).
Proof. exact f16_first_app_real. Qed.
Print Assumptions C03_first_application_real_F16.
