(** C02 — The rule-accelerated run reports true verdicts.
    Final statements only; proofs in Proofs/ProverSound.v (on top of
    RuleSound.v, ReplaySound.v, QuickSim.v, TapeCanon.v, TapeObs.v).

    The rule INFERENCE of [try_rule] is a generalisation, not a theorem.  What
    is proved is everything downstream of it, under the hypothesis that the
    applications made during the run are real:
      [apps_real P apps]  every recorded application leads from the
                          configuration before it to the one after it by real
                          machine steps.
    It holds when every applied rule is valid ([apps_valid], through
    [RuleSound.apply_sound]: theorems [..._given_rules]) and, for a concrete
    run, when the verified replay checker confirms every recorded application
    ([apps_replay_ok], evaluated by the run-time check: then NO hypothesis is
    left, see [C02_test_machine_halts]).  Under it:
      - at every cycle the compressed configuration is one the real machine
        reaches from the blank tape ([C02_reach_invariant]);
      - undfnd: the real machine halts exactly there, at the reported slot;
        spnout: it spins out; in both cases, and for every other verdict, the
        reported marks are those of the real tape at that time;
      - infrul with cycles = 0 (the blank-tape bookkeeping of the loop, NOT
        the InfiniteRule verdict of [try_rule]): the machine never halts.
    Unconditionally: a run that recorded no application and got its verdict
    from the simulator equals the rule-free run [run_quick], hence (C01) the
    cell-by-cell reference: steps, cycles, marks, blanks, slot are the real
    ones; a settled verdict is kept for every larger limit.

    NO theorem is claimed for the verdicts that [try_rule] itself returns
    ([InfiniteRule] -> infrul with cycles >= 1, [MultRule] -> mulrul,
    [ConfigLimit] -> cfglim). *)
From BB Require Import Base TM Ref TapeModel InstrsModel RulesModel MachineModel ProverModel ReplayModel.
From BB Require Import TapeCanon RulesExact RuleSound ReplaySound QuickSim ProverSound.
Open Scope N_scope.

(** the two ways to obtain [apps_real] for the records of a run *)
Theorem C02_apps_valid_real : forall comp lim r apps,
  run_prover_trace comp lim = Ok (r, apps) -> apps_valid (to_prog comp) apps ->
  apps_real (to_prog comp) apps.
Proof. exact trace_valid_real. Qed.
Print Assumptions C02_apps_valid_real.

Theorem C02_apps_replayed_real : forall comp lim r apps fuel,
  run_prover_trace comp lim = Ok (r, apps) -> apps_replay_ok comp fuel apps = true ->
  apps_real (to_prog comp) apps.
Proof. exact trace_replayed_real. Qed.
Print Assumptions C02_apps_replayed_real.

(** (1) the invariant of the run: the compressed configuration is real *)
Theorem C02_reach_invariant : forall comp m s,
  iter_nat m (prover_body comp) prover_init = inl s -> apps_valid (to_prog comp) (ps_apps s) ->
  exists n z, tm_steps (to_prog comp) n init_config = Some (q_state (ps_q s), z) /\
    tape_eq z (unroll_tape (q_tape (ps_q s))) /\ canon_tape (q_tape (ps_q s)).
Proof. exact reach_invariant. Qed.
Print Assumptions C02_reach_invariant.

Theorem C02_reach_invariant_real : forall comp m s,
  iter_nat m (prover_body comp) prover_init = inl s -> apps_real (to_prog comp) (ps_apps s) ->
  exists n z, tm_steps (to_prog comp) n init_config = Some (q_state (ps_q s), z) /\
    tape_eq z (unroll_tape (q_tape (ps_q s))) /\ canon_tape (q_tape (ps_q s)).
Proof. exact reach_invariant_real. Qed.
Print Assumptions C02_reach_invariant_real.

(** (2) undfnd and spnout are true, at the reported slot, with the reported marks *)
Theorem C02_outcome_sound_given_rules : forall comp lim r apps,
  run_prover_trace comp lim = Ok (r, apps) -> apps_valid (to_prog comp) apps ->
  (r_result r = undfnd ->
     exists n q z, tm_steps (to_prog comp) n init_config = Some (q, z) /\
       r_last_slot r = Some (q, zc z) /\
       halts_at (to_prog comp) init_config n (q, zc z) /\ marks_of z = r_marks r) /\
  (r_result r = spnout ->
     exists n q z, tm_steps (to_prog comp) n init_config = Some (q, z) /\
       spinout_cfg (to_prog comp) (q, z) /\
       spins_out_at (to_prog comp) init_config n /\ marks_of z = r_marks r).
Proof. exact outcome_sound_given_rules. Qed.
Print Assumptions C02_outcome_sound_given_rules.

Theorem C02_outcome_sound_given_real : forall comp lim r apps,
  run_prover_trace comp lim = Ok (r, apps) -> apps_real (to_prog comp) apps ->
  (r_result r = undfnd ->
     exists n q z, tm_steps (to_prog comp) n init_config = Some (q, z) /\
       r_last_slot r = Some (q, zc z) /\
       halts_at (to_prog comp) init_config n (q, zc z) /\ marks_of z = r_marks r) /\
  (r_result r = spnout ->
     exists n q z, tm_steps (to_prog comp) n init_config = Some (q, z) /\
       spinout_cfg (to_prog comp) (q, z) /\
       spins_out_at (to_prog comp) init_config n /\ marks_of z = r_marks r).
Proof. exact outcome_sound_given_real. Qed.
Print Assumptions C02_outcome_sound_given_real.

(** whatever the verdict (also at the limit), the reported marks are those of
    a tape the real machine reaches *)
Theorem C02_marks_real_given_rules : forall comp lim r apps,
  run_prover_trace comp lim = Ok (r, apps) -> apps_valid (to_prog comp) apps ->
  exists n q z, tm_steps (to_prog comp) n init_config = Some (q, z) /\ marks_of z = r_marks r.
Proof. exact marks_real_given_rules. Qed.
Print Assumptions C02_marks_real_given_rules.

(** (3) infrul from the blank-tape bookkeeping (cycles field 0): a
    configuration (state, blank tape) has occurred twice, the machine never
    halts.  The InfiniteRule verdict of try_rule (cycles >= 1: try_rule is
    silent at cycle 0) is NOT covered. *)
Theorem C02_blank_infrul_sound : forall comp lim r apps,
  run_prover_trace comp lim = Ok (r, apps) -> apps_valid (to_prog comp) apps ->
  r_result r = infrul -> r_cycles r = 0 -> never_halts (to_prog comp) init_config.
Proof. exact blank_infrul_sound. Qed.
Print Assumptions C02_blank_infrul_sound.

Theorem C02_blank_infrul_sound_real : forall comp lim r apps,
  run_prover_trace comp lim = Ok (r, apps) -> apps_real (to_prog comp) apps ->
  r_result r = infrul -> r_cycles r = 0 -> never_halts (to_prog comp) init_config.
Proof. exact blank_infrul_sound_real. Qed.
Print Assumptions C02_blank_infrul_sound_real.

(** (4) no rule applied, verdict not from try_rule: the whole result record is
    that of the rule-free simulator (a rule that [try_rule] proposes but
    [apply_rule] declines counts as "not applied") ... *)
Theorem C02_norule_exact : forall comp lim r,
  run_prover comp lim = Ok r -> r_rulapp r = 0 ->
  (r_result r = undfnd \/ r_result r = spnout \/ r_result r = xlimit \/
   (r_result r = infrul /\ r_cycles r = 0)) ->
  r = run_quick comp lim.
Proof. exact norule_exact. Qed.
Print Assumptions C02_norule_exact.

(** ... and so its steps, marks, blanks, slot are those of the cell-by-cell machine *)
Theorem C02_norule_eq_ref : forall comp lim r,
  run_prover comp lim = Ok r -> r_rulapp r = 0 ->
  (r_result r = undfnd \/ r_result r = spnout \/ r_result r = xlimit \/
   (r_result r = infrul /\ r_cycles r = 0)) ->
  (r_result r <> xlimit ->
     forall L, r_steps r < L ->
       let rr := ref_run (to_prog comp) L in
       rr_result rr = r_result r /\ rr_steps rr = r_steps r /\ rr_marks rr = r_marks r /\
       rr_blanks rr = r_blanks r /\ rr_last_slot rr = r_last_slot r) /\
  (r_result r = xlimit ->
     let rr := ref_run (to_prog comp) (r_steps r) in
       rr_result rr = xlimit /\ rr_steps rr = r_steps r /\ rr_marks rr = r_marks r /\
       rr_blanks rr = r_blanks r /\ rr_last_slot rr = r_last_slot r /\ lim <= r_steps r).
Proof. exact norule_eq_ref. Qed.
Print Assumptions C02_norule_eq_ref.

(** [rulapp = 0] iff nothing was recorded: an application applies the rule at least once *)
Theorem C02_rulapp_zero_no_apps : forall comp lim r apps,
  run_prover_trace comp lim = Ok (r, apps) -> r_rulapp r = 0 -> apps = [].
Proof. exact rulapp_zero_no_apps. Qed.
Print Assumptions C02_rulapp_zero_no_apps.

(** (5) a settled answer is kept for every larger limit (also C15) *)
Theorem C02_prover_mono : forall comp n m r,
  run_prover comp n = Ok r -> r_result r <> xlimit -> n <= m -> run_prover comp m = Ok r.
Proof. exact prover_mono. Qed.
Print Assumptions C02_prover_mono.

(** ---- non-vacuity ---- *)
(** the repo's own test machine (pinned by test_prover of /repo) *)
Definition C02_test_machine : comp_prog :=
  [((0,0),(1,true,1)); ((0,1),(2,false,0)); ((0,2),(1,true,0)); ((0,3),(1,true,0));
   ((1,0),(1,false,1)); ((1,1),(1,false,0)); ((1,2),(3,true,1))].

Example C02_test_machine_run :
  run_prover C02_test_machine 1000 =
  Ok (mkRes undfnd 36686 397 2050 987 [] (Some (1, 3))).
Proof. vm_compute. reflexivity. Qed.

(** ... for which the whole chain closes with NO hypothesis: the eight
    recorded applications are confirmed by the replay checker, hence the real
    machine halts at slot (1, 3) = B3 with 2050 marks on the tape. *)
Example C02_test_machine_halts :
  exists n z, tm_steps (to_prog C02_test_machine) n init_config = Some (1, z) /\ zc z = 3 /\
    halts_at (to_prog C02_test_machine) init_config n (1, 3) /\ marks_of z = 2050.
Proof.
  destruct (run_prover_trace C02_test_machine 1000) as [|[r apps]] eqn:E; [vm_compute in E; discriminate E|].
  assert (Hrp : apps_replay_ok C02_test_machine 5000 apps = true).
  { vm_compute in E. injection E as <- <-. vm_compute. reflexivity. }
  pose proof (C02_apps_replayed_real _ _ _ _ _ E Hrp) as HR.
  destruct (C02_outcome_sound_given_real _ _ _ _ E HR) as (Hu & _).
  assert (Er : r_result r = undfnd /\ r_last_slot r = Some (1, 3) /\ r_marks r = 2050).
  { vm_compute in E. injection E as <- _. repeat split. }
  destruct Er as (E1 & E2 & E3).
  destruct (Hu E1) as (n & q & z & Hrun & Hls & Hh & Hm).
  rewrite E2 in Hls. injection Hls as <- Hz. exists n, z. rewrite <- Hz in Hh. rewrite E3 in Hm. auto.
Qed.
Print Assumptions C02_test_machine_halts.

(** blank-tape infrul: "0RB ...  0LA ..." returns to the blank tape in state A;
    cycles = 0, no application, and the theorem gives [never_halts] *)
Example C02_blank_infrul_instance :
  let comp := [((0,0),(0,true,1)); ((1,0),(0,false,0))] in
  run_prover_trace comp 100 = Ok (mkRes infrul 2 0 0 0 [(0, 2); (1, 1)] None, []) /\
  never_halts (to_prog comp) init_config.
Proof.
  cbv zeta. assert (E : run_prover_trace [((0,0),(0,true,1)); ((1,0),(0,false,0))] 100
                        = Ok (mkRes infrul 2 0 0 0 [(0, 2); (1, 1)] None, [])) by (vm_compute; reflexivity).
  split; [exact E|]. apply (C02_blank_infrul_sound_real _ _ _ _ E); [intros a []|reflexivity|reflexivity].
Qed.

(** ... whereas the InfiniteRule verdict of try_rule comes with cycles >= 1
    ("1RB 1LA  1LA 1RB": infrul at cycle 19, no rule applied) *)
Example C02_try_rule_infrul_has_cycles :
  run_prover [((0,0),(1,true,1)); ((0,1),(1,false,0)); ((1,0),(1,false,0)); ((1,1),(1,true,1))] 1000
  = Ok (mkRes infrul 55 19 10 0 [] None).
Proof. vm_compute. reflexivity. Qed.

(** rule-free runs: undefined slot, spin-out, limit; equal to run_quick *)
Example C02_norule_instances :
  let halt := [((0,0),(1,true,1))] in
  let spin := [((0,0),(1,true,1)); ((0,1),(1,false,1)); ((1,0),(0,true,1)); ((1,1),(1,true,0))] in
  let lim := [((0,0),(1,true,1)); ((0,1),(0,false,1)); ((1,0),(1,false,0)); ((1,1),(0,true,0))] in
  run_prover halt 100 = Ok (mkRes undfnd 1 1 1 0 [] (Some (1, 0))) /\
  run_prover halt 100 = Ok (run_quick halt 100) /\
  run_prover spin 100 = Ok (mkRes spnout 1 1 1 0 [] None) /\
  run_prover spin 100 = Ok (run_quick spin 100) /\
  run_prover lim 1000 = Ok (mkRes xlimit 1000 0 32 0 [] None) /\
  run_prover lim 1000 = Ok (run_quick lim 1000).
Proof. vm_compute. repeat split; reflexivity. Qed.

(** monotonicity instance: the verdict at limit 1000 is the verdict at limit 10^6 *)
Example C02_mono_instance :
  run_prover C02_test_machine 1000000 = Ok (mkRes undfnd 36686 397 2050 987 [] (Some (1, 3))).
Proof.
  apply (C02_prover_mono C02_test_machine 1000 1000000);
    [exact C02_test_machine_run|discriminate|vm_compute; discriminate].
Qed.

(** ------------------------------------------------------------------ *)
(** F14 (Proofs/F14Witness.v): the hypothesis on the applications CANNOT be
    dropped.  For the faithful model of the unchanged code there is a run
    whose verdict is false: the 23-state 4-colour program [f14_prog] (text
    [f14_text]), cycle limit 400.  [run_prover] answers undfnd at slot
    (16, 0) = Q0 with rulapp 4 (one bulk application, 4 times the inferred
    rule "L0 +1, R0 -1" in state O: the last of the four is one too many, see
    C03_application_refuted_F14); the cell-by-cell machine halts at slot
    (14, 0) = O0 after 79 steps, and - it halts only once - never at (16, 0). *)
From BB Require Import F14Witness.

(** the witness, in full *)
Theorem C02_F14_witness :
  from_str f14_text = Some f14_prog /\
  run_prover f14_prog 400 = Ok (mkRes undfnd 53 46 13 4 [] (Some (16, 0))) /\
  halts_at (to_prog f14_prog) init_config 79 (14, 0) /\
  (forall n sl, halts_at (to_prog f14_prog) init_config n sl -> n = 79%nat /\ sl = (14, 0)) /\
  (forall n, ~ halts_at (to_prog f14_prog) init_config n (16, 0)).
Proof.
  exact (conj f14_prog_text (conj f14_model_run (conj f14_real_halt
          (conj f14_real_halt_only f14_real_never_halts_at_reported_slot)))).
Qed.
Print Assumptions C02_F14_witness.

(** the negation of the undfnd clause of [C02_outcome_sound_given_rules] /
    [C02_outcome_sound_given_real], for a run of the model *)
Theorem C02_verdict_refuted_F14 :
  exists comp lim r apps,
    run_prover_trace comp lim = Ok (r, apps) /\ r_result r = undfnd /\
    ~ (exists n q z, tm_steps (to_prog comp) n init_config = Some (q, z) /\
         r_last_slot r = Some (q, zc z) /\
         halts_at (to_prog comp) init_config n (q, zc z) /\ marks_of z = r_marks r).
Proof. exact verdict_refuted_F14. Qed.
Print Assumptions C02_verdict_refuted_F14.

(** in plain words: undfnd is reported at a slot where the real machine never
    halts, while it does halt, at another slot *)
Theorem C02_verdict_slot_refuted_F14 :
  exists comp lim r sl n' sl',
    run_prover comp lim = Ok r /\ r_result r = undfnd /\ r_last_slot r = Some sl /\
    (forall n, ~ halts_at (to_prog comp) init_config n sl) /\
    halts_at (to_prog comp) init_config n' sl' /\ sl' <> sl.
Proof. exact verdict_slot_refuted_F14. Qed.
Print Assumptions C02_verdict_slot_refuted_F14.

(** so the undfnd clause, stated without hypothesis on the applications, is false *)
Theorem C02_outcome_unconditional_refuted_F14 :
  ~ (forall comp lim r apps,
       run_prover_trace comp lim = Ok (r, apps) -> r_result r = undfnd ->
       exists n q z, tm_steps (to_prog comp) n init_config = Some (q, z) /\
         r_last_slot r = Some (q, zc z) /\
         halts_at (to_prog comp) init_config n (q, zc z) /\ marks_of z = r_marks r).
Proof. exact outcome_unconditional_refuted_F14. Qed.
Print Assumptions C02_outcome_unconditional_refuted_F14.

(** and both hypotheses of the conditional theorems fail for that run *)
Theorem C02_hypotheses_fail_F14 : forall r apps,
  run_prover_trace f14_prog 400 = Ok (r, apps) ->
  ~ apps_real (to_prog f14_prog) apps /\ ~ apps_valid (to_prog f14_prog) apps.
Proof. exact f14_apps_not_real. Qed.
Print Assumptions C02_hypotheses_fail_F14.

(** ------------------------------------------------------------------ *)
(** F16 (Proofs/F16Witness.v): the same for the spnout clause.  For the
    faithful model of the unchanged code, the 22-state 4-colour program
    [f16_prog] (text [f16_text]), cycle limit 1000: [run_prover] answers
    spnout (steps 153, cycles 75, marks 1, rulapp 6: two recorded
    applications of the inferred rule "R0 -2" in state 5 = F, the second on a
    tape that has lost two zeros the machine pushed on the left, see
    C03_application_refuted_F16); the cell-by-cell machine halts at slot
    (20, 2) = U2 after 166 steps, and none of its 167 configurations is a
    spin-out configuration: it never spins out. *)
From BB Require Import F16Witness.

(** the witness, in full *)
Theorem C02_F16_witness :
  from_str f16_text = Some f16_prog /\
  run_prover f16_prog 1000 = Ok (mkRes spnout 153 75 1 6 [(5, 134)] None) /\
  halts_at (to_prog f16_prog) init_config 166 (20, 2) /\
  (forall n sl, halts_at (to_prog f16_prog) init_config n sl -> n = 166%nat /\ sl = (20, 2)) /\
  (forall n, (166 < n)%nat -> tm_steps (to_prog f16_prog) n init_config = None) /\
  never_spins_out (to_prog f16_prog) init_config /\
  (forall n, ~ spins_out_at (to_prog f16_prog) init_config n).
Proof.
  exact (conj f16_prog_text (conj f16_model_run (conj f16_real_halt
          (conj f16_real_halt_only (conj f16_real_no_config_after
          (conj f16_real_never_spins_out f16_real_no_spinout_event)))))).
Qed.
Print Assumptions C02_F16_witness.

(** spnout is claimed; the real machine halts and never spins out: the
    negation of the spnout clause of [C02_outcome_sound_given_rules] /
    [C02_outcome_sound_given_real], for a run of the model *)
Theorem C02_verdict_refuted_F16 :
  exists comp lim r apps n' sl',
    run_prover_trace comp lim = Ok (r, apps) /\ r_result r = spnout /\
    halts_at (to_prog comp) init_config n' sl' /\
    never_spins_out (to_prog comp) init_config /\
    ~ (exists n q z, tm_steps (to_prog comp) n init_config = Some (q, z) /\
         spinout_cfg (to_prog comp) (q, z) /\
         spins_out_at (to_prog comp) init_config n /\ marks_of z = r_marks r).
Proof. exact verdict_refuted_F16. Qed.
Print Assumptions C02_verdict_refuted_F16.

(** so the spnout clause, stated without hypothesis on the applications, is false *)
Theorem C02_outcome_unconditional_refuted_F16 :
  ~ (forall comp lim r apps,
       run_prover_trace comp lim = Ok (r, apps) -> r_result r = spnout ->
       exists n q z, tm_steps (to_prog comp) n init_config = Some (q, z) /\
         spinout_cfg (to_prog comp) (q, z) /\
         spins_out_at (to_prog comp) init_config n /\ marks_of z = r_marks r).
Proof. exact outcome_unconditional_refuted_F16. Qed.
Print Assumptions C02_outcome_unconditional_refuted_F16.

(** and both hypotheses of the conditional theorems fail for that run *)
Theorem C02_hypotheses_fail_F16 : forall r apps,
  run_prover_trace f16_prog 1000 = Ok (r, apps) ->
  ~ apps_real (to_prog f16_prog) apps /\ ~ apps_valid (to_prog f16_prog) apps.
Proof. exact f16_apps_not_real. Qed.
Print Assumptions C02_hypotheses_fail_F16.
