(** C01 — Run-length simulator equals cell-by-cell Turing machine semantics.
    Final statements only; proofs in Proofs/StepSim.v and Proofs/QuickSim.v. *)
From BB Require Import Base TM Ref TapeModel InstrsModel MachineModel.
From BB Require Import TapeCanon TapeObs StepSim Loops QuickSim.

(** One compressed step = [stepped] cell moves; during a sweep every
    intermediate scanned cell is the original scanned colour (so the same
    instruction applies).  For every tape with positive block counts, every
    direction, colour and sweep flag. *)
Theorem C01_step_unroll : forall t sh pr skip t' stepped,
  counts_pos_tape t -> step t sh pr skip = (t', stepped) ->
  exists j, N.to_nat stepped = S j /\
    tape_eq (unroll_tape t') (mv_n (S j) sh pr (unroll_tape t)) /\
    (forall i, (i < j)%nat -> cell (side sh (unroll_tape t)) i = scan t) /\
    counts_pos_tape t' /\
    (j <> O -> exists c n rest, (if sh then rspan t else lspan t) = (c, n) :: rest
                               /\ c = scan t /\ N.to_nat n = j).
Proof. exact step_unroll. Qed.
Print Assumptions C01_step_unroll.

(** For every program and every cycle limit: same termination kind, base
    step count, marks, blank record and halting slot as the reference. *)
Theorem C01_quick_eq_ref : forall comp n,
  let P := to_prog comp in
  let r := run_quick comp n in
  (r_result r <> xlimit ->
     forall L, r_steps r < L ->
       let rr := ref_run P L in
       rr_result rr = r_result r /\ rr_steps rr = r_steps r /\ rr_marks rr = r_marks r /\
       rr_blanks rr = r_blanks r /\ rr_last_slot rr = r_last_slot r) /\
  (r_result r = xlimit ->
     let rr := ref_run P (r_steps r) in
       rr_result rr = xlimit /\ rr_steps rr = r_steps r /\ rr_marks rr = r_marks r /\
       rr_blanks rr = r_blanks r /\ rr_last_slot rr = r_last_slot r /\ n <= r_steps r).
Proof. exact quick_eq_ref. Qed.
Print Assumptions C01_quick_eq_ref.

(** At every intermediate cycle the compressed tape unrolls to the real
    tape contents reached after [steps] base steps. *)
Theorem C01_cycle_unrolls : forall comp m s,
  iter_nat m (quick_body comp) q_init = inl s ->
  exists z, tm_steps (to_prog comp) (N.to_nat (q_steps s)) init_config = Some (q_state s, z) /\
            tape_eq z (unroll_tape (q_tape s)) /\ canon_tape (q_tape s) /\ q_cycle s = N.of_nat m.
Proof. exact quick_cycle_unrolls. Qed.
Print Assumptions C01_cycle_unrolls.

(** the loop of run_quick is [iter_nat] of [quick_body] *)
Theorem C01_run_quick_is_iter : forall comp n,
  run_quick comp n = finish 0 (iter_nat (N.to_nat n) (quick_body comp) q_init).
Proof. intros. unfold run_quick. rewrite for_upto_iter. reflexivity. Qed.
Print Assumptions C01_run_quick_is_iter.

(** non-vacuity: a 2-state machine that sweeps; 9 cycles are 15 base steps *)
Example C01_nonvacuous :
  let comp := [((0,0),(1,true,1)); ((0,1),(1,false,0)); ((1,0),(1,false,0)); ((1,1),(1,true,1))] in
  let r := run_quick comp 9 in
  r_result r = xlimit /\ r_steps r = 15 /\ r_cycles r = 0 /\ r_marks r = 5 /\
  rr_marks (ref_run (to_prog comp) 15) = 5.
Proof. vm_compute. repeat split; reflexivity. Qed.
