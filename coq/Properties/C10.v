(** C10 — the tree generator emits exactly the programs of the specification
    [Gen] (Spec/TreeSpec.v), each once, whatever the scheduling of the
    first-level tasks.  Only final statements here; proofs are in
    Proofs/TreeEnum.v.

    What the scheduling theorem covers and what it does not: the model runs
    the first-level tasks one after the other.  [C10_schedule_indep] shows
    that what each task hands to the harvester ([subtree_seq]) is a function
    of the task's own inputs only ([C10_task_accumulator]: it does not depend
    on what is already in the shared vector), so that ANY order of the tasks
    and ANY interleaving of their pushes yields a permutation of the
    sequential result.  Real rayon scheduling, the [Mutex] around the shared
    vector and [Arc::try_unwrap] are outside the model: the only thing that
    could make the result schedule dependent is shared mutable state between
    tasks, and there is none in tree.rs (every task owns its [CompProg] and
    tape; the harvester is the only shared object).  The runtime part is
    exercised by props/C10.py with 1..16 worker threads, not proved. *)
From BB Require Import Base InstrsModel TapeModel TreeModel TreeSpec TreeEnum.

(** soundness and completeness against the inductive specification *)
Theorem C10_sound_complete : forall params halt lim progs,
  build_tree params halt lim = Ok progs -> forall p, In p progs <-> Gen params halt lim p.
Proof. exact tree_sound_complete. Qed.
Print Assumptions C10_sound_complete.

(** no program is emitted twice (programs are sorted association lists:
    equal programs are equal lists) *)
Theorem C10_nodup : forall params halt lim progs,
  build_tree params halt lim = Ok progs -> NoDup progs.
Proof. exact tree_nodup. Qed.
Print Assumptions C10_nodup.

(** ... and not only as lists: any two entries of the result differ as
    tables, at some slot *)
Theorem C10_nodup_tables : forall params halt lim progs,
  build_tree params halt lim = Ok progs ->
  ForallOrdPairs (fun p q => exists k, cp_get p k <> cp_get q k) progs.
Proof. exact tree_nodup_tables. Qed.
Print Assumptions C10_nodup_tables.

(** any order of the first-level tasks, any interleaving of their harvests *)
Theorem C10_schedule_indep : forall params halt lim progs,
  build_tree params halt lim = Ok progs ->
  forall order, Permutation order (make_instrs (N.min 3 (fst params)) (N.min 3 (snd params))) ->
  forall merged, IsInterleaving merged (map (subtree_seq params halt lim) order) ->
  Permutation merged progs.
Proof. exact tree_schedule_indep. Qed.
Print Assumptions C10_schedule_indep.

(** what a task (and any sub-branch) adds does not depend on the accumulator *)
Theorem C10_task_accumulator : forall params halt lim i acc r,
  build_subtree params halt lim i acc = Ok r ->
  exists h, r = h ++ acc /\ forall acc', build_subtree params halt lim i acc' = Ok (h ++ acc').
Proof. exact build_subtree_acc. Qed.
Print Assumptions C10_task_accumulator.

Theorem C10_branch_accumulator : forall fuel i prog st tp lim avail params rem acc r,
  branch fuel i prog st tp lim avail params rem acc = Ok r ->
  exists h, r = h ++ acc /\ forall acc', branch fuel i prog st tp lim avail params rem acc' = Ok (h ++ acc').
Proof. exact branch_acc. Qed.
Print Assumptions C10_branch_accumulator.

(** tree normal form: A0 = 1RB ... *)
Theorem C10_tnf : forall params halt lim progs,
  build_tree params halt lim = Ok progs -> forall p, In p progs -> cp_get p (0, 0) = Some (1, true, 1).
Proof. exact tree_A0. Qed.
Print Assumptions C10_tnf.

(** ... and every state other than A that occurs (as the state of a defined
    slot or as a target) is entered from a lower state (used by C14) *)
Theorem C10_tnf_order : forall params halt lim progs,
  build_tree params halt lim = Ok progs ->
  forall p, In p progs -> forall s, 0 < s -> state_mentioned p s -> entered_from_lower p s.
Proof. exact tree_tnf_order. Qed.
Print Assumptions C10_tnf_order.

(** no panic: the fuel of the model suffices, the instruction list is never
    empty, the slot budget never underflows.  True precondition: the budget
    S*C - 2 - halt is at least 1 and S*C fits u64. *)
Theorem C10_no_panic_gen : forall ns nc (halt : bool) lim,
  (if halt then 4 else 3) <= ns * nc -> ns * nc <= u64_max ->
  build_tree (ns, nc) halt lim <> Panic.
Proof. exact tree_no_panic_gen. Qed.
Print Assumptions C10_no_panic_gen.

Theorem C10_no_panic : forall ns nc halt lim,
  2 <= ns -> 2 <= nc -> ns * nc <= 2 ^ 32 -> build_tree (ns, nc) halt lim <> Panic.
Proof. exact tree_no_panic. Qed.
Print Assumptions C10_no_panic.

(** the informal reading of the ingredients of [Gen] *)
Theorem C10_make_instrs_spec : forall s c co sh tr,
  In (co, sh, tr) (make_instrs s c) <-> co < c /\ tr < s.
Proof. exact make_instrs_spec. Qed.
Print Assumptions C10_make_instrs_spec.

Theorem C10_make_instrs_nodup : forall s c, NoDup (make_instrs s c).
Proof. exact make_instrs_nodup. Qed.
Print Assumptions C10_make_instrs_nodup.

Theorem C10_update_avail_spec : forall a m x y,
  (a < m /\ 1 + N.max x y = a -> update_avail a m x y = a + 1) /\
  (~ (a < m /\ 1 + N.max x y = a) -> update_avail a m x y = a).
Proof. exact update_avail_spec. Qed.
Print Assumptions C10_update_avail_spec.

(** the filter named in [Gen] is the filter of the code's [leaf] *)
Theorem C10_leaf_filter : forall prog params acc,
  (mentions_last params prog -> leaf prog params acc = prog :: acc) /\
  (~ mentions_last params prog -> leaf prog params acc = acc).
Proof. exact leaf_spec. Qed.
Print Assumptions C10_leaf_filter.

(** non-vacuity: the 2x2 tree with a halt slot at limit 10 has 36 programs,
    among them the 2-state champion 1RB 1LB 1LA ...; the 3x2 tree recurses
    three levels deep and has 3129 *)
Example C10_nonvacuous :
  exists progs,
    build_tree (2, 2) true 10 = Ok progs /\ length progs = 36%nat /\
    Gen (2, 2) true 10 [((0, 0), (1, true, 1)); ((0, 1), (1, false, 1)); ((1, 0), (1, false, 0))].
Proof.
  destruct (build_tree (2, 2) true 10) as [|progs] eqn:E;
    [exfalso; apply (C10_no_panic 2 2 true 10); [lia|lia|vm_compute; discriminate|exact E]|].
  exists progs. split; [reflexivity|].
  pose proof (C10_sound_complete _ _ _ _ E) as SC.
  assert (E' : build_tree (2, 2) true 10 = Ok progs) by exact E.
  vm_compute in E. inversion E; subst progs. split; [reflexivity|].
  apply SC. cbn [In]. tauto.
Qed.

Example C10_nonvacuous_3x2 :
  exists progs, build_tree (3, 2) true 10 = Ok progs /\ length progs = 3129%nat /\ NoDup progs.
Proof.
  destruct (build_tree (3, 2) true 10) as [|progs] eqn:E;
    [exfalso; apply (C10_no_panic 3 2 true 10); [lia|lia|vm_compute; discriminate|exact E]|].
  exists progs. split; [reflexivity|]. split; [|exact (C10_nodup _ _ _ _ E)].
  assert (L : match build_tree (3, 2) true 10 with Ok l => length l | Panic => 0%nat end = 3129%nat)
    by (vm_compute; reflexivity).
  rewrite E in L. exact L.
Qed.
