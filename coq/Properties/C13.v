(** C13 — Program text round trip.
    Parsing a well-formed program text and printing it again with its table
    size gives back the same text, printing a compiled table and parsing it
    gives back the same table, and the same holds for single instructions,
    slots and state letters; parsing puts every instruction at the slot given
    by its row and column.
    This file contains only the final statements; proofs are in
    Proofs/InstrsRoundTrip.v.  Strings are lists of code points; the outer
    [option] of [show]/[from_str]/[read_*]/[show_*] is a Rust panic. *)
From BB Require Import Base InstrsModel InstrsRoundTrip.

(** table -> text -> table *)
Theorem C13_show_parse : forall S C tbl,
  1 <= S <= 26 -> 1 <= C <= 10 -> table_ok S C tbl ->
  exists txt, show tbl (Some (S, C)) = Some txt /\ from_str txt = Some tbl.
Proof. intros S C tbl [HS _] [HC _]. exact (show_parse S C tbl HS HC). Qed.
Print Assumptions C13_show_parse.

(** what [show] prints is a text of the grammar *)
Theorem C13_show_well_formed : forall S C tbl,
  table_ok S C tbl ->
  exists txt, show tbl (Some (S, C)) = Some txt /\ well_formed_text S C txt.
Proof. exact show_well_formed. Qed.
Print Assumptions C13_show_well_formed.

(** text -> table -> text *)
Theorem C13_parse_show : forall S C txt,
  1 <= S <= 26 -> 1 <= C <= 10 -> well_formed_text S C txt ->
  exists tbl, from_str txt = Some tbl /\ show tbl (Some (S, C)) = Some txt.
Proof. intros S C txt [HS _] [HC _]. exact (parse_show S C txt HS HC). Qed.
Print Assumptions C13_parse_show.

(** the parsed table is a legal BTreeMap content within the size *)
Theorem C13_parse_table_ok : forall S C txt,
  1 <= S <= 26 -> 1 <= C <= 10 -> well_formed_text S C txt ->
  exists tbl, from_str txt = Some tbl /\ table_ok S C tbl.
Proof. intros S C txt [HS _] [HC _]. exact (parse_table_ok S C txt HS HC). Qed.
Print Assumptions C13_parse_table_ok.

(** the token of row [r], column [c] ends up at slot [(r, c)] (and nothing else
    does: outside the matrix [nth] gives [None]) *)
Theorem C13_parse_places : forall S C rows,
  1 <= S <= 26 -> 1 <= C <= 10 -> matrix_okb S C rows = true ->
  exists tbl, from_str (text_of rows) = Some tbl /\
    forall r c : nat, cp_get tbl (N.of_nat r, N.of_nat c) = nth c (nth r rows []) None.
Proof. intros S C rows [HS _] [HC _]. exact (parse_places S C rows HS HC). Qed.
Print Assumptions C13_parse_places.

(** single instructions, both directions *)
Theorem C13_instr_rt :
  (forall o, oinstr_okb o = true ->
     exists tok, show_instr o = Some tok /\ read_instr tok = Some o) /\
  (forall tok, instr_tokb tok = true ->
     exists o, read_instr tok = Some o /\ show_instr o = Some tok).
Proof. split; [exact instr_rt_show_read|exact instr_rt_read_show]. Qed.
Print Assumptions C13_instr_rt.

(** slots *)
Theorem C13_slot_rt :
  (forall s c, s <= 25 -> c <= 9 ->
     exists tok, show_slot (s, c) = Some tok /\ read_slot tok = Some (s, c)) /\
  (forall tok, slot_tokb tok = true ->
     exists sl, read_slot tok = Some sl /\ show_slot sl = Some tok).
Proof. split; [exact slot_rt_show_read|exact slot_rt_read_show]. Qed.
Print Assumptions C13_slot_rt.

(** state letters *)
Theorem C13_state_rt :
  (forall s, s <= 25 -> exists ch, show_state s = Some ch /\ read_state ch = Some s) /\
  (forall ch, is_upper ch = true -> exists s, read_state ch = Some s /\ show_state s = Some ch).
Proof. split; [exact state_rt_show_read|exact state_rt_read_show]. Qed.
Print Assumptions C13_state_rt.

(** [show] without a size: one more than the largest state / colour mentioned
    in a key or an instruction, and never less than 2 x 2 *)
Theorem C13_show_none_params : forall tbl,
  show tbl None =
  show tbl (Some (1 + max_list 1 (states_of tbl), 1 + max_list 1 (colours_of tbl))).
Proof. exact show_none_params. Qed.
Print Assumptions C13_show_none_params.

(** hence text -> table -> text without a size, exactly when the text's size
    is the inferred one *)
Theorem C13_parse_show_none : forall S C txt,
  1 <= S <= 26 -> 1 <= C <= 10 -> well_formed_text S C txt ->
  exists tbl, from_str txt = Some tbl /\
    (1 + max_list 1 (states_of tbl) = S -> 1 + max_list 1 (colours_of tbl) = C ->
     show tbl None = Some txt).
Proof. intros S C txt [HS _] [HC _]. exact (parse_show_none S C txt HS HC). Qed.
Print Assumptions C13_parse_show_none.

(** ---- non-vacuity ---- *)
(** "1RB ...  1LA 0RB" *)
Example C13_nonvacuous :
  let rows := [[Some (1, true, 1); None]; [Some (1, false, 0); Some (0, true, 1)]] in
  let txt := [49; 82; 66; 32; 46; 46; 46; 32; 32; 49; 76; 65; 32; 48; 82; 66] in
  let tbl := [((0, 0), (1, true, 1)); ((1, 0), (1, false, 0)); ((1, 1), (0, true, 1))] in
  matrix_okb 2 2 rows = true /\ text_of rows = txt /\ well_formed_text 2 2 txt /\
  table_ok 2 2 tbl /\ from_str txt = Some tbl /\ show tbl (Some (2, 2)) = Some txt /\
  show tbl None = Some txt /\ cp_get tbl (1, 1) = Some (0, true, 1) /\ cp_get tbl (0, 1) = None.
Proof.
  cbv zeta. repeat split; try (vm_compute; reflexivity).
  exists [[Some (1, true, 1); None]; [Some (1, false, 0); Some (0, true, 1)]].
  split; vm_compute; reflexivity.
Qed.

(** the hypotheses are met at the largest size too: a full 26 x 10 table *)
Example C13_nonvacuous_26x10 :
  let rows := map (fun s => map (fun c => if (s + c) mod 7 =? 0 then None
                                          else Some (c, (s + c) mod 2 =? 0, (s * 7 + c) mod 26))
                                (range 0 10)) (range 0 26) in
  matrix_okb 26 10 rows = true /\ table_ok 26 10 (table_of rows) /\
  from_str (text_of rows) = Some (table_of rows) /\
  show (table_of rows) (Some (26, 10)) = Some (text_of rows) /\
  length (table_of rows) = 224%nat.
Proof. cbv zeta. repeat split; vm_compute; reflexivity. Qed.

(** all 521 instruction tokens, 260 slot tokens and 26 letters, by computation *)
Definition all_instr_tokens : list str :=
  [ch_dot; ch_dot; ch_dot] ::
  flat_map (fun d => flat_map (fun sh => map (fun l => [d; sh; l]) (range 65 91)) [ch_L; ch_R])
           (range 48 58).
Definition all_slot_tokens : list str :=
  flat_map (fun l => map (fun d => [l; d]) (range 48 58)) (range 65 91).
Example C13_tokens_by_computation :
  length all_instr_tokens = 521%nat /\ forallb instr_tokb all_instr_tokens = true /\
  forallb (fun tok => match read_instr tok with
                      | Some o => match show_instr o with
                                  | Some t => forallb2_eq t tok
                                  | None => false end
                      | None => false end) all_instr_tokens = true /\
  length all_slot_tokens = 260%nat /\ forallb slot_tokb all_slot_tokens = true /\
  forallb (fun tok => match read_slot tok with
                      | Some sl => match show_slot sl with
                                   | Some t => forallb2_eq t tok
                                   | None => false end
                      | None => false end) all_slot_tokens = true.
Proof. repeat split; vm_compute; reflexivity. Qed.

(** quirks of the code, recorded by computation (none is inside the property's range):
    - a 1-state text does not survive [show] without a size (at least 2 x 2 is printed);
    - colour 10 prints as two characters and re-parses as something else, silently;
    - anything after the third character of a token is ignored; a tab is not a separator. *)
Example C13_quirks :
  (* "1RA" *)
  from_str [49; 82; 65] = Some [((0, 0), (1, true, 0))] /\
  show [((0, 0), (1, true, 0))] None
    = Some [49; 82; 65; 32; 46; 46; 46; 32; 32; 46; 46; 46; 32; 46; 46; 46] /\
  (* (10, R, B) prints "10RB", which reads as (1, L, R) *)
  show [((0, 0), (10, true, 1))] (Some (1, 1)) = Some [49; 48; 82; 66] /\
  from_str [49; 48; 82; 66] = Some [((0, 0), (1, false, 17))] /\
  (* "1RB<tab>1LA" is the single token 1RB *)
  from_str [49; 82; 66; 9; 49; 76; 65] = Some [((0, 0), (1, true, 1))].
Proof. repeat split; vm_compute; reflexivity. Qed.
