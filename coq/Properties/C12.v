(** C12 — Compressed tape stays canonical and its observers tell the truth.
    This file contains only the final statements; proofs are in
    Proofs/TapeCanon.v and Proofs/TapeObs.v. *)
From BB Require Import Base TM TapeModel TapeCanon TapeObs.

(** canonical form is an invariant of every step, whatever the direction,
    colour written and sweep flag *)
Theorem C12_canon_step : forall t sh pr skip,
  canon_tape t -> canon_tape (fst (step t sh pr skip)).
Proof. exact canon_step. Qed.
Print Assumptions C12_canon_step.

(** hence of every history of steps from the blank tape *)
Theorem C12_canon_history : forall ops, canon_tape (fold_left do_op ops (init_tape 0)).
Proof. intro ops. apply canon_history. apply canon_init. Qed.
Print Assumptions C12_canon_history.

(** canonical tapes compare equal exactly when they hold the same cells *)
Theorem C12_eq_iff_cells : forall a b,
  canon_tape a -> canon_tape b ->
  (tape_eqb a b = true <-> tape_eq (unroll_tape a) (unroll_tape b)).
Proof. exact tape_eq_iff_cells. Qed.
Print Assumptions C12_eq_iff_cells.

Theorem C12_marks : forall t, marks t = marks_of (unroll_tape t).
Proof. exact marks_spec. Qed.
Print Assumptions C12_marks.

Theorem C12_blank : forall t, canon_tape t -> (blank t = true <-> tape_blank (unroll_tape t)).
Proof. exact blank_spec. Qed.
Print Assumptions C12_blank.

Theorem C12_at_edge : forall t sh, canon_tape t ->
  (at_edge t sh = true <-> zc (unroll_tape t) = 0 /\ all_blank (side sh (unroll_tape t))).
Proof. exact at_edge_spec. Qed.
Print Assumptions C12_at_edge.

Theorem C12_blocks_counts : forall t, canon_tape t ->
  counts t = (map snd (rle (zl (unroll_tape t))), map snd (rle (zr (unroll_tape t)))) /\
  blocks t = N.of_nat (length (rle (zl (unroll_tape t))) + length (rle (zr (unroll_tape t)))).
Proof. exact blocks_counts_spec. Qed.
Print Assumptions C12_blocks_counts.

Theorem C12_signature : forall t, canon_tape t ->
  tape_sig t = mkSig (zc (unroll_tape t)) (map block_cc (rle (zl (unroll_tape t))))
                     (map block_cc (rle (zr (unroll_tape t)))).
Proof. exact signature_spec. Qed.
Print Assumptions C12_signature.

(** non-vacuity: a non-trivial reachable tape is canonical and is the
    run-length encoding of its cells *)
Example C12_nonvacuous :
  let t := fold_left do_op [(true, 1, false); (true, 1, false); (false, 2, false); (true, 0, true)]
                     (init_tape 0) in
  canon_tape t /\ t = mkTape 2 [(0, 1); (1, 1)] [] /\ marks t = 2 /\ blank t = false.
Proof.
  split; [apply C12_canon_history|]. vm_compute. repeat split; reflexivity.
Qed.
