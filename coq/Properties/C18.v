(** C18 -- the symbolic count algebra of /repo/tm/num.py agrees with integer
    arithmetic.  Final statements only; proofs are in Proofs/NumMod.v.

    WHAT IS PROVED (about [PyNumModModel.mod_model], the statement-by-statement
    Gallina transcription of Add/Mul/Div/Exp.__mod__, find_period and
    exp_mod_special_cases, which every `./check C18` run ties to the real code
    on generated cases, value by value and exception class by exception class,
    and whose 818 table rows are compared with the source text on every run):

      - [C18_mod_sound]: whenever the model of [e % m] returns a value, that
        value is [eval e mod m] -- for ALL expression trees (any depth, any
        bases, any integer leaves), all m > 0, provided every Exp node has an
        exponent of value >= 2 ([exps_gt1], what [assert 1 < exp] num.py:893
        is there to guarantee).  This covers every hard-coded residue, the
        exponent reductions (order of 3 modulo 2^j; find_period), the binary
        exponentiation loop and all table rows.
      - the component lemmas, pinned separately.
      - [C18_exps_gt1_needed]: the hypothesis cannot be dropped -- the library
        (and the faithful model) answers 0 for [2 ** (-4 + 2**2) % 2], an
        expression of value 1 (the early returns of lines 883-887 come before
        the assert, and the assert itself is decided by [Add.__lt__] from
        signs alone).
      - HISTORY: [C18_exp_mod30_prefix_refuted] (F5) and
        [C18_exp3_mod4_prefix_refuted] (F5b) are facts about the pre-fix
        definitions ([mod_model_prefix]).

    WHAT IS NOT PROVED:
      - nothing is proved about + - * // ** and the comparisons: the simplifier
        (2.3 kLoC of rewriting, interning and heuristics) has no Gallina model.
        These operators are only TESTED differentially against [NumExpr.eval]
        by the check (relation A in props/C18.py), which is why the level of
        C18 is `other`, not `proof`.
      - no completeness: the theorems say nothing about when the model (or the
        library) raises instead of answering.
      - the model is tied to the code by the correspondence run, not by proof;
        inputs reaching the float tests beyond their exact range, moduli <= 0
        and Tet are [MUnmodelled] (counted and skipped by the check). *)
From BB Require Import Base NumExpr PyNumModModel NumMod.
Open Scope Z_scope.

(** soundness of [%] *)
Theorem C18_mod_sound : forall e m v n,
  0 < m -> exps_gt1 e = true -> eval e = Some n -> mod_model e m = MVal v -> v = n mod m.
Proof. exact mod_model_sound. Qed.
Print Assumptions C18_mod_sound.

(** the same through the entry point used by the correspondence check, and
    against the spec function [eval_mod] *)
Theorem C18_mod_top_sound : forall e m v,
  exps_gt1 e = true -> eval e <> None -> mod_top e m = MVal v -> eval_mod e m = Some v.
Proof.
  intros e m v W E H. unfold eval_mod. destruct (eval e) as [n|] eqn:En; [|congruence].
  destruct (mod_top_sound e m v n W En H) as [_ ->]. reflexivity.
Qed.
Print Assumptions C18_mod_top_sound.

(** the loop of num.py:942-955 is modular exponentiation *)
Theorem C18_binexp_mod_spec : forall z base m,
  0 < m -> 1 <= z -> binexp z base m = base ^ z mod m.
Proof. exact binexp_mod_spec. Qed.
Print Assumptions C18_binexp_mod_spec.

(** find_period (num.py:1344-1361) returns 0 or a true period *)
Theorem C18_find_period_sound : forall base m p,
  0 < m -> find_period base m = MVal p -> 0 < p -> base ^ p mod m = 1.
Proof. exact find_period_sound. Qed.
Print Assumptions C18_find_period_sound.

(** every row of every table of exp_mod_special_cases (num.py:1371-2243) *)
Theorem C18_tables_sound : forall m rows r v k,
  pn_table m special_tables = Some rows -> pn_assoc r rows = Some v ->
  1 <= k -> k mod (m / 3) = r -> 2 ^ k mod m = v.
Proof. exact tables_sound. Qed.
Print Assumptions C18_tables_sound.

(** the hard-coded residues (num.py:883-931), each for all exponents *)
Theorem C18_hard_coded_residues : forall k,
  (forall b, 0 < b -> 1 <= k -> b ^ k mod b = 0) /\                       (* 883 *)
  (forall b, 1 <= k -> b ^ k mod 2 = b mod 2) /\                          (* 886 *)
  (2 <= k -> 2 ^ k mod 4 = 0) /\                                          (* 898 *)
  (1 <= k -> 2 ^ k mod 6 = if k mod 2 =? 0 then 4 else 2) /\              (* 901 *)
  (2 <= k -> 2 ^ k mod 12 = if k mod 2 =? 0 then 4 else 8) /\             (* 904 *)
  (1 <= k -> 2 ^ k mod 30 = if k mod 4 =? 3 then 8 else if k mod 4 =? 0 then 16
                            else if k mod 4 =? 1 then 2 else 4) /\        (* 907-916 *)
  (1 <= k -> 3 ^ k mod 6 = 3) /\                                          (* 919 *)
  (1 <= k -> 6 ^ k mod 10 = 6) /\                                         (* 926 *)
  (0 <= k -> 7 ^ k mod 12 = if k mod 2 =? 0 then 1 else 7).               (* 930 *)
Proof.
  intros k. repeat split.
  - intros b Hb Hk. apply pow_self_mod; assumption.
  - intros b Hk. apply pow_mod2; assumption.
  - apply pow2_mod4.
  - apply pow2_mod6.
  - apply pow2_mod12.
  - apply pow2_mod30.
  - apply pow3_mod6.
  - apply pow6_mod10.
  - apply pow7_mod12.
Qed.
Print Assumptions C18_hard_coded_residues.

(** num.py:922-923: the exponent of a power of 3 may be reduced modulo
    2^max(j-2,1) when the modulus is 2^j *)
Theorem C18_pow3_order_pow2 : forall j, 2 <= j -> 3 ^ (2 ^ Z.max (j - 2) 1) mod 2 ^ j = 1.
Proof.
  intros j Hj. destruct (Z.eq_dec j 2) as [->|NE]; [reflexivity|].
  replace (Z.max (j - 2) 1) with (j - 2) by lia. apply pow3_pow2. lia.
Qed.
Print Assumptions C18_pow3_order_pow2.

(** num.py:1346, 1365, 1369: for every modulus of the form 2*3^j (what the
    model's test [is_2x3pow] recognises) the powers of 2 from 2^1 on repeat
    with period (mod // 3) -- the reason the tables are indexed by
    [exp % (mod // 3)] and find_period returns 0 there *)
Theorem C18_pow2_period_2x3pow : forall m k, is_2x3pow m = true -> 2 < m -> 1 <= k ->
  2 ^ (k + m / 3) mod m = 2 ^ k mod m.
Proof.
  intros m k H Hm Hk. destruct (is_2x3pow_spec m H) as [j [Hj ->]].
  assert (J1 : 1 <= j) by (destruct (Z.eq_dec j 0) as [->|]; [cbn in Hm; lia|lia]).
  replace (2 * 3 ^ j / 3) with (2 * 3 ^ (j - 1)); [apply pow2_period_2x3pow; assumption|].
  replace j with (1 + (j - 1)) at 2 by lia. rewrite Z.pow_add_r, Z.pow_1_r by lia.
  replace (2 * (3 * 3 ^ (j - 1))) with (2 * 3 ^ (j - 1) * 3) by ring.
  rewrite Z.div_mul by lia. reflexivity.
Qed.
Print Assumptions C18_pow2_period_2x3pow.

(** int() of an expression is its exact value whenever the latter exists *)
Theorem C18_eval_floor_of_eval : forall e n, eval e = Some n -> eval_floor e = Some n.
Proof. exact eval_floor_of_eval. Qed.
Print Assumptions C18_eval_floor_of_eval.

(** the hypothesis [exps_gt1] of [C18_mod_sound] is needed: an Exp whose
    symbolic exponent has value 0 *)
Theorem C18_exps_gt1_needed :
  let e := NExp 2 (NAdd (NInt (-4)) (NExp 2 (NInt 2))) in
  eval e = Some 1 /\ mod_top e 2 = MVal 0 /\ eval_mod e 2 = Some 1 /\ exps_gt1 e = false.
Proof. vm_compute. repeat split; reflexivity. Qed.
Print Assumptions C18_exps_gt1_needed.

(** HISTORY F5 (c18cf10) *)
Theorem C18_exp_mod30_prefix_refuted :
  (forall k, 1 < k -> k mod 4 = 0 ->
     mod_model_prefix (NExp 2 (NInt k)) 30 = MVal 15 /\ 2 ^ k mod 30 = 16) /\
  mod_model_prefix (NExp 2 (NInt 4)) 30 = MVal 15 /\ 2 ^ 4 mod 30 = 16 /\ 16 <> 15 /\
  mod_model (NExp 2 (NInt 4)) 30 = MVal 16.
Proof.
  split; [exact exp_mod30_prefix_wrong|]. vm_compute. repeat split; try reflexivity. discriminate.
Qed.
Print Assumptions C18_exp_mod30_prefix_refuted.

(** HISTORY F5b (8f2bf3a) *)
Theorem C18_exp3_mod4_prefix_refuted :
  (forall k, 1 < k ->
     mod_model_prefix (NExp 3 (NInt k)) 4 = MVal 1 /\ (k mod 2 = 1 -> 3 ^ k mod 4 = 3)) /\
  mod_model_prefix (NExp 3 (NInt 3)) 4 = MVal 1 /\ 3 ^ 3 mod 4 = 3 /\ 3 <> 1 /\
  mod_model (NExp 3 (NInt 3)) 4 = MVal 3.
Proof.
  split; [exact exp3_mod4_prefix_wrong|]. vm_compute. repeat split; try reflexivity. discriminate.
Qed.
Print Assumptions C18_exp3_mod4_prefix_refuted.

(** non-vacuity: a depth-4 expression through Div, Mul, Add and an Exp with a
    symbolic exponent, taken through the table of modulus 54, meets the
    hypotheses of [C18_mod_sound] and gets the right residue *)
Example C18_nonvacuous :
  let e := NDiv (NMul (NInt 3) (NAdd (NInt 5) (NExp 2 (NAdd (NInt 3) (NExp 2 (NInt 5)))))) 3 in
  exps_gt1 e = true /\ eval e = Some (5 + 2 ^ 35) /\
  mod_top e 54 = MVal 19 /\ (5 + 2 ^ 35) mod 54 = 19.
Proof. vm_compute. repeat split; reflexivity. Qed.

(** =====================================================================
    ADDENDUM -- the INT-OPERAND fragment of the simplifier (supersedes, for
    this fragment, the first item of WHAT IS NOT PROVED above).

    [PyNumArithModel.arith false] is the branch-by-branch Gallina
    transcription of what num.py (as REPAIRED: gcd of an Add, gcd of an Exp
    with an int exponent, negative divisor of an Exp) does for [x + n],
    [n + x], [x - n], [n - x], [-x], [x * n], [n * x], [x // n], [x ** n] and
    [make_exp(n, x)] when [n] is a Python int and [x] any expression tree
    (Add/Mul/Div/Exp methods, make_add/make_mul/make_div/make_exp with their
    normalisations, the gcd helper); the operation is a code [aop], a result
    is a tree, a Python exception class, or [AUnm] (a step would need an
    operation between two symbolic operands other than Add * Num; float tests
    outside their exact range; ...).  Every `./check C18` run compares its
    result TREES with those of the real library (tools/numarith_diff.py).
    [arith true] is the same function except in ONE place: gcd(l, Exp) with a
    SYMBOLIC exponent, where the returned power of the base divides
    [base ** exp] only if the exponent is large enough -- [arith true] tests
    that on the value of the exponent and is [AUnm] when it fails.
    Proofs: Proofs/NumArith.v.

    PROVED
      - [C18_arith_sound] and the ten per-operator corollaries: whenever
        [arith true] returns a tree for an operand of integer value [v], the
        tree has the integer value [v op n] -- in particular every Div in it
        divides and every exponent is >= 0.  For all trees, all ints, any fuel.
        ([//]: for every [n <> 0] dividing [v]; [**]: for [0 <= n].)
      - [C18_gcd_sound]: the repaired gcd helper (under the same test)
        returns a common divisor of its int and of the value of its operand.
      - [C18_arith_chk_refines]: whenever [arith true] answers, the
        transcription [arith false] gives the same answer.
      - [C18_arith_intexp_sound], [C18_floordiv_intexp_sound]: the
        TRANSCRIPTION [arith false] itself is sound for EVERY operation, [//]
        by any nonzero exact divisor included, on every operand all of whose
        exponents are Python ints (the result again has only int exponents).
      - [C18_arith_nodiv_sound]: and for an operand WITHOUT a Div node and any
        operation other than [//], whatever the exponents.
    SHARP
      - [C18_symbolic_exponent_refuted], [C18_arith_false_symexp_unsound]: the
        restriction cannot be dropped.  The repaired library builds
        [x = (3 + 6 ** (-6 + 6**1)) * 6 ** (-5 + 6 ** (-5 + 6**1))] (value 24)
        and answers [x // 3] with a tree containing [6 ** (-7 + 6**1)] = 6 ** -1,
        which has no integer value: gcd(3, 6 ** E) = 3 although E = 0.
    HISTORY (findings, repaired; [arith_prefix], [gcd_h_prefix] are the
    transcription of the code before the two `fix:` commits)
      - [C18_floordiv_prefix_refuted], [C18_gcd_prefix_unsound],
        [C18_arith_prefix_fdiv_unsound]: [((-6 + 3**2) * (2 * 3**3)) // 54] was
        0 (the integers say 3): gcd(54, -6 + 3**2) was min(6, 27) = 6, which
        does not divide 3.  The repaired model answers 3.
      - [C18_floordiv_negative_prefix_refuted]: [2**3 // -2] was [2**2].
    NOT PROVED: anything about operations between two symbolic operands and
    about the comparisons (still only tested differentially); completeness
    (when the library raises or the model says [AUnm]); that the model is the
    code (tied by the correspondence run). *)
From BB Require Import PyNumArithModel NumArith.
From Coq Require Import Znumtheory.

Theorem C18_arith_sound : forall fuel op x r v,
  arith true fuel op x = AVal r -> eval x = Some v -> op_pre op v -> eval r = Some (op_val op v).
Proof. exact arith_sound. Qed.
Print Assumptions C18_arith_sound.

Theorem C18_add_int_sound : forall fuel n x r v,
  arith true fuel (OAddI n) x = AVal r -> eval x = Some v -> eval r = Some (v + n).
Proof. exact add_int_sound. Qed.
Print Assumptions C18_add_int_sound.

Theorem C18_radd_int_sound : forall fuel n x r v,
  arith true fuel (ORadd n) x = AVal r -> eval x = Some v -> eval r = Some (n + v).
Proof. exact radd_int_sound. Qed.
Print Assumptions C18_radd_int_sound.

Theorem C18_sub_int_sound : forall fuel n x r v,
  arith true fuel (OSubI n) x = AVal r -> eval x = Some v -> eval r = Some (v - n).
Proof. exact sub_int_sound. Qed.
Print Assumptions C18_sub_int_sound.

Theorem C18_rsub_int_sound : forall fuel n x r v,
  arith true fuel (ORsub n) x = AVal r -> eval x = Some v -> eval r = Some (n - v).
Proof. exact rsub_int_sound. Qed.
Print Assumptions C18_rsub_int_sound.

Theorem C18_neg_sound : forall fuel x r v,
  arith true fuel ONeg x = AVal r -> eval x = Some v -> eval r = Some (- v).
Proof. exact neg_sound. Qed.
Print Assumptions C18_neg_sound.

Theorem C18_mul_int_sound : forall fuel n x r v,
  arith true fuel (OMulI n) x = AVal r -> eval x = Some v -> eval r = Some (v * n).
Proof. exact mul_int_sound. Qed.
Print Assumptions C18_mul_int_sound.

Theorem C18_rmul_int_sound : forall fuel n x r v,
  arith true fuel (ORmul n) x = AVal r -> eval x = Some v -> eval r = Some (n * v).
Proof. exact rmul_int_sound. Qed.
Print Assumptions C18_rmul_int_sound.

Theorem C18_floordiv_int_sound : forall fuel n x r v,
  arith true fuel (OFdiv n) x = AVal r -> eval x = Some v -> n <> 0 -> v mod n = 0 ->
  eval r = Some (v / n).
Proof. exact floordiv_int_sound. Qed.
Print Assumptions C18_floordiv_int_sound.

Theorem C18_pow_int_sound : forall fuel n x r v,
  arith true fuel (OPow n) x = AVal r -> eval x = Some v -> 0 <= n -> eval r = Some (v ^ n).
Proof. exact pow_int_sound. Qed.
Print Assumptions C18_pow_int_sound.

Theorem C18_make_exp_sound : forall fuel b x r v,
  arith true fuel (OMkExp b) x = AVal r -> eval x = Some v -> 0 <= v -> eval r = Some (b ^ v).
Proof. exact make_exp_sound. Qed.
Print Assumptions C18_make_exp_sound.

(** the repaired gcd helper (num.py:1306-1347) is a common-divisor function *)
Theorem C18_gcd_sound : forall r l g v,
  gcd_h true l r = AVal g -> eval r = Some v -> (g | l) /\ (g | v).
Proof.
  intros r l g v H E. split; [exact (gcd_gen_div_l _ _ _ _ _ H)|exact (gcd_h_sound _ _ _ _ H E)].
Qed.
Print Assumptions C18_gcd_sound.

(** whenever the checked function answers, the transcription gives the same answer *)
Theorem C18_arith_chk_refines : forall fuel op x r,
  arith true fuel op x = AVal r -> arith false fuel op x = AVal r.
Proof. exact arith_chk_refines. Qed.
Print Assumptions C18_arith_chk_refines.

(** the transcription itself: every operation, when all exponents are Python ints *)
Theorem C18_arith_intexp_sound : forall fuel op x r v,
  int_exps x = true -> (is_mkexp op = true -> is_int x = true) ->
  arith false fuel op x = AVal r -> eval x = Some v -> op_pre op v ->
  eval r = Some (op_val op v) /\ int_exps r = true.
Proof. exact arith_false_sound_intexp. Qed.
Print Assumptions C18_arith_intexp_sound.

Theorem C18_floordiv_intexp_sound : forall fuel n x r v,
  int_exps x = true -> arith false fuel (OFdiv n) x = AVal r -> eval x = Some v ->
  n <> 0 -> v mod n = 0 -> eval r = Some (v / n).
Proof. exact floordiv_false_sound_intexp. Qed.
Print Assumptions C18_floordiv_intexp_sound.

(** the transcription itself: away from Div and [//], whatever the exponents *)
Theorem C18_arith_nodiv_sound : forall fuel op x r v,
  not_fdiv op = true -> no_div x = true ->
  arith false fuel op x = AVal r -> eval x = Some v -> op_pre op v ->
  eval r = Some (op_val op v) /\ no_div r = true.
Proof. exact arith_false_sound_nodiv. Qed.
Print Assumptions C18_arith_nodiv_sound.

(** SHARP: a symbolic exponent of value 0 (an object the repaired library builds) *)
Theorem C18_symbolic_exponent_refuted :
  eval sym_witness = Some 24 /\ 24 mod 3 = 0 /\
  arith_top false (OFdiv 3) sym_witness =
    AVal (NMul (NAdd (NInt 1) (NMul (NInt 2) (NExp 6 (NAdd (NInt (-7)) (NExp 6 (NInt 1))))))
               (NExp 6 (NAdd (NInt (-5)) (NExp 6 (NAdd (NInt (-5)) (NExp 6 (NInt 1))))))) /\
  eval (NMul (NAdd (NInt 1) (NMul (NInt 2) (NExp 6 (NAdd (NInt (-7)) (NExp 6 (NInt 1))))))
             (NExp 6 (NAdd (NInt (-5)) (NExp 6 (NAdd (NInt (-5)) (NExp 6 (NInt 1))))))) = None /\
  arith_top true (OFdiv 3) sym_witness = AUnm /\
  gcd_h false 3 (NAdd (NInt 3) (NExp 6 (NAdd (NInt (-6)) (NExp 6 (NInt 1))))) = AVal 3 /\
  eval (NAdd (NInt 3) (NExp 6 (NAdd (NInt (-6)) (NExp 6 (NInt 1))))) = Some 4.
Proof. exact sym_exp_refuted. Qed.
Print Assumptions C18_symbolic_exponent_refuted.

Theorem C18_arith_false_symexp_unsound :
  ~ (forall fuel n x r v, arith false fuel (OFdiv n) x = AVal r -> eval x = Some v ->
       n <> 0 -> v mod n = 0 -> eval r = Some (v / n)).
Proof. exact arith_false_symexp_unsound. Qed.
Print Assumptions C18_arith_false_symexp_unsound.

(** HISTORY: the gcd helper before the repair *)
Theorem C18_gcd_prefix_unsound :
  gcd_h_prefix 54 (NAdd (NInt (-6)) (NExp 3 (NInt 2))) = AVal 6 /\
  eval (NAdd (NInt (-6)) (NExp 3 (NInt 2))) = Some 3 /\
  gcd_h_prefix 54 (NExp 3 (NInt 2)) = AVal 27 /\ eval (NExp 3 (NInt 2)) = Some 9 /\
  gcd_h false 54 (NAdd (NInt (-6)) (NExp 3 (NInt 2))) = AVal 3 /\
  gcd_h false 54 (NExp 3 (NInt 2)) = AVal 9.
Proof. exact gcd_h_prefix_unsound. Qed.
Print Assumptions C18_gcd_prefix_unsound.

(** HISTORY: [((-6 + 3**2) * (2 * 3**3)) // 54] was answered 0; 162 = 3 * 54 *)
Theorem C18_floordiv_prefix_refuted :
  eval fdiv_witness = Some 162 /\ 162 mod 54 = 0 /\ 162 / 54 = 3 /\
  arith_prefix_top (OFdiv 54) fdiv_witness = AVal (NInt 0) /\
  arith_top false (OFdiv 54) fdiv_witness = AVal (NInt 3).
Proof. exact fdiv_prefix_refuted. Qed.
Print Assumptions C18_floordiv_prefix_refuted.

Theorem C18_arith_prefix_fdiv_unsound :
  ~ (forall fuel n x r v, arith_prefix fuel (OFdiv n) x = AVal r -> eval x = Some v ->
       0 < n -> v mod n = 0 -> eval r = Some (v / n)).
Proof. exact arith_prefix_fdiv_unsound. Qed.
Print Assumptions C18_arith_prefix_fdiv_unsound.

(** HISTORY: a negative divisor ([2**3 // -2] was [2**2]) *)
Theorem C18_floordiv_negative_prefix_refuted :
  arith_prefix_top (OFdiv (-2)) (NExp 2 (NInt 3)) = AVal (NExp 2 (NInt 2)) /\
  eval (NExp 2 (NInt 3)) = Some 8 /\ 8 mod (-2) = 0 /\ 8 / (-2) = -4 /\ eval (NExp 2 (NInt 2)) = Some 4 /\
  arith_top false (OFdiv (-2)) (NExp 2 (NInt 3)) = AVal (NMul (NInt (-1)) (NExp 2 (NInt 2))).
Proof. exact floordiv_negative_prefix_refuted. Qed.
Print Assumptions C18_floordiv_negative_prefix_refuted.
