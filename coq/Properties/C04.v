(** C04 — Backward reasoner never refutes something the machine does.
    The full statement is FALSE for the faithful model of the unchanged
    code (known findings F1, F2): the refutations below are machine-checked.
    What is proved positively: the answer is monotone in the depth (with
    the same step number), and the two counterfactual switches remove the
    witnesses, and the LOCAL soundness of the building blocks (every plain
    backward step and every indefinite sweep is a sound over-approximation;
    the targets are complete; one full round of the main loop covers the real
    predecessor outside the F1 branch) - Proofs/BackstepSound.v; and the
    GUARDED GLOBAL soundness theorem (Proofs/ReasonSound.v): with the F1
    branch repaired ([sw_nodrop]), the halt targets taken from the full table
    size ([halt_box_ok], F2), A0 defined, and - for halt / spin-out only - the
    decidable run guard [bw_skips_justified] (every configuration pruned by
    the [blanks] test is identical to one that is or was in the frontier),
    [Refuted] is sound at every depth.  For erasing the tape no run guard is
    needed. *)
From BB Require Import Base TM Ref InstrsModel TapeModel ReasonModel ReasonInstr ReasonFacts StepSim BackstepSound ReasonSound.

(** the property as stated (kept visible; refuted below) *)
Definition C04_bw_refuted_sound_stmt : Prop :=
  forall comp depth s,
    (cant_halt comp depth = Ok (BwRefuted s) ->
       forall n sl, ~ halts_at (to_prog comp) init_config n sl) /\
    (cant_spin_out comp depth = Ok (BwRefuted s) ->
       forall n, ~ spins_out_at (to_prog comp) init_config n) /\
    (cant_blank comp depth = Ok (BwRefuted s) ->
       forall n, ~ erases_at (to_prog comp) init_config n).

Theorem C04_bw_halt_refuted_F1 :
  exists comp d s n sl, cant_halt comp d = Ok (BwRefuted s) /\ halts_at (to_prog comp) init_config n sl.
Proof. exists f1_halt_prog, 30, 9, 11%nat, (2, 1). split; apply f1_halt_witness. Qed.
Print Assumptions C04_bw_halt_refuted_F1.

Theorem C04_bw_spin_refuted_F1 :
  exists comp d s n, cant_spin_out comp d = Ok (BwRefuted s) /\ spins_out_at (to_prog comp) init_config n.
Proof. exists f1_spin_prog, 40, 4, 12%nat. apply f1_spin_witness. Qed.
Print Assumptions C04_bw_spin_refuted_F1.

Theorem C04_bw_halt_refuted_F2 :
  exists comp d s n sl, cant_halt comp d = Ok (BwRefuted s) /\ halts_at (to_prog comp) init_config n sl.
Proof. exists f2_halt_prog, 3, 0, 1%nat, (1, 0). split; apply f2_halt_witness. Qed.
Print Assumptions C04_bw_halt_refuted_F2.

Theorem C04_stmt_refuted : ~ C04_bw_refuted_sound_stmt.
Proof.
  intro H. destruct (H f1_halt_prog 30 9) as (Hh & _).
  destruct f1_halt_witness as (W1 & W2 & _). exact (Hh W1 _ _ W2).
Qed.
Print Assumptions C04_stmt_refuted.

(** the counterfactual switches that identify the two call sites *)
Theorem C04_counterfactuals :
  cant_halt_sw (mkSw true false) f1_halt_prog 30 = Ok BwLinRec /\
  cant_halt_sw (mkSw false true) f2_halt_prog 3 = Ok BwInit.
Proof. split; [apply f1_halt_witness|apply f2_halt_witness]. Qed.
Print Assumptions C04_counterfactuals.

(** a refutation found at depth d is returned, with the same step number,
    for every depth above d (also C15) *)
Theorem C04_bw_mono : forall sw comp d d', d <= d' ->
  (cant_halt_sw sw comp d <> Ok BwStepLimit -> cant_halt_sw sw comp d' = cant_halt_sw sw comp d) /\
  (cant_blank_sw sw comp d <> Ok BwStepLimit -> cant_blank_sw sw comp d' = cant_blank_sw sw comp d) /\
  (cant_spin_out_sw sw comp d <> Ok BwStepLimit -> cant_spin_out_sw sw comp d' = cant_spin_out_sw sw comp d).
Proof. exact bw_mono. Qed.
Print Assumptions C04_bw_mono.

(** ---- local soundness of the building blocks (concretisation [bs_conc]) ---- *)

(** a plain backward step: the pruning test passes and the abstract
    predecessor covers the real predecessor *)
Theorem C04_backstep_exact : forall (P : prog) q z q' z' t pr sh,
  tm_step P (q, z) = Some (q', z') ->
  P (q, zc z) = Some (pr, sh, q') ->
  bs_conc t z' ->
  pulls_indef t sh = false ->
  check_step t sh pr = true /\ bs_conc (backstep t sh (zc z)) z.
Proof. exact backstep_exact. Qed.
Print Assumptions C04_backstep_exact.

(** an indefinite sweep of k >= 1 same-state steps is covered by [push_indef] *)
Theorem C04_indef_covers : forall (P : prog) q c pr sh k z z' t b,
  P (q, c) = Some (pr, sh, q) ->
  (1 <= k)%nat ->
  sweep_run P q c k z z' ->
  bs_conc t z' ->
  check_spinout t sh c = Some b ->
  bs_conc (push_indef t sh) z.
Proof. exact indef_covers. Qed.
Print Assumptions C04_indef_covers.

(** exactly when [check_spinout] answers, and what: the F1 branch is [Some false] *)
Theorem C04_check_spinout_spec : forall t sh read b,
  check_spinout t sh read = Some b <->
  let pull := if sh then bs_lspan t else bs_rspan t in
  let push := if sh then bs_rspan t else bs_lspan t in
  bs_scan t = read /\ sp_blocks pull = [] /\
  (sp_end pull = EndBlanks \/ sp_blocks push <> []) /\
  b = negb (bspan_matches_color push (bs_scan t)).
Proof. exact check_spinout_spec. Qed.
Print Assumptions C04_check_spinout_spec.

(** one full round of the main loop covers the real predecessor of a plain
    step - except in the branch where [check_spinout] says [Some false] and the
    predecessor is dropped (F1), which the guard excludes *)
Theorem C04_plain_round_sound : forall sw comp cfgs cfg bl vs cfgs' indefs bl' q z q' z' pr sh,
  In cfg cfgs -> c_state cfg = q' -> bs_conc (c_tape cfg) z' ->
  to_prog comp (q, zc z) = Some (pr, sh, q') ->
  tm_step (to_prog comp) (q, z) = Some (q', z') ->
  get_valid_steps sw cfgs (get_entrypoints comp) = Ok vs ->
  step_configs vs bl = inl (cfgs', indefs, bl') ->
  (q = q' -> check_spinout (c_tape cfg) sh (zc z) = None \/
             (check_spinout (c_tape cfg) sh (zc z) = Some false /\ sw_nodrop sw = true)) ->
  round_covered cfgs' indefs bl' (c_tape cfg) sh q z.
Proof. exact plain_round_sound. Qed.
Print Assumptions C04_plain_round_sound.

(** the dropped predecessor of F1, located on the witness program *)
Theorem C04_f1_dropped_predecessor_covered : bs_conc (backstep f1_t7 false (zc f1_c6)) f1_c6.
Proof. exact f1_dropped_predecessor_covered. Qed.
Print Assumptions C04_f1_dropped_predecessor_covered.

(** ---- the guarded global theorem (Proofs/ReasonSound.v) ---- *)

(** the instrumented loop of Model/ReasonInstr.v (records the configurations
    pruned by the [blanks] test) computes the model's answer *)
Theorem C04_cant_reach_i_spec : forall sw comp depth g,
  fst (fst (cant_reach_i sw comp depth g)) = cant_reach sw comp depth g.
Proof. exact cant_reach_i_spec. Qed.
Print Assumptions C04_cant_reach_i_spec.

(** the one-round frontier invariant, plain steps and sweeps combined: if a
    configuration of the frontier covers the real configuration at time
    j >= 1 of the run from the blank tape, then the round has a valid step,
    and if [step_configs] succeeds, an indefinite pull was recorded, or the
    real configuration at an earlier time j' >= 1 is covered by the next
    frontier or by a configuration pruned by the [blanks] test *)
Theorem C04_frontier_round_sound : forall sw comp, sw_nodrop sw = true ->
  forall cfgs bl vs j c,
  (1 <= j)%nat -> rcfg comp j c -> covers cfgs c ->
  get_valid_steps sw cfgs (get_entrypoints comp) = Ok vs ->
  vs <> [] /\
  forall cfgs' indefs bl' sk,
    step_configs_i vs bl = inl (cfgs', indefs, bl', sk) -> round_outcome comp cfgs' indefs sk j.
Proof. exact frontier_round_sound. Qed.
Print Assumptions C04_frontier_round_sound.

Theorem C04_bw_halt_refuted_sound : forall sw comp depth s,
  sw_nodrop sw = true ->
  halt_box_ok sw comp = true ->
  to_prog comp (0, 0) <> None ->
  bw_skips_justified sw comp depth (halt_configs sw) = true ->
  cant_halt_sw sw comp depth = Ok (BwRefuted s) ->
  forall n sl, ~ halts_at (to_prog comp) init_config n sl.
Proof. exact bw_halt_refuted_sound. Qed.
Print Assumptions C04_bw_halt_refuted_sound.

Theorem C04_bw_blank_refuted_sound : forall sw comp depth s,
  sw_nodrop sw = true ->
  cant_blank_sw sw comp depth = Ok (BwRefuted s) ->
  forall n, ~ erases_at (to_prog comp) init_config n.
Proof. exact bw_blank_refuted_sound. Qed.
Print Assumptions C04_bw_blank_refuted_sound.

Theorem C04_bw_spinout_refuted_sound : forall sw comp depth s,
  sw_nodrop sw = true ->
  bw_skips_justified sw comp depth zero_reflexive_configs = true ->
  cant_spin_out_sw sw comp depth = Ok (BwRefuted s) ->
  forall n, ~ spins_out_at (to_prog comp) init_config n.
Proof. exact bw_spinout_refuted_sound. Qed.
Print Assumptions C04_bw_spinout_refuted_sound.

Theorem C04_bw_refuted_sound_guarded : forall sw comp depth s,
  sw_nodrop sw = true ->
  (halt_box_ok sw comp = true -> to_prog comp (0, 0) <> None ->
   bw_skips_justified sw comp depth (halt_configs sw) = true ->
   cant_halt_sw sw comp depth = Ok (BwRefuted s) ->
   forall n sl, ~ halts_at (to_prog comp) init_config n sl) /\
  (cant_blank_sw sw comp depth = Ok (BwRefuted s) ->
   forall n, ~ erases_at (to_prog comp) init_config n) /\
  (bw_skips_justified sw comp depth zero_reflexive_configs = true ->
   cant_spin_out_sw sw comp depth = Ok (BwRefuted s) ->
   forall n, ~ spins_out_at (to_prog comp) init_config n).
Proof. exact bw_refuted_sound_guarded. Qed.
Print Assumptions C04_bw_refuted_sound_guarded.

(** "the pruning never fired" is a sufficient, stronger guard *)
Theorem C04_no_blank_skip_justified : forall sw comp depth g,
  bw_no_blank_skip sw comp depth g = true -> bw_skips_justified sw comp depth g = true.
Proof. exact no_blank_skip_justified. Qed.
Print Assumptions C04_no_blank_skip_justified.

(** non-vacuity: tables (faithful code with only F1 repaired) that satisfy
    every guard and are refuted after 12 / 28 / 10 rounds; in the spin-out
    example the pruning DOES fire and is justified *)
Theorem C04_guards_nonvacuous :
  (sw_nodrop sw_f2 = true /\ halt_box_ok sw_f2 ex_halt_prog = true /\
   to_prog ex_halt_prog (0, 0) <> None /\
   bw_skips_justified sw_f2 ex_halt_prog 40 (halt_configs sw_f2) = true /\
   cant_halt_sw sw_f2 ex_halt_prog 40 = Ok (BwRefuted 12)) /\
  cant_blank_sw sw_f2 ex_blank_prog 40 = Ok (BwRefuted 28) /\
  (bw_no_blank_skip sw_f2 ex_spin_prog 40 zero_reflexive_configs = false /\
   bw_skips_justified sw_f2 ex_spin_prog 40 zero_reflexive_configs = true /\
   cant_spin_out_sw sw_f2 ex_spin_prog 40 = Ok (BwRefuted 10)).
Proof.
  split; [|split].
  - destruct ex_halt_guards as (A & B & C & _ & D & E). repeat split; assumption.
  - apply ex_blank_guards.
  - apply ex_spin_guards.
Qed.
Print Assumptions C04_guards_nonvacuous.

(** each static guard of the halt theorem is necessary (F1 / F2 / A0 undefined) *)
Theorem C04_halt_guards_necessary :
  (halt_box_ok bw_faithful f1_halt_prog = true /\ to_prog f1_halt_prog (0, 0) <> None /\
   bw_skips_justified bw_faithful f1_halt_prog 30 (halt_configs bw_faithful) = true /\
   cant_halt_sw bw_faithful f1_halt_prog 30 = Ok (BwRefuted 9) /\
   halts_at (to_prog f1_halt_prog) init_config 11 (2, 1)) /\
  (sw_nodrop sw_f2 = true /\ halt_box_ok sw_f2 f2_halt_prog = false /\
   to_prog f2_halt_prog (0, 0) <> None /\
   bw_skips_justified sw_f2 f2_halt_prog 3 (halt_configs sw_f2) = true /\
   cant_halt_sw sw_f2 f2_halt_prog 3 = Ok (BwRefuted 0) /\
   halts_at (to_prog f2_halt_prog) init_config 1 (1, 0)) /\
  (let comp := [((0, 1), (1, true, 0))] in
   sw_nodrop sw_f2 = true /\ halt_box_ok sw_f2 comp = true /\ to_prog comp (0, 0) = None /\
   bw_skips_justified sw_f2 comp 10 (halt_configs sw_f2) = true /\
   cant_halt_sw sw_f2 comp 10 = Ok (BwRefuted 1) /\
   halts_at (to_prog comp) init_config 0 (0, 0)).
Proof. exact halt_guards_necessary. Qed.
Print Assumptions C04_halt_guards_necessary.

(** The run guard is never violated, i.e. the [blanks] pruning only ever
    removes true duplicates.  This was OPEN when the guarded theorem above was
    written (evidence then: no violation among all 371 293 3x2 and all 371 293
    2x3 tables with A0 = 1RB, all three goals, depth 40, nor in 8 random
    samples of 200 000 larger tables).  It is now SETTLED at the end of this
    file: [C04_skips_always_justified] proves it for every table with
    pairwise distinct slots (every BTreeMap, every parsed program), and
    [C04_skips_always_justified_stmt_literal_false] shows that the statement
    as first written below - over arbitrary association lists - is false
    (a list repeating a slot).  The unguarded corollaries are
    [C04_bw_halt_refuted_sound_nodrop], [C04_bw_spinout_refuted_sound_nodrop],
    [C04_bw_refuted_sound_nodrop]. *)
Definition C04_skips_always_justified_stmt : Prop :=
  forall sw comp depth s,
    sw_nodrop sw = true ->
    (cant_halt_sw sw comp depth = Ok (BwRefuted s) ->
       bw_skips_justified sw comp depth (halt_configs sw) = true) /\
    (cant_spin_out_sw sw comp depth = Ok (BwRefuted s) ->
       bw_skips_justified sw comp depth zero_reflexive_configs = true).

(** ---- SETTLED (Proofs/ReasonSkips.v) ----
    The run guard is never violated on a table whose slots are pairwise
    distinct (the Rust [CompProg] is a [BTreeMap]; [cp_sortedb] is its
    decidable invariant) - for every pair of switches, every depth and
    WHATEVER the answer of the run.  Reason: a tape that contains an
    indefinite block is never "blank" (the block sits on a block of another
    colour and is never removed); a configuration without indefinite blocks
    at depth d is reached from its target by d plain backward steps along
    real instructions, every tape it describes runs forward into the target
    in exactly d steps, and the chain of backward steps is determined by
    that run; two "blank" configurations in the same state p both describe
    (p, blank tape), so both chains are read off ONE run, which halts at one
    time only / spins, once it does, for ever in the same state and
    direction: the two tapes are identical up to [bs_head].
    The statement as literally written above quantifies over ALL association
    lists; it fails on a list with a repeated slot
    ([C04_skips_justified_needs_distinct_slots]). *)
From BB Require Import ReasonSkips.
From BB Require InstrsRoundTrip.

Theorem C04_skips_always_justified : forall sw comp depth,
  NoDup (map fst comp) ->
  bw_skips_justified sw comp depth (halt_configs sw) = true /\
  bw_skips_justified sw comp depth zero_reflexive_configs = true.
Proof. exact skips_always_justified. Qed.
Print Assumptions C04_skips_always_justified.

(** the decidable BTreeMap invariant implies the hypothesis *)
Theorem C04_sorted_distinct_slots : forall comp : comp_prog,
  InstrsRoundTrip.cp_sortedb comp = true -> NoDup (map fst comp).
Proof. exact cp_sortedb_nodup. Qed.
Print Assumptions C04_sorted_distinct_slots.

(** every parsed program has pairwise distinct slots *)
Theorem C04_parsed_distinct_slots : forall s (comp : comp_prog),
  from_str s = Some comp -> NoDup (map fst comp).
Proof. exact from_str_nodup. Qed.
Print Assumptions C04_parsed_distinct_slots.

(** the open statement, with the hypothesis it needs *)
Theorem C04_skips_always_justified_sorted : forall sw comp depth s,
  InstrsRoundTrip.cp_sortedb comp = true ->
  sw_nodrop sw = true ->
  (cant_halt_sw sw comp depth = Ok (BwRefuted s) ->
     bw_skips_justified sw comp depth (halt_configs sw) = true) /\
  (cant_spin_out_sw sw comp depth = Ok (BwRefuted s) ->
     bw_skips_justified sw comp depth zero_reflexive_configs = true).
Proof.
  intros sw comp depth s Hs _.
  destruct (skips_always_justified sw comp depth (cp_sortedb_nodup comp Hs)) as [A B].
  split; intros _; assumption.
Qed.
Print Assumptions C04_skips_always_justified_sorted.

(** the hypothesis is necessary: a repeated slot, a refuted run, a pruned
    configuration that is no duplicate *)
Theorem C04_skips_justified_needs_distinct_slots :
  let sw := mkSw true true in
  sw_nodrop sw = true /\
  cant_halt_sw sw dup_prog 10 = Ok (BwRefuted 2) /\
  bw_skips_justified sw dup_prog 10 (halt_configs sw) = false.
Proof. exact dup_keys_unjustified. Qed.
Print Assumptions C04_skips_justified_needs_distinct_slots.

Theorem C04_skips_always_justified_stmt_literal_false : ~ C04_skips_always_justified_stmt.
Proof.
  intro H. destruct (H (mkSw true true) dup_prog 10 2 eq_refl) as [Hh _].
  destruct dup_keys_unjustified as (_ & R & U). rewrite (Hh R) in U. discriminate.
Qed.
Print Assumptions C04_skips_always_justified_stmt_literal_false.

(** ---- the global soundness theorems WITHOUT the run guard ---- *)
Theorem C04_bw_halt_refuted_sound_nodrop : forall sw comp depth s,
  NoDup (map fst comp) ->
  sw_nodrop sw = true ->
  halt_box_ok sw comp = true ->
  to_prog comp (0, 0) <> None ->
  cant_halt_sw sw comp depth = Ok (BwRefuted s) ->
  forall n sl, ~ halts_at (to_prog comp) init_config n sl.
Proof. exact bw_halt_refuted_sound_nodrop. Qed.
Print Assumptions C04_bw_halt_refuted_sound_nodrop.

Theorem C04_bw_spinout_refuted_sound_nodrop : forall sw comp depth s,
  NoDup (map fst comp) ->
  sw_nodrop sw = true ->
  cant_spin_out_sw sw comp depth = Ok (BwRefuted s) ->
  forall n, ~ spins_out_at (to_prog comp) init_config n.
Proof. exact bw_spinout_refuted_sound_nodrop. Qed.
Print Assumptions C04_bw_spinout_refuted_sound_nodrop.

Theorem C04_bw_refuted_sound_nodrop : forall sw comp depth s,
  NoDup (map fst comp) ->
  sw_nodrop sw = true ->
  (halt_box_ok sw comp = true -> to_prog comp (0, 0) <> None ->
   cant_halt_sw sw comp depth = Ok (BwRefuted s) ->
   forall n sl, ~ halts_at (to_prog comp) init_config n sl) /\
  (cant_blank_sw sw comp depth = Ok (BwRefuted s) ->
   forall n, ~ erases_at (to_prog comp) init_config n) /\
  (cant_spin_out_sw sw comp depth = Ok (BwRefuted s) ->
   forall n, ~ spins_out_at (to_prog comp) init_config n).
Proof. exact bw_refuted_sound_nodrop. Qed.
Print Assumptions C04_bw_refuted_sound_nodrop.
