(** C04 — Backward reasoner never refutes something the machine does.
    The full statement is FALSE for the faithful model of the unchanged
    code (known findings F1, F2): the refutations below are machine-checked.
    What is proved positively: the answer is monotone in the depth (with
    the same step number), and the two counterfactual switches remove the
    witnesses.  Local soundness lemmas: see Proofs/ (in progress). *)
From BB Require Import Base TM Ref InstrsModel TapeModel ReasonModel ReasonFacts.

(** the property as stated (kept visible; refuted below) *)
Definition C04_bw_refuted_sound_stmt : Prop :=
  forall comp depth s,
    (cant_halt comp depth = Ok (BwRefuted s) ->
       forall n sl, ~ halts_at (to_prog comp) init_config n sl) /\
    (cant_spin_out comp depth = Ok (BwRefuted s) ->
       forall n, ~ spins_out_at (to_prog comp) init_config n) /\
    (cant_blank comp depth = Ok (BwRefuted s) ->
       forall n, ~ erases_at (to_prog comp) init_config n).

Theorem C04_bw_halt_refuted_F1 :
  exists comp d s n sl, cant_halt comp d = Ok (BwRefuted s) /\ halts_at (to_prog comp) init_config n sl.
Proof. exists f1_halt_prog, 30, 9, 11%nat, (2, 1). split; apply f1_halt_witness. Qed.
Print Assumptions C04_bw_halt_refuted_F1.

Theorem C04_bw_spin_refuted_F1 :
  exists comp d s n, cant_spin_out comp d = Ok (BwRefuted s) /\ spins_out_at (to_prog comp) init_config n.
Proof. exists f1_spin_prog, 40, 4, 12%nat. apply f1_spin_witness. Qed.
Print Assumptions C04_bw_spin_refuted_F1.

Theorem C04_bw_halt_refuted_F2 :
  exists comp d s n sl, cant_halt comp d = Ok (BwRefuted s) /\ halts_at (to_prog comp) init_config n sl.
Proof. exists f2_halt_prog, 3, 0, 1%nat, (1, 0). split; apply f2_halt_witness. Qed.
Print Assumptions C04_bw_halt_refuted_F2.

Theorem C04_stmt_refuted : ~ C04_bw_refuted_sound_stmt.
Proof.
  intro H. destruct (H f1_halt_prog 30 9) as (Hh & _).
  destruct f1_halt_witness as (W1 & W2 & _). exact (Hh W1 _ _ W2).
Qed.
Print Assumptions C04_stmt_refuted.

(** the counterfactual switches that identify the two call sites *)
Theorem C04_counterfactuals :
  cant_halt_sw (mkSw true false) f1_halt_prog 30 = Ok BwLinRec /\
  cant_halt_sw (mkSw false true) f2_halt_prog 3 = Ok BwInit.
Proof. split; [apply f1_halt_witness|apply f2_halt_witness]. Qed.
Print Assumptions C04_counterfactuals.

(** a refutation found at depth d is returned, with the same step number,
    for every depth above d (also C15) *)
Theorem C04_bw_mono : forall sw comp d d', d <= d' ->
  (cant_halt_sw sw comp d <> Ok BwStepLimit -> cant_halt_sw sw comp d' = cant_halt_sw sw comp d) /\
  (cant_blank_sw sw comp d <> Ok BwStepLimit -> cant_blank_sw sw comp d' = cant_blank_sw sw comp d) /\
  (cant_spin_out_sw sw comp d <> Ok BwStepLimit -> cant_spin_out_sw sw comp d' = cant_spin_out_sw sw comp d).
Proof. exact bw_mono. Qed.
Print Assumptions C04_bw_mono.
