(** C04 — Backward reasoner never refutes something the machine does.
    The full statement is FALSE for the faithful model of the unchanged
    code (known findings F1, F2): the refutations below are machine-checked.
    What is proved positively: the answer is monotone in the depth (with
    the same step number), and the two counterfactual switches remove the
    witnesses, and the LOCAL soundness of the building blocks (every plain
    backward step and every indefinite sweep is a sound over-approximation;
    the targets are complete; one full round of the main loop covers the real
    predecessor outside the F1 branch) - Proofs/BackstepSound.v. *)
From BB Require Import Base TM Ref InstrsModel TapeModel ReasonModel ReasonFacts StepSim BackstepSound.

(** the property as stated (kept visible; refuted below) *)
Definition C04_bw_refuted_sound_stmt : Prop :=
  forall comp depth s,
    (cant_halt comp depth = Ok (BwRefuted s) ->
       forall n sl, ~ halts_at (to_prog comp) init_config n sl) /\
    (cant_spin_out comp depth = Ok (BwRefuted s) ->
       forall n, ~ spins_out_at (to_prog comp) init_config n) /\
    (cant_blank comp depth = Ok (BwRefuted s) ->
       forall n, ~ erases_at (to_prog comp) init_config n).

Theorem C04_bw_halt_refuted_F1 :
  exists comp d s n sl, cant_halt comp d = Ok (BwRefuted s) /\ halts_at (to_prog comp) init_config n sl.
Proof. exists f1_halt_prog, 30, 9, 11%nat, (2, 1). split; apply f1_halt_witness. Qed.
Print Assumptions C04_bw_halt_refuted_F1.

Theorem C04_bw_spin_refuted_F1 :
  exists comp d s n, cant_spin_out comp d = Ok (BwRefuted s) /\ spins_out_at (to_prog comp) init_config n.
Proof. exists f1_spin_prog, 40, 4, 12%nat. apply f1_spin_witness. Qed.
Print Assumptions C04_bw_spin_refuted_F1.

Theorem C04_bw_halt_refuted_F2 :
  exists comp d s n sl, cant_halt comp d = Ok (BwRefuted s) /\ halts_at (to_prog comp) init_config n sl.
Proof. exists f2_halt_prog, 3, 0, 1%nat, (1, 0). split; apply f2_halt_witness. Qed.
Print Assumptions C04_bw_halt_refuted_F2.

Theorem C04_stmt_refuted : ~ C04_bw_refuted_sound_stmt.
Proof.
  intro H. destruct (H f1_halt_prog 30 9) as (Hh & _).
  destruct f1_halt_witness as (W1 & W2 & _). exact (Hh W1 _ _ W2).
Qed.
Print Assumptions C04_stmt_refuted.

(** the counterfactual switches that identify the two call sites *)
Theorem C04_counterfactuals :
  cant_halt_sw (mkSw true false) f1_halt_prog 30 = Ok BwLinRec /\
  cant_halt_sw (mkSw false true) f2_halt_prog 3 = Ok BwInit.
Proof. split; [apply f1_halt_witness|apply f2_halt_witness]. Qed.
Print Assumptions C04_counterfactuals.

(** a refutation found at depth d is returned, with the same step number,
    for every depth above d (also C15) *)
Theorem C04_bw_mono : forall sw comp d d', d <= d' ->
  (cant_halt_sw sw comp d <> Ok BwStepLimit -> cant_halt_sw sw comp d' = cant_halt_sw sw comp d) /\
  (cant_blank_sw sw comp d <> Ok BwStepLimit -> cant_blank_sw sw comp d' = cant_blank_sw sw comp d) /\
  (cant_spin_out_sw sw comp d <> Ok BwStepLimit -> cant_spin_out_sw sw comp d' = cant_spin_out_sw sw comp d).
Proof. exact bw_mono. Qed.
Print Assumptions C04_bw_mono.

(** ---- local soundness of the building blocks (concretisation [bs_conc]) ---- *)

(** a plain backward step: the pruning test passes and the abstract
    predecessor covers the real predecessor *)
Theorem C04_backstep_exact : forall (P : prog) q z q' z' t pr sh,
  tm_step P (q, z) = Some (q', z') ->
  P (q, zc z) = Some (pr, sh, q') ->
  bs_conc t z' ->
  pulls_indef t sh = false ->
  check_step t sh pr = true /\ bs_conc (backstep t sh (zc z)) z.
Proof. exact backstep_exact. Qed.
Print Assumptions C04_backstep_exact.

(** an indefinite sweep of k >= 1 same-state steps is covered by [push_indef] *)
Theorem C04_indef_covers : forall (P : prog) q c pr sh k z z' t b,
  P (q, c) = Some (pr, sh, q) ->
  (1 <= k)%nat ->
  sweep_run P q c k z z' ->
  bs_conc t z' ->
  check_spinout t sh c = Some b ->
  bs_conc (push_indef t sh) z.
Proof. exact indef_covers. Qed.
Print Assumptions C04_indef_covers.

(** exactly when [check_spinout] answers, and what: the F1 branch is [Some false] *)
Theorem C04_check_spinout_spec : forall t sh read b,
  check_spinout t sh read = Some b <->
  let pull := if sh then bs_lspan t else bs_rspan t in
  let push := if sh then bs_rspan t else bs_lspan t in
  bs_scan t = read /\ sp_blocks pull = [] /\
  (sp_end pull = EndBlanks \/ sp_blocks push <> []) /\
  b = negb (bspan_matches_color push (bs_scan t)).
Proof. exact check_spinout_spec. Qed.
Print Assumptions C04_check_spinout_spec.

(** one full round of the main loop covers the real predecessor of a plain
    step - except in the branch where [check_spinout] says [Some false] and the
    predecessor is dropped (F1), which the guard excludes *)
Theorem C04_plain_round_sound : forall sw comp cfgs cfg bl vs cfgs' indefs bl' q z q' z' pr sh,
  In cfg cfgs -> c_state cfg = q' -> bs_conc (c_tape cfg) z' ->
  to_prog comp (q, zc z) = Some (pr, sh, q') ->
  tm_step (to_prog comp) (q, z) = Some (q', z') ->
  get_valid_steps sw cfgs (get_entrypoints comp) = Ok vs ->
  step_configs vs bl = inl (cfgs', indefs, bl') ->
  (q = q' -> check_spinout (c_tape cfg) sh (zc z) = None \/
             (check_spinout (c_tape cfg) sh (zc z) = Some false /\ sw_nodrop sw = true)) ->
  round_covered cfgs' indefs bl' (c_tape cfg) sh q z.
Proof. exact plain_round_sound. Qed.
Print Assumptions C04_plain_round_sound.

(** the dropped predecessor of F1, located on the witness program *)
Theorem C04_f1_dropped_predecessor_covered : bs_conc (backstep f1_t7 false (zc f1_c6)) f1_c6.
Proof. exact f1_dropped_predecessor_covered. Qed.
Print Assumptions C04_f1_dropped_predecessor_covered.
