(** C06 — Closed-position-set analysis (interim file: the soundness proof is
    in progress; this file pins the machine-checked F2 refutation). *)
From BB Require Import Base TM Ref InstrsModel CpsModel.

(** F2: the early exit `halt_slots().is_empty()` with the table size taken
    from the defined keys only *)
Theorem C06_cps_true_refuted_F2 :
  exists prog rad n sl,
    cps_cant_halt order_oldest_first prog rad = Ok true /\ halts_at (to_prog prog) init_config n sl.
Proof.
  exists [((0,0),(0,false,1))], 3, 1%nat, (1, 0). split; [vm_compute; reflexivity|].
  unfold halts_at. eexists. eexists. split; [vm_compute; reflexivity|]. split; vm_compute; reflexivity.
Qed.
Print Assumptions C06_cps_true_refuted_F2.
