(** C06 — closed-position-set analysis: a [true] answer is true.
    Final statements only; proofs in Proofs/CpsData.v (containers) and
    Proofs/CpsSound.v (concretisation [covered], closure [closed]/[checked],
    registration invariant, goal tests, early exits).
    FULL variant of DESIGN.md (no re-check fall-back): the chain
    model answer -> closed final sets -> every reachable configuration covered
    is proved for the model itself, for every processing order that enumerates
    exactly the elements of [seen] ([order_ok]). *)
From BB Require Import Base TM InstrsModel CpsModel.
From BB Require Import CpsData CpsSound.
Open Scope N_scope.

(** ---- the three verdicts ---- *)

(** F2 guard [dims_ok]: needed only for the early exit [halt_slots = []]. *)
Theorem C06_cps_cant_halt_sound : forall order prog rad,
  order_ok order -> dims_ok prog -> cps_cant_halt order prog rad = Ok true ->
  forall n sl, ~ halts_at (to_prog prog) init_config n sl.
Proof. exact cps_cant_halt_sound. Qed.
Print Assumptions C06_cps_cant_halt_sound.

Theorem C06_cps_cant_blank_sound : forall order prog rad,
  order_ok order -> cps_cant_blank order prog rad = Ok true ->
  forall n, ~ erases_at (to_prog prog) init_config n.
Proof. exact cps_cant_blank_sound. Qed.
Print Assumptions C06_cps_cant_blank_sound.

Theorem C06_cps_cant_spin_out_sound : forall order prog rad,
  order_ok order -> cps_cant_spin_out order prog rad = Ok true ->
  forall n, ~ spins_out_at (to_prog prog) init_config n.
Proof. exact cps_cant_spin_out_sound. Qed.
Print Assumptions C06_cps_cant_spin_out_sound.

(** when the analysis itself answered (no early exit): no guard, and for
    Blank the stronger "no step ever leaves an all-blank tape" *)
Theorem C06_cps_run_halt_sound : forall order prog rad,
  order_ok order -> cps_run order prog rad CpsHalt = Ok true ->
  forall n sl, ~ halts_at (to_prog prog) init_config n sl.
Proof. exact cps_run_halt_sound. Qed.
Print Assumptions C06_cps_run_halt_sound.

Theorem C06_cps_run_blank_sound : forall order prog rad,
  order_ok order -> cps_run order prog rad CpsBlank = Ok true ->
  forall n q, ~ blank_after (to_prog prog) init_config n q.
Proof. exact cps_run_blank_sound. Qed.
Print Assumptions C06_cps_run_blank_sound.

Theorem C06_cps_run_spinout_sound : forall order prog rad,
  order_ok order -> cps_run order prog rad CpsSpinout = Ok true ->
  never_spins_out (to_prog prog) init_config.
Proof. exact cps_run_spinout_sound. Qed.
Print Assumptions C06_cps_run_spinout_sound.

(** F2: outside [dims_ok] the early exit is wrong ("0LB" alone) *)
Theorem C06_cps_true_refuted_F2 : exists prog rad n sl,
  cps_cant_halt order_oldest_first prog rad = Ok true /\
  halts_at (to_prog prog) init_config n sl.
Proof.
  exists [((0,0),(0,false,1))], 3, 1%nat, (1, 0). split; [vm_compute; reflexivity|].
  exists 1, {| zl := []; zc := 0; zr := [0] |}. vm_compute. repeat split; reflexivity.
Qed.
Print Assumptions C06_cps_true_refuted_F2.

(** ---- the chain ---- *)

(** B: local soundness of one processed config *)
Theorem C06_covered_step : forall prog goal n cfgs q z q' z',
  covered n cfgs (q, z) -> checked prog goal cfgs (alpha n q z) ->
  tm_step (to_prog prog) (q, z) = Some (q', z') ->
  covered n cfgs (q', z').
Proof. exact covered_step. Qed.
Print Assumptions C06_covered_step.

(** C: a completed sweep re-establishes the registration invariant ... *)
Theorem C06_sweep_registers : forall order prog goal fuel cfgs cfgs',
  order_ok order -> cset_ok (c_seen cfgs) ->
  cps_loop_body order prog goal fuel cfgs = inl cfgs' ->
  cset_ok (c_seen cfgs') /\ cfgs_le cfgs cfgs' /\ all_registered prog cfgs'.
Proof. exact sweep_inl. Qed.
Print Assumptions C06_sweep_registers.

(** ... under which a sweep answering true is a pure closure check *)
Theorem C06_closed_after_true : forall order prog goal fuel cfgs,
  order_ok order -> all_registered prog cfgs ->
  cps_loop_body order prog goal fuel cfgs = inr (Ok true) ->
  closed prog goal cfgs.
Proof. exact sweep_true. Qed.
Print Assumptions C06_closed_after_true.

(** D: every reachable configuration is covered by closed sets *)
Theorem C06_cps_cant_reach_sound : forall order prog rad goal,
  order_ok order -> cps_cant_reach order prog rad goal = Ok true ->
  exists cfgs, cset_ok (c_seen cfgs) /\ closed prog goal cfgs /\
    forall n c, tm_steps (to_prog prog) n init_config = Some c ->
                covered (N.to_nat (rad - 1)) cfgs c.
Proof. exact cps_cant_reach_sound. Qed.
Print Assumptions C06_cps_cant_reach_sound.

Theorem C06_cps_run_sound : forall order prog rad goal,
  cps_run order prog rad goal = Ok true ->
  exists seg, cps_cant_reach order prog seg goal = Ok true.
Proof. exact cps_run_sound. Qed.
Print Assumptions C06_cps_run_sound.

(** E: under [dims_ok] the machine never leaves the box of the keys *)
Theorem C06_reach_in_box : forall p, dims_ok p ->
  forall n c, tm_steps (to_prog p) n init_config = Some c -> in_box p c.
Proof. exact reach_in_box. Qed.
Print Assumptions C06_reach_in_box.

(** ---- A: containers ---- *)
Theorem C06_ctrie_get_upd : forall (A : Type) (k k2 : list N) f (t : ctrie A),
  ctrie_get k (ctrie_upd k f t) = Some (f (ctrie_get k t)) /\
  (k2 <> k -> ctrie_get k2 (ctrie_upd k f t) = ctrie_get k2 t).
Proof. intros. split; [apply ctrie_get_upd_same|apply ctrie_get_upd_other]. Qed.
Print Assumptions C06_ctrie_get_upd.

Theorem C06_cset_insert_ok : forall x s,
  cset_ok s -> cset_ok (cset_insert x s) /\
  forall c, cset_mem c (cset_insert x s) = true <-> c = x \/ cset_mem c s = true.
Proof. intros x s H. split; [apply cset_ok_insert; exact H|intro; apply cset_mem_insert]. Qed.
Print Assumptions C06_cset_insert_ok.

Theorem C06_spans_spec : forall sp s,
  (forall w col, reg (add_span sp s) w col <-> reg sp w col \/ (w = sp_span s /\ col = sp_last s)) /\
  (forall colors, get_colors sp s = Ok colors ->
     Sorted.Sorted N.le colors /\ forall col, In col colors <-> reg sp (sp_span s) col) /\
  (get_colors sp s = Panic <-> ctrie_get (sp_span s) sp = None).
Proof.
  intros. split; [intros; apply reg_add_span|]. split; [apply get_colors_ok|apply get_colors_panic].
Qed.
Print Assumptions C06_spans_spec.

(** ---- F: orders, radius ---- *)
Theorem C06_orders_ok : order_ok order_oldest_first /\ order_ok order_newest_first.
Proof. split; [exact order_ok_oldest_first|exact order_ok_newest_first]. Qed.
Print Assumptions C06_orders_ok.

(** (C15) a closed-set proof found with radius bound r is found with every larger bound *)
Theorem C06_cps_mono : forall order prog r r' goal,
  cps_run order prog r goal = Ok true -> r <= r' -> cps_run order prog r' goal = Ok true.
Proof. exact cps_run_mono. Qed.
Print Assumptions C06_cps_mono.

Theorem C06_cps_cant_mono : forall order prog r r', r <= r' ->
  (cps_cant_halt order prog r = Ok true -> cps_cant_halt order prog r' = Ok true) /\
  (cps_cant_blank order prog r = Ok true -> cps_cant_blank order prog r' = Ok true) /\
  (cps_cant_spin_out order prog r = Ok true -> cps_cant_spin_out order prog r' = Ok true).
Proof.
  intros. repeat split; intros H0;
    [eapply cps_cant_halt_mono|eapply cps_cant_blank_mono|eapply cps_cant_spin_out_mono]; eassumption.
Qed.
Print Assumptions C06_cps_cant_mono.

(** non-vacuity: three answers [true] that need a real closure (the slot
    lists are non-empty, so no early exit), on programs inside [dims_ok] *)
Example C06_nonvacuous :
  let h := [((0,0),(1,true,1)); ((1,0),(0,false,1)); ((1,1),(0,false,0))] in   (* 1RB ...  0LB 0LA *)
  let b := [((0,0),(1,true,1)); ((0,1),(0,false,1)); ((1,0),(1,false,0))] in   (* 1RB 0LB  1LA ... *)
  halt_slots h = [(0, 1)] /\ dims_ok h /\
  cps_cant_halt order_oldest_first h 5 = Ok true /\ cps_cant_halt order_newest_first h 5 = Ok true /\
  zr_shifts h = [(1, false)] /\ cps_cant_spin_out order_oldest_first h 5 = Ok true /\
  erase_slots b = [(0, 1)] /\ cps_cant_blank order_oldest_first b 5 = Ok true.
Proof. vm_compute. repeat split; reflexivity. Qed.
