(** C05 — Segment analysis verdicts are true of the real machine.
    Status: the Gallina model of segment.rs (720 lines, tied to the code on
    every run) has no global soundness theorem yet; what is machine-checked:
    the F2 refutation at the wrapper entry point, limit monotonicity, and
    (through the check) every settled verdict of the implementation on the
    explored programs against the extracted cell-by-cell spec. *)
From BB Require Import Base TM Ref InstrsModel TapeModel SegmentModel SegmentFacts.

(** the property as stated, for the trait entry point with the true table size *)
Definition C05_seg_verdicts_true_stmt : Prop :=
  forall prog S C segs,
    (forall s c pr sh tr, cp_get prog (s, c) = Some (pr, sh, tr) -> s < S /\ c < C /\ tr < S /\ pr < C) ->
    let P := to_prog prog in
    (forall st, sg_seg_cant_halt prog (S, C) segs = Ok (SgrRefuted st) -> forall n sl, ~ halts_at P init_config n sl) /\
    (forall st, sg_seg_cant_spin_out prog (S, C) segs = Ok (SgrRefuted st) -> forall n, ~ spins_out_at P init_config n) /\
    (forall st, sg_seg_cant_blank prog (S, C) segs = Ok (SgrRefuted st) -> forall n, ~ erases_at P init_config n) /\
    (forall g, sg_segment_cant_reach prog (S, C) segs g = Ok SgrHalt -> exists n sl, halts_at P init_config n sl) /\
    (forall g, sg_segment_cant_reach prog (S, C) segs g = Ok SgrSpinout -> exists n, spins_out_at P init_config n) /\
    (forall g, sg_segment_cant_reach prog (S, C) segs g = Ok SgrBlank -> exists n q, blank_after P init_config n q) /\
    (forall g, sg_segment_cant_reach prog (S, C) segs g = Ok SgrRepeat -> never_halts P init_config).

(** F2 at the wrapper: the inferred table size hides the halting slot *)
Theorem C05_wrapper_refuted_F2 :
  exists prog segs st n sl,
    sg_py_segment_cant_halt prog segs = Ok (SgrRefuted st) /\ halts_at (to_prog prog) init_config n sl.
Proof. exists f2_seg_prog, 3, 0, 1%nat, (1, 0). split; apply f2_seg_witness. Qed.
Print Assumptions C05_wrapper_refuted_F2.

(** ... and with the text size the same program is answered correctly *)
Theorem C05_wrapper_counterfactual : sg_seg_cant_halt f2_seg_prog (2, 2) 3 = Ok SgrHalt.
Proof. apply f2_seg_witness. Qed.
Print Assumptions C05_wrapper_counterfactual.

(** a settled answer is kept for every larger segment limit (also C15) *)
Theorem C05_seg_mono : forall prog params goal s s',
  2 <= s -> s <= s' ->
  sg_segment_cant_reach prog params s goal <> Ok SgrSegmentLimit ->
  sg_segment_cant_reach prog params s' goal = sg_segment_cant_reach prog params s goal.
Proof. exact seg_mono. Qed.
Print Assumptions C05_seg_mono.
