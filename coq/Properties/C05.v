(** C05 — Segment analysis verdicts are true of the real machine.

    Status: PROVED for the Gallina model of segment.rs (tied to the code on
    every run), for the trait entry points with a table size (S, C) that
    bounds the table, 0 < S, 0 < C:
      - positive verdicts Halt / Spinout / Blank / Repeat, whatever the goal
        ([C05_seg_positive_sound]; no hypothesis on the table size needed);
      - refutations for the goals halt and spin-out ([C05_seg_refuted_sound]);
      - the goal blank is NEVER refuted ([C05_seg_blank_never_refuted]): that
        clause holds vacuously;
      - all together: [C05_seg_verdicts_true].
    The statement as first written (without 0 < S, 0 < C) is false for the
    empty table with S = 0 ([C05_seg_verdicts_true_stmt_degenerate]).
    The wrapper entry points infer the table size from the defined slots
    (known finding F2): [C05_wrapper_refuted_F2].
    Proofs: Proofs/SegmentTape.v (layer 1), SegmentSound.v (2-3),
    SegmentVerdicts.v (4), SegmentAprog/Shape/Refute/Cover/RefuteHalt/
    RefuteSpin/Blank/All.v (5). *)
From BB Require Import Base TM Ref InstrsModel TapeModel SegmentModel SegmentFacts.
From BB Require Import MacroSpec MacroSim SegmentTape SegmentSound SegmentVerdicts
  SegmentRefuteHalt SegmentRefuteSpin SegmentBlank SegmentAll.

(** the property as first stated (kept; see the degenerate case below) *)
Definition C05_seg_verdicts_true_stmt : Prop :=
  forall prog S C segs,
    (forall s c pr sh tr, cp_get prog (s, c) = Some (pr, sh, tr) -> s < S /\ c < C /\ tr < S /\ pr < C) ->
    let P := to_prog prog in
    (forall st, sg_seg_cant_halt prog (S, C) segs = Ok (SgrRefuted st) -> forall n sl, ~ halts_at P init_config n sl) /\
    (forall st, sg_seg_cant_spin_out prog (S, C) segs = Ok (SgrRefuted st) -> forall n, ~ spins_out_at P init_config n) /\
    (forall st, sg_seg_cant_blank prog (S, C) segs = Ok (SgrRefuted st) -> forall n, ~ erases_at P init_config n) /\
    (forall g, sg_segment_cant_reach prog (S, C) segs g = Ok SgrHalt -> exists n sl, halts_at P init_config n sl) /\
    (forall g, sg_segment_cant_reach prog (S, C) segs g = Ok SgrSpinout -> exists n, spins_out_at P init_config n) /\
    (forall g, sg_segment_cant_reach prog (S, C) segs g = Ok SgrBlank -> exists n q, blank_after P init_config n q) /\
    (forall g, sg_segment_cant_reach prog (S, C) segs g = Ok SgrRepeat -> never_halts P init_config).

(** THE PROPERTY, with the two side conditions it needs *)
Theorem C05_seg_verdicts_true : forall prog S C segs,
  0 < S -> 0 < C ->
  (forall s c pr sh tr, cp_get prog (s, c) = Some (pr, sh, tr) -> s < S /\ c < C /\ tr < S /\ pr < C) ->
  let P := to_prog prog in
  (forall st, sg_seg_cant_halt prog (S, C) segs = Ok (SgrRefuted st) -> forall n sl, ~ halts_at P init_config n sl) /\
  (forall st, sg_seg_cant_spin_out prog (S, C) segs = Ok (SgrRefuted st) -> forall n, ~ spins_out_at P init_config n) /\
  (forall st, sg_seg_cant_blank prog (S, C) segs = Ok (SgrRefuted st) -> forall n, ~ erases_at P init_config n) /\
  (forall g, sg_segment_cant_reach prog (S, C) segs g = Ok SgrHalt -> exists n sl, halts_at P init_config n sl) /\
  (forall g, sg_segment_cant_reach prog (S, C) segs g = Ok SgrSpinout -> exists n, spins_out_at P init_config n) /\
  (forall g, sg_segment_cant_reach prog (S, C) segs g = Ok SgrBlank -> exists n q, blank_after P init_config n q) /\
  (forall g, sg_segment_cant_reach prog (S, C) segs g = Ok SgrRepeat -> never_halts P init_config).
Proof. exact seg_verdicts_true. Qed.
Print Assumptions C05_seg_verdicts_true.

(** without 0 < S the statement fails: empty table, S = 0: Refuted(0) for
    halt, and the machine halts at step 0 *)
Theorem C05_seg_verdicts_true_stmt_degenerate : ~ C05_seg_verdicts_true_stmt.
Proof. exact seg_verdicts_stmt_false. Qed.
Print Assumptions C05_seg_verdicts_true_stmt_degenerate.

(** layer 4 — THE POSITIVE VERDICTS: whatever the goal, an answer Halt /
    Spinout / Blank / Repeat is true of the machine started on the blank tape *)
Theorem C05_seg_positive_sound : forall prog S C segs g,
  prog_within prog S C ->
  let P := to_prog prog in
  (sg_segment_cant_reach prog (S, C) segs g = Ok SgrHalt -> exists n sl, halts_at P init_config n sl) /\
  (sg_segment_cant_reach prog (S, C) segs g = Ok SgrSpinout -> exists n, spins_out_at P init_config n) /\
  (sg_segment_cant_reach prog (S, C) segs g = Ok SgrBlank -> exists n q, blank_after P init_config n q) /\
  (sg_segment_cant_reach prog (S, C) segs g = Ok SgrRepeat -> never_halts P init_config).
Proof. intros prog S C segs g _. exact (seg_positive_sound prog (S, C) segs g). Qed.
Print Assumptions C05_seg_positive_sound.

(** ... and in fact for ANY claimed table size (so also at the wrapper entry
    points, whose inferred size can be wrong: F2 only affects refutations) *)
Theorem C05_seg_positive_sound_any_params : forall prog params segs g,
  let P := to_prog prog in
  (sg_segment_cant_reach prog params segs g = Ok SgrHalt -> exists n sl, halts_at P init_config n sl) /\
  (sg_segment_cant_reach prog params segs g = Ok SgrSpinout -> exists n, spins_out_at P init_config n) /\
  (sg_segment_cant_reach prog params segs g = Ok SgrBlank -> exists n q, blank_after P init_config n q) /\
  (sg_segment_cant_reach prog params segs g = Ok SgrRepeat -> never_halts P init_config).
Proof. exact seg_positive_sound. Qed.
Print Assumptions C05_seg_positive_sound_any_params.

(** layer 5 — THE REFUTATIONS for the goals halt and spin-out *)
Theorem C05_seg_refuted_sound : forall prog S C segs,
  prog_within prog S C -> 0 < S -> 0 < C ->
  let P := to_prog prog in
  (forall st, sg_seg_cant_halt prog (S, C) segs = Ok (SgrRefuted st) -> forall n sl, ~ halts_at P init_config n sl) /\
  (forall st, sg_seg_cant_spin_out prog (S, C) segs = Ok (SgrRefuted st) -> forall n, ~ spins_out_at P init_config n).
Proof.
  intros prog S C segs Hw HS HC P. split; intros st H.
  - exact (seg_refuted_halt_sound prog S C segs st (prog_within_sound prog S C Hw) HS HC H).
  - exact (seg_refuted_spin_sound prog S C segs st (prog_within_sound prog S C Hw) HS HC H).
Qed.
Print Assumptions C05_seg_refuted_sound.

(** ... and the goal blank is never refuted, for any table and any size *)
Theorem C05_seg_blank_never_refuted : forall prog params segs st,
  sg_seg_cant_blank prog params segs <> Ok (SgrRefuted st).
Proof. exact seg_cant_blank_never_refuted. Qed.
Print Assumptions C05_seg_blank_never_refuted.

(** layer 1: one step of the run-length window tape is k >= 1 steps of the
    real machine inside the window (same state, same scanned colour before the
    last step: the same-state sweep) *)
Theorem C05_seg_tape_step_sim : forall (P : prog) q c pr sh q' t t' T h,
  P (q, c) = Some (pr, sh, q') ->
  sgt_scan t = Some c -> tape_ok t -> rep t T h ->
  sg_tape_step t sh pr (q' =? q) = Ok t' ->
  exists k T' h',
    (1 <= k)%nat /\
    TMabs.a_steps P k (TMabs.mkA q h T) = Some (TMabs.mkA q' h' T') /\
    tape_ok t' /\ rep t' T' h' /\
    (forall i ci, (i < k)%nat -> TMabs.a_steps P i (TMabs.mkA q h T) = Some ci ->
       (wl t h <= TMabs.a_h ci <= wr t h)%Z /\ TMabs.a_q ci = q /\
       TMabs.a_t ci (TMabs.a_h ci) = c) /\
    (forall y, ~ (wl t h <= y <= wr t h)%Z -> T' y = T y) /\
    match sgt_scan t' with
    | Some _ => wl t' h' = wl t h /\ wr t' h' = wr t h
    | None =>
        if sh then h' = (wr t h + 1)%Z /\ sgt_rspan t' = [] /\ wl t' h' = wl t h
        else h' = (wl t h - 1)%Z /\ sgt_lspan t' = [] /\ wr t' h' = wr t h
    end.
Proof. exact sg_tape_step_sim. Qed.
Print Assumptions C05_seg_tape_step_sim.

(** layer 2: what the results of [run_to_edge] mean for a configuration whose
    flag [init] is set at the end ([rte_post], Proofs/SegmentSound.v) *)
Theorem C05_seg_run_to_edge_sound : forall prog goal c cs,
  cfg_ok c -> rte_post prog (sgs_todo cs) (sg_run_to_edge prog goal c cs).
Proof. exact sg_run_to_edge_sound. Qed.
Print Assumptions C05_seg_run_to_edge_sound.

(** layer 3: every configuration the exploration hands to [run_to_edge] with
    its flag [init] set is a real configuration of the machine *)
Theorem C05_seg_init_exact : forall prog (ap : sg_aprog) goal, sga_prog ap = prog ->
  forall n cs0 cs, asr_inv cs0 ->
  iter_nat n (sg_asr_body ap goal) cs0 = inl cs ->
  forall c cs', sg_configs_next cs = Ok (Some c, cs') ->
  tape_ok (sgc_tape c) /\ (sgc_init c = true -> real_at prog 0 (sg_x c)).
Proof. exact sg_init_exact. Qed.
Print Assumptions C05_seg_init_exact.

(** non-vacuity: each verdict is produced (model run by vm_compute) *)
Definition c05_p_spin : comp_prog := [((0,0),(0,true,0)); ((0,1),(1,true,0))].
Definition c05_p_blank : comp_prog :=
  [((0,0),(1,true,1)); ((0,1),(0,true,0)); ((1,0),(0,false,0)); ((1,1),(1,false,1))].
Definition c05_p_rep : comp_prog :=
  [((0,0),(1,true,1)); ((0,1),(1,true,1)); ((1,0),(1,false,0)); ((1,1),(1,false,0)); ((2,0),(1,false,0))].
(* 1RB 1LB  0RA ... *)
Definition c05_p_nohalt : comp_prog := [((0,0),(1,true,1)); ((0,1),(1,false,1)); ((1,0),(0,true,0))].
(* 1RB 1LA  1LB 0LA *)
Definition c05_p_nospin : comp_prog :=
  [((0,0),(1,true,1)); ((0,1),(1,false,0)); ((1,0),(1,false,1)); ((1,1),(0,false,0))].
Example C05_nonvacuous :
  sg_segment_cant_reach f2_seg_prog (2, 2) 3 SgHalt = Ok SgrHalt /\
  sg_segment_cant_reach c05_p_spin (1, 2) 3 SgSpinout = Ok SgrSpinout /\
  sg_segment_cant_reach c05_p_blank (2, 2) 3 SgBlank = Ok SgrBlank /\
  sg_segment_cant_reach c05_p_rep (3, 2) 3 SgHalt = Ok SgrRepeat /\
  sg_seg_cant_halt c05_p_nohalt (2, 2) 4 = Ok (SgrRefuted 2) /\
  sg_seg_cant_spin_out c05_p_nospin (2, 2) 4 = Ok (SgrRefuted 3) /\
  prog_within f2_seg_prog 2 2 /\ prog_within c05_p_spin 1 2 /\
  prog_within c05_p_blank 2 2 /\ prog_within c05_p_rep 3 2 /\
  prog_within c05_p_nohalt 2 2 /\ prog_within c05_p_nospin 2 2.
Proof. repeat split; vm_compute; reflexivity. Qed.

(** F2 at the wrapper: the inferred table size hides the halting slot *)
Theorem C05_wrapper_refuted_F2 :
  exists prog segs st n sl,
    sg_py_segment_cant_halt prog segs = Ok (SgrRefuted st) /\ halts_at (to_prog prog) init_config n sl.
Proof. exists f2_seg_prog, 3, 0, 1%nat, (1, 0). split; apply f2_seg_witness. Qed.
Print Assumptions C05_wrapper_refuted_F2.

(** ... and with the text size the same program is answered correctly *)
Theorem C05_wrapper_counterfactual : sg_seg_cant_halt f2_seg_prog (2, 2) 3 = Ok SgrHalt.
Proof. apply f2_seg_witness. Qed.
Print Assumptions C05_wrapper_counterfactual.

(** a settled answer is kept for every larger segment limit (also C15) *)
Theorem C05_seg_mono : forall prog params goal s s',
  2 <= s -> s <= s' ->
  sg_segment_cant_reach prog params s goal <> Ok SgrSegmentLimit ->
  sg_segment_cant_reach prog params s' goal = sg_segment_cant_reach prog params s goal.
Proof. exact seg_mono. Qed.
Print Assumptions C05_seg_mono.
