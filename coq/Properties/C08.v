(** C08 — The k-cell block macro simulates the base machine.
    Final statements only; vocabulary in Spec/MacroSpec.v ([encode], [decode],
    [win_at], [inside], [entry_pos], [leaves], [halts_inside], [never_leaves],
    [blk_dec_cfg]); proofs in Proofs/MacroSim.v (the simulator loop),
    Proofs/MacroPure.v (converter caches), Proofs/MacroBlock.v (block logic).

    Macro colour = positional value of the k base cells, most significant
    cell first; macro state = 2 * base state + (1 if the block is entered
    from its right end).  [calc_block P k Q C] is the macro program as a pure
    function of the slot; the stateful object ([macro_calculate_instr]) returns
    exactly that on every object whose caches satisfy [cache_ok] and know the
    queried colour.  Hypotheses: 1 <= k, 1 <= C, the program is within
    (Q states, C colours), and [blk_fits k Q C] (no u64 overflow:
    C^k, Q*k*C^k, 2*Q <= u64::MAX — true for every case in scope). *)
From BB Require Import Base TM TMabs MacroSpec InstrsModel MacrosModel.
From BB Require Import MacroSim MacroPure MacroBlock.
Open Scope N_scope.

(** positional encoding and decoding are inverse; encoding is injective; and
    it is what the fold of [tape_to_color] (macros.rs:391-396) computes *)
Theorem C08_enc_dec : forall C tp,
  Forall (ltC C) tp -> decode C (length tp) (encode C tp) = tp.
Proof. exact enc_dec. Qed.
Print Assumptions C08_enc_dec.

Theorem C08_dec_enc : forall C k c,
  0 < C -> c < C ^ N.of_nat k -> encode C (decode C k c) = c.
Proof. exact dec_enc. Qed.
Print Assumptions C08_dec_enc.

Theorem C08_encode_inj : forall C a b,
  length a = length b -> Forall (ltC C) a -> Forall (ltC C) b ->
  encode C a = encode C b -> a = b.
Proof. exact encode_inj. Qed.
Print Assumptions C08_encode_inj.

Theorem C08_encode_is_fold : forall C tp,
  1 <= C -> Forall (ltC C) tp -> C ^ N.of_nat (length tp) <= u64_max ->
  t2c_fold C (rev tp) 0 0 = Ok (encode C tp).
Proof. exact t2c_fold_encode. Qed.
Print Assumptions C08_encode_is_fold.

(** the cache invariant holds for a fresh object, which knows colour 0 *)
Theorem C08_fresh : forall k C,
  0 < C -> cache_ok k C (mstate_new k) /\
           c2t_get (ms_c2t (mstate_new k)) 0 = Some (repeat 0 (N.to_nat k)).
Proof. intros k C HC. split; [apply cache_ok_new; exact HC|reflexivity]. Qed.
Print Assumptions C08_fresh.

(** ONE ITERATION of the simulator loop is n >= 1 base steps inside the
    window (any absolute tape carrying the window at [lo]) *)
Theorem C08_sim_body_sound : forall (P : prog) cells s lo t,
  sim_ok cells s -> win_at t lo (si_tape unit s) ->
  match sim_body unit (pget P) cells s with
  | inl s' =>
      sim_ok cells s' /\
      exists n t', (1 <= n)%nat /\
        wrun P lo (N.to_nat cells) n (cfg_of lo s t) (cfg_of lo s' t') /\
        win_at t' lo (si_tape unit s')
  | inr (SxSide _ side st' tp' _) =>
      mt_len tp' = cells /\
      exists n t', (1 <= n)%nat /\
        wrun P lo (N.to_nat cells) n (cfg_of lo s t)
             (mkA st' (if side then lo + Z.of_N cells else lo - 1)%Z t') /\
        win_at t' lo tp'
  | inr (SxNone _ _) => a_step P (cfg_of lo s t) = None
  | inr (SxPanic _ _) => False
  end.
Proof. exact sim_body_sound. Qed.
Print Assumptions C08_sim_body_sound.

(** A COMPUTED INSTRUCTION IS SOUND.  On any object satisfying the cache
    invariant that knows colour [mc]: the answer is the pure [calc_block]; the
    invariant is kept and the written colour is known afterwards; and if the
    answer is (mc', sh, ms') then the base machine, entering the block that
    holds [decode mc] in state ms/2 from the side given by ms mod 2, leaves
    it after n >= 1 steps on the side [sh] in state ms'/2, the block holding
    [decode mc'], the head inside the block at all earlier times, nothing
    outside the block changed — on EVERY absolute tape carrying the block. *)
Theorem C08_block_instr_sound : forall comp k Q C m ms mc tp r m',
  1 <= k -> 1 <= C -> blk_fits k Q C -> prog_within comp Q C ->
  cache_ok k C m -> c2t_get (ms_c2t m) mc = Some tp ->
  macro_calculate_instr unit (plain_get comp) (blk_logic k Q C) (m, tt) (ms, mc) = (r, (m', tt)) ->
  cache_ok k C m' /\ r = Ok (calc_block (to_prog comp) k Q C (ms, mc)) /\
  forall mc' sh ms', r = Ok (Some (mc', sh, ms')) ->
    ms' mod 2 = (if sh then 0 else 1) /\ ms' / 2 < Q /\ mc' < C ^ k /\
    c2t_get (ms_c2t m') mc' = Some (decode C (N.to_nat k) mc') /\
    forall lo t, win_at t lo (decode C (N.to_nat k) mc) ->
      leaves (to_prog comp) lo (N.to_nat k)
             (mkA (ms / 2) (entry_pos (ms mod 2 =? 1) lo (N.to_nat k)) t)
             sh (ms' / 2) (decode C (N.to_nat k) mc').
Proof. exact block_instr_sound. Qed.
Print Assumptions C08_block_instr_sound.

(** NO INSTRUCTION exactly when the base machine halts inside the block or
    never leaves it *)
Theorem C08_block_instr_none : forall comp k Q C m ms mc tp lo t,
  1 <= k -> 1 <= C -> blk_fits k Q C -> prog_within comp Q C ->
  cache_ok k C m -> c2t_get (ms_c2t m) mc = Some tp ->
  win_at t lo (decode C (N.to_nat k) mc) ->
  (fst (macro_calculate_instr unit (plain_get comp) (blk_logic k Q C) (m, tt) (ms, mc)) = Ok None <->
   halts_inside (to_prog comp) lo (N.to_nat k)
                (mkA (ms / 2) (entry_pos (ms mod 2 =? 1) lo (N.to_nat k)) t) \/
   never_leaves (to_prog comp) lo (N.to_nat k)
                (mkA (ms / 2) (entry_pos (ms mod 2 =? 1) lo (N.to_nat k)) t)).
Proof. exact block_instr_none. Qed.
Print Assumptions C08_block_instr_none.

(** the same two facts for the pure function, over any partial-function base *)
Theorem C08_calc_block_sound : forall (P : prog) k Q C,
  1 <= k -> 1 <= C -> blk_fits k Q C -> prog_within_P P Q C ->
  forall ms mc mc' sh ms',
  calc_block P k Q C (ms, mc) = Some (mc', sh, ms') ->
  (forall lo t, win_at t lo (decode C (N.to_nat k) mc) ->
     leaves P lo (N.to_nat k) (mkA (ms / 2) (entry_pos (ms mod 2 =? 1) lo (N.to_nat k)) t)
            sh (ms' / 2) (decode C (N.to_nat k) mc')) /\
  ms' mod 2 = (if sh then 0 else 1) /\ ms' / 2 < Q /\ mc' < C ^ k.
Proof. exact calc_block_sound. Qed.
Print Assumptions C08_calc_block_sound.

Theorem C08_calc_block_none : forall (P : prog) k Q C,
  1 <= k -> 1 <= C -> blk_fits k Q C -> prog_within_P P Q C ->
  forall ms mc lo t, win_at t lo (decode C (N.to_nat k) mc) ->
  (calc_block P k Q C (ms, mc) = None <->
   halts_inside P lo (N.to_nat k) (mkA (ms / 2) (entry_pos (ms mod 2 =? 1) lo (N.to_nat k)) t) \/
   never_leaves P lo (N.to_nat k) (mkA (ms / 2) (entry_pos (ms mod 2 =? 1) lo (N.to_nat k)) t)).
Proof. exact calc_block_none. Qed.
Print Assumptions C08_calc_block_none.

(** THE RUN.  For every macro configuration c0 (absolute presentation) and
    every n there is a strictly increasing clock [tm] with tm 0 = 0 such that
    the macro configuration after i <= n macro steps decodes ([blk_dec_cfg])
    to the base configuration after [tm i] base steps: the macro machine
    visits, in order, only configurations the base machine visits. *)
Theorem C08_block_run_sim : forall (P : prog) k Q C,
  1 <= k -> 1 <= C -> blk_fits k Q C -> prog_within_P P Q C ->
  forall c0 n,
  exists tm : nat -> nat,
    tm O = O /\ (forall i, (i < n)%nat -> (tm i < tm (S i))%nat) /\
    forall i ci, (i <= n)%nat -> a_steps (calc_block P k Q C) i c0 = Some ci ->
      exists cb, a_steps P (tm i) (blk_dec_cfg C k c0) = Some cb /\
                 aconf_eq cb (blk_dec_cfg C k ci).
Proof. exact block_run_sim. Qed.
Print Assumptions C08_block_run_sim.

(** ... for the cell-by-cell machine of Spec/TM.v on a zipper of macro
    colours whose head stands at macro position H *)
Theorem C08_block_run_sim_zipper : forall (P : prog) k Q C,
  1 <= k -> 1 <= C -> blk_fits k Q C -> prog_within_P P Q C ->
  forall ms z H n ms' z',
  tm_steps (calc_block P k Q C) n (ms, z) = Some (ms', z') ->
  exists H' m cb, (n <= m)%nat /\
    a_steps P m (blk_dec_cfg C k (mkA ms H (abs_of z H))) = Some cb /\
    aconf_eq cb (blk_dec_cfg C k (mkA ms' H' (abs_of z' H'))).
Proof. exact block_run_sim_zipper. Qed.
Print Assumptions C08_block_run_sim_zipper.

(** THE REAL OBJECT.  Driving the macro machine by querying the stateful
    object ([macro_get_instr]: converter caches + instruction memo) gives
    exactly the run of the pure macro program, never panics, and keeps the
    invariants ([obj_ok]: positional caches, memo entries = pure answers;
    [tape_known]: every colour on the macro tape is in the colour cache) *)
Theorem C08_block_obj_run : forall (P : prog) k Q C,
  1 <= k -> 1 <= C -> blk_fits k Q C -> prog_within_P P Q C ->
  forall n m q z,
  obj_ok P k Q C m -> tape_known k C m z ->
  match tm_steps (calc_block P k Q C) n (q, z) with
  | Some c' => exists m', obj_steps (macro_get_instr unit (pget P) (blk_logic k Q C)) n ((m, tt), (q, z))
                            = Ok (Some ((m', tt), c')) /\
                          obj_ok P k Q C m' /\ tape_known k C m' (snd c')
  | None => obj_steps (macro_get_instr unit (pget P) (blk_logic k Q C)) n ((m, tt), (q, z)) = Ok None
  end.
Proof. exact block_obj_run. Qed.
Print Assumptions C08_block_obj_run.

(** ... in particular from a fresh object and the blank tape *)
Theorem C08_block_obj_run_blank : forall (P : prog) k Q C,
  1 <= k -> 1 <= C -> blk_fits k Q C -> prog_within_P P Q C ->
  forall n,
  match tm_steps (calc_block P k Q C) n ((0 : state), blank_tape) with
  | Some c' => exists m', obj_steps (macro_get_instr unit (pget P) (blk_logic k Q C)) n
                            ((mstate_new k, tt), ((0 : state), blank_tape)) = Ok (Some ((m', tt), c'))
  | None => obj_steps (macro_get_instr unit (pget P) (blk_logic k Q C)) n
              ((mstate_new k, tt), ((0 : state), blank_tape)) = Ok None
  end.
Proof. exact block_obj_run_blank. Qed.
Print Assumptions C08_block_obj_run_blank.

(** the blank macro configuration is the blank base configuration *)
Theorem C08_blank : forall k C, 1 <= k -> 1 <= C ->
  aconf_eq (blk_dec_cfg C k (mkA 0 0%Z (abs_of blank_tape 0%Z))) (mkA 0 0%Z (fun _ => 0)).
Proof. exact dec_cfg_blank. Qed.
Print Assumptions C08_blank.

(** non-vacuity: "1RB 1LB  1LA ---" with 2-cell blocks.  The hypotheses hold;
    slot (0,0) has an instruction, slot (0,1) has none (the base machine halts
    in B on the 1 inside the block); "0RB ---  0LA ---" never leaves a blank
    block (the answer None comes from exhausting sim_lim); the stateful object
    gives the same answers; [block_new] builds [blk_logic]. *)
Example C08_nonvacuous :
  let comp := [((0,0),(1,true,1)); ((0,1),(1,false,1)); ((1,0),(1,false,0))] in
  let loop := [((0,0),(0,true,1)); ((1,0),(0,false,0))] in
  prog_within comp 2 2 /\ prog_within loop 2 2 /\ blk_fits 2 2 2 /\
  block_new 2 (2, 2) = Ok (blk_logic 2 2 2) /\
  calc_block (to_prog comp) 2 2 2 (0, 0) = Some (3, false, 3) /\
  calc_block (to_prog comp) 2 2 2 (0, 1) = None /\
  calc_block (to_prog loop) 2 2 2 (0, 0) = None /\
  fst (macro_calculate_instr unit (plain_get comp) (blk_logic 2 2 2) (mstate_new 2, tt) (0, 0))
    = Ok (Some (3, false, 3)) /\
  decode 2 2 3 = [1; 1] /\ encode 2 [1; 1] = 3.
Proof. vm_compute. repeat split; reflexivity || (intro; discriminate). Qed.
