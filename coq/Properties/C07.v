(** C07 — Quick recurrence check: every verdict is true.
    Final statements only; proofs in Proofs/RecSound.v, TranslatedCycle.v,
    CompareTake.v, AbsEquiv.v, MonoMachine.v. *)
From BB Require Import Base TM TMabs Ref TapeModel InstrsModel MachineModel.
From BB Require Import TranslatedCycle RecSound MonoMachine.
Open Scope N_scope.

(** For a normal-form program (first instruction 1RB) and EVERY cycle limit:
    recurrence => the machine never halts and never spins out; spin-out => it spins out;
    undefined slot => it halts exactly there. *)
Theorem C07_rec_sound : forall comp lim,
  to_prog comp (0, 0) = Some (1, true, 1) ->
  match quick_term_or_rec comp lim with
  | RLimit => True
  | RRecur => never_halts (to_prog comp) init_config /\ never_spins_out (to_prog comp) init_config
  | RSpinout => exists n, spins_out_at (to_prog comp) init_config n
  | RUndefined sl => exists n, halts_at (to_prog comp) init_config n sl
  end.
Proof. exact rec_sound. Qed.
Print Assumptions C07_rec_sound.

(** the semantic core: a translated cycle never halts *)
Theorem C07_translated_cycle : forall P c1 c2 n lo hi d,
  (1 <= n)%nat -> a_steps P n c1 = Some c2 -> stays P n c1 lo hi ->
  a_q c2 = a_q c1 -> a_h c2 = (a_h c1 + d)%Z ->
  (forall x, (lo <= x <= hi)%Z -> a_t c2 (x + d)%Z = a_t c1 x) ->
  ((0 < d)%Z -> forall x, (hi < x)%Z -> a_t c2 (x + d)%Z = a_t c1 x) ->
  ((d < 0)%Z -> forall x, (x < lo)%Z -> a_t c2 (x + d)%Z = a_t c1 x) ->
  a_never_halts P c1.
Proof. exact translated_cycle. Qed.
Print Assumptions C07_translated_cycle.

(** ... and never spins out if it did not during the first period *)
Theorem C07_translated_cycle_no_spinout : forall P c1 c2 n lo hi d,
  (1 <= n)%nat -> a_steps P n c1 = Some c2 -> stays P n c1 lo hi ->
  a_q c2 = a_q c1 -> a_h c2 = (a_h c1 + d)%Z ->
  (forall x, (lo <= x <= hi)%Z -> a_t c2 (x + d)%Z = a_t c1 x) ->
  ((0 < d)%Z -> forall x, (hi < x)%Z -> a_t c2 (x + d)%Z = a_t c1 x) ->
  ((d < 0)%Z -> forall x, (x < lo)%Z -> a_t c2 (x + d)%Z = a_t c1 x) ->
  (forall i ci, (i < n)%nat -> a_steps P i c1 = Some ci -> ~ a_spinout_cfg P ci) ->
  forall m cm, a_steps P m c1 = Some cm -> ~ a_spinout_cfg P cm.
Proof. exact translated_cycle_no_spinout. Qed.
Print Assumptions C07_translated_cycle_no_spinout.

(** a settled verdict is kept for every larger limit (also C15) *)
Theorem C07_rec_mono : forall comp n m,
  quick_term_or_rec comp n <> RLimit -> n <= m -> quick_term_or_rec comp m = quick_term_or_rec comp n.
Proof. exact rec_mono. Qed.
Print Assumptions C07_rec_mono.

(** non-vacuity: "1RB 0LB  1LA 0RA"-like programs settle with every verdict *)
Example C07_nonvacuous :
  let recur := [((0,0),(1,true,1)); ((1,0),(0,false,1)); ((1,1),(0,false,0))] in  (* 1RB ...  0LB 0LA *)
  let spin := [((0,0),(1,true,1)); ((0,1),(1,false,1)); ((1,0),(0,true,1)); ((1,1),(1,true,0))] in
  to_prog recur (0,0) = Some (1, true, 1) /\ quick_term_or_rec recur 100 = RRecur /\
  quick_term_or_rec spin 100 = RSpinout /\
  quick_term_or_rec [((0,0),(1,true,1))] 100 = RUndefined (1, 0).
Proof. vm_compute. repeat split; reflexivity. Qed.
