(** C11 — rule arithmetic is exact.
    This file contains only the final statements; proofs are in
    Proofs/RulesExact.v.  Model: Model/RulesModel.v (src/rules.rs after the
    two fix: commits; the pre-fix definitions are [*_prefix]). *)
From BB Require Import Base TapeModel RulesModel RulesExact.

(** an inferred additive difference reproduces the four counts, provided the
    three true successive differences fit an i32 *)
Theorem C11_diff_exact : forall a b c d x,
  (Z.abs (Z.of_N b - Z.of_N a) < 2 ^ 31)%Z ->
  (Z.abs (Z.of_N c - Z.of_N b) < 2 ^ 31)%Z ->
  (Z.abs (Z.of_N d - Z.of_N c) < 2 ^ 31)%Z ->
  calculate_diff a b c d = Ok (DGot (Plus x)) ->
  Z.of_N b = (Z.of_N a + x)%Z /\ Z.of_N c = (Z.of_N b + x)%Z /\ Z.of_N d = (Z.of_N c + x)%Z.
Proof. exact diff_exact. Qed.
Print Assumptions C11_diff_exact.

(** a block is skipped (gets no rule entry) exactly when its four counts agree *)
Theorem C11_diff_skip : forall a b c d,
  calculate_diff a b c d = Ok DSkip <-> a = b /\ b = c /\ c = d.
Proof. exact diff_skip. Qed.
Print Assumptions C11_diff_skip.

(** finding F6: the i32 hypothesis is sharp — counts that differ by multiples
    of 2^32 are "explained" by the difference 0 *)
Theorem C11_diff_boundary :
  calculate_diff 1 (1 + 2 ^ 32) (1 + 2 ^ 33) (1 + 3 * 2 ^ 32) = Ok (DGot (Plus 0)).
Proof. exact diff_boundary. Qed.
Print Assumptions C11_diff_boundary.

(** the inferred rule reproduces all four count vectors; an index without an
    entry stands for difference 0 *)
Theorem C11_make_rule_exact : forall c1 c2 c3 c4 r,
  make_rule c1 c2 c3 c4 = Ok (Some r) ->
  Forall quad_small (zip4 (fst c1) (fst c2) (fst c3) (fst c4)) ->
  Forall quad_small (zip4 (snd c1) (snd c2) (snd c3) (snd c4)) ->
  all_plus r ->
  forall (side : bool) i a b c d,
    nth_error (zip4 (side_of side c1) (side_of side c2) (side_of side c3) (side_of side c4)) i
      = Some (a, b, c, d) ->
    let x := match rule_get r (side, N.of_nat i) with Some (Plus x) => x | _ => 0%Z end in
    Z.of_N b = (Z.of_N a + x)%Z /\ Z.of_N c = (Z.of_N b + x)%Z /\ Z.of_N d = (Z.of_N c + x)%Z.
Proof. exact make_rule_exact. Qed.
Print Assumptions C11_make_rule_exact.

(** [times] is the LARGEST number of applications that leaves every decreasing
    block with at least one cell, [res] what is left of the block [pos] that
    limits it *)
Theorem C11_count_apps_max : forall t r times pos res,
  count_apps t r = Ok (Some (times, pos, res)) ->
  (forall ix d, In (ix, Plus d) r -> (d < 0)%Z ->
     exists c, get_count t ix = Ok c /\ (1 <= Z.of_N c + d * Z.of_N times)%Z) /\
  (exists d c, In (pos, Plus d) r /\ (d < 0)%Z /\ get_count t pos = Ok c /\
     (Z.of_N res = Z.of_N c + d * Z.of_N times)%Z /\
     (Z.of_N c + d * (Z.of_N times + 1) < 1)%Z).
Proof. exact count_apps_max. Qed.
Print Assumptions C11_count_apps_max.

(** ties: [pos] is the first limiting entry in key order *)
Theorem C11_count_apps_first : forall t r times pos res,
  count_apps t r = Ok (Some (times, pos, res)) ->
  exists r1 d r2, r = r1 ++ (pos, Plus d) :: r2 /\ (d < 0)%Z /\
    forall ix d', In (ix, Plus d') r1 -> (d' < 0)%Z ->
      exists c', get_count t ix = Ok c' /\ (1 <= Z.of_N c' + d' * (Z.of_N times + 1))%Z.
Proof. exact count_apps_first. Qed.
Print Assumptions C11_count_apps_first.

(** no application at all: nothing decreases, or one application would
    already empty some block *)
Theorem C11_count_apps_none : forall t r,
  all_plus r -> indices_valid t r ->
  (count_apps t r = Ok None <->
   (forall ix d, In (ix, Plus d) r -> (0 <= d)%Z) \/
   (exists ix d c, In (ix, Plus d) r /\ (d < 0)%Z /\ get_count t ix = Ok c /\ (Z.of_N c <= - d)%Z)).
Proof. exact count_apps_none. Qed.
Print Assumptions C11_count_apps_none.

(** every affected block changes by exactly difference x times; nothing else
    changes (other counts, scanned colour, block colours, block structure) *)
Theorem C11_apply_exact : forall t r times t',
  rule_keys_nodup r -> apply_rule t r = Ok (Some times, t') ->
  (forall ix d, In (ix, Plus d) r ->
     exists c, get_count t ix = Ok c /\
               get_count t' ix = Ok (Z.to_N (Z.of_N c + d * Z.of_N times)) /\
               (0 <= Z.of_N c + d * Z.of_N times)%Z) /\
  (forall ix, (forall o, ~ In (ix, o) r) -> get_count t' ix = get_count t ix) /\
  scan t' = scan t /\
  map fst (lspan t') = map fst (lspan t) /\ map fst (rspan t') = map fst (rspan t) /\
  length (lspan t') = length (lspan t) /\ length (rspan t') = length (rspan t).
Proof. exact apply_exact. Qed.
Print Assumptions C11_apply_exact.

(** a rule that is not applied leaves the tape untouched *)
Theorem C11_apply_none_untouched : forall t r t', apply_rule t r = Ok (None, t') -> t' = t.
Proof. exact apply_none_untouched. Qed.
Print Assumptions C11_apply_none_untouched.

(** ... and that happens exactly when no application is possible or
    [|difference| x times] of a non-limiting entry, or the increased count, does not fit a u64 *)
Theorem C11_apply_none_iff : forall t r o t', apply_rule t r = Ok (o, t') ->
  (o = None <->
   count_apps t r = Ok None \/
   exists times pos res ix d c, count_apps t r = Ok (Some (times, pos, res)) /\
     In (ix, Plus d) r /\ ix <> pos /\ get_count t ix = Ok c /\ plus_overflows c d times).
Proof. exact apply_none_iff. Qed.
Print Assumptions C11_apply_none_iff.

(** finding F4 on the pre-fix [apply_plus]: tape [0] 2^10 3^10 4^5, rule
    R0-1 R1-2 R2+1 *)
Theorem C11_apply_plus_prefix_refuted :
  apply_rule_prefix apply_plus_prefix f4_tape f4_rule
    = Ok (Some 4, mkTape 0 [] [(2, 14); (3, 2); (4, 9)]) /\
  apply_rule f4_tape f4_rule = Ok (Some 4, mkTape 0 [] [(2, 6); (3, 2); (4, 9)]) /\
  ~ exact_on (apply_rule_prefix apply_plus_prefix) /\
  exact_on apply_rule.
Proof. exact apply_plus_prefix_refuted. Qed.
Print Assumptions C11_apply_plus_prefix_refuted.

(** finding F7 on the pre-fix one-pass [apply_rule]: tape 1^(2^62) [0] 2^5,
    rule L0-1 R0+8 *)
Theorem C11_apply_rule_prefix_refuted :
  count_apps f7_tape f7_rule = Ok (Some (4611686018427387903, (false, 0), 1)) /\
  apply_rule_prefix apply_plus f7_tape f7_rule = Ok (None, mkTape 0 [(1, 1)] [(2, 5)]) /\
  apply_rule f7_tape f7_rule = Ok (None, f7_tape) /\
  ~ untouched_on (apply_rule_prefix apply_plus) /\
  untouched_on apply_rule.
Proof. exact apply_rule_prefix_refuted. Qed.
Print Assumptions C11_apply_rule_prefix_refuted.

(** non-vacuity: a rule is inferred, applies, and the theorems' hypotheses hold *)
Example C11_nonvacuous_make_rule :
  let c1 := ([7; 2], [3; 40]) in let c2 := ([9; 2], [3; 37]) in
  let c3 := ([11; 2], [3; 34]) in let c4 := ([13; 2], [3; 31]) in
  let r := [((false, 0), Plus 2); ((true, 1), Plus (-3))] in
  make_rule c1 c2 c3 c4 = Ok (Some r) /\ all_plus r /\ rule_keys_nodup r /\
  Forall quad_small (zip4 (fst c1) (fst c2) (fst c3) (fst c4)) /\
  Forall quad_small (zip4 (snd c1) (snd c2) (snd c3) (snd c4)).
Proof.
  cbv zeta. split; [vm_compute; reflexivity|]. split; [|split; [|split]].
  - intros ix o [H|[H|[]]]; injection H as <- <-; eexists; reflexivity.
  - unfold rule_keys_nodup. cbn [map fst]. repeat constructor; cbn [In]; intros H;
      repeat (destruct H as [H|H]; [discriminate H|]); exact H.
  - cbn [zip4 fst]. repeat constructor; unfold small_diff; lia.
  - cbn [zip4 snd]. repeat constructor; unfold small_diff; lia.
Qed.

Example C11_nonvacuous_apply :
  let t := mkTape 1 [(2, 7); (0, 2)] [(3, 3); (1, 40)] in
  let r := [((false, 0), Plus 2); ((true, 1), Plus (-3))] in
  count_apps t r = Ok (Some (13, (true, 1), 1)) /\
  apply_rule t r = Ok (Some 13, mkTape 1 [(2, 33); (0, 2)] [(3, 3); (1, 1)]) /\
  indices_valid t r /\
  count_apps t [((false, 0), Plus 2)] = Ok None /\
  count_apps t [((true, 0), Plus (-3))] = Ok None /\
  apply_rule t [((true, 0), Plus (-3))] = Ok (None, t).
Proof.
  cbv zeta. repeat split; try (vm_compute; reflexivity).
  intros ix o [H|[H|[]]]; injection H as <- <-; eexists; vm_compute; reflexivity.
Qed.

(** finding F8 (repaired by fix b6eaeed): between the F4 fix and that fix,
    [count + mult] was an unchecked add: PANIC under overflow checks, a silent
    wrap in the release profile.  Now the rule is reported as not applicable
    and the tape is untouched. *)
Theorem C11_apply_plus_prefix8_refuted :
  let t := mkTape 0 [(1, 4611686018427387904)] [(2, 5)] in
  let r := [((false, 0), Plus (-1)); ((true, 0), Plus 4)] in
  apply_rule_prefix apply_plus_prefix8 t r = Panic /\ apply_rule t r = Ok (None, t).
Proof. vm_compute. split; reflexivity. Qed.
Print Assumptions C11_apply_plus_prefix8_refuted.
