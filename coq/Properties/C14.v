(** C14 — the connectivity filter ([is_connected], src/graph.rs).
    "false" => the state graph is not strongly connected (some state below
    [n] has no exit or cannot get back to state 0); for tree-generated
    programs "true" <=> strongly connected.
    This file contains only the final statements; proofs are in
    Proofs/GraphConn.v, vocabulary in Spec/Graph.v.

    Hypotheses used throughout
      [cp_wf p]         keys strictly increasing: the BTreeMap representation
                        invariant of CompProg (C14_from_str_wf: the parser
                        only produces such maps)
      [states_lt n P]   every state that owns an instruction and every target
                        state is below the [states] argument [n]
    [to_prog p] is the partial function [cp_get p] the machine executes. *)
From BB Require Import Base TM Graph InstrsModel GraphModel GraphConn.

Theorem C14_from_str_wf : forall s p, from_str s = Some p -> cp_wf p.
Proof. exact from_str_wf. Qed.
Print Assumptions C14_from_str_wf.

(** (a) "false" is sound: it exhibits a state with no way out, or a state
    (the last one) that cannot get back to the start state *)
Theorem C14_false_sound : forall p n,
  cp_wf p -> 1 <= n -> states_lt n (to_prog p) ->
  is_connected p n = Ok false ->
  exists s, s < n /\ (no_exit (to_prog p) s \/ ~ reach (to_prog p) s 0).
Proof. exact is_connected_false. Qed.
Print Assumptions C14_false_sound.

Theorem C14_false_not_sc : forall p n,
  cp_wf p -> 2 <= n -> states_lt n (to_prog p) ->
  is_connected p n = Ok false -> ~ strongly_connected (to_prog p) n.
Proof. exact is_connected_false_not_sc. Qed.
Print Assumptions C14_false_not_sc.

(** the same, read forwards: the filter never discards a strongly connected
    program (it answers, and answers true).  [2 <= n]: with one state the
    answer is always false, see [one_state_false]. *)
Theorem C14_sc_true : forall p n,
  cp_wf p -> 2 <= n -> states_lt n (to_prog p) ->
  strongly_connected (to_prog p) n -> is_connected p n = Ok true.
Proof. exact sc_is_connected. Qed.
Print Assumptions C14_sc_true.

(** the [for _ in 0..states] bound never cuts a search short: any number of
    extra iterations gives the same answer *)
Theorem C14_bound_never_cuts : forall p n,
  cp_wf p -> 1 <= n -> states_lt n (to_prog p) ->
  forall k, is_connected_fuel p n (N.to_nat n + k) = is_connected p n.
Proof. exact bound_never_cuts. Qed.
Print Assumptions C14_bound_never_cuts.

(** what "true" really establishes (it is NOT strong connectivity in general) *)
Theorem C14_true_reach : forall p n,
  cp_wf p -> states_lt n (to_prog p) ->
  is_connected p n = Ok true ->
  reach (to_prog p) (n - 1) 0 /\ forall s, s < n -> has_exit (to_prog p) s.
Proof. exact is_connected_true. Qed.
Print Assumptions C14_true_reach.

(** the exact meaning of the answer on in-range inputs (subsumes
    C14_false_sound, C14_true_reach and C14_no_panic) *)
Theorem C14_exact : forall p n,
  cp_wf p -> 1 <= n -> states_lt n (to_prog p) ->
  (is_connected p n = Ok true <->
   (forall s, s < n -> has_exit (to_prog p) s) /\ reach (to_prog p) (n - 1) 0).
Proof. exact is_connected_exact. Qed.
Print Assumptions C14_exact.

Theorem C14_has_exit_not_no_exit : forall P s, has_exit P s -> ~ no_exit P s.
Proof. exact has_exit_not_no_exit. Qed.
Print Assumptions C14_has_exit_not_no_exit.

(** no panic on in-range inputs.  Panics happen exactly outside them:
    [n = 0] ([states - 1] underflows), or a state >= n that makes the key
    count reach [n] while some state the search indexes has no exit
    ([panic_zero_states], [panic_outside_states_lt] in Proofs/GraphConn.v) *)
Theorem C14_no_panic : forall p n,
  cp_wf p -> 1 <= n -> states_lt n (to_prog p) -> is_connected p n <> Panic.
Proof. exact is_connected_no_panic. Qed.
Print Assumptions C14_no_panic.

(** "true" + the graph-level consequences of the first-visit order
    => strongly connected.  How the run gives the two hypotheses: the run from
    the blank tape is a walk in the graph starting in state 0
    ([visits_reach]); it enters every state, hence [reach 0 s]; it enters
    state n-1 last, so from the first visit of X the run walks on to the
    first visit of n-1, hence [reach X (n-1)] for EVERY X (a fortiori for
    those that cannot return to 0). *)
Theorem C14_true_sc_given_order : forall p n,
  cp_wf p -> is_connected p n = Ok true ->
  (forall s, s < n -> reach (to_prog p) 0 s) ->
  (forall X, X < n -> ~ reach (to_prog p) X 0 -> reach (to_prog p) X (n - 1)) ->
  strongly_connected (to_prog p) n.
Proof. exact true_sc_given_order. Qed.
Print Assumptions C14_true_sc_given_order.

(** (b) for tree-generated programs the answer is true exactly when the
    graph is strongly connected.  [TNF] is stated on the machine's own run
    (Spec/Graph.v): states below [n] only, every defined slot reached by the
    run, states first entered in increasing order. *)
Theorem C14_tnf_iff : forall p n,
  cp_wf p -> TNF (to_prog p) n ->
  (is_connected p n = Ok true <-> strongly_connected (to_prog p) n).
Proof. exact tnf_iff. Qed.
Print Assumptions C14_tnf_iff.

(** non-vacuity: "1RB 1LC  1LA 1RB  1RA 0LB" is well formed, in tree normal
    form (the run-based hypotheses hold of its infinite run), the filter says
    true, so by the theorem it is strongly connected;
    "1RB 1LB  1LA 1LC  1RC 0LC" (graph.rs UNCONNECTED[0]) gets false and the
    theorem yields that it is not strongly connected *)
Definition c14_pA : comp_prog :=
  [((0, 0), (1, true, 1)); ((0, 1), (1, false, 2));
   ((1, 0), (1, false, 0)); ((1, 1), (1, true, 1));
   ((2, 0), (1, true, 0)); ((2, 1), (0, false, 1))].
Definition c14_pB : comp_prog :=
  [((0, 0), (1, true, 1)); ((0, 1), (1, false, 1));
   ((1, 0), (1, false, 0)); ((1, 1), (1, false, 2));
   ((2, 0), (1, true, 2)); ((2, 1), (0, false, 2))].

Example C14_nonvacuous :
  (cp_wf c14_pA /\ TNF (to_prog c14_pA) 3 /\ is_connected c14_pA 3 = Ok true /\
   strongly_connected (to_prog c14_pA) 3) /\
  (cp_wf c14_pB /\ states_lt 3 (to_prog c14_pB) /\ is_connected c14_pB 3 = Ok false /\
   ~ strongly_connected (to_prog c14_pB) 3).
Proof.
  assert (HwfA : cp_wf c14_pA) by (repeat constructor).
  assert (HwfB : cp_wf c14_pB) by (repeat constructor).
  assert (HltA : states_lt 3 (to_prog c14_pA)).
  { intros a c pr sh b H. apply cp_get_In in H. cbn [c14_pA In] in H.
    repeat (destruct H as [H|H]; [inversion H; lia|]). destruct H. }
  assert (HltB : states_lt 3 (to_prog c14_pB)).
  { intros a c pr sh b H. apply cp_get_In in H. cbn [c14_pB In] in H.
    repeat (destruct H as [H|H]; [inversion H; lia|]). destruct H. }
  assert (HtnfA : TNF (to_prog c14_pA) 3).
  { split; [lia|]. split; [exact HltA|]. split.
    - (* every defined slot is reached: first-use times 0 2 1 8 3 5 *)
      intros a c i H. apply cp_get_In in H. cbn [c14_pA In] in H.
      destruct H as [H|[H|[H|[H|[H|[H|[]]]]]]]; inversion H; subst.
      + exists 0%nat. eexists. split; [vm_compute; reflexivity|reflexivity].
      + exists 2%nat. eexists. split; [vm_compute; reflexivity|reflexivity].
      + exists 1%nat. eexists. split; [vm_compute; reflexivity|reflexivity].
      + exists 8%nat. eexists. split; [vm_compute; reflexivity|reflexivity].
      + exists 3%nat. eexists. split; [vm_compute; reflexivity|reflexivity].
      + exists 5%nat. eexists. split; [vm_compute; reflexivity|reflexivity].
    - (* first visits: state 0 at step 0, state 1 at step 1, state 2 later *)
      intros t' s' s Hv Hs.
      pose proof (visits_lt _ 3 t' s' ltac:(lia) HltA Hv) as Hs'.
      destruct (N.eq_dec s 0) as [H0|H0].
      + subst s. exists 0%nat. split; [lia|apply visits_0].
      + assert (s = 1 /\ s' = 2) as [H1 H2] by lia. subst s s'.
        exists 1%nat. split.
        * destruct t' as [|t']; [|lia]. destruct Hv as [tp Hv]. vm_compute in Hv. discriminate.
        * eexists. vm_compute. reflexivity. }
  split.
  - assert (HtA : is_connected c14_pA 3 = Ok true) by (vm_compute; reflexivity).
    split; [exact HwfA|]. split; [exact HtnfA|]. split; [exact HtA|].
    apply (C14_tnf_iff c14_pA 3 HwfA HtnfA). exact HtA.
  - assert (HfB : is_connected c14_pB 3 = Ok false) by (vm_compute; reflexivity).
    split; [exact HwfB|]. split; [exact HltB|]. split; [exact HfB|].
    apply (C14_false_not_sc c14_pB 3 HwfB ltac:(lia) HltB HfB).
Qed.
