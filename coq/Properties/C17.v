(** C17 — Python and Rust simulators agree.
    Final statements only; proofs are in Proofs/PyRsAgree.v.

    What is a theorem here: the COMPONENTS that both simulators are built
    from agree, as Gallina models over one common representation —
    the compressed-tape step and every observer the runners read
    (tm/tape.py vs src/tape.rs), additive rule application and
    count-of-applications (tm/rules.py vs src/rules.rs), additive difference
    inference.  Each theorem states the exact range in which it holds and is
    accompanied by a machine-checked witness that the range cannot be
    dropped (zero counts; u64 overflow; counts beyond i32).

    What is NOT a theorem here: agreement of whole runs
    ([Machine.run] vs [run_prover]: outcome kind, marks, rule applications,
    blank record).  tm/machine.py and tm/prover.py (and the shared
    PastConfigs, which Python calls through pyo3) are not modelled; that part
    of the property is established by the three-way correspondence run of
    ./check C17 on real programs only. *)
From BB Require Import Base TM TapeModel RulesModel TapeCanon PyTapeModel PyRulesModel PyRsAgree.

(** ---- tape step: same resulting tape AND same number of cells moved ---- *)
Theorem C17_py_step_eq_rs : forall (t : tape) (sh : shift) (pr : colour) (skip : bool),
  counts_pos (if sh then rspan t else lspan t) ->
  py_step t sh pr skip = step t sh pr skip.
Proof. exact py_step_eq_rs. Qed.
Print Assumptions C17_py_step_eq_rs.

(** hence on every step of every history from the blank tape *)
Theorem C17_py_history_eq_rs : forall ops,
  fold_left py_do_op ops (init_tape 0) = fold_left do_op ops (init_tape 0).
Proof. intro ops. apply py_history_eq_rs. apply canon_init. Qed.
Print Assumptions C17_py_history_eq_rs.

(** the hypothesis is needed: a zero count separates [!= 1] from [> 1] *)
Theorem C17_py_step_neq_rs_zero_count :
  py_step (mkTape 0 [] [(1, 0); (2, 3)]) true 1 false
  <> step (mkTape 0 [] [(1, 0); (2, 3)]) true 1 false.
Proof. exact py_step_neq_rs_zero_count. Qed.
Print Assumptions C17_py_step_neq_rs_zero_count.

(** ---- observers read by the runners (marks, blank, at_edge, counts,
         span_lens, signature): equal on every tape ---- *)
Theorem C17_py_observers_eq_rs : forall t,
  py_marks t = marks t /\ py_blank t = blank t /\
  (forall e, py_at_edge t e = at_edge t e) /\
  py_counts t = counts t /\ py_span_lens t = span_lens t /\
  py_signature t = tape_sig t.
Proof.
  intro t.
  exact (conj (py_marks_eq t) (conj (py_blank_eq t) (conj (py_at_edge_eq t)
        (conj (py_counts_eq t) (conj (py_span_lens_eq t) (py_signature_eq t)))))).
Qed.
Print Assumptions C17_py_observers_eq_rs.

Theorem C17_py_show_eq_rs : forall t,
  counts_pos (lspan t) -> counts_pos (rspan t) ->
  counts_below py_truncate_count (lspan t) -> counts_below py_truncate_count (rspan t) ->
  py_show_tape t = show_tape t.
Proof. exact py_show_tape_eq. Qed.
Print Assumptions C17_py_show_eq_rs.

(** sig_compatible is a different function in the two code bases (== vs >= on
    the span lengths); Python's answer implies Rust's, they agree on equal
    lengths, and they differ otherwise *)
Theorem C17_py_sig_compatible_vs_rs :
  (forall t g, py_sig_compatible t g = true -> sig_compatible t g = true) /\
  (forall t g, length (lspan t) = length (sig_l g) -> length (rspan t) = length (sig_r g) ->
               py_sig_compatible t g = sig_compatible t g) /\
  (let t := mkTape 0 [(1, 2)] [(2, 1)] in let g := mkSig 0 [Mult 1] [] in
   py_sig_compatible t g = false /\ sig_compatible t g = true).
Proof.
  split; [exact py_sig_compatible_implies_rs|].
  split; [exact py_sig_compatible_eq_rs_same_lens|exact py_sig_compatible_neq_rs].
Qed.
Print Assumptions C17_py_sig_compatible_vs_rs.

(** ---- additive rules ---- *)
Theorem C17_py_count_apps_eq_rs : forall t r,
  rule_additive r -> py_count_apps t r = py_of_rs (count_apps t r).
Proof. exact py_count_apps_eq_rs. Qed.
Print Assumptions C17_py_count_apps_eq_rs.

(** whenever Rust applies an additive rule, Python computes the same number
    of applications and the same tape (no range hypothesis at all) *)
Theorem C17_py_apply_eq_rs_applied : forall t r k t',
  rule_additive r -> NoDup (map fst r) ->
  apply_rule t r = Ok (Some k, t') -> py_apply_rule t r = Ret (Some k, t').
Proof. exact py_apply_eq_rs_applied. Qed.
Print Assumptions C17_py_apply_eq_rs_applied.

(** full agreement (same answer, same tape, no panic) when the rule indexes
    existing blocks and no u64 operation of the application overflows *)
Theorem C17_py_apply_eq_rs : forall t r,
  rule_additive r -> NoDup (map fst r) -> rule_in_range t r ->
  (forall times mp mr, count_apps t r = Ok (Some (times, mp, mr)) -> no_overflow t r times) ->
  py_apply_rule t r = py_of_rs (apply_rule t r) /\ apply_rule t r <> Panic.
Proof. exact py_apply_eq_rs. Qed.
Print Assumptions C17_py_apply_eq_rs.

Theorem C17_py_apply_eq_rs_small : forall t r,
  rule_additive r -> NoDup (map fst r) -> rule_in_range t r ->
  (forall pos d, In (pos, Plus d) r -> in_i32 d = true) ->
  (forall pos d c, In (pos, Plus d) r -> get_count t pos = Ok c -> c < 4294967296) ->
  py_apply_rule t r = py_of_rs (apply_rule t r) /\ apply_rule t r <> Panic.
Proof. exact py_apply_eq_rs_small. Qed.
Print Assumptions C17_py_apply_eq_rs_small.

(** outside: Rust's own u64 limit (it answers "not applicable", Python applies) *)
Theorem C17_py_apply_neq_rs_on_u64_overflow :
  let t := mkTape 0 [(1, 4611686018427387904)] [(2, 5)] in
  let r : rule := [((false, 0), Plus (-1)); ((true, 0), Plus 8)] in
  apply_rule t r = Ok (None, t) /\
  py_apply_rule t r = Ret (Some 4611686018427387903,
                           mkTape 0 [(1, 1)] [(2, 36893488147419103229)]).
Proof. exact py_apply_neq_rs_on_u64_overflow. Qed.
Print Assumptions C17_py_apply_neq_rs_on_u64_overflow.

(** historical: with rules.rs as it was before fix 3663175 (F4) the agreement
    failed inside the range; the current model agrees on the same input *)
Theorem C17_py_apply_neq_rs_prefix :
  let t := mkTape 0 [] [(2, 10); (3, 10); (4, 5)] in
  let r : rule := [((true, 0), Plus (-1)); ((true, 1), Plus (-2)); ((true, 2), Plus 1)] in
  py_apply_rule t r = Ret (Some 4, mkTape 0 [] [(2, 6); (3, 2); (4, 9)]) /\
  apply_rule_prefix apply_plus_prefix t r = Ok (Some 4, mkTape 0 [] [(2, 14); (3, 2); (4, 9)]) /\
  apply_rule t r = Ok (Some 4, mkTape 0 [] [(2, 6); (3, 2); (4, 9)]).
Proof. exact py_apply_neq_rs_prefix. Qed.
Print Assumptions C17_py_apply_neq_rs_prefix.

(** ---- additive difference inference: same verdict (unchanged / plus d /
         neither) for counts that fit i32 ---- *)
Theorem C17_py_diff_eq_rs_additive : forall a b c d,
  a < 2147483648 -> b < 2147483648 -> c < 2147483648 -> d < 2147483648 ->
  py_addview (py_calculate_diff a b c d) = rs_addview (calculate_diff a b c d).
Proof. exact py_diff_eq_rs_additive. Qed.
Print Assumptions C17_py_diff_eq_rs_additive.

(** that ALL DIFFERENCES fit i32 is not enough: the counts are truncated first *)
Theorem C17_py_diff_neq_rs_beyond_i32 :
  rs_addview (calculate_diff 2147483647 2147483648 2147483649 2147483650) = AVOther /\
  py_addview (py_calculate_diff 2147483647 2147483648 2147483649 2147483650) = AVPlus 1.
Proof. exact py_diff_neq_rs_beyond_i32. Qed.
Print Assumptions C17_py_diff_neq_rs_beyond_i32.

(** ---- make_rule on count tables that Python reads as additive (counts fit
         i32, the four observations have equal shapes): rules.rs builds exactly
         Python's rule; Python raises InfiniteRule iff no entry is negative --
         the test prover.rs:208-213 makes right after make_rule ---- *)
Theorem C17_py_make_rule_eq_rs_additive : forall c1 c2 c3 c4,
  length (fst c1) = length (fst c2) -> length (fst c2) = length (fst c3) ->
  length (fst c3) = length (fst c4) ->
  length (snd c1) = length (snd c2) -> length (snd c2) = length (snd c3) ->
  length (snd c3) = length (snd c4) ->
  Forall col_small (zip4 (fst c1) (fst c2) (fst c3) (fst c4)) ->
  Forall col_small (zip4 (snd c1) (snd c2) (snd c3) (snd c4)) ->
  Forall col_additive (zip4 (fst c1) (fst c2) (fst c3) (fst c4)) ->
  Forall col_additive (zip4 (snd c1) (snd c2) (snd c3) (snd c4)) ->
  exists r, make_rule c1 c2 c3 c4 = Ok (Some r) /\ rule_additive r /\
    py_make_rule c1 c2 c3 c4 =
      if rule_all_nonneg r then Raise ExInfiniteRule else Ret (Some r).
Proof. exact py_make_rule_eq_rs_additive. Qed.
Print Assumptions C17_py_make_rule_eq_rs_additive.

(** non-vacuity: a sweep step and a rule application on which both sides
    are defined, non-trivial and equal *)
Example C17_nonvacuous :
  py_step (mkTape 1 [(2, 3)] [(1, 7); (3, 1); (2, 2)]) true 4 true
    = (mkTape 3 [(4, 8); (2, 3)] [(2, 2)], 8)
  /\ step (mkTape 1 [(2, 3)] [(1, 7); (3, 1); (2, 2)]) true 4 true
    = (mkTape 3 [(4, 8); (2, 3)] [(2, 2)], 8)
  /\ (let t := mkTape 0 [] [(2, 10); (3, 10); (4, 5)] in
      let r : rule := [((true, 0), Plus (-1)); ((true, 1), Plus (-2)); ((true, 2), Plus 1)] in
      py_apply_rule t r = Ret (Some 4, mkTape 0 [] [(2, 6); (3, 2); (4, 9)])
      /\ apply_rule t r = Ok (Some 4, mkTape 0 [] [(2, 6); (3, 2); (4, 9)]))
  /\ py_calculate_diff 10 8 6 4 = Ret (Some (Plus (-2))).
Proof. vm_compute. repeat split; reflexivity. Qed.

(** ================================================================== *)
(** * Whole runs: tm/machine.py [Machine.run] vs src/machine.rs [run_prover]

    tm/machine.py and tm/prover.py ARE modelled now (Model/PyMachineModel.v,
    Model/PyProverModel.v; tied to the real Python code by tools/pyrun_diff.py
    and tools/pycomp_diff.py) and the whole-run agreement is a THEOREM for the
    runs on which the decidable guard [run_inside] holds.  The guard is
    evaluated on the Python side of the run and names exactly the places
    where the two code bases are different programs (D1..D6 in
    Proofs/PyRunAgree.v); for D1 and D3 concrete programs on which the four
    compared fields differ are machine-checked below, for D2, D4, D5, D6 the
    difference is machine-checked on the component.  ./check C17 evaluates the
    guard on every explored run (bbm [pyguard]). *)
From BB Require Import InstrsModel MachineModel ProverModel PyProverModel PyMachineModel PyRunAgree.

(** the guard, pinned: before every iteration of Machine.run the tape is small,
    the cycle number fits i32, and the call of try_rule stays inside *)
Theorem C17_py_rs_run_agree : forall comp lim r r',
  run_inside comp lim = true ->
  py_run comp lim = PyDone r ->
  run_prover comp lim = Ok r' ->
  results_agree r r'.
Proof. exact py_rs_run_agree. Qed.
Print Assumptions C17_py_rs_run_agree.

(** one call of try_rule on related provers (prover level) *)
Theorem C17_py_try_rule_agree : forall comp pp pv cyc st t,
  prover_rel pp pv -> canon_tape t -> tape_small t = true -> cyc < 2147483648 ->
  try_inside comp pp cyc st t = true ->
  match try_rule comp pv cyc st t with
  | Panic => True
  | Ok (res, pv') =>
      let '(pres, pp') := py_try_rule comp pp cyc st t in
      pres_class pres = PcLeave \/
      (prover_rel pp' pv' /\
       match res with
       | None => pres_class pres = PcNone
       | Some (Got r) => pres_class pres = PcRule r /\ rule_good r
       | Some ConfigLimit => pres_class pres = PcCfg
       | Some InfiniteRule => pres_class pres = PcInf
       | Some MultRule => False
       end)
  end.
Proof. exact try_rule_agree. Qed.
Print Assumptions C17_py_try_rule_agree.

(** the prover's own simulator: Rust's answer (unless it panics) is Python's *)
Theorem C17_py_run_simulator_agree : forall comp pp pv,
  lookup_eq (pp_rules pp) (pv_rules pv) -> rules_good (pv_rules pv) ->
  forall d st t, canon_tape t -> sim_inside comp pp (Z.to_N d) st t = true ->
  match run_simulator comp pv d st t with
  | Panic => True
  | Ok x => py_run_simulator comp pp d st t = PRet x /\
            (forall st' t', x = Some (st', t') -> canon_tape t')
  end.
Proof. exact run_simulator_agree. Qed.
Print Assumptions C17_py_run_simulator_agree.

(** D3/D8: difference inference on ANY table of positive counts below 2^31.
    Python's "no rule" answers (an UnknownRule column; a SuspectedRule, which
    run() turns into "no rule") are "no rule" for rules.rs too; a table without
    multiplicative or second-difference column yields the same rule *)
Theorem C17_py_rs_make_rule : forall c1 c2 c3 c4,
  counts_ok c1 -> counts_ok c2 -> counts_ok c3 -> counts_ok c4 ->
  match py_make_rule_raw c1 c2 c3 c4 with
  | Ret None | Raise (ExSuspectedRule _ _) => make_rule c1 c2 c3 c4 = Ok None
  | Ret (Some (r, sd)) => sd = false -> py_has_mult r = false -> make_rule c1 c2 c3 c4 = Ok (Some r)
  | _ => True
  end.
Proof. exact py_rs_make_rule. Qed.
Print Assumptions C17_py_rs_make_rule.

(** the one multiplicative shape of rules.rs is the first shape of rules.py *)
Theorem C17_rs_mult_is_py_mult : forall a b c d q r,
  cnt_ok a -> cnt_ok b -> cnt_ok c -> cnt_ok d ->
  calculate_diff a b c d = Ok (DGot (MultOp q r)) ->
  py_calculate_diff a b c d = Ret (Some (MultOp q r)).
Proof. exact rs_mult_py_mult. Qed.
Print Assumptions C17_rs_mult_is_py_mult.

(** ---- the guard is not vacuous: a run with 22 rule applications (one
    proved rule, spin-out, three blank-tape records that Python stamps -1) ---- *)
Definition C17_run_example : comp_prog :=
  [((0,0),(1,true,1)); ((0,1),(1,true,0)); ((1,0),(0,true,2)); ((1,1),(0,true,1));
   ((2,0),(0,true,3)); ((2,1),(1,true,0)); ((3,0),(1,false,3)); ((3,1),(1,false,1))].
Example C17_run_nonvacuous :
  run_inside C17_run_example 120 = true /\
  (exists r, py_run C17_run_example 120 = PyDone r /\ pr_kind r = PkSpnout /\ pr_marks r = 0 /\
             pr_rulapp r = 22 /\ pr_blanks r = [(1, (-1)%Z); (2, (-1)%Z); (3, (-1)%Z)] /\ pr_cycles r = 64) /\
  run_prover C17_run_example 120 = Ok (mkRes spnout 466 64 0 22 [(1, 464); (2, 465); (3, 466)] None).
Proof.
  split; [vm_compute; reflexivity|]. split; [|vm_compute; reflexivity].
  remember (py_run C17_run_example 120) as x eqn:E. vm_compute in E. subst x.
  eexists. split; [reflexivity|]. repeat split.
Qed.

(** ---- D1: Python confirms a rule by simulating more than 90_000 cycles
    ahead, prover.rs:183-185 declines: outcome kind infrul vs xlimit.
    Program [1RB 1LA 3RB 0RB ...  0LB 2RB 3RB 4LA 1RB], 2910 cycles. ---- *)
Definition C17_d1_program : comp_prog :=
  [((0,0),(1,true,1)); ((0,1),(1,false,0)); ((0,2),(3,true,1)); ((0,3),(0,true,1));
   ((1,0),(0,false,1)); ((1,1),(2,true,1)); ((1,2),(3,true,1)); ((1,3),(4,false,0)); ((1,4),(1,true,1))].
Theorem C17_whole_run_differs_D1 :
  (exists r, py_run C17_d1_program 2910 = PyDone r /\ pr_kind r = PkInfrul /\ pr_cycles r = 2899) /\
  (exists r', run_prover C17_d1_program 2910 = Ok r' /\ r_result r' = xlimit) /\
  run_inside C17_d1_program 2910 = false.
Proof.
  split; [|split].
  - remember (py_run C17_d1_program 2910) as x eqn:E. vm_compute in E. subst x.
    eexists. split; [reflexivity|]. split; reflexivity.
  - remember (run_prover C17_d1_program 2910) as x eqn:E. vm_compute in E. subst x.
    eexists. split; reflexivity.
  - vm_compute. reflexivity.
Qed.
Print Assumptions C17_whole_run_differs_D1.

(** ---- D3: Python's make_rule skips a second-difference column and then
    raises InfiniteRule (rules.py:245-247, 256-262); rules.rs reads the column
    as Unknown and returns no rule: outcome kind infrul vs xlimit.
    Program [1RB 0LA 1LA 0RA  2LB 2RB 3RB 0LA], 830 cycles. ---- *)
Definition C17_d3_program : comp_prog :=
  [((0,0),(1,true,1)); ((0,1),(0,false,0)); ((0,2),(1,false,0)); ((0,3),(0,true,0));
   ((1,0),(2,false,1)); ((1,1),(2,true,1)); ((1,2),(3,true,1)); ((1,3),(0,false,0))].
Theorem C17_whole_run_differs_D3 :
  (exists r, py_run C17_d3_program 830 = PyDone r /\ pr_kind r = PkInfrul /\ pr_cycles r = 820
             /\ pr_marks r = 58 /\ pr_rulapp r = 515) /\
  (exists r', run_prover C17_d3_program 830 = Ok r' /\ r_result r' = xlimit
              /\ r_marks r' = 58 /\ r_rulapp r' = 515) /\
  run_inside C17_d3_program 830 = false.
Proof.
  split; [|split].
  - remember (py_run C17_d3_program 830) as x eqn:E. vm_compute in E. subst x.
    eexists. split; [reflexivity|]. repeat split.
  - remember (run_prover C17_d3_program 830) as x eqn:E. vm_compute in E. subst x.
    eexists. split; [reflexivity|]. repeat split.
  - vm_compute. reflexivity.
Qed.
Print Assumptions C17_whole_run_differs_D3.

(** ---- D4 (component): while the min-signature is computed, a rule applied to
    the EnumTape registers the blocks it reads in Python (tape.py:264-275
    get_count -> check_offsets) and not in Rust (tape.rs:722-725): Python's
    rule is less general.  One replay step on [1^5 [0] 2^3] with the stored
    rule L0-1 R0+1. ---- *)
Theorem C17_min_sig_differs_D4 :
  let t := mkTape 0 [(1, 5)] [(2, 3)] in
  let r : rule := [((false, 0), Plus (-1)); ((true, 0), Plus 1)] in
  let p := py_set_rule py_prover_new r 0 (mkSig 0 [] [], (false, false)) in
  py_get_min_sig [] p 1%Z 0 (py_to_enum t) (py_signature t)
    = PRet (mkSig 0 [Mult 1] [Mult 2], (false, false)) /\
  get_min_sig [] (rs_view p) 1%Z 0 (et_from t) (tape_sig t)
    = Ok (mkSig 0 [] [], (false, false)).
Proof. vm_compute. split; reflexivity. Qed.
Print Assumptions C17_min_sig_differs_D4.

(** ---- D6 (component): the cycle number.  pyo3 refuses a Python int beyond
    i32 (OverflowError, not caught by run()); prover.rs:155 casts [as i32]. ---- *)
Theorem C17_cycle_cast_differs_D6 :
  fst (py_try_rule [] py_prover_new 2147483648 0 (init_tape 0)) = PRaise PeOverflowError /\
  (exists pv', try_rule [] prover_new 2147483648 0 (init_tape 0) = Ok (None, pv')).
Proof. split; [vm_compute; reflexivity|eexists; vm_compute; reflexivity]. Qed.
Print Assumptions C17_cycle_cast_differs_D6.

(** ---- min-signatures: Python keys EnumTape by object identity and re-uses
    popped block objects, Rust numbers blocks by a field that pushed blocks do
    not have.  That is NOT a difference (a block is registered in the step that
    pops it, offsets only grow): whenever no stored rule matches during the
    replay of get_min_sig the two min-signatures are equal, and then the D4
    guard of the whole-run theorem holds by itself.  (D4 proper -- get_count
    registers -- needs a rule application: C17_min_sig_differs_D4.) ---- *)
From BB Require Import PyEnumAgree.

Theorem C17_py_min_sig_agree_plain : forall comp pp pv,
  lookup_eq (pp_rules pp) (pv_rules pv) ->
  forall (d : Z) st t sig ms ms',
  canon_tape t ->
  replay_plain comp pp (Z.to_N d) st (py_to_enum t) = true ->
  py_get_min_sig comp pp d st (py_to_enum t) sig = PRet ms ->
  get_min_sig comp pv d st (et_from t) sig = Ok ms' ->
  ms = ms'.
Proof. exact min_sig_agree_plain. Qed.
Print Assumptions C17_py_min_sig_agree_plain.

Theorem C17_min_sig_guard_plain : forall comp p2 (d1 : Z) st t sig,
  canon_tape t ->
  replay_plain comp p2 (Z.to_N d1) st (py_to_enum t) = true ->
  minsig_inside comp p2 d1 st t sig = true.
Proof. exact replay_plain_minsig_inside. Qed.
Print Assumptions C17_min_sig_guard_plain.
