(** C17 — Python and Rust simulators agree.
    Final statements only; proofs are in Proofs/PyRsAgree.v.

    What is a theorem here: the COMPONENTS that both simulators are built
    from agree, as Gallina models over one common representation —
    the compressed-tape step and every observer the runners read
    (tm/tape.py vs src/tape.rs), additive rule application and
    count-of-applications (tm/rules.py vs src/rules.rs), additive difference
    inference.  Each theorem states the exact range in which it holds and is
    accompanied by a machine-checked witness that the range cannot be
    dropped (zero counts; u64 overflow; counts beyond i32).

    What is NOT a theorem here: agreement of whole runs
    ([Machine.run] vs [run_prover]: outcome kind, marks, rule applications,
    blank record).  tm/machine.py and tm/prover.py (and the shared
    PastConfigs, which Python calls through pyo3) are not modelled; that part
    of the property is established by the three-way correspondence run of
    ./check C17 on real programs only. *)
From BB Require Import Base TM TapeModel RulesModel TapeCanon PyTapeModel PyRulesModel PyRsAgree.

(** ---- tape step: same resulting tape AND same number of cells moved ---- *)
Theorem C17_py_step_eq_rs : forall (t : tape) (sh : shift) (pr : colour) (skip : bool),
  counts_pos (if sh then rspan t else lspan t) ->
  py_step t sh pr skip = step t sh pr skip.
Proof. exact py_step_eq_rs. Qed.
Print Assumptions C17_py_step_eq_rs.

(** hence on every step of every history from the blank tape *)
Theorem C17_py_history_eq_rs : forall ops,
  fold_left py_do_op ops (init_tape 0) = fold_left do_op ops (init_tape 0).
Proof. intro ops. apply py_history_eq_rs. apply canon_init. Qed.
Print Assumptions C17_py_history_eq_rs.

(** the hypothesis is needed: a zero count separates [!= 1] from [> 1] *)
Theorem C17_py_step_neq_rs_zero_count :
  py_step (mkTape 0 [] [(1, 0); (2, 3)]) true 1 false
  <> step (mkTape 0 [] [(1, 0); (2, 3)]) true 1 false.
Proof. exact py_step_neq_rs_zero_count. Qed.
Print Assumptions C17_py_step_neq_rs_zero_count.

(** ---- observers read by the runners (marks, blank, at_edge, counts,
         span_lens, signature): equal on every tape ---- *)
Theorem C17_py_observers_eq_rs : forall t,
  py_marks t = marks t /\ py_blank t = blank t /\
  (forall e, py_at_edge t e = at_edge t e) /\
  py_counts t = counts t /\ py_span_lens t = span_lens t /\
  py_signature t = tape_sig t.
Proof.
  intro t.
  exact (conj (py_marks_eq t) (conj (py_blank_eq t) (conj (py_at_edge_eq t)
        (conj (py_counts_eq t) (conj (py_span_lens_eq t) (py_signature_eq t)))))).
Qed.
Print Assumptions C17_py_observers_eq_rs.

Theorem C17_py_show_eq_rs : forall t,
  counts_pos (lspan t) -> counts_pos (rspan t) ->
  counts_below py_truncate_count (lspan t) -> counts_below py_truncate_count (rspan t) ->
  py_show_tape t = show_tape t.
Proof. exact py_show_tape_eq. Qed.
Print Assumptions C17_py_show_eq_rs.

(** sig_compatible is a different function in the two code bases (== vs >= on
    the span lengths); Python's answer implies Rust's, they agree on equal
    lengths, and they differ otherwise *)
Theorem C17_py_sig_compatible_vs_rs :
  (forall t g, py_sig_compatible t g = true -> sig_compatible t g = true) /\
  (forall t g, length (lspan t) = length (sig_l g) -> length (rspan t) = length (sig_r g) ->
               py_sig_compatible t g = sig_compatible t g) /\
  (let t := mkTape 0 [(1, 2)] [(2, 1)] in let g := mkSig 0 [Mult 1] [] in
   py_sig_compatible t g = false /\ sig_compatible t g = true).
Proof.
  split; [exact py_sig_compatible_implies_rs|].
  split; [exact py_sig_compatible_eq_rs_same_lens|exact py_sig_compatible_neq_rs].
Qed.
Print Assumptions C17_py_sig_compatible_vs_rs.

(** ---- additive rules ---- *)
Theorem C17_py_count_apps_eq_rs : forall t r,
  rule_additive r -> py_count_apps t r = py_of_rs (count_apps t r).
Proof. exact py_count_apps_eq_rs. Qed.
Print Assumptions C17_py_count_apps_eq_rs.

(** whenever Rust applies an additive rule, Python computes the same number
    of applications and the same tape (no range hypothesis at all) *)
Theorem C17_py_apply_eq_rs_applied : forall t r k t',
  rule_additive r -> NoDup (map fst r) ->
  apply_rule t r = Ok (Some k, t') -> py_apply_rule t r = Ret (Some k, t').
Proof. exact py_apply_eq_rs_applied. Qed.
Print Assumptions C17_py_apply_eq_rs_applied.

(** full agreement (same answer, same tape, no panic) when the rule indexes
    existing blocks and no u64 operation of the application overflows *)
Theorem C17_py_apply_eq_rs : forall t r,
  rule_additive r -> NoDup (map fst r) -> rule_in_range t r ->
  (forall times mp mr, count_apps t r = Ok (Some (times, mp, mr)) -> no_overflow t r times) ->
  py_apply_rule t r = py_of_rs (apply_rule t r) /\ apply_rule t r <> Panic.
Proof. exact py_apply_eq_rs. Qed.
Print Assumptions C17_py_apply_eq_rs.

Theorem C17_py_apply_eq_rs_small : forall t r,
  rule_additive r -> NoDup (map fst r) -> rule_in_range t r ->
  (forall pos d, In (pos, Plus d) r -> in_i32 d = true) ->
  (forall pos d c, In (pos, Plus d) r -> get_count t pos = Ok c -> c < 4294967296) ->
  py_apply_rule t r = py_of_rs (apply_rule t r) /\ apply_rule t r <> Panic.
Proof. exact py_apply_eq_rs_small. Qed.
Print Assumptions C17_py_apply_eq_rs_small.

(** outside: Rust's own u64 limit (it answers "not applicable", Python applies) *)
Theorem C17_py_apply_neq_rs_on_u64_overflow :
  let t := mkTape 0 [(1, 4611686018427387904)] [(2, 5)] in
  let r : rule := [((false, 0), Plus (-1)); ((true, 0), Plus 8)] in
  apply_rule t r = Ok (None, t) /\
  py_apply_rule t r = Ret (Some 4611686018427387903,
                           mkTape 0 [(1, 1)] [(2, 36893488147419103229)]).
Proof. exact py_apply_neq_rs_on_u64_overflow. Qed.
Print Assumptions C17_py_apply_neq_rs_on_u64_overflow.

(** historical: with rules.rs as it was before fix 3663175 (F4) the agreement
    failed inside the range; the current model agrees on the same input *)
Theorem C17_py_apply_neq_rs_prefix :
  let t := mkTape 0 [] [(2, 10); (3, 10); (4, 5)] in
  let r : rule := [((true, 0), Plus (-1)); ((true, 1), Plus (-2)); ((true, 2), Plus 1)] in
  py_apply_rule t r = Ret (Some 4, mkTape 0 [] [(2, 6); (3, 2); (4, 9)]) /\
  apply_rule_prefix apply_plus_prefix t r = Ok (Some 4, mkTape 0 [] [(2, 14); (3, 2); (4, 9)]) /\
  apply_rule t r = Ok (Some 4, mkTape 0 [] [(2, 6); (3, 2); (4, 9)]).
Proof. exact py_apply_neq_rs_prefix. Qed.
Print Assumptions C17_py_apply_neq_rs_prefix.

(** ---- additive difference inference: same verdict (unchanged / plus d /
         neither) for counts that fit i32 ---- *)
Theorem C17_py_diff_eq_rs_additive : forall a b c d,
  a < 2147483648 -> b < 2147483648 -> c < 2147483648 -> d < 2147483648 ->
  py_addview (py_calculate_diff a b c d) = rs_addview (calculate_diff a b c d).
Proof. exact py_diff_eq_rs_additive. Qed.
Print Assumptions C17_py_diff_eq_rs_additive.

(** that ALL DIFFERENCES fit i32 is not enough: the counts are truncated first *)
Theorem C17_py_diff_neq_rs_beyond_i32 :
  rs_addview (calculate_diff 2147483647 2147483648 2147483649 2147483650) = AVOther /\
  py_addview (py_calculate_diff 2147483647 2147483648 2147483649 2147483650) = AVPlus 1.
Proof. exact py_diff_neq_rs_beyond_i32. Qed.
Print Assumptions C17_py_diff_neq_rs_beyond_i32.

(** ---- make_rule on count tables that Python reads as additive (counts fit
         i32, the four observations have equal shapes): rules.rs builds exactly
         Python's rule; Python raises InfiniteRule iff no entry is negative --
         the test prover.rs:208-213 makes right after make_rule ---- *)
Theorem C17_py_make_rule_eq_rs_additive : forall c1 c2 c3 c4,
  length (fst c1) = length (fst c2) -> length (fst c2) = length (fst c3) ->
  length (fst c3) = length (fst c4) ->
  length (snd c1) = length (snd c2) -> length (snd c2) = length (snd c3) ->
  length (snd c3) = length (snd c4) ->
  Forall col_small (zip4 (fst c1) (fst c2) (fst c3) (fst c4)) ->
  Forall col_small (zip4 (snd c1) (snd c2) (snd c3) (snd c4)) ->
  Forall col_additive (zip4 (fst c1) (fst c2) (fst c3) (fst c4)) ->
  Forall col_additive (zip4 (snd c1) (snd c2) (snd c3) (snd c4)) ->
  exists r, make_rule c1 c2 c3 c4 = Ok (Some r) /\ rule_additive r /\
    py_make_rule c1 c2 c3 c4 =
      if rule_all_nonneg r then Raise ExInfiniteRule else Ret (Some r).
Proof. exact py_make_rule_eq_rs_additive. Qed.
Print Assumptions C17_py_make_rule_eq_rs_additive.

(** non-vacuity: a sweep step and a rule application on which both sides
    are defined, non-trivial and equal *)
Example C17_nonvacuous :
  py_step (mkTape 1 [(2, 3)] [(1, 7); (3, 1); (2, 2)]) true 4 true
    = (mkTape 3 [(4, 8); (2, 3)] [(2, 2)], 8)
  /\ step (mkTape 1 [(2, 3)] [(1, 7); (3, 1); (2, 2)]) true 4 true
    = (mkTape 3 [(4, 8); (2, 3)] [(2, 2)], 8)
  /\ (let t := mkTape 0 [] [(2, 10); (3, 10); (4, 5)] in
      let r : rule := [((true, 0), Plus (-1)); ((true, 1), Plus (-2)); ((true, 2), Plus 1)] in
      py_apply_rule t r = Ret (Some 4, mkTape 0 [] [(2, 6); (3, 2); (4, 9)])
      /\ apply_rule t r = Ok (Some 4, mkTape 0 [] [(2, 6); (3, 2); (4, 9)]))
  /\ py_calculate_diff 10 8 6 4 = Ret (Some (Plus (-2))).
Proof. vm_compute. repeat split; reflexivity. Qed.
