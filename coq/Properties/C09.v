(** C09 — The backsymbol macro simulates the base machine.
    Final statements only; vocabulary in Spec/MacroSpec.v ([back_state],
    [back_span], [back_in_window], [back_out_window], [back_dec_cfg], and the
    window notions shared with C08); proofs in Proofs/MacroSim.v,
    Proofs/MacroPure.v, Proofs/MacroBack.v.

    Macro state = 2 * (q * C^k + value of the k remembered cells) + side bit
    (1: the remembered cells lie to the right of the scanned cell); the window
    is the scanned cell plus the k remembered cells; macro-right is base-left
    (the macro tape is the base tape mirrored).

    KNOWN DEFECT F3 (macros.rs:320, [tape.split_at(self.cells - 1)]): the
    model carries the switch [lg_split_fix]; [calc_back P fx k Q C] is the
    macro as a pure function for the faithful ([fx = false]) and the repaired
    ([fx = true]) logic.  The simulation theorems are proved for the repaired
    logic; the faithful one agrees with it on every window that is left on
    the right ([C09_back_right_exit_eq]) and is refuted on a left exit
    ([C09_back_refuted]).

    COUNTING.  "No instruction => halts inside the window or never leaves it"
    needs [sim_lim] = 2*Q*C^k*C to cover the Q*(k+1)*C^(k+1) boundary
    configurations of the simulator loop: true for k = 1
    ([C09_back_pigeon_k1]), FALSE for k >= 2 ([C09_back_pigeon_fails]); for
    those k only [C09_back_instr_none_weak] is proved. *)
From BB Require Import Base TM TMabs MacroSpec InstrsModel MacrosModel.
From BB Require Import MacroSim MacroPure MacroBlock MacroBack.
Open Scope N_scope.

(** [backsymbol_new] builds [back_logic]; [sim_lim] *)
Theorem C09_back_new : forall fx k Q C,
  1 <= C -> back_fits k Q C ->
  backsymbol_new fx k (Q, C) = Ok (back_logic fx k Q C) /\
  macro_sim_lim (back_logic fx k Q C) = Ok (2 * Q * C ^ k * C).
Proof.
  intros fx k Q C HC Hfit. split; [apply back_new_ok; [exact HC|apply Hfit]|].
  apply back_sim_lim; assumption.
Qed.
Print Assumptions C09_back_new.

(** A COMPUTED INSTRUCTION OF THE REPAIRED LOGIC IS SOUND.  On any object
    satisfying the cache invariant that knows the colour of the remembered
    cells: the answer is the pure [calc_back]; if it is (mc', sh, ms') then the
    base machine, started on the scanned cell of the window
    [back_in_window ms mc] in state [back_state ms], leaves the window after
    n >= 1 steps on the side opposite to [sh] in state [back_state ms'], the
    window holding [back_out_window ms' mc' sh], the head inside the window at
    all earlier times, nothing outside changed — on EVERY absolute tape. *)
Theorem C09_back_instr_sound_fix : forall comp k Q C m ms mc bs r m',
  1 <= C -> back_fits k Q C -> prog_within comp Q C -> mc < C ->
  cache_ok k C m -> c2t_get (ms_c2t m) ((ms / 2) mod C ^ k) = Some bs ->
  macro_calculate_instr unit (plain_get comp) (back_logic true k Q C) (m, tt) (ms, mc) = (r, (m', tt)) ->
  cache_ok k C m' /\ r = Ok (calc_back (to_prog comp) true k Q C (ms, mc)) /\
  forall mc' sh ms', r = Ok (Some (mc', sh, ms')) ->
    ms' mod 2 = (if sh then 1 else 0) /\ back_state C k ms' < Q /\ mc' < C /\
    c2t_get (ms_c2t m') ((ms' / 2) mod C ^ k) = Some (back_span C k ms') /\
    forall lo t, win_at t lo (back_in_window C k ms mc) ->
      leaves (to_prog comp) lo (S (N.to_nat k))
             (mkA (back_state C k ms) (entry_pos (negb (ms mod 2 =? 1)) lo (S (N.to_nat k))) t)
             (negb sh) (back_state C k ms') (back_out_window C k ms' mc' sh).
Proof. exact back_instr_sound_fix. Qed.
Print Assumptions C09_back_instr_sound_fix.

(** NO INSTRUCTION exactly when the base machine halts inside the window or
    never leaves it — under the counting hypothesis (k = 1) *)
Theorem C09_back_instr_none_fix : forall comp k Q C m ms mc bs lo t,
  1 <= C -> back_fits k Q C -> prog_within comp Q C -> mc < C ->
  cache_ok k C m -> c2t_get (ms_c2t m) ((ms / 2) mod C ^ k) = Some bs ->
  Q * (k + 1) * C ^ (k + 1) <= 2 * Q * C ^ k * C ->
  win_at t lo (back_in_window C k ms mc) ->
  (fst (macro_calculate_instr unit (plain_get comp) (back_logic true k Q C) (m, tt) (ms, mc)) = Ok None <->
   halts_inside (to_prog comp) lo (S (N.to_nat k))
     (mkA (back_state C k ms) (entry_pos (negb (ms mod 2 =? 1)) lo (S (N.to_nat k))) t) \/
   never_leaves (to_prog comp) lo (S (N.to_nat k))
     (mkA (back_state C k ms) (entry_pos (negb (ms mod 2 =? 1)) lo (S (N.to_nat k))) t)).
Proof. exact back_instr_none_fix. Qed.
Print Assumptions C09_back_instr_none_fix.

Theorem C09_back_pigeon_k1 : forall Q C, Q * (1 + 1) * C ^ (1 + 1) <= 2 * Q * C ^ 1 * C.
Proof. exact back_pigeon_k1. Qed.
Print Assumptions C09_back_pigeon_k1.

Theorem C09_back_pigeon_fails : forall k Q C,
  1 <= Q -> 1 <= C -> 2 <= k -> 2 * Q * C ^ k * C < Q * (k + 1) * C ^ (k + 1).
Proof. exact back_pigeon_fails. Qed.
Print Assumptions C09_back_pigeon_fails.

(** for every k (pure function, any partial-function base):
    halts inside / never leaves => no instruction; and no instruction =>
    halts inside, or still inside the window after sim_lim loop iterations *)
Theorem C09_back_instr_none_conv : forall (P : prog) k Q C,
  1 <= C -> back_fits k Q C ->
  forall ms mc lo t, win_at t lo (back_in_window C k ms mc) ->
  halts_inside P lo (S (N.to_nat k))
    (mkA (back_state C k ms) (entry_pos (negb (ms mod 2 =? 1)) lo (S (N.to_nat k))) t) \/
  never_leaves P lo (S (N.to_nat k))
    (mkA (back_state C k ms) (entry_pos (negb (ms mod 2 =? 1)) lo (S (N.to_nat k))) t) ->
  calc_back P true k Q C (ms, mc) = None.
Proof. exact calc_back_none_conv. Qed.
Print Assumptions C09_back_instr_none_conv.

Theorem C09_back_instr_none_weak : forall (P : prog) k Q C,
  1 <= C -> back_fits k Q C ->
  forall ms mc lo t, win_at t lo (back_in_window C k ms mc) ->
  calc_back P true k Q C (ms, mc) = None ->
  halts_inside P lo (S (N.to_nat k))
    (mkA (back_state C k ms) (entry_pos (negb (ms mod 2 =? 1)) lo (S (N.to_nat k))) t) \/
  exists sL, iter_nat (N.to_nat (2 * Q * C ^ k * C))
               (sim_body unit (pget P) (mt_len (back_in_window C k ms mc)))
               (sim_start (back_state C k ms) (negb (ms mod 2 =? 1)) (back_in_window C k ms mc))
             = inl sL.
Proof. exact calc_back_none_weak. Qed.
Print Assumptions C09_back_instr_none_weak.

(** the pure function, any partial-function base *)
Theorem C09_calc_back_sound : forall (P : prog) k Q C,
  1 <= C -> back_fits k Q C -> prog_within_P P Q C ->
  forall ms mc mc' sh ms', mc < C ->
  calc_back P true k Q C (ms, mc) = Some (mc', sh, ms') ->
  (forall lo t, win_at t lo (back_in_window C k ms mc) ->
     leaves P lo (S (N.to_nat k))
            (mkA (back_state C k ms) (entry_pos (negb (ms mod 2 =? 1)) lo (S (N.to_nat k))) t)
            (negb sh) (back_state C k ms') (back_out_window C k ms' mc' sh)) /\
  ms' mod 2 = (if sh then 1 else 0) /\ back_state C k ms' < Q /\ mc' < C.
Proof. exact calc_back_sound. Qed.
Print Assumptions C09_calc_back_sound.

(** THE RUN (repaired logic).  For every macro configuration c0 whose tape
    colours are < C and every n there is a strictly increasing clock [tm] such
    that the macro configuration after i <= n macro steps decodes
    ([back_dec_cfg]: remembered cells re-inserted next to the head, tape
    mirrored) to the base configuration after [tm i] base steps. *)
Theorem C09_back_run_sim_fix : forall (P : prog) k Q C,
  1 <= C -> back_fits k Q C -> prog_within_P P Q C ->
  forall c0 n, (forall x, a_t c0 x < C) ->
  exists tm : nat -> nat,
    tm O = O /\ (forall i, (i < n)%nat -> (tm i < tm (S i))%nat) /\
    forall i ci, (i <= n)%nat -> a_steps (calc_back P true k Q C) i c0 = Some ci ->
      (forall x, a_t ci x < C) /\
      exists cb, a_steps P (tm i) (back_dec_cfg C k c0) = Some cb /\
                 aconf_eq cb (back_dec_cfg C k ci).
Proof. exact back_run_sim. Qed.
Print Assumptions C09_back_run_sim_fix.

Theorem C09_back_run_sim_fix_zipper : forall (P : prog) k Q C,
  1 <= C -> back_fits k Q C -> prog_within_P P Q C ->
  forall ms z H n ms' z', (forall x, abs_of z H x < C) ->
  tm_steps (calc_back P true k Q C) n (ms, z) = Some (ms', z') ->
  exists H' m cb, (n <= m)%nat /\
    a_steps P m (back_dec_cfg C k (mkA ms H (abs_of z H))) = Some cb /\
    aconf_eq cb (back_dec_cfg C k (mkA ms' H' (abs_of z' H'))).
Proof. exact back_run_sim_zipper. Qed.
Print Assumptions C09_back_run_sim_fix_zipper.

(** THE REAL OBJECT (repaired logic).  Driving the macro machine by querying
    the stateful object ([macro_get_instr]: converter caches + memo) gives
    exactly the run of the pure macro program and never panics *)
Theorem C09_back_obj_run_fix : forall (P : prog) k Q C,
  1 <= C -> back_fits k Q C -> prog_within_P P Q C ->
  forall n m q z,
  obj_ok_b P k Q C m -> known_b k C m q -> ztape_lt C z ->
  match tm_steps (calc_back P true k Q C) n (q, z) with
  | Some c' => exists m', obj_steps (macro_get_instr unit (pget P) (back_logic true k Q C)) n ((m, tt), (q, z))
                            = Ok (Some ((m', tt), c')) /\
                          obj_ok_b P k Q C m' /\ known_b k C m' (fst c') /\ ztape_lt C (snd c')
  | None => obj_steps (macro_get_instr unit (pget P) (back_logic true k Q C)) n ((m, tt), (q, z)) = Ok None
  end.
Proof. exact back_obj_run. Qed.
Print Assumptions C09_back_obj_run_fix.

Theorem C09_back_obj_run_fix_blank : forall (P : prog) k Q C,
  1 <= C -> back_fits k Q C -> prog_within_P P Q C ->
  forall n,
  match tm_steps (calc_back P true k Q C) n ((0 : state), blank_tape) with
  | Some c' => exists m', obj_steps (macro_get_instr unit (pget P) (back_logic true k Q C)) n
                            ((mstate_new k, tt), ((0 : state), blank_tape)) = Ok (Some ((m', tt), c'))
  | None => obj_steps (macro_get_instr unit (pget P) (back_logic true k Q C)) n
              ((mstate_new k, tt), ((0 : state), blank_tape)) = Ok None
  end.
Proof. exact back_obj_run_blank. Qed.
Print Assumptions C09_back_obj_run_fix_blank.

Theorem C09_back_blank : forall k C, 1 <= C ->
  aconf_eq (back_dec_cfg C k (mkA 0 0%Z (abs_of blank_tape 0%Z))) (mkA 0 (Z.of_N k) (fun _ => 0)).
Proof. exact back_dec_blank. Qed.
Print Assumptions C09_back_blank.

(** FAITHFUL = REPAIRED unless the simulator leaves the window on the left
    (pure functions, and the stateful objects started from the same state) *)
Theorem C09_back_right_exit_eq : forall (P : prog) k Q C ms mc,
  (forall st' tp',
     fst (run_simulator unit (pget P) (back_logic true k Q C)
            (back_state C k ms, (negb (ms mod 2 =? 1), back_in_window C k ms mc)) tt)
       <> Ok (Some (st', (false, tp')))) ->
  calc_back P false k Q C (ms, mc) = calc_back P true k Q C (ms, mc).
Proof. exact calc_back_right_exit_eq. Qed.
Print Assumptions C09_back_right_exit_eq.

Theorem C09_back_right_exit_eq_obj : forall (P : prog) k Q C m ms mc,
  (forall cfg st' tp', deconstruct_inputs (back_logic true k Q C) m (ms, mc) = Ok cfg ->
     fst (run_simulator unit (pget P) (back_logic true k Q C) cfg tt)
       <> Ok (Some (st', (false, tp')))) ->
  macro_calculate_instr unit (pget P) (back_logic false k Q C) (m, tt) (ms, mc) =
  macro_calculate_instr unit (pget P) (back_logic true k Q C) (m, tt) (ms, mc).
Proof. exact macro_calculate_back_right_eq. Qed.
Print Assumptions C09_back_right_exit_eq_obj.

(** in terms of answers: macro-left instructions and "no instruction" of the
    repaired logic are the faithful logic's answers too *)
Theorem C09_back_faithful_right : forall (P : prog) k Q C ms mc mc' ms',
  calc_back P true k Q C (ms, mc) = Some (mc', false, ms') ->
  calc_back P false k Q C (ms, mc) = Some (mc', false, ms').
Proof. exact calc_back_faithful_right. Qed.
Print Assumptions C09_back_faithful_right.

Theorem C09_back_faithful_none : forall (P : prog) k Q C ms mc,
  1 <= C -> back_fits k Q C ->
  calc_back P true k Q C (ms, mc) = None -> calc_back P false k Q C (ms, mc) = None.
Proof. exact calc_back_faithful_none. Qed.
Print Assumptions C09_back_faithful_none.

(** OUTSIDE F3: a run of the FAITHFUL macro none of whose instructions moves
    macro-right (none left its window on the left) decodes to base-machine
    configurations in order *)
Theorem C09_back_run_sim_outside_F3 : forall (P : prog) k Q C ms z H n ms' z',
  1 <= k -> 1 <= C -> back_fits k Q C -> prog_within_P P Q C ->
  (forall x, abs_of z H x < C) ->
  tm_steps (calc_back P false k Q C) n (ms, z) = Some (ms', z') ->
  (forall i ci, (i < n)%nat -> tm_steps (calc_back P false k Q C) i (ms, z) = Some ci ->
     forall mc' ms'', calc_back P false k Q C (fst ci, zc (snd ci)) <> Some (mc', true, ms'')) ->
  exists H' m cb, (n <= m)%nat /\
    a_steps P m (back_dec_cfg C k (mkA ms H (abs_of z H))) = Some cb /\
    aconf_eq cb (back_dec_cfg C k (mkA ms' H' (abs_of z' H'))).
Proof. exact back_run_sim_outside_F3. Qed.
Print Assumptions C09_back_run_sim_outside_F3.

(** F3 REFUTED: "1RB 1LB  1LA ---", one remembered cell, slot (state 0 =
    A with the remembered 0 to the left, scanned colour 1).  The faithful
    object, fresh, answers (1, R, 1); that instruction claims that the base
    machine leaves the window [0;1] on the left in state A with the window
    holding [0;1] — on no tape does the base machine do that (it leaves it
    holding [1;1]; the repaired logic answers (1, R, 3)). *)
Theorem C09_back_refuted :
  fst (macro_calculate_instr unit (plain_get f3_comp) (back_logic false 1 2 2)
         (mstate_new 1, tt) (0, 1)) = Ok (Some (1, true, 1)) /\
  calc_back (to_prog f3_comp) false 1 2 2 (0, 1) = Some (1, true, 1) /\
  forall lo t, win_at t lo (back_in_window 2 1 0 1) ->
    ~ leaves (to_prog f3_comp) lo 2
        (mkA (back_state 2 1 0) (entry_pos (negb (0 mod 2 =? 1)) lo 2) t)
        (negb true) (back_state 2 1 1) (back_out_window 2 1 1 1 true).
Proof. exact back_refuted. Qed.
Print Assumptions C09_back_refuted.

(** non-vacuity.  The hypotheses hold for "1RB 1LB  1LA ---" with one
    remembered cell; the repaired logic has instructions moving either way and
    a slot without instruction; "0RB ---  0LA ---" never leaves a blank
    window; the refuted slot decodes as claimed; and the machine "1RA" run for
    1000 macro steps never moves macro-right, so the hypothesis of
    [C09_back_run_sim_outside_F3] is satisfiable ([no_rights_sound]). *)
Example C09_nonvacuous :
  let loop := [((0,0),(0,true,1)); ((1,0),(0,false,0))] in
  let right1 := [((0,0),(1,true,0))] in
  prog_within f3_comp 2 2 /\ back_fits 1 2 2 /\
  backsymbol_new true 1 (2, 2) = Ok (back_logic true 1 2 2) /\
  calc_back (to_prog f3_comp) true 1 2 2 (0, 1) = Some (1, true, 3) /\
  calc_back (to_prog f3_comp) true 1 2 2 (0, 0) = Some (0, false, 6) /\
  calc_back (to_prog f3_comp) false 1 2 2 (0, 0) = Some (0, false, 6) /\
  calc_back (to_prog f3_comp) true 1 2 2 (2, 1) = None /\
  calc_back (to_prog loop) true 1 2 2 (1, 0) = None /\
  back_in_window 2 1 0 1 = [0; 1] /\ back_out_window 2 1 1 1 true = [0; 1] /\
  back_out_window 2 1 3 1 true = [1; 1] /\
  fst (macro_calculate_instr unit (plain_get f3_comp) (back_logic true 1 2 2) (mstate_new 1, tt) (0, 1))
    = Ok (Some (1, true, 3)) /\
  no_rights (calc_back (to_prog right1) false 1 1 2) 1000 (0, blank_tape) = true /\
  (exists c, tm_steps (calc_back (to_prog right1) false 1 1 2) 1000 (0, blank_tape) = Some c).
Proof.
  vm_compute. repeat split; try reflexivity; try (intro; discriminate).
  eexists. reflexivity.
Qed.
