(** Extraction of the executable models and specs to OCaml (bbm).
    ExtrOcamlBasic only; N/Z/positive/nat stay inductive; no Extract Constant. *)
From BB Require Import Base TM Ref TapeModel InstrsModel MachineModel RulesModel GraphModel.
From Coq Require Import ExtrOcamlBasic.
Extraction Language OCaml.
Extraction "bbm_model.ml"
  N.add N.mul N.sub N.div_eucl N.compare N.of_nat N.to_nat Z.of_N Z.to_N Z.opp Z.add Z.mul Z.compare
  for_upto
  tm_step tm_steps ref_run ref_spinout tape_blankb marks_of
  step pull push marks blank at_edge blocks counts span_lens tape_sig sig_compatible
  unroll_span compare_take aligns_with show_tape tape_eqb ht_step
  cp_get cp_insert cp_remove cp_params halt_slots erase_slots zr_shifts
  from_str show read_instr read_slot read_state read_color show_instr show_slot show_state to_prog
  run_quick quick_term_or_rec quick_ops_init
  calculate_diff make_rule count_apps apply_rule apply_rule_prefix apply_plus apply_plus_prefix
  get_exitpoints is_connected.
