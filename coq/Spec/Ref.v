(** Reference runner: the cell-by-cell machine with the termination tests of
    the property statements made at EVERY base step.  Executable; used as
    the statement side of C01 and as the oracle of the search stage. *)
From BB Require Export TM.

Inductive termres := xlimit | cfglim | infrul | spnout | undfnd | mulrul.

(** state -> step map, sorted by state (what a BTreeMap prints) *)
Fixpoint blanks_mem (q : state) (b : list (state * N)) : bool :=
  match b with [] => false | (k, _) :: b' => (k =? q) || blanks_mem q b' end.
Fixpoint blanks_insert (q : state) (v : N) (b : list (state * N)) : list (state * N) :=
  match b with
  | [] => [(q, v)]
  | (k, w) :: b' => if q <? k then (q, v) :: b
                    else if q =? k then (q, v) :: b'
                    else (k, w) :: blanks_insert q v b'
  end.

Record refstate := mkF { f_q : state; f_t : ztape; f_steps : N; f_blanks : list (state * N) }.

Definition ref_spinout (P : prog) (q : state) (t : ztape) : bool :=
  match P (q, zc t) with
  | Some (_, sh, q') => (q =? q') && (zc t =? 0) && all_blankb (side sh t)
  | None => false
  end.

Definition ref_body (P : prog) (s : refstate) : refstate + (termres * option slot * refstate) :=
  let q := f_q s in let t := f_t s in
  match P (q, zc t) with
  | None => inr (undfnd, Some (q, zc t), s)
  | Some (pr, sh, q') =>
      if (q =? q') && (zc t =? 0) && all_blankb (side sh t) then inr (spnout, None, s)
      else
        let t' := tm_move t sh pr in
        let steps' := f_steps s + 1 in
        if (pr =? 0) && tape_blankb t' then
          if blanks_mem q' (f_blanks s) then inr (infrul, None, mkF q' t' steps' (f_blanks s))
          else
            let s'' := mkF q' t' steps' (blanks_insert q' steps' (f_blanks s)) in
            if q' =? 0 then inr (infrul, None, s'') else inl s''
        else inl (mkF q' t' steps' (f_blanks s))
  end.

(** result record without cycle count / rule applications *)
Record refres := mkRR {
  rr_result : termres; rr_steps : N; rr_marks : N;
  rr_blanks : list (state * N); rr_last_slot : option slot;
  rr_final : config }.

Definition ref_finish (x : refstate + (termres * option slot * refstate)) : refres :=
  match x with
  | inl s => mkRR xlimit (f_steps s) (marks_of (f_t s)) (f_blanks s) None (f_q s, f_t s)
  | inr (res, ls, s) => mkRR res (f_steps s) (marks_of (f_t s)) (f_blanks s) ls (f_q s, f_t s)
  end.

Definition ref_init : refstate := mkF 0 blank_tape 0 [].
Definition ref_run (P : prog) (step_lim : N) : refres :=
  ref_finish (for_upto step_lim (ref_body P) ref_init).
