(** The one-cell-at-a-time Turing machine: the ONLY semantics a reader has
    to believe.  Tapes are zippers, cells nearest the head first, implicit
    infinite blanks (colour 0) beyond the lists. *)
From BB Require Export Base.

Record ztape := { zl : list colour; zc : colour; zr : list colour }.

Definition cell (l : list colour) (i : nat) : colour := nth i l 0.
Definition side_eq (a b : list colour) : Prop := forall i, cell a i = cell b i.
Definition tape_eq (a b : ztape) : Prop :=
  side_eq (zl a) (zl b) /\ zc a = zc b /\ side_eq (zr a) (zr b).

Definition hd0 (l : list colour) : colour := match l with [] => 0 | x :: _ => x end.

Definition tm_move (t : ztape) (sh : shift) (pr : colour) : ztape :=
  if sh
  then {| zl := pr :: zl t; zc := hd0 (zr t); zr := tl (zr t) |}
  else {| zl := tl (zl t); zc := hd0 (zl t); zr := pr :: zr t |}.

Definition config := (state * ztape)%type.

Definition tm_step (P : prog) (c : config) : option config :=
  let (q, t) := c in
  match P (q, zc t) with
  | None => None
  | Some (pr, sh, q') => Some (q', tm_move t sh pr)
  end.

(** [tm_steps P n c = None] iff the machine halted before completing n steps. *)
Fixpoint tm_steps (P : prog) (n : nat) (c : config) : option config :=
  match n with
  | O => Some c
  | S n' => match tm_step P c with
            | None => None
            | Some c' => tm_steps P n' c'
            end
  end.

Definition blank_tape : ztape := {| zl := []; zc := 0; zr := [] |}.
Definition init_config : config := (0, blank_tape).

Definition all_blank (l : list colour) : Prop := forall i, cell l i = 0.
Definition tape_blank (t : ztape) : Prop := all_blank (zl t) /\ zc t = 0 /\ all_blank (zr t).
Definition side (sh : shift) (t : ztape) : list colour := if sh then zr t else zl t.

(** Events (Appendix A of DESIGN.md). *)
Definition halted_cfg (P : prog) (c : config) : Prop := P (fst c, zc (snd c)) = None.

Definition halts_at (P : prog) (c0 : config) (n : nat) (sl : slot) : Prop :=
  exists q t, tm_steps P n c0 = Some (q, t) /\ sl = (q, zc t) /\ P sl = None.

Definition spinout_cfg (P : prog) (c : config) : Prop :=
  let (q, t) := c in
  zc t = 0 /\ exists pr sh, P (q, 0) = Some (pr, sh, q) /\ all_blank (side sh t).

Definition spins_out_at (P : prog) (c0 : config) (n : nat) : Prop :=
  exists c, tm_steps P n c0 = Some c /\ spinout_cfg P c.

Definition never_halts (P : prog) (c0 : config) : Prop :=
  forall n, exists c, tm_steps P n c0 = Some c.

Definition never_spins_out (P : prog) (c0 : config) : Prop :=
  forall n c, tm_steps P n c0 = Some c -> ~ spinout_cfg P c.

(** step number n (1-based count of completed steps) printed 0 and left an
    all-blank tape, arriving in state q *)
Definition blank_after (P : prog) (c0 : config) (n : nat) (q : state) : Prop :=
  exists q0 t0 pr sh t,
    tm_steps P n c0 = Some (q0, t0) /\ P (q0, zc t0) = Some (pr, sh, q) /\ pr = 0 /\
    t = tm_move t0 sh pr /\ tape_blank t.

(** erase: read a non-zero cell, printed 0, tape all blank afterwards *)
Definition erases_at (P : prog) (c0 : config) (n : nat) : Prop :=
  exists q0 t0 pr sh q,
    tm_steps P n c0 = Some (q0, t0) /\ P (q0, zc t0) = Some (pr, sh, q) /\ pr = 0 /\
    zc t0 <> 0 /\ tape_blank (tm_move t0 sh pr).

(** Executable helpers used by the reference runner and the oracles. *)
Definition all_blankb (l : list colour) : bool := forallb (N.eqb 0) l.
Definition tape_blankb (t : ztape) : bool :=
  all_blankb (zl t) && (zc t =? 0) && all_blankb (zr t).
Definition marks_of (t : ztape) : N :=
  N.of_nat (length (filter (fun c => negb (c =? 0)) (zl t ++ zc t :: zr t))).
