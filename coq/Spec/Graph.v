(** Spec-level vocabulary for C14 (connectivity filter): the state-transition
    graph of a program, reachability, strong connectivity, and what tree
    generation guarantees about a program's own run (TNF).  Definitions only. *)
From BB Require Export Base TM.

(** some instruction of state [a] goes to state [b] *)
Definition edge (P : prog) (a b : state) : Prop :=
  exists c pr sh, P (a, c) = Some (pr, sh, b).

(** reflexive-transitive closure of [edge P] *)
Inductive reach (P : prog) : state -> state -> Prop :=
| reach_refl : forall a, reach P a a
| reach_step : forall a b c, edge P a b -> reach P b c -> reach P a c.

(** every state that owns an instruction and every target state is < n *)
Definition states_lt (n : N) (P : prog) : Prop :=
  forall a c pr sh b, P (a, c) = Some (pr, sh, b) -> a < n /\ b < n.

Definition strongly_connected (P : prog) (n : N) : Prop :=
  forall a b, a < n -> b < n -> reach P a b.

(** every instruction of [s] (if any) stays in [s] *)
Definition no_exit (P : prog) (s : state) : Prop := forall b, edge P s b -> b = s.
(** the positive counterpart: [s] has an instruction that leaves [s] *)
Definition has_exit (P : prog) (s : state) : Prop := exists b, b <> s /\ edge P s b.

(** ---- the program's own run from the blank tape ---- *)

(** after [t] completed steps the machine is in state [s] *)
Definition visits (P : prog) (t : nat) (s : state) : Prop :=
  exists tp, tm_steps P t init_config = Some (s, tp).

(** every defined slot is reached by the run *)
Definition slots_used (P : prog) : Prop :=
  forall a c i, P (a, c) = Some i ->
    exists t tp, tm_steps P t init_config = Some (a, tp) /\ zc tp = c.

(** states are first entered in increasing order: whenever the run is in
    state [s'], every lower state has been entered no later *)
Definition visit_order (P : prog) : Prop :=
  forall t' s' s, visits P t' s' -> s < s' ->
    exists t, (t <= t')%nat /\ visits P t s.

(** what tree generation guarantees (DESIGN C10 [tree_tnf]), for [n] states *)
Definition TNF (P : prog) (n : N) : Prop :=
  2 <= n /\ states_lt n P /\ slots_used P /\ visit_order P.
