(** Spec for C18: the expression language of /repo/tm/num.py and its integer
    semantics.  Definitions only (stdlib only); this file is what a reader has
    to believe in order to believe the C18 theorems.

    num.py represents a symbolic count as a tree over four node classes
    (a fifth, [Tet], has no integer value -- [Tet.__int__] raises
    NotImplementedError, num.py:1219 -- and is outside this language:
    anything containing a Tet is "no result" for C18):

      Add(l : int | Num, r : Num)      num.py:160   int = int(l) + int(r)        num.py:187
      Mul(l : int | Num, r : Num)      num.py:354   int = int(l) * int(r)        num.py:393
      Div(num : Num, den : int > 0)    num.py:665   int = int(num) // den        num.py:690
      Exp(base : int, exp : int | Num) num.py:831   int = base ** int(exp)       num.py:865

    Python ints appear only as [Add.l], [Mul.l], [Exp.exp] (and as the scalar
    fields [Div.den], [Exp.base]); [NInt] is allowed anywhere below, a
    superset.

    [Div] is meant to be EXACT division: the library only creates a Div after
    its gcd reasoning, [Div.__mod__] asserts a zero remainder (num.py:708)
    and [Div.__neg__] (num.py:693) is only right for exact quotients.
    [Div.__int__] itself floors.  Both readings are given: [eval] (exact,
    the semantics the theorems use; [None] when some Div does not divide)
    and [eval_floor] (literally what [int()] computes).  They agree whenever
    [eval] is defined ([eval_floor_of_eval], Proofs/NumMod.v).

    A negative exponent makes [base ** int(exp)] a float and [int()] raise
    TypeError ("__int__ returned non-int"): [None] in both. *)
From Coq Require Import ZArith Bool.
Open Scope Z_scope.

Inductive nexpr : Type :=
| NInt (z : Z)
| NAdd (l r : nexpr)
| NMul (l r : nexpr)
| NDiv (num : nexpr) (den : Z)
| NExp (base : Z) (e : nexpr).

(** exact semantics: every Div divides, every denominator is positive
    ([Div.__init__] asserts [den > 0], num.py:670), every exponent is >= 0 *)
Fixpoint eval (e : nexpr) : option Z :=
  match e with
  | NInt z => Some z
  | NAdd l r =>
      match eval l, eval r with
      | Some a, Some b => Some (a + b)
      | _, _ => None
      end
  | NMul l r =>
      match eval l, eval r with
      | Some a, Some b => Some (a * b)
      | _, _ => None
      end
  | NDiv num den =>
      match eval num with
      | Some a => if (0 <? den) && (a mod den =? 0) then Some (a / den) else None
      | None => None
      end
  | NExp base x =>
      match eval x with
      | Some k => if 0 <=? k then Some (base ^ k) else None
      | None => None
      end
  end.

(** what [int()] computes: floor division (Python's [//] on ints is
    [Z.div] for a positive divisor) *)
Fixpoint eval_floor (e : nexpr) : option Z :=
  match e with
  | NInt z => Some z
  | NAdd l r =>
      match eval_floor l, eval_floor r with
      | Some a, Some b => Some (a + b)
      | _, _ => None
      end
  | NMul l r =>
      match eval_floor l, eval_floor r with
      | Some a, Some b => Some (a * b)
      | _, _ => None
      end
  | NDiv num den =>
      match eval_floor num with
      | Some a => if 0 <? den then Some (a / den) else None
      | None => None
      end
  | NExp base x =>
      match eval_floor x with
      | Some k => if 0 <=? k then Some (base ^ k) else None
      | None => None
      end
  end.

(** the residue the property demands of [expr % m] (Python's sign
    convention for [m > 0] is [Z.modulo]) *)
Definition eval_mod (e : nexpr) (m : Z) : option Z :=
  match eval e with
  | Some n => Some (n mod m)
  | None => None
  end.

(** every Exp node has an exponent of value at least 2 -- what
    [Exp.__mod__] assumes of its objects ([assert 1 < exp], num.py:893;
    [Exp.__init__] takes [log10(exp)], so an int exponent is at least 1).
    Hypothesis of the soundness theorem of `%`; decidable, extracted, and
    used by the check to recognise inputs outside the theorem. *)
Fixpoint exps_gt1 (e : nexpr) : bool :=
  match e with
  | NInt _ => true
  | NAdd l r => exps_gt1 l && exps_gt1 r
  | NMul l r => exps_gt1 l && exps_gt1 r
  | NDiv num _ => exps_gt1 num
  | NExp _ x => exps_gt1 x && match eval x with Some k => 1 <? k | None => false end
  end.
