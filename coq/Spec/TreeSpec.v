(** Declarative specification of the program-tree generator (property C10).

    [Gen params halt lim p] transcribes the sentence

      "for given table size, halt flag and step limit, the generator emits
       exactly the set of programs obtained by running from the blank tape
       and, each time an undefined instruction is reached within the limit,
       filling it with every instruction that uses at most one not-yet-used
       state and colour (lowest unused first), until the slot budget is
       spent - restricted to programs that mention the last state and last
       colour"

    as an inductive relation: no accumulator, no fuel, no iteration order.
    The meaning of "running ... within the limit" is [run_for_undefined] of
    the model (the cycle-limited run on the run-length tape, C01/C12 tie it
    to the cell-by-cell machine); the limit counts compressed cycles and is
    granted anew at every node.  "every instruction that uses at most one
    not-yet-used state and colour" is [make_instrs] over the available
    states x colours, whose informal reading is made explicit by
    [make_instrs_spec], [update_avail_spec] and [make_instrs_nodup]
    (Proofs/TreeEnum.v, restated in Properties/C10.v). *)
From BB Require Export Base InstrsModel TapeModel TreeModel.
From Coq Require Export Permutation.

Definition instr_colour (i : instr) : colour := fst (fst i).
Definition instr_target (i : instr) : state := snd i.

(** "mentions the last state and the last colour": some instruction of the
    program goes to state [S-1] (or beyond) and some instruction prints
    colour [C-1] (or beyond).  Only the instructions count, not the slots. *)
Definition mentions_last (params : N * N) (p : comp_prog) : Prop :=
  (exists k i, In (k, i) p /\ fst params <= 1 + instr_target i) /\
  (exists k i, In (k, i) p /\ snd params <= 1 + instr_colour i).

(** The available states/colours after reaching slot [sl], the instruction
    placed last being [i]: each grows by one exactly when its highest
    available index has just been used and the table allows one more. *)
Definition next_avail (params avail : N * N) (sl : slot) (i : instr) : N * N :=
  (update_avail (fst avail) (fst params) (fst sl) (instr_target i),
   update_avail (snd avail) (snd params) (snd sl) (instr_colour i)).

(** slots left to fill below the first level: S*C minus the halt slot(s)
    left open, minus the two given instructions (truncated subtraction) *)
Definition slot_budget (params : N * N) (halt : bool) : N :=
  fst params * snd params - 1 - (if halt then 2 else 1).

(** the program every first-level task starts from: A0 = 1RB, B0 = i *)
Definition start_prog (i : instr) : comp_prog :=
  cp_insert (1, 0) i (cp_insert (0, 0) (1, true, 1) []).

Section Gen.
Variables (params : N * N) (lim : N).

(** [GenNode i prog st tp avail rem p]: program [p] is emitted below the node
    where [i] was placed last, the program so far is [prog], the machine is
    in state [st] on tape [tp], [avail] states/colours may be used and [rem]
    slots may still be filled. *)
Inductive GenNode : instr -> comp_prog -> state -> tape -> N * N -> N -> comp_prog -> Prop :=
| GN_leaf i prog st tp avail rem :
    (* no undefined slot is reached within the limit *)
    (forall sl, fst (run_for_undefined prog st tp lim) <> TrUndefined sl) ->
    mentions_last params prog ->
    GenNode i prog st tp avail rem prog
| GN_fill_last i prog st tp avail rem sl tp' nxt :
    run_for_undefined prog st tp lim = (TrUndefined sl, tp') ->
    rem = 1 ->
    In nxt (make_instrs (fst (next_avail params avail sl i)) (snd (next_avail params avail sl i))) ->
    mentions_last params (cp_insert sl nxt prog) ->
    GenNode i prog st tp avail rem (cp_insert sl nxt prog)
| GN_fill i prog st tp avail rem sl tp' nxt p :
    run_for_undefined prog st tp lim = (TrUndefined sl, tp') ->
    1 < rem ->
    In nxt (make_instrs (fst (next_avail params avail sl i)) (snd (next_avail params avail sl i))) ->
    GenNode nxt (cp_insert sl nxt prog) (fst sl) tp' (next_avail params avail sl i) (rem - 1) p ->
    GenNode i prog st tp avail rem p.
End Gen.

Definition Gen (params : N * N) (halt : bool) (lim : N) (p : comp_prog) : Prop :=
  exists i,
    In i (make_instrs (N.min 3 (fst params)) (N.min 3 (snd params))) /\
    GenNode params lim i (start_prog i) 1 init_stepped
            (N.min 3 (fst params), N.min 3 (snd params)) (slot_budget params halt) p.

(** ---- scheduling ---- *)

(** [IsInterleaving merged seqs]: [merged] is obtained by repeatedly taking
    the head of any one of the sequences. *)
Inductive IsInterleaving {A : Type} : list A -> list (list A) -> Prop :=
| IL_done seqs : Forall (fun s => s = []) seqs -> IsInterleaving [] seqs
| IL_take x xs s1 s2 merged :
    IsInterleaving merged (s1 ++ xs :: s2) ->
    IsInterleaving (x :: merged) (s1 ++ (x :: xs) :: s2).

(** What one first-level task hands to the harvester, in emission order: a
    function of the task's own inputs only (the accumulator is empty). *)
Definition subtree_seq (params : N * N) (halt : bool) (lim : N) (i : instr) : list comp_prog :=
  match build_subtree params halt lim i [] with
  | Ok h => rev h
  | Panic => []
  end.

(** ---- normal form ---- *)
Definition state_mentioned (p : comp_prog) (s : state) : Prop :=
  exists k i, cp_get p k = Some i /\ (fst k = s \/ instr_target i = s).
Definition entered_from_lower (p : comp_prog) (s : state) : Prop :=
  exists a co pr sh, a < s /\ cp_get p (a, co) = Some (pr, sh, s).
