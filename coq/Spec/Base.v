(** Base vocabulary shared by Spec and Model layers. No proofs of
    properties here: only definitions and the generic loop combinator. *)
From Coq Require Export List NArith ZArith Bool Lia.
Export ListNotations.
Open Scope N_scope.

Arguments N.add : simpl never.
Arguments N.sub : simpl never.
Arguments N.mul : simpl never.
Arguments N.eqb : simpl never.
Arguments N.ltb : simpl never.
Arguments N.leb : simpl never.
Arguments N.div : simpl never.
Arguments N.modulo : simpl never.

Definition colour := N.
Definition state := N.
Definition shift := bool.            (* true = Right, false = Left *)
Definition instr := (colour * shift * state)%type.
Definition slot := (state * colour)%type.

(** Programs at the spec level: a partial function. *)
Definition prog := slot -> option instr.

(** Bounded loop with early exit, structural on the binary limit so that
    extracted code runs limits like 10^8 without building unary numbers.
    [for_pos p body s] runs [body] up to [p] times. *)
Fixpoint for_pos {S R : Type} (p : positive) (body : S -> S + R) (s : S) : S + R :=
  match p with
  | xH => body s
  | xO p' => match for_pos p' body s with
             | inl s' => for_pos p' body s'
             | inr r => inr r
             end
  | xI p' => match body s with
             | inl s0 => match for_pos p' body s0 with
                         | inl s' => for_pos p' body s'
                         | inr r => inr r
                         end
             | inr r => inr r
             end
  end.

Definition for_upto {S R : Type} (n : N) (body : S -> S + R) (s : S) : S + R :=
  match n with
  | N0 => inl s
  | Npos p => for_pos p body s
  end.

(** Reference unary iteration (what [for_upto] is proved equal to). *)
Fixpoint iter_nat {S R : Type} (n : nat) (body : S -> S + R) (s : S) : S + R :=
  match n with
  | O => inl s
  | Datatypes.S n' => match body s with
                      | inl s' => iter_nat n' body s'
                      | inr r => inr r
                      end
  end.

(** Outcome of a Rust computation that may panic. *)
Inductive outcome (A : Type) := Panic | Ok (a : A).
Arguments Panic {A}.
Arguments Ok {A} a.
Definition obind {A B} (x : outcome A) (f : A -> outcome B) : outcome B :=
  match x with Panic => Panic | Ok a => f a end.

(** machine integers *)
Definition u64_max : N := 18446744073709551615.
Definition i32_of_u64 (n : N) : Z :=
  let m := (Z.of_N n mod 4294967296)%Z in
  if (m <? 2147483648)%Z then m else (m - 4294967296)%Z.
Definition in_i32 (z : Z) : bool := ((-2147483648 <=? z) && (z <=? 2147483647))%Z.

(** decimal printing of an unsigned integer, as a list of code points *)
Fixpoint digits_fuel (fuel : nat) (n : N) (acc : list N) : list N :=
  match fuel with
  | O => acc
  | S f => let acc' := (48 + n mod 10) :: acc in
           if n / 10 =? 0 then acc' else digits_fuel f (n / 10) acc'
  end.
Definition show_N (n : N) : list N := digits_fuel (S (N.to_nat (N.log2 n))) n [].
