(** Second presentation of the machine: absolute tape [Z -> colour] and an
    absolute head position.  Used where properties speak about head
    positions and translated configurations (C07, C08, C09).  Related to
    the zipper presentation by [abs_of] (see Proofs/AbsEquiv.v). *)
From BB Require Export TM.
Open Scope Z_scope.

Definition atape := Z -> colour.
Record aconf := mkA { a_q : state; a_h : Z; a_t : atape }.

Definition aeq (t1 t2 : atape) : Prop := forall x, t1 x = t2 x.
Definition aconf_eq (c1 c2 : aconf) : Prop :=
  a_q c1 = a_q c2 /\ a_h c1 = a_h c2 /\ aeq (a_t c1) (a_t c2).

Definition a_write (t : atape) (h : Z) (pr : colour) : atape :=
  fun x => if x =? h then pr else t x.

Definition a_step (P : prog) (c : aconf) : option aconf :=
  match P (a_q c, a_t c (a_h c)) with
  | None => None
  | Some (pr, sh, q') =>
      Some (mkA q' (if sh then a_h c + 1 else a_h c - 1) (a_write (a_t c) (a_h c) pr))
  end.

Fixpoint a_steps (P : prog) (n : nat) (c : aconf) : option aconf :=
  match n with
  | O => Some c
  | S n' => match a_step P c with None => None | Some c' => a_steps P n' c' end
  end.

(** the absolute tape of a zipper whose head stands at position h *)
Definition abs_of (z : ztape) (h : Z) : atape :=
  fun x => if x <? h then cell (zl z) (Z.to_nat (h - x - 1))
           else if x =? h then zc z
           else cell (zr z) (Z.to_nat (x - h - 1)).

Definition a_never_halts (P : prog) (c : aconf) : Prop :=
  forall n, exists c', a_steps P n c = Some c'.

(** configuration c2 is configuration c1 translated by d cells *)
Definition translated (d : Z) (c1 c2 : aconf) : Prop :=
  a_q c2 = a_q c1 /\ a_h c2 = a_h c1 + d /\ forall x, a_t c2 (x + d) = a_t c1 x.

(** spin-out configuration, absolute form *)
Definition a_spinout_cfg (P : prog) (c : aconf) : Prop :=
  a_t c (a_h c) = 0%N /\
  exists pr sh, P (a_q c, 0%N) = Some (pr, sh, a_q c) /\
    forall x, (if sh then a_h c < x else x < a_h c) -> a_t c x = 0%N.
Close Scope Z_scope.
