(** Executable spec-level oracles: a plain reference run (no blank-tape
    heuristics) and a brute-force search for a translated-cycle certificate
    (two configurations with equal state and equal tape on the traversed
    window, shifted).  Used by the search stages of C02/C04-C07 and as the
    independent confirmation C07 asks for. *)
From BB Require Export TM TMabs.

Inductive plainres := PLimit | PHalt (sl : slot) | PSpinout.

Definition spinout_b (P : prog) (q : state) (t : ztape) : bool :=
  match P (q, zc t) with
  | Some (_, sh, q') => (q =? q') && (zc t =? 0) && all_blankb (side sh t)
  | None => false
  end.

(** runs until halt / spin-out configuration / L steps; returns the number
    of steps made and the final configuration *)
Definition plain_body (P : prog) (s : N * config) : (N * config) + (plainres * N * config) :=
  let '(n, (q, t)) := s in
  match P (q, zc t) with
  | None => inr (PHalt (q, zc t), n, (q, t))
  | Some (pr, sh, q') =>
      if spinout_b P q t then inr (PSpinout, n, (q, t))
      else inl (n + 1, (q', tm_move t sh pr))
  end.
Definition plain_run (P : prog) (c0 : config) (L : N) : plainres * N * config :=
  match for_upto L (plain_body P) (0, c0) with
  | inl (n, c) => (PLimit, n, c)
  | inr r => r
  end.

(** "erase" event: a step reads non-zero, prints 0 and leaves a blank tape *)
Definition erase_body (P : prog) (s : N * config) : (N * config) + (option N) :=
  let '(n, (q, t)) := s in
  match P (q, zc t) with
  | None => inr None
  | Some (pr, sh, q') =>
      let t' := tm_move t sh pr in
      if negb (zc t =? 0) && (pr =? 0) && tape_blankb t' then inr (Some (n + 1))
      else inl (n + 1, (q', t'))
  end.
(** Some n: the tape is erased by step n (<= L); None: not within L steps / halted first *)
Definition erase_run (P : prog) (c0 : config) (L : N) : option N :=
  match for_upto L (erase_body P) (0, c0) with
  | inl _ => None
  | inr r => r
  end.

(** ---- certificate search ---- *)
Record hconf := mkH { h_q : state; h_z : ztape; h_pos : Z }.

Definition h_step (P : prog) (c : hconf) : option hconf :=
  match P (h_q c, zc (h_z c)) with
  | None => None
  | Some (pr, sh, q') =>
      Some (mkH q' (tm_move (h_z c) sh pr) (if sh then h_pos c + 1 else h_pos c - 1)%Z)
  end.

Fixpoint Zrange (fuel : nat) (lo : Z) : list Z :=
  match fuel with O => [] | S f => lo :: Zrange f (lo + 1)%Z end.
Definition Zinterval (lo hi : Z) : list Z := Zrange (Z.to_nat (hi - lo + 1)) lo.

(** the test of a candidate pair: c1 earlier, c2 later, [lo,hi] = range of
    head positions at all times between them (both ends included) *)
Definition cert_ok (c1 c2 : hconf) (lo hi : Z) : bool :=
  let d := (h_pos c2 - h_pos c1)%Z in
  let a1 := abs_of (h_z c1) (h_pos c1) in
  let a2 := abs_of (h_z c2) (h_pos c2) in
  (h_q c1 =? h_q c2) &&
  forallb (fun x => a2 (x + d)%Z =? a1 x) (Zinterval lo hi) &&
  (if (0 <? d)%Z then
     (* whole right half-line: beyond [far] both tapes are blank *)
     let far := Z.max (h_pos c1 + Z.of_nat (length (zr (h_z c1))))
                      (h_pos c2 + Z.of_nat (length (zr (h_z c2))) - d) in
     forallb (fun x => a2 (x + d)%Z =? a1 x) (Zinterval (hi + 1) (far + 1))
   else if (d <? 0)%Z then
     let far := Z.min (h_pos c1 - Z.of_nat (length (zl (h_z c1))))
                      (h_pos c2 - Z.of_nat (length (zl (h_z c2))) - d) in
     forallb (fun x => a2 (x + d)%Z =? a1 x) (Zinterval (far - 1) (lo - 1))
   else true).

(** scan the earlier configurations (most recent first) keeping lo/hi *)
Fixpoint cert_scan (c2 : hconf) (earlier : list hconf) (lo hi : Z) (back : N) : option N :=
  match earlier with
  | [] => None
  | c1 :: rest =>
      let lo' := Z.min lo (h_pos c1) in
      let hi' := Z.max hi (h_pos c1) in
      if cert_ok c1 c2 lo' hi' then Some (back + 1)
      else cert_scan c2 rest lo' hi' (back + 1)
  end.

(** [hist]: configurations so far, most recent first.  Returns (t1, t2). *)
Fixpoint cert_search (P : prog) (fuel : nat) (t : N) (c : hconf) (hist : list hconf) : option (N * N) :=
  match fuel with
  | O => None
  | S f =>
      match cert_scan c hist (h_pos c) (h_pos c) 0 with
      | Some back => Some (t - back, t)
      | None =>
          match h_step P c with
          | None => None
          | Some c' => cert_search P f (t + 1) c' (c :: hist)
          end
      end
  end.

Definition find_cert (P : prog) (c0 : config) (T : N) : option (N * N) :=
  cert_search P (N.to_nat T) 0 (mkH (fst c0) (snd c0) 0) [].
