(** Vocabulary of C08 / C09: windows on an absolute tape, positional value of
    a block of cells, and how a macro configuration spells out a base
    configuration.  Definitions only. *)
From BB Require Export TMabs.
Open Scope N_scope.

(** ---- positional value of a list of cells, MOST significant cell first
    (macros.rs:391-396: the LAST cell is the least significant digit) ---- *)
Definition ltC (C : N) : colour -> Prop := fun c => c < C.

Fixpoint encode (C : N) (tp : list colour) : N :=
  match tp with
  | [] => 0
  | v :: r => v * C ^ N.of_nat (length r) + encode C r
  end.

(** the [k] cells of colour [c] *)
Fixpoint decode (C : N) (k : nat) (c : N) : list colour :=
  match k with
  | O => []
  | S k' => decode C k' (c / C) ++ [c mod C]
  end.

(** ---- windows ---- *)
(** the cells [tp] lie on the tape [t] at positions [lo, lo + length tp) *)
Definition win_at (t : atape) (lo : Z) (tp : list colour) : Prop :=
  forall i, (i < length tp)%nat -> t (lo + Z.of_nat i)%Z = nth i tp 0.

Definition inside (lo : Z) (len : nat) (h : Z) : Prop := (lo <= h < lo + Z.of_nat len)%Z.

(** where the head stands when the window is entered from its right / left end *)
Definition entry_pos (re : bool) (lo : Z) (len : nat) : Z :=
  if re then (lo + Z.of_nat len - 1)%Z else lo.

(** [n] steps from [c] to [c'] during which the head is inside the window at
    every time before [n]; nothing outside the window is changed *)
Definition wrun (P : prog) (lo : Z) (len : nat) (n : nat) (c c' : aconf) : Prop :=
  a_steps P n c = Some c' /\
  (forall i ci, (i < n)%nat -> a_steps P i c = Some ci -> inside lo len (a_h ci)) /\
  (forall y, ~ inside lo len y -> a_t c' y = a_t c y).

(** the machine halts with its head inside the window, never having left it *)
Definition halts_inside (P : prog) (lo : Z) (len : nat) (c : aconf) : Prop :=
  exists n c', wrun P lo len n c c' /\ inside lo len (a_h c') /\ a_step P c' = None.

(** the machine runs for ever and its head is inside the window at all times *)
Definition never_leaves (P : prog) (lo : Z) (len : nat) (c : aconf) : Prop :=
  forall n, exists c', a_steps P n c = Some c' /\ inside lo len (a_h c').

(** after n >= 1 steps the head stands just outside the window on [side]
    (true = right) in state [st'], the window holds [tp'] *)
Definition leaves (P : prog) (lo : Z) (len : nat) (c : aconf)
  (side : bool) (st' : state) (tp' : list colour) : Prop :=
  exists n t', (1 <= n)%nat /\
    wrun P lo len n c (mkA st' (if side then lo + Z.of_nat len else lo - 1)%Z t') /\
    win_at t' lo tp'.

(** all states / colours of the partial function are below the bounds *)
Definition prog_within_P (P : prog) (Q C : N) : Prop :=
  forall q c pr sh q', P (q, c) = Some (pr, sh, q') -> q < Q /\ c < C /\ pr < C /\ q' < Q.

(** ---- C08: decoding a configuration of the k-cell block macro ---- *)
(** block H of the base tape occupies [k*H, k*H + k) *)
Definition blk_dec_tape (C k : N) (T : atape) : atape :=
  fun x => nth (Z.to_nat (x mod Z.of_N k)) (decode C (N.to_nat k) (T (x / Z.of_N k)%Z)) 0.

(** base state = macro state / 2; the head stands on the left end of the
    scanned block when the side bit is 0 and on its right end when it is 1 *)
Definition blk_dec_cfg (C k : N) (c : aconf) : aconf :=
  mkA (a_q c / 2)
      (if a_q c mod 2 =? 1 then (Z.of_N k * a_h c + Z.of_N k - 1)%Z else (Z.of_N k * a_h c)%Z)
      (blk_dec_tape C k (a_t c)).

(** ---- C09: decoding a configuration of the backsymbol macro ----
    macro state = 2 * (q * C^k + value of the k remembered cells) + side bit;
    side bit 1: the remembered cells lie to the RIGHT of the scanned cell. *)
Definition back_state (C k : N) (ms : state) : state := (ms / 2) / C ^ k.
Definition back_span (C k : N) (ms : state) : list colour :=
  decode C (N.to_nat k) ((ms / 2) mod C ^ k).

(** the window (scanned cell + remembered cells, in base-tape order) a slot
    stands for *)
Definition back_in_window (C k : N) (ms : state) (mc : colour) : list colour :=
  if ms mod 2 =? 1 then mc :: back_span C k ms else back_span C k ms ++ [mc].

(** the contents of that window after the instruction (mc', sh, ms'): macro
    right (sh = true) is base LEFT — the head left the window on the left, the
    remembered cells are the first k cells and the colour written to the macro
    tape is the last cell; and symmetrically *)
Definition back_out_window (C k : N) (ms' : state) (mc' : colour) (sh : bool) : list colour :=
  if sh then back_span C k ms' ++ [mc'] else mc' :: back_span C k ms'.

(** A configuration of the macro machine (absolute presentation: macro head
    H, macro tape T) spells out this base configuration: the macro tape is the
    base tape MIRRORED (macro position p is base position -p on the macro
    right of the head, k - p on its macro left) with the k remembered cells
    re-inserted next to the scanned cell; the window is [-H, -H + k]. *)
Definition back_dec_cfg (C k : N) (c : aconf) : aconf :=
  let bs := back_span C k (a_q c) in
  let ar := a_q c mod 2 =? 1 in
  let lo := (- a_h c)%Z in
  let kz := Z.of_N k in
  mkA (back_state C k (a_q c))
      (if ar then lo else (lo + kz)%Z)
      (fun x => if (x <? lo)%Z then a_t c (- x)%Z
                else if (lo + kz <? x)%Z then a_t c (kz - x)%Z
                else if ar
                     then (if (x =? lo)%Z then a_t c (a_h c)
                           else nth (Z.to_nat (x - lo - 1)) bs 0)
                     else (if (x =? lo + kz)%Z then a_t c (a_h c)
                           else nth (Z.to_nat (x - lo)) bs 0)).
