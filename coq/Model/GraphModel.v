(** Model of src/graph.rs *)
From BB Require Export Base InstrsModel.

(** BTreeMap<State, Vec<State>> sorted by key; values sorted + dedup *)
Definition exitpoints := list (state * list state).

Fixpoint ins_sorted (x : N) (l : list N) : list N :=
  match l with
  | [] => [x]
  | y :: l' => if x <? y then x :: l else if x =? y then l else y :: ins_sorted x l'
  end.
Fixpoint ep_add (src dst : state) (e : exitpoints) : exitpoints :=
  match e with
  | [] => [(src, [dst])]
  | (k, v) :: e' => if src <? k then (src, [dst]) :: e
                    else if src =? k then (k, ins_sorted dst v) :: e'
                    else (k, v) :: ep_add src dst e'
  end.
Definition get_exitpoints (p : comp_prog) : exitpoints :=
  fold_left (fun e kv => let '((src, _), (_, _, dst)) := kv in
                         if src =? dst then e else ep_add src dst e) p [].
Fixpoint ep_get (e : exitpoints) (k : state) : option (list state) :=
  match e with
  | [] => None
  | (k', v) :: e' => if k' =? k then Some v else ep_get e' k
  end.
Definition memN (x : N) (l : list N) : bool := existsb (N.eqb x) l.

(** todo is a Vec used as a stack: pop from the end; model keeps the stack
    top at the head of the list, so "push" = cons and the exits are pushed
    in order. *)
Fixpoint conn_loop (fuel : nat) (e : exitpoints) (reached : list state) (todo : list state)
  : outcome bool :=
  match fuel with
  | O => Ok false
  | S f =>
    match todo with
    | [] => Ok false
    | st :: todo' =>
        if st =? 0 then Ok true
        else if memN st reached then conn_loop f e reached todo'
        else
          match ep_get e st with
          | None => Panic                         (* exitpoints[&state] index panic *)
          | Some exits =>
              let reached' := st :: reached in
              let todo'' := fold_left (fun td ex =>
                   if negb (memN ex reached') && negb (memN ex td) then ex :: td else td)
                   exits todo' in
              conn_loop f e reached' todo''
          end
    end
  end.

Definition is_connected (p : comp_prog) (states : N) : outcome bool :=
  let e := get_exitpoints p in
  if N.of_nat (length e) <? states then Ok false else
  if states =? 0 then Panic else                (* states - 1 underflow *)
  match ep_get e (states - 1) with
  | None => Panic
  | Some init => conn_loop (N.to_nat states) e [] (rev init)
  end.
