(** Model of tm/rules.py for PLAIN INTEGER counts: [calculate_diff] (all of
    its integer branches), [make_rule], [count_apps], [apply_rule] (additive
    entries).

    Python ints are unbounded: arithmetic is done in [Z] (no overflow, no
    truncation anywhere), counts read from / written to a tape are [N].
    A Python exception is an explicit [Raise] outcome.

    NOT modelled (outcome [Raise ExUnmodelled]): everything that creates or
    consumes the symbolic numbers of tm/num.py ([Exp]/[Mul]/[Add]/[Div]
    objects): [apply_mult] (rules.py:335-350, multiplicative rule entries),
    [calculate_op_seq] and [apply_ops] (non-int counts).  [calculate_diff]
    on ints never reaches them.

    The rule representation is the one of RulesModel (the common
    representation of the comparison): an association list in insertion
    order = (side, position) order, which is both Python's dict order
    (rules.py:241-254 inserts left span first, positions ascending) and the
    BTreeMap order of rules.rs.  A Python [Mult] entry [(mul, add)] is
    [MultOp mul add]. *)
From BB Require Export Base TapeModel RulesModel.

Inductive pyexc :=
| ExUnknownRule            (** rules.py:44   class UnknownRule *)
| ExInfiniteRule           (** rules.py:47   class InfiniteRule *)
| ExSuspectedRule (add sub : Z)   (** rules.py:50 *)
| ExSecondDiffRule         (** rules.py:53 *)
| ExZeroDivision           (** divmod(_, 0) *)
| ExIndexError             (** span[pos] out of range (tape.py:129,136) *)
| ExValueError             (** zip(..., strict = True) on unequal lengths *)
| ExAssertion              (** assert diff < 0 (rules.py:325) *)
| ExUnmodelled.            (** symbolic-number code, see above *)

Inductive pyres (A : Type) := Raise (e : pyexc) | Ret (a : A).
Arguments Raise {A} e.
Arguments Ret {A} a.
Definition pybind {A B} (x : pyres A) (f : A -> pyres B) : pyres B :=
  match x with Raise e => Raise e | Ret a => f a end.

(** rules.py:57-58  POSSIBLE_RULE_PAIRS *)
Definition possible_rule_pairs : list (Z * Z) :=
  [(3, 2); (5, 3); (5, 2); (5, 4); (4, 3)]%Z.

(** rules.py:62-133  calculate_diff with four int counts.
    [None] = no change; [Some op] = the operation. *)
Definition py_calculate_diff (n1 n2 n3 n4 : N) : pyres (option op) :=
  let count_1 := Z.of_N n1 in let count_2 := Z.of_N n2 in
  let cnt3 := Z.of_N n3 in let cnt4 := Z.of_N n4 in
  (** rules.py:65-66  if all(count == count_1 for count in rest): return None *)
  if ((count_2 =? count_1) && (cnt3 =? count_1) && (cnt4 =? count_1))%Z then Ret None else
  (** rules.py:70  plus = count_2 - count_1 *)
  let plus := (count_2 - count_1)%Z in
  (** rules.py:72-74  if all(aft - bef == plus for bef, aft in pairwise(rest)): return plus *)
  if ((cnt3 - count_2 =? plus) && (cnt4 - cnt3 =? plus))%Z then Ret (Some (Plus plus)) else
  (** rules.py:76-83  ascending = all(bef < aft ...) over all four; else UnknownRule *)
  if negb ((count_1 <? count_2) && (count_2 <? cnt3) && (cnt3 <? cnt4))%Z
  then Raise ExUnknownRule else
  (** rules.py:99  div, mod = divmod(count_2, count_1)   (floor division; operands >= 0) *)
  if (count_1 =? 0)%Z then Raise ExZeroDivision else
  let div := (count_2 / count_1)%Z in let md := (count_2 mod count_1)%Z in
  (** rules.py:101-104  divmods over pairwise(rest); count_2, cnt3 > 0 here (ascending) *)
  let d1 := (cnt3 / count_2)%Z in let m1 := (cnt3 mod count_2)%Z in
  let d2 := (cnt4 / cnt3)%Z in let m2 := (cnt4 mod cnt3)%Z in
  (** rules.py:106-115  for ... : different divs -> UnknownRule; mod differs -> break;
      else: return div, mod *)
  let loop : pyres bool :=           (* Ret true = loop ran to its end (the for-else) *)
    if negb (d1 =? div)%Z then Raise ExUnknownRule
    else if negb (m1 =? md)%Z then Ret false
    else if negb (d2 =? div)%Z then Raise ExUnknownRule
    else if negb (m2 =? md)%Z then Ret false
    else Ret true in
  pybind loop (fun completed =>
  if completed then Ret (Some (MultOp div md)) else
  (** rules.py:117-121  div_diff = count_2 - count_1 * (1 + div); all(...) -> (1 + div, div_diff) *)
  let div_diff := (count_2 - count_1 * (1 + div))%Z in
  if ((cnt3 - count_2 * (1 + d1) =? div_diff) && (cnt4 - cnt3 * (1 + d2) =? div_diff))%Z
  then Ret (Some (MultOp (1 + div) div_diff)) else
  (** rules.py:123-127  SuspectedRule(add, sub) for the first matching pair *)
  match find (fun p : Z * Z => let '(add, sub) := p in
               ((count_2 - count_1 * add / sub =? cnt3 - count_2 * add / sub)
                && (cnt3 - count_2 * add / sub =? cnt4 - cnt3 * add / sub))%Z)
             possible_rule_pairs with
  | Some (add, sub) => Raise (ExSuspectedRule add sub)
  | None =>
  (** rules.py:129-131  one second difference -> SecondDiffRule *)
  if ((cnt3 - count_2) - (count_2 - count_1) =? (cnt4 - cnt3) - (cnt3 - count_2))%Z
  then Raise ExSecondDiffRule
  (** rules.py:133 *)
  else Raise ExUnknownRule
  end).

(** rules.py:241-254, one span: result [None] = "return None"; the bool is [second_diff].
    NOTE zip(strict) raises only when the shorter list is exhausted, i.e.
    after the common prefix has been processed; a [return None] or an
    exception from an earlier column wins.  [py_make_rule_span] therefore
    walks the four lists itself instead of zipping first. *)
Fixpoint py_make_rule_span (side : bool) (i : N) (a b c d : list N)
    (acc : rule) (second_diff : bool) : pyres (option (rule * bool)) :=
  match a, b, c, d with
  | [], [], [], [] => Ret (Some (acc, second_diff))
  | x :: a', y :: b', z :: c', w :: d' =>
      match py_calculate_diff x y z w with
      | Raise ExSecondDiffRule =>            (** rules.py:245-247  second_diff = True; continue *)
          py_make_rule_span side (i + 1) a' b' c' d' acc true
      | Raise ExUnknownRule => Ret None      (** rules.py:248-249  return None *)
      | Raise e => Raise e                   (** SuspectedRule etc. propagate *)
      | Ret None => py_make_rule_span side (i + 1) a' b' c' d' acc second_diff
      | Ret (Some o) =>                      (** rules.py:254  rule[s, i] = diff *)
          py_make_rule_span side (i + 1) a' b' c' d' (acc ++ [((side, i), o)]) second_diff
      end
  | _, _, _, _ => Raise ExValueError
  end.

(** rules.py:236-267  make_rule *)
Definition py_make_rule (c1 c2 c3 c4 : list N * list N) : pyres (option rule) :=
  pybind (py_make_rule_span false 0 (fst c1) (fst c2) (fst c3) (fst c4) [] false) (fun r =>
  match r with
  | None => Ret None
  | Some (acc, sd) =>
  pybind (py_make_rule_span true 0 (snd c1) (snd c2) (snd c3) (snd c4) acc sd) (fun r2 =>
  match r2 with
  | None => Ret None
  | Some (rule, second_diff) =>
      (** rules.py:256-262  if all(diff >= 0 for diff in rule.values() if isinstance(diff, Plus)):
                               raise InfiniteRule      (also when there is no Plus entry at all) *)
      if forallb (fun e : index * op => match snd e with Plus d => (0 <=? d)%Z | MultOp _ _ => true end) rule
      then Raise ExInfiniteRule
      (** rules.py:264-265  if second_diff: raise UnknownRule   (not caught by any caller) *)
      else if second_diff then Raise ExUnknownRule
      else Ret (Some rule)
  end)
  end).

(** tape.py:124-129  get_count: span[pos].count, IndexError out of range
    (positions are non-negative here, so no Python negative indexing) *)
Definition py_get_count (t : tape) (ix : index) : pyres N :=
  match nth_error (if fst ix then rspan t else lspan t) (N.to_nat (snd ix)) with
  | Some b => Ret (snd b)
  | None => Raise ExIndexError
  end.

(** tape.py:131-136  set_count (mutates one block in place) *)
Definition py_set_count (t : tape) (ix : index) (v : N) : pyres tape :=
  match nth_error (if fst ix then rspan t else lspan t) (N.to_nat (snd ix)) with
  | Some _ => Ret (set_count t ix v)
  | None => Raise ExIndexError
  end.

(** rules.py:275-306  count_apps.  Entries that are not a negative [Plus] are skipped. *)
Fixpoint py_count_apps_loop (t : tape) (r : rule) (apps : option (N * index * N))
  : pyres (option (option (N * index * N))) :=   (* outer None = early "return None" *)
  match r with
  | [] => Ret (Some apps)
  | (pos, MultOp _ _) :: r' => py_count_apps_loop t r' apps        (** rules.py:279 not a Plus *)
  | (pos, Plus diff) :: r' =>
      if (0 <=? diff)%Z then py_count_apps_loop t r' apps else      (** rules.py:279-280 *)
      (** rules.py:282  count, absdiff = tape.get_count(pos), abs(diff) *)
      pybind (py_get_count t pos) (fun count =>
        let absdiff := Z.to_N (Z.abs diff) in
        (** rules.py:284-285  if isinstance(count, int) and absdiff >= count: return None *)
        if count <=? absdiff then Ret None else
        (** rules.py:287-288  div, rem = divmod(count, absdiff) *)
        let div := count / absdiff in
        let rem := count mod absdiff in
        (** rules.py:296-300 *)
        let '(times, min_res) := if 0 <? rem then (div, rem) else (div - 1, absdiff) in
        (** rules.py:303-304  if apps is None or times < apps[0]: apps = times, pos, min_res *)
        match apps with
        | Some (curr, _, _) =>
            if times <? curr then py_count_apps_loop t r' (Some (times, pos, min_res))
            else py_count_apps_loop t r' apps
        | None => py_count_apps_loop t r' (Some (times, pos, min_res))
        end)
  end.
Definition py_count_apps (t : tape) (r : rule) : pyres (option (N * index * N)) :=
  pybind (py_count_apps_loop t r None) (fun x =>
    match x with None => Ret None | Some apps => Ret apps end).

(** rules.py:315-330, the loop of apply_rule: reads and writes the tape entry by entry *)
Fixpoint py_apply_loop (t : tape) (r : rule) (times : N) (min_pos : index) (min_res : N)
  : pyres tape :=
  match r with
  | [] => Ret t
  | (pos, diff) :: r' =>
      (** rules.py:316  count = tape.get_count(pos) *)
      pybind (py_get_count t pos) (fun count =>
      pybind
        (match diff with
         | MultOp _ _ => Raise ExUnmodelled               (** rules.py:319-320 apply_mult *)
         | Plus d =>
             if negb (index_eqb pos min_pos)
             then (** rules.py:322-323  result = count + diff * times  (Python int; a
                      negative result -- impossible when [times] comes from
                      count_apps and the keys are distinct -- would be cut to 0) *)
                  Ret (Z.to_N (Z.of_N count + d * Z.of_N times))
             else (** rules.py:324-326  assert diff < 0; result = min_res *)
                  if (d <? 0)%Z then Ret min_res else Raise ExAssertion
         end) (fun result =>
      (** rules.py:330  tape.set_count(pos, result) *)
      pybind (py_set_count t pos result) (fun t' =>
      py_apply_loop t' r' times min_pos min_res)))
  end.

(** rules.py:309-332  apply_rule: [None] = not applicable (tape untouched) *)
Definition py_apply_rule (t : tape) (r : rule) : pyres (option N * tape) :=
  pybind (py_count_apps t r) (fun apps =>
    match apps with
    | None => Ret (None, t)
    | Some (times, min_pos, min_res) =>
        pybind (py_apply_loop t r times min_pos min_res) (fun t' => Ret (Some times, t'))
    end).
