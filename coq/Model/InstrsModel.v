(** Model of src/instrs.rs.  Strings are lists of Unicode scalar values
    ([list N], what Rust's [chars()] yields).  A Rust panic is the outer
    [None] of an [option]. *)
From BB Require Export Base.

(** BTreeMap<Slot, Instr> = association list strictly sorted by key. *)
Definition comp_prog := list (slot * instr).

Definition slot_ltb (a b : slot) : bool :=
  (fst a <? fst b) || ((fst a =? fst b) && (snd a <? snd b)).
Definition slot_eqb (a b : slot) : bool := (fst a =? fst b) && (snd a =? snd b).

Fixpoint cp_get (p : comp_prog) (k : slot) : option instr :=
  match p with
  | [] => None
  | (k', v) :: p' => if slot_eqb k' k then Some v else cp_get p' k
  end.
Fixpoint cp_insert (k : slot) (v : instr) (p : comp_prog) : comp_prog :=
  match p with
  | [] => [(k, v)]
  | (k', v') :: p' => if slot_ltb k k' then (k, v) :: p
                      else if slot_eqb k k' then (k, v) :: p'
                      else (k', v') :: cp_insert k v p'
  end.
Fixpoint cp_remove (k : slot) (p : comp_prog) : comp_prog :=
  match p with
  | [] => []
  | (k', v') :: p' => if slot_eqb k k' then p' else (k', v') :: cp_remove k p'
  end.
Definition cp_mem (p : comp_prog) (k : slot) : bool :=
  match cp_get p k with Some _ => true | None => false end.
Definition to_prog (p : comp_prog) : prog := cp_get p.

(** instrs.rs:83-86 params(): from keys only *)
Definition cp_params (p : comp_prog) : N * N :=
  fold_left (fun acc kv => (N.max (fst acc) (fst (fst kv)), N.max (snd acc) (snd (fst kv)))) p (0, 0).

Fixpoint N_range (fuel : nat) (lo : N) : list N :=
  match fuel with O => [] | S f => lo :: N_range f (lo + 1) end.
Definition range (lo hi : N) : list N := N_range (N.to_nat (hi - lo)) lo.   (* lo..hi *)

(** instrs.rs:47-63 *)
Definition halt_slots (p : comp_prog) : list slot :=
  let '(ms, mc) := cp_params p in
  flat_map (fun st => flat_map (fun co => if cp_mem p (st, co) then [] else [(st, co)])
                               (range 0 (mc + 1))) (range 0 (ms + 1)).
(** instrs.rs:65-72 *)
Definition erase_slots (p : comp_prog) : list slot :=
  flat_map (fun kv => let '((st, co), (pr, _, _)) := kv in
                      if (pr =? 0) && negb (co =? 0) then [(st, co)] else []) p.
(** instrs.rs:74-81 *)
Definition zr_shifts (p : comp_prog) : list (state * shift) :=
  flat_map (fun kv => let '((st, co), (_, sh, tr)) := kv in
                      if (co =? 0) && (tr =? st) then [(st, sh)] else []) p.

(** ---- text ---- *)
Definition str := list N.
Definition ch_space := 32. Definition ch_dot := 46.
Definition ch_L := 76. Definition ch_R := 82.

(** char::is_whitespace (Unicode White_Space) *)
Definition is_ws (c : N) : bool :=
  ((9 <=? c) && (c <=? 13)) || (c =? 32) || (c =? 133) || (c =? 160) || (c =? 5760)
  || ((8192 <=? c) && (c <=? 8202)) || (c =? 8232) || (c =? 8233) || (c =? 8239)
  || (c =? 8287) || (c =? 12288).

Fixpoint drop_ws (s : str) : str :=
  match s with c :: s' => if is_ws c then drop_ws s' else s | [] => [] end.
Definition trim (s : str) : str := rev (drop_ws (rev (drop_ws s))).

(** str::split("  "): leftmost, non-overlapping *)
Fixpoint split2 (s : str) (cur : str) : list str :=
  match s with
  | [] => [rev cur]
  | a :: s' =>
      match s' with
      | b :: rest => if (a =? ch_space) && (b =? ch_space)
                     then rev cur :: split2 rest []
                     else split2 s' (a :: cur)
      | [] => [rev (a :: cur)]
      end
  end.
(** str::split(' ') *)
Fixpoint split1 (s : str) (cur : str) : list str :=
  match s with
  | [] => [rev cur]
  | a :: s' => if a =? ch_space then rev cur :: split1 s' [] else split1 s' (a :: cur)
  end.

(** read_color: to_digit(10).unwrap() *)
Definition read_color (c : N) : option colour :=
  if (48 <=? c) && (c <=? 57) then Some (c - 48) else None.
Definition read_shift (c : N) : shift := c =? ch_R.
(** read_state: State::from(state as u8 - 65), overflow-checked build *)
Definition read_state (c : N) : option state :=
  let b := c mod 256 in if 65 <=? b then Some (b - 65) else None.
(** show_state(Some s): (s as u8 + 65) as char, overflow-checked *)
Definition show_state (s : state) : option N :=
  let b := s mod 256 in if b + 65 <? 256 then Some (b + 65) else None.

(** read_instr: outer None = panic, inner None = "..." *)
Definition read_instr (tok : str) : option (option instr) :=
  if existsb (N.eqb ch_dot) tok then Some None else
  match tok with
  | c :: sh :: st :: _ =>
      match read_color c, read_state st with
      | Some co, Some tr => Some (Some (co, read_shift sh, tr))
      | _, _ => None
      end
  | _ => None
  end.

Definition read_slot (tok : str) : option slot :=
  match tok with
  | st :: c :: _ => match read_state st, read_color c with
                    | Some s, Some co => Some (s, co)
                    | _, _ => None
                    end
  | _ => None
  end.


Definition show_instr (i : option instr) : option str :=
  match i with
  | None => Some [ch_dot; ch_dot; ch_dot]
  | Some (co, sh, tr) =>
      match show_state tr with
      | Some c => Some (show_N co ++ [if sh then ch_R else ch_L] ++ [c])
      | None => None
      end
  end.
Definition show_slot (sl : slot) : option str :=
  match show_state (fst sl) with
  | Some c => Some (c :: show_N (snd sl))
  | None => None
  end.

(** from_str, instrs.rs:122-135.  Rows/columns are enumerate() indices. *)
Fixpoint parse_row (row : N) (col : N) (toks : list str) (acc : comp_prog) : option comp_prog :=
  match toks with
  | [] => Some acc
  | tok :: toks' =>
      match read_instr tok with
      | None => None
      | Some None => parse_row row (col + 1) toks' acc
      | Some (Some i) => parse_row row (col + 1) toks' (cp_insert (row, col) i acc)
      end
  end.
Fixpoint parse_rows (row : N) (rows : list str) (acc : comp_prog) : option comp_prog :=
  match rows with
  | [] => Some acc
  | r :: rows' => match parse_row row 0 (split1 r []) acc with
                  | None => None
                  | Some acc' => parse_rows (row + 1) rows' acc'
                  end
  end.
Definition from_str (s : str) : option comp_prog :=
  parse_rows 0 (split2 (trim s) []) [].

Fixpoint join (sep : str) (l : list str) : str :=
  match l with
  | [] => []
  | [x] => x
  | x :: l' => x ++ sep ++ join sep l'
  end.
Fixpoint all_some {A} (l : list (option A)) : option (list A) :=
  match l with
  | [] => Some []
  | None :: _ => None
  | Some x :: l' => match all_some l' with Some r => Some (x :: r) | None => None end
  end.

(** instrs.rs:137-161 *)
Definition show_dims (p : comp_prog) (params : option (N * N)) : N * N :=
  match params with
  | Some d => d
  | None =>
      let '(ms, mx) := fold_left (fun acc kv =>
          let '((ss, sc), (ic, _, is_)) := kv in
          (N.max (N.max (fst acc) ss) is_, N.max (N.max (snd acc) sc) ic)) p (1, 1) in
      (1 + ms, 1 + mx)
  end.
Definition show (p : comp_prog) (params : option (N * N)) : option str :=
  let '(max_state, max_color) := show_dims p params in
  match all_some (map (fun st =>
           match all_some (map (fun co => show_instr (cp_get p (st, co))) (range 0 max_color)) with
           | Some toks => Some (join [ch_space] toks)
           | None => None
           end) (range 0 max_state)) with
  | Some rows => Some (join [ch_space; ch_space] rows)
  | None => None
  end.
