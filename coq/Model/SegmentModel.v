(** Model of src/segment.rs (the finite-segment decider).

    Statement-by-statement transcription.  Every definition carries the line of
    the Rust item it mirrors.  All names are prefixed [sg_] because the
    extraction is monolithic (one OCaml module for all models).

    Conventions
    - A Rust panic (assert, index out of range, unwrap on None, checked
      arithmetic) is [Panic] of [outcome].
    - [BTreeMap<State, V>]  = [sg_dict V]: association list strictly sorted by key.
    - [HashSet<T>]          = duplicate-free list ([sg_nset] for numbers, a list
      of tapes for [Set<Tape>]).  segment.rs only uses insert / contains / len /
      is_empty on its hash sets, plus (a) [into_iter().collect()] followed by
      [sort_unstable()] and (b) the cardinality of a union; NO result depends on
      hash iteration order.
    - [Vec<Config>] used as a stack ([Configs::todo]): the HEAD of the list is
      the TOP of the stack (= the last element of the Rust Vec).
    - [Vec<Block>] of a [Span]: list index 0 = Vec index 0 (the cell nearest to
      the head). *)
From BB Require Export Base InstrsModel.

(** * Generic containers *)

Definition sg_len {A} (l : list A) : N := fold_left (fun n _ => N.succ n) l 0.

(** HashSet<u64> / HashSet<usize> *)
Definition sg_nset := list N.
Fixpoint sg_nset_mem (x : N) (s : sg_nset) : bool :=
  match s with [] => false | y :: s' => (x =? y) || sg_nset_mem x s' end.
Definition sg_nset_insert (x : N) (s : sg_nset) : sg_nset :=
  if sg_nset_mem x s then s else x :: s.

(** [set.into_iter().collect::<Vec<_>>()] then [sort_unstable()] *)
Fixpoint sg_sorted_insert (x : N) (l : list N) : list N :=
  match l with
  | [] => [x]
  | y :: l' => if x <? y then x :: l else if x =? y then l else y :: sg_sorted_insert x l'
  end.
Definition sg_sort (s : sg_nset) : list N := fold_right sg_sorted_insert [] s.

(** BTreeMap<u64, V> *)
Definition sg_dict (V : Type) := list (N * V).
Fixpoint sg_dict_get {V} (k : N) (d : sg_dict V) : option V :=
  match d with
  | [] => None
  | (k', v) :: d' => if k' =? k then Some v else sg_dict_get k d'
  end.
Fixpoint sg_dict_set {V} (k : N) (v : V) (d : sg_dict V) : sg_dict V :=
  match d with
  | [] => [(k, v)]
  | (k', v') :: d' => if k <? k' then (k, v) :: d
                      else if k =? k' then (k, v) :: d'
                      else (k', v') :: sg_dict_set k v d'
  end.
(** value of [d.entry(k).or_default()] *)
Definition sg_dict_entry {V} (k : N) (dflt : V) (d : sg_dict V) : V :=
  match sg_dict_get k d with Some v => v | None => dflt end.

(** * Term (instrs.rs:20-25), results *)

Inductive sg_term := SgHalt | SgBlank | SgSpinout.
Definition sg_term_eqb (a b : sg_term) : bool :=
  match a, b with
  | SgHalt, SgHalt | SgBlank, SgBlank | SgSpinout, SgSpinout => true
  | _, _ => false
  end.

(** segment.rs:21 *)
Definition sg_MAX_DEPTH : N := 3000.

(** segment.rs:25-33 *)
Inductive sg_result :=
| SgrHalt | SgrBlank | SgrRepeat | SgrSpinout | SgrDepthLimit | SgrSegmentLimit
| SgrRefuted (step : N).

(** segment.rs:91-96 *)
Inductive sg_search := SgLimit | SgRepeat | SgReached | SgFound (t : sg_term).

(** segment.rs:100-108 *)
Definition sg_result_from_term (goal : sg_term) : sg_result :=
  match goal with SgHalt => SgrHalt | SgBlank => SgrBlank | SgSpinout => SgrSpinout end.

(** * Span (segment.rs:541-617) *)

Definition sg_span := list (colour * N).       (* Block = (color, count) *)

(** segment.rs:545 *)
Definition sg_span_blank (s : sg_span) : bool := forallb (fun b => fst b =? 0) s.
(** segment.rs:549 *)
Definition sg_span_len (s : sg_span) : N := fold_left (fun acc b => acc + snd b) s 0.
(** segment.rs:553 *)
Definition sg_span_is_empty (s : sg_span) : bool := sg_span_len s =? 0.
(** segment.rs:557 *)
Definition sg_span_push_block (s : sg_span) (color : colour) (count : N) : sg_span :=
  (color, count) :: s.
(** segment.rs:561 *)
Definition sg_span_push (s : sg_span) (print : colour) (stepped : N) : sg_span :=
  match s with
  | (c, n) :: s' => if c =? print then (c, n + stepped) :: s'
                    else sg_span_push_block s print stepped
  | [] => sg_span_push_block s print stepped
  end.

(** segment.rs:572.  Returns (span', next_scan, stepped).  The [[]] branches
    that follow a successful [!is_empty()] test are dead ([len [] = 0]). *)
Definition sg_span_pull (s : sg_span) (scan : colour) (skip : bool)
  : sg_span * option colour * N :=
  let '(s1, stepped) :=
    match s with
    | (c, n) :: s' =>
        if skip && negb (sg_span_is_empty s) && (c =? scan) then (s', 1 + n) else (s, 1)
    | [] => (s, 1)
    end in
  if sg_span_is_empty s1 then (s1, None, stepped)
  else match s1 with
       | (c, n) :: s' => if 1 <? n then ((c, n - 1) :: s', Some c, stepped)
                         else (s', Some c, stepped)
       | [] => (s1, None, stepped)
       end.

(** segment.rs:602.  [assert!(!self.is_empty())]; [block.decrement()] is a
    checked [count -= 1]. *)
Definition sg_span_take (s : sg_span) : outcome (sg_span * colour) :=
  if sg_span_is_empty s then Panic else
  match s with
  | [] => Panic
  | (c, n) :: s' =>
      if n =? 1 then Ok (s', c)
      else if n =? 0 then Panic
      else Ok ((c, n - 1) :: s', c)
  end.

Fixpoint sg_span_eqb (a b : sg_span) : bool :=
  match a, b with
  | [], [] => true
  | (c1, n1) :: a', (c2, n2) :: b' => (c1 =? c2) && (n1 =? n2) && sg_span_eqb a' b'
  | _, _ => false
  end.

(** * Tape (segment.rs:619-717) *)

Record sg_tape := mkSgTape {
  sgt_scan : option colour;
  sgt_lspan : sg_span;
  sgt_rspan : sg_span }.

Definition sg_ocolour_eqb (a b : option colour) : bool :=
  match a, b with
  | None, None => true
  | Some x, Some y => x =? y
  | _, _ => false
  end.

(** derive(PartialEq) *)
Definition sg_tape_eqb (a b : sg_tape) : bool :=
  sg_ocolour_eqb (sgt_scan a) (sgt_scan b)
  && sg_span_eqb (sgt_lspan a) (sgt_lspan b)
  && sg_span_eqb (sgt_rspan a) (sgt_rspan b).

(** segment.rs:627.  [cells - pos] is a checked u64 subtraction. *)
Definition sg_tape_init (seg pos : N) : outcome sg_tape :=
  if negb (4 <=? seg) then Panic else
  if negb (pos <=? seg) then Panic else
  let cells := seg - 2 in
  if pos =? 0 then Ok (mkSgTape None [] [(0, cells)])
  else if pos =? seg - 1 then Ok (mkSgTape None [(0, cells)] [])
  else
    let l_count := pos - 1 in
    let lspan := if 0 <? l_count then [(0, l_count)] else [] in
    if cells <? pos then Panic else
    let r_count := cells - pos in
    let rspan := if 0 <? r_count then [(0, r_count)] else [] in
    Ok (mkSgTape (Some 0) lspan rspan).

(** segment.rs:665 *)
Definition sg_tape_blank (t : sg_tape) : bool :=
  match sgt_scan t with Some c => c =? 0 | None => true end
  && sg_span_blank (sgt_lspan t) && sg_span_blank (sgt_rspan t).

(** segment.rs:671 *)
Definition sg_tape_at_edge (t : sg_tape) (edge : shift) : bool :=
  sg_ocolour_eqb (sgt_scan t) (Some 0)
  && sg_span_blank (if edge then sgt_rspan t else sgt_lspan t).

(** segment.rs:676 *)
Definition sg_tape_pos (t : sg_tape) : N :=
  let l_len := sg_span_len (sgt_lspan t) in
  l_len + (if (match sgt_scan t with Some _ => true | None => false end) || (0 <? l_len)
           then 1 else 0).

(** segment.rs:682 *)
Definition sg_tape_assert_edge (t : sg_tape) : outcome unit :=
  match sgt_scan t with None => Ok tt | Some _ => Panic end.

(** segment.rs:686 *)
Definition sg_tape_side (t : sg_tape) : outcome shift :=
  obind (sg_tape_assert_edge t) (fun _ => Ok (sg_span_is_empty (sgt_rspan t))).

(** segment.rs:692 *)
Definition sg_tape_step_in (t : sg_tape) (sh : shift) : outcome sg_tape :=
  obind (sg_tape_side t) (fun sd =>
  if negb (Bool.eqb sd (negb sh)) then Panic else
  if sh then
    obind (sg_span_take (sgt_rspan t)) (fun '(r', c) => Ok (mkSgTape (Some c) (sgt_lspan t) r'))
  else
    obind (sg_span_take (sgt_lspan t)) (fun '(l', c) => Ok (mkSgTape (Some c) l' (sgt_rspan t)))).

(** segment.rs:704.  [self.scan.unwrap()] *)
Definition sg_tape_step (t : sg_tape) (sh : shift) (print : colour) (skip : bool)
  : outcome sg_tape :=
  match sgt_scan t with
  | None => Panic
  | Some scan =>
      if sh then
        let '(pull', next_scan, stepped) := sg_span_pull (sgt_rspan t) scan skip in
        Ok (mkSgTape next_scan (sg_span_push (sgt_lspan t) print stepped) pull')
      else
        let '(pull', next_scan, stepped) := sg_span_pull (sgt_lspan t) scan skip in
        Ok (mkSgTape next_scan pull' (sg_span_push (sgt_rspan t) print stepped))
  end.

(** * AnalyzedProg (segment.rs:745-812) *)

(** Diffs = Vec<State>; Dirs = BTreeMap<bool, Vec<State>> with exactly the
    keys false, true: modelled as the pair (lefts, rights). *)
Definition sg_dirs := (list state * list state)%type.
Definition sg_dirs_get (d : sg_dirs) (sh : shift) : list state :=
  if sh then snd d else fst d.

Record sg_aprog := mkSgAprog {
  sga_prog : comp_prog;
  sga_halts : sg_nset;                          (* HashSet<State> *)
  sga_spinouts : sg_dict shift;                 (* BTreeMap<State, Shift> *)
  sga_branches : sg_dict (list state * sg_dirs) (* BTreeMap<State, (Diffs, Dirs)> *) }.

(** accumulators of the two nested loops of [AnalyzedProg::new] *)
Record sg_ap_acc := mkSgApAcc {
  saa_halts : sg_nset;
  saa_spinouts : sg_dict shift;
  saa_diff : sg_nset;
  saa_lefts : sg_nset;
  saa_rights : sg_nset }.

(** segment.rs:770-788: body of [for color in 0..colors] *)
Definition sg_ap_color_step (prog : comp_prog) (st : state) (a : sg_ap_acc) (color : colour)
  : sg_ap_acc :=
  match cp_get prog (st, color) with
  | None => mkSgApAcc (sg_nset_insert st (saa_halts a)) (saa_spinouts a)
                      (saa_diff a) (saa_lefts a) (saa_rights a)
  | Some (_, sh, next) =>
      let spinouts' :=
        if (next =? st) && (color =? 0) then sg_dict_set next sh (saa_spinouts a)
        else saa_spinouts a in
      let diff' := if next =? st then saa_diff a else sg_nset_insert next (saa_diff a) in
      if sh then mkSgApAcc (saa_halts a) spinouts' diff' (saa_lefts a)
                           (sg_nset_insert next (saa_rights a))
      else mkSgApAcc (saa_halts a) spinouts' diff' (sg_nset_insert next (saa_lefts a))
                     (saa_rights a)
  end.

(** segment.rs:765-803: body of [for state in 0..states] *)
Definition sg_ap_state_step (prog : comp_prog) (colors : N)
  (acc : sg_nset * sg_dict shift * sg_dict (list state * sg_dirs)) (st : state)
  : sg_nset * sg_dict shift * sg_dict (list state * sg_dirs) :=
  let '(halts, spinouts, branches) := acc in
  let a := fold_left (sg_ap_color_step prog st) (range 0 colors)
                     (mkSgApAcc halts spinouts [] [] []) in
  (saa_halts a, saa_spinouts a,
   sg_dict_set st (sg_sort (saa_diff a), (sg_sort (saa_lefts a), sg_sort (saa_rights a)))
               branches).

(** segment.rs:759 *)
Definition sg_aprog_new (prog : comp_prog) (params : N * N) : sg_aprog :=
  let '(states, colors) := params in
  let '(halts, spinouts, branches) :=
    fold_left (sg_ap_state_step prog colors) (range 0 states) ([], [], []) in
  mkSgAprog prog halts spinouts branches.

(** * Config (segment.rs:431-460) *)

Record sg_config := mkSgConfig {
  sgc_state : state;
  sgc_tape : sg_tape;
  sgc_init : bool }.

(** segment.rs:441 *)
Definition sg_config_new (st : state) (t : sg_tape) (init : bool) : sg_config :=
  mkSgConfig st t init.
(** segment.rs:445 *)
Definition sg_config_init (seg pos : N) : outcome sg_config :=
  obind (sg_tape_init seg pos) (fun t => Ok (sg_config_new 0 t true)).
(** segment.rs:449 *)
Definition sg_config_slot (c : sg_config) : option slot :=
  match sgt_scan (sgc_tape c) with Some co => Some (sgc_state c, co) | None => None end.
(** segment.rs:453 *)
Definition sg_config_step (c : sg_config) (i : instr) : outcome sg_config :=
  let '(print, sh, st) := i in
  obind (sg_tape_step (sgc_tape c) sh print (st =? sgc_state c)) (fun t =>
  Ok (mkSgConfig st t (sgc_init c))).
(** segment.rs:458 *)
Definition sg_config_spinout (c : sg_config) (i : instr) : bool :=
  let '(_, sh, st) := i in
  (sgc_state c =? st) && sg_tape_at_edge (sgc_tape c) sh.

(** * Configs (segment.rs:254-427) *)

Record sg_configs := mkSgConfigs {
  sgs_seg : N;
  sgs_todo : list sg_config;               (* stack, head = top *)
  sgs_seen : sg_dict (list sg_tape);       (* BTreeMap<State, HashSet<Tape>> *)
  sgs_blanks : sg_dict sg_nset;            (* BTreeMap<State, HashSet<Pos>> *)
  sgs_reached : sg_dict sg_nset }.

Definition sgs_set_todo (cs : sg_configs) (x : list sg_config) : sg_configs :=
  mkSgConfigs (sgs_seg cs) x (sgs_seen cs) (sgs_blanks cs) (sgs_reached cs).
Definition sgs_set_seen (cs : sg_configs) (x : sg_dict (list sg_tape)) : sg_configs :=
  mkSgConfigs (sgs_seg cs) (sgs_todo cs) x (sgs_blanks cs) (sgs_reached cs).
Definition sgs_set_blanks (cs : sg_configs) (x : sg_dict sg_nset) : sg_configs :=
  mkSgConfigs (sgs_seg cs) (sgs_todo cs) (sgs_seen cs) x (sgs_reached cs).
Definition sgs_set_reached (cs : sg_configs) (x : sg_dict sg_nset) : sg_configs :=
  mkSgConfigs (sgs_seg cs) (sgs_todo cs) (sgs_seen cs) (sgs_blanks cs) x.

(** segment.rs:266.  [collect()] into a BTreeMap: sorted, later duplicates win
    (all values are the empty set). *)
Definition sg_configs_new (halts : sg_nset) (spinouts : sg_dict shift) (seg : N)
  (goal : sg_term) : sg_configs :=
  let reached :=
    match goal with
    | SgBlank => []
    | SgHalt => fold_left (fun d st => sg_dict_set st [] d) halts []
    | SgSpinout => fold_left (fun d kv => sg_dict_set (fst kv) [] d) spinouts []
    end in
  mkSgConfigs seg [] [] [] reached.

(** segment.rs:292 *)
Definition sg_add_todo (cs : sg_configs) (c : sg_config) : sg_configs :=
  sgs_set_todo cs (c :: sgs_todo cs).

(** segment.rs:296 *)
Definition sg_check_depth (cs : sg_configs) : bool :=
  existsb (fun kv => sg_MAX_DEPTH <? sg_len (snd kv)) (sgs_seen cs).

(** first element of [lo..hi) not in [s]; [fuel] = hi - lo *)
Fixpoint sg_find_free (fuel : nat) (pos : N) (s : sg_nset) : option N :=
  match fuel with
  | O => None
  | S f => if sg_nset_mem pos s then sg_find_free f (pos + 1) s else Some pos
  end.

(** segment.rs:300.  The [entry(0).or_default()] persists even when [find]
    fails. *)
Definition sg_next_init (cs : sg_configs) : outcome (option sg_config * sg_configs) :=
  let blanks := sg_dict_entry 0 [] (sgs_blanks cs) in
  let cs0 := sgs_set_blanks cs (sg_dict_set 0 blanks (sgs_blanks cs)) in
  match sg_find_free (N.to_nat (sgs_seg cs)) 0 blanks with
  | None => Ok (None, cs0)
  | Some pos =>
      let cs1 := sgs_set_blanks cs (sg_dict_set 0 (sg_nset_insert pos blanks) (sgs_blanks cs)) in
      obind (sg_config_init (sgs_seg cs) pos) (fun c => Ok (Some c, cs1))
  end.

Fixpoint sg_tapes_mem (t : sg_tape) (s : list sg_tape) : bool :=
  match s with [] => false | u :: s' => sg_tape_eqb t u || sg_tapes_mem t s' end.

(** segment.rs:310 *)
Definition sg_check_seen (cs : sg_configs) (st : state) (t : sg_tape) (blank : bool)
  : option bool * sg_configs :=
  if blank then
    let blanks := sg_dict_entry st [] (sgs_blanks cs) in
    let pos := sg_tape_pos t in
    if sg_nset_mem pos blanks
    then (None, sgs_set_blanks cs (sg_dict_set st blanks (sgs_blanks cs)))
    else (Some (blank && (st =? 0)),
          sgs_set_blanks cs (sg_dict_set st (sg_nset_insert pos blanks) (sgs_blanks cs)))
  else
    let seen := sg_dict_entry st [] (sgs_seen cs) in
    if sg_tapes_mem t seen
    then (None, sgs_set_seen cs (sg_dict_set st seen (sgs_seen cs)))
    else (Some (blank && (st =? 0)),
          sgs_set_seen cs (sg_dict_set st (t :: seen) (sgs_seen cs))).

(** segment.rs:353.  Cardinality of the union of all [blanks] sets. *)
Definition sg_check_reached_blank (cs : sg_configs) (c : sg_config) : bool * sg_configs :=
  match sg_dict_get (sgc_state c) (sgs_blanks cs) with
  | None => (false, cs)
  | Some blanks =>
      let blanks_d := sg_dict_set (sgc_state c)
                        (sg_nset_insert (sg_tape_pos (sgc_tape c)) blanks) (sgs_blanks cs) in
      let all := fold_left (fun acc kv => fold_left (fun a p => sg_nset_insert p a) (snd kv) acc)
                           blanks_d [] in
      (sg_len all =? sgs_seg cs, sgs_set_blanks cs blanks_d)
  end.

(** segment.rs:339 *)
Definition sg_check_reached (cs : sg_configs) (c : sg_config) (goal : sg_term)
  : bool * sg_configs :=
  if sg_term_eqb goal SgBlank then sg_check_reached_blank cs c else
  match sg_dict_get (sgc_state c) (sgs_reached cs) with
  | None => (false, cs)
  | Some reached =>
      let reached' := sg_nset_insert (sg_tape_pos (sgc_tape c)) reached in
      (sg_len reached' =? sgs_seg cs,
       sgs_set_reached cs (sg_dict_set (sgc_state c) reached' (sgs_reached cs)))
  end.

(** segment.rs:371-384: the [for &state in &dirs[&shift]] loop *)
Fixpoint sg_branch_in_loop (cs : sg_configs) (t : sg_tape) (sh : shift) (blank : bool)
  (sts : list state) : outcome sg_configs :=
  match sts with
  | [] => Ok cs
  | st :: sts' =>
      obind (sg_tape_step_in t sh) (fun next_tape =>
      match sg_check_seen cs st next_tape blank with
      | (None, cs') => sg_branch_in_loop cs' t sh blank sts'
      | (Some init, cs') =>
          sg_branch_in_loop (sg_add_todo cs' (sg_config_new st next_tape init)) t sh blank sts'
      end)
  end.

(** segment.rs:368 *)
Definition sg_branch_in (cs : sg_configs) (t : sg_tape) (dirs : sg_dirs) (blank : bool)
  : outcome sg_configs :=
  obind (sg_tape_side t) (fun sd =>
  let sh := negb sd in
  sg_branch_in_loop cs t sh blank (sg_dirs_get dirs sh)).

(** [slice::split_last]: (last, front) *)
Fixpoint sg_split_last {A} (l : list A) : option (A * list A) :=
  match l with
  | [] => None
  | x :: l' => match sg_split_last l' with
               | None => Some (x, [])
               | Some (y, front) => Some (y, x :: front)
               end
  end.

(** segment.rs:399-409: [for &state in diffs] (all but the last) *)
Fixpoint sg_branch_out_loop (cs : sg_configs) (t : sg_tape) (blank : bool)
  (sts : list state) : sg_configs :=
  match sts with
  | [] => cs
  | st :: sts' =>
      match sg_check_seen cs st t blank with
      | (None, cs') => sg_branch_out_loop cs' t blank sts'
      | (Some init, cs') =>
          sg_branch_out_loop (sg_add_todo cs' (sg_config_new st t init)) t blank sts'
      end
  end.

(** segment.rs:387.  The last successor reuses [config] (state and init
    overwritten). *)
Definition sg_branch_out (cs : sg_configs) (c : sg_config) (diffs : list state) (blank : bool)
  : sg_configs :=
  match sg_split_last diffs with
  | None => cs
  | Some (last_next, front) =>
      let cs1 := sg_branch_out_loop cs (sgc_tape c) blank front in
      match sg_check_seen cs1 last_next (sgc_tape c) blank with
      | (Some init, cs2) => sg_add_todo cs2 (mkSgConfig last_next (sgc_tape c) init)
      | (None, cs2) => cs2
      end
  end.

(** segment.rs:424 ([Iterator::next]): [next_init().or_else(|| todo.pop())] *)
Definition sg_configs_next (cs : sg_configs) : outcome (option sg_config * sg_configs) :=
  obind (sg_next_init cs) (fun '(oc, cs') =>
  match oc with
  | Some c => Ok (Some c, cs')
  | None =>
      match sgs_todo cs' with
      | [] => Ok (None, cs')
      | c :: todo' => Ok (Some c, sgs_set_todo cs' todo')
      end
  end).

(** * Config::run_to_edge (segment.rs:463-530) *)

Record sg_rte_state := mkSgRte {
  rte_self : sg_config;
  rte_copy : sg_config;
  rte_step : bool;
  rte_configs : sg_configs }.

(** what the caller sees afterwards: return value, [config] (mutated in
    place), [configs] *)
Definition sg_rte_ret := outcome (option sg_search * sg_config * sg_configs).

(** segment.rs:493-511 *)
Definition sg_rte_blank_check (goal : sg_term) (print : colour) (st : state)
  (self : sg_config) (cs : sg_configs) : (sg_config * sg_configs) + sg_rte_ret :=
  if (print =? 0) && sg_tape_blank (sgc_tape self) then
    if (st =? 0) && sgc_init self then inr (Ok (Some SgRepeat, self, cs)) else
    let self' := if st =? 0 then mkSgConfig (sgc_state self) (sgc_tape self) true else self in
    let blanks := sg_dict_entry st [] (sgs_blanks cs) in
    let cs' := sgs_set_blanks cs
                 (sg_dict_set st (sg_nset_insert (sg_tape_pos (sgc_tape self')) blanks)
                              (sgs_blanks cs)) in
    if sg_term_eqb goal SgBlank then inr (Ok (Some (SgFound SgBlank), self', cs'))
    else inl (self', cs')
  else inl (self, cs).

(** segment.rs:513-526: tortoise step and comparison *)
Definition sg_rte_copy_step (prog : comp_prog) (self copy : sg_config) (step : bool)
  (cs : sg_configs) : sg_rte_state + sg_rte_ret :=
  if negb step then inl (mkSgRte self copy true cs) else
  match sg_config_slot copy with
  | None => inr Panic
  | Some cslot =>
      match cp_get prog cslot with
      | None => inr Panic
      | Some cinstr =>
          match sg_config_step copy cinstr with
          | Panic => inr Panic
          | Ok copy' =>
              if (sgc_state copy' =? sgc_state self)
                 && sg_tape_eqb (sgc_tape copy') (sgc_tape self)
              then inr (Ok (Some SgRepeat, self, cs))
              else inl (mkSgRte self copy' false cs)
          end
      end
  end.

(** segment.rs:474-527: one iteration of [while let Some(slot) = self.slot()] *)
Definition sg_rte_body (prog : comp_prog) (goal : sg_term) (s : sg_rte_state)
  : sg_rte_state + sg_rte_ret :=
  let self := rte_self s in
  let cs := rte_configs s in
  match sg_config_slot self with
  | None => inr (Ok (None, self, cs))
  | Some sl =>
      match cp_get prog sl with
      | None => inr (Ok (Some (SgFound SgHalt), self, cs))
      | Some i =>
          let '(spin, cs1) :=
            if (sgc_init self || sg_term_eqb goal SgSpinout) && sg_config_spinout self i
            then if sgc_init self then (true, cs) else sg_check_reached cs self goal
            else (false, cs) in
          if spin then inr (Ok (Some (SgFound SgSpinout), self, cs1)) else
          match sg_config_step self i with
          | Panic => inr Panic
          | Ok self1 =>
              let '(print, _, st) := i in
              match sg_rte_blank_check goal print st self1 cs1 with
              | inr r => inr r
              | inl (self2, cs2) => sg_rte_copy_step prog self2 (rte_copy s) (rte_step s) cs2
              end
          end
      end
  end.

(** Fuel of the run loop.  The loop is Floyd cycle detection on the
    deterministic map (state, tape) -> (state, tape) over a finite set: tapes of
    [seg - 2] cells over the colours {0} + printed colours, head on one of the
    cells, states among {start} + instruction targets.  With M such
    configurations the tortoise meets the hare after at most 2M iterations, so
    the fuel-exhausted answer below is unreachable. *)
Definition sg_prog_max (p : comp_prog) : N * N :=
  fold_left (fun acc kv =>
      let '((ss, _), (ic, _, is_)) := kv in
      (N.max (N.max (fst acc) ss) is_, N.max (snd acc) ic)) p (0, 0).
Definition sg_rte_fuel (p : comp_prog) (seg : N) : N :=
  let '(ms, mc) := sg_prog_max p in
  2 * ((1 + ms) * (1 + mc) ^ (seg - 2) * (seg - 2)) + 2.

(** segment.rs:463 *)
Definition sg_run_to_edge (prog : comp_prog) (goal : sg_term) (self : sg_config)
  (cs : sg_configs) : sg_rte_ret :=
  match sgt_scan (sgc_tape self) with
  | None => Ok (None, self, cs)
  | Some _ =>
      match for_upto (sg_rte_fuel prog (sgs_seg cs)) (sg_rte_body prog goal)
                     (mkSgRte self self false cs) with
      | inr r => r
      | inl _ => Panic      (* unreachable, see [sg_rte_fuel] *)
      end
  end.

(** * all_segments_reached (segment.rs:145-250) *)

Definition sg_asr_ret := outcome (option sg_search).

(** [if configs.check_reached(&config, goal) { return Some(Reached); } continue;] *)
Definition sg_asr_check_reached (goal : sg_term) (c : sg_config) (cs : sg_configs)
  : sg_configs + sg_asr_ret :=
  let '(b, cs') := sg_check_reached cs c goal in
  if b then inr (Ok (Some SgReached)) else inl cs'.

(** segment.rs:165-217: the [match result] after [run_to_edge] returned Some *)
Definition sg_asr_result (goal : sg_term) (result : sg_search) (c : sg_config)
  (cs : sg_configs) : sg_configs + sg_asr_ret :=
  match result with
  | SgRepeat =>
      if sgc_init c then
        inr (Ok (Some (if sg_term_eqb goal SgBlank && sg_tape_blank (sgc_tape c)
                       then SgFound SgBlank else SgRepeat)))
      else inl cs
  | SgFound SgHalt =>
      if sgc_init c then inr (Ok (Some (SgFound SgHalt))) else
      if sg_term_eqb goal SgHalt then sg_asr_check_reached goal c cs else inl cs
  | SgFound SgBlank =>
      if negb (sg_term_eqb goal SgBlank) then inr Panic else sg_asr_check_reached goal c cs
  | SgFound SgSpinout =>
      if sgc_init c then inr (Ok (Some (SgFound SgSpinout))) else
      if negb (sg_term_eqb goal SgSpinout) then inr Panic else sg_asr_check_reached goal c cs
  | SgLimit | SgReached => inl cs
  end.

(** segment.rs:220-230 *)
Definition sg_goal_tape (ap : sg_aprog) (goal : sg_term) (c : sg_config) : outcome bool :=
  match goal with
  | SgHalt => Ok true
  | SgBlank => Ok (sg_tape_blank (sgc_tape c))
  | SgSpinout =>
      match sg_dict_get (sgc_state c) (sga_spinouts ap) with
      | Some sh => obind (sg_tape_side (sgc_tape c)) (fun sd =>
                   Ok (Bool.eqb sh sd || sg_tape_blank (sgc_tape c)))
      | None => Ok false
      end
  end.

(** segment.rs:220-246: after [run_to_edge] returned None (config at an edge) *)
Definition sg_asr_edge (ap : sg_aprog) (goal : sg_term) (c : sg_config) (cs : sg_configs)
  : sg_configs + sg_asr_ret :=
  match sg_goal_tape ap goal c with
  | Panic => inr Panic
  | Ok goal_tape =>
      let '(reached, cs1) := if goal_tape then sg_check_reached cs c goal else (false, cs) in
      if reached then inr (Ok (Some SgReached)) else
      match sg_dict_get (sgc_state c) (sga_branches ap) with
      | None => inr Panic                     (* branches[&config.state] *)
      | Some (diffs, dirs) =>
          let blank := sg_tape_blank (sgc_tape c) in
          match sg_branch_in cs1 (sgc_tape c) dirs blank with
          | Panic => inr Panic
          | Ok cs2 =>
              let cs3 := sg_branch_out cs2 c diffs blank in
              if sg_check_depth cs3 then inr (Ok (Some SgLimit)) else inl cs3
          end
      end
  end.

(** segment.rs:158-247: one iteration of [while let Some(config) = configs.next()] *)
Definition sg_asr_body (ap : sg_aprog) (goal : sg_term) (cs : sg_configs)
  : sg_configs + sg_asr_ret :=
  match sg_configs_next cs with
  | Panic => inr Panic
  | Ok (None, _) => inr (Ok None)
  | Ok (Some c, cs0) =>
      match sg_run_to_edge (sga_prog ap) goal c cs0 with
      | Panic => inr Panic
      | Ok (Some result, c', cs1) => sg_asr_result goal result c' cs1
      | Ok (None, c', cs1) => sg_asr_edge ap goal c' cs1
      end
  end.

(** Fuel of the search loop.  Every iteration consumes one config: an initial
    one (at most [seg], each adds a new position to blanks[0]) or one popped
    from [todo]; every push onto [todo] follows a fresh insertion into
    seen[state] or blanks[state] with [state] an instruction target.
    blanks[state] holds positions < seg; seen[state] has at most
    MAX_DEPTH + 2 elements when [check_depth] fires (at most two insertions per
    state and iteration).  So the fuel-exhausted answer is unreachable. *)
Definition sg_asr_fuel (p : comp_prog) (seg : N) : N :=
  let '(ms, _) := sg_prog_max p in
  (1 + ms) * (sg_MAX_DEPTH + 2 + seg) + seg + 2.

(** segment.rs:145 *)
Definition sg_all_segments_reached (ap : sg_aprog) (seg : N) (goal : sg_term) : sg_asr_ret :=
  let cs := sg_configs_new (sga_halts ap) (sga_spinouts ap) seg goal in
  match for_upto (sg_asr_fuel (sga_prog ap) seg) (sg_asr_body ap goal) cs with
  | inr r => r
  | inl _ => Panic          (* unreachable, see [sg_asr_fuel] *)
  end.

(** * segment_cant_reach (segment.rs:110-141) *)

(** segment.rs:126-138: body of [for seg in 2..=segs] *)
Definition sg_scr_body (ap : sg_aprog) (goal : sg_term) (seg : N)
  : N + outcome sg_result :=
  match sg_all_segments_reached ap (2 + seg) goal with
  | Panic => inr Panic
  | Ok None => inr (Ok (SgrRefuted seg))
  | Ok (Some SgLimit) => inr (Ok SgrDepthLimit)
  | Ok (Some SgRepeat) => inr (Ok SgrRepeat)
  | Ok (Some (SgFound found)) => inr (Ok (sg_result_from_term found))
  | Ok (Some SgReached) => inl (seg + 1)
  end.

(** segment.rs:110 *)
Definition sg_segment_cant_reach (prog : comp_prog) (params : N * N) (segs : N)
  (goal : sg_term) : outcome sg_result :=
  if negb (2 <=? segs) then Panic else
  let ap := sg_aprog_new prog params in
  if (sg_term_eqb goal SgHalt && match sga_halts ap with [] => true | _ => false end)
     || (sg_term_eqb goal SgSpinout && match sga_spinouts ap with [] => true | _ => false end)
  then Ok (SgrRefuted 0) else
  match for_upto (segs - 1) (sg_scr_body ap goal) 2 with
  | inr r => r
  | inl _ => Ok SgrSegmentLimit
  end.

(** segment.rs:64-86 *)
Definition sg_seg_cant_halt (prog : comp_prog) (params : N * N) (segs : N) :=
  sg_segment_cant_reach prog params segs SgHalt.
Definition sg_seg_cant_blank (prog : comp_prog) (params : N * N) (segs : N) :=
  sg_segment_cant_reach prog params segs SgBlank.
Definition sg_seg_cant_spin_out (prog : comp_prog) (params : N * N) (segs : N) :=
  sg_segment_cant_reach prog params segs SgSpinout.

(** wrappers.rs:154-164 get_comp: params from the DEFINED slot keys only *)
Definition sg_get_comp_params (prog : comp_prog) : N * N :=
  let '(ms, mc) := cp_params prog in (1 + ms, 1 + mc).

(** wrappers.rs:166-188 *)
Definition sg_py_segment_cant_halt (prog : comp_prog) (segs : N) :=
  sg_seg_cant_halt prog (sg_get_comp_params prog) segs.
Definition sg_py_segment_cant_blank (prog : comp_prog) (segs : N) :=
  sg_seg_cant_blank prog (sg_get_comp_params prog) segs.
Definition sg_py_segment_cant_spin_out (prog : comp_prog) (segs : N) :=
  sg_seg_cant_spin_out prog (sg_get_comp_params prog) segs.
