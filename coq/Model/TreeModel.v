(** Model of src/tree.rs: generation of the tree of normal-form programs.

    The harvester closure is modelled by an accumulator [list comp_prog]
    (newest first).  build_tree uses rayon's [par_iter] over the first-level
    instructions, so the emission order of the real code is not determined;
    the model emits in sequential order and results are compared as sorted
    multisets.  A panic in any task is a panic of build_tree. *)
From BB Require Export Base InstrsModel TapeModel.

(** tree.rs:19-33: colour outermost, then shift (false, true), then state *)
Definition make_instrs (states colors : N) : list instr :=
  flat_map (fun color =>
    flat_map (fun sh => map (fun st => (color, sh, st)) (range 0 states)) [false; true])
    (range 0 colors).

(** tree.rs:37-42 *)
Inductive run_result := TrLimit | TrBlank | TrSpinout | TrUndefined (sl : slot).

(** One iteration of tree.rs:52-72.  The tape is [&mut]: the caller sees
    the tape as it is at the moment of the return. *)
Definition rfu_body (comp : comp_prog) (s : state * tape)
  : (state * tape) + (run_result * tape) :=
  let '(st, tp) := s in
  let sl := (st, scan tp) in
  match cp_get comp sl with
  | None => inr (TrUndefined sl, tp)
  | Some (color, sh, next_state) =>
      let same := st =? next_state in
      if same && at_edge tp sh then inr (TrSpinout, tp)
      else
        let '(tp', _) := step tp sh color same in
        if blank tp' then inr (TrBlank, tp')        (* after ANY step, not only when 0 is printed *)
        else inl (next_state, tp')
  end.

(** tree.rs:46-75 *)
Definition run_for_undefined (comp : comp_prog) (st : state) (tp : tape) (sim_lim : N)
  : run_result * tape :=
  match for_upto sim_lim (rfu_body comp) (st, tp) with
  | inl (_, tp') => (TrLimit, tp')
  | inr x => x
  end.

(** tree.rs:82-94 *)
Definition leaf (prog : comp_prog) (params : N * N) (acc : list comp_prog) : list comp_prog :=
  let '(max_state, max_color) := params in
  if forallb (fun kv => let '(_, (_, _, st)) := kv in 1 + st <? max_state) prog
     || forallb (fun kv => let '(_, (co, _, _)) := kv in 1 + co <? max_color) prog
  then acc
  else prog :: acc.

(** tree.rs:118-128 *)
Definition update_avail (avail max_ slot_v instr_v : N) : N :=
  if (avail <? max_) && (1 + N.max slot_v instr_v =? avail) then avail + 1 else avail.

(** tree.rs:134-142: the loop over the last undefined slot *)
Fixpoint branch_last (sl : slot) (instrs : list instr) (prog : comp_prog) (params : N * N)
  (acc : list comp_prog) : list comp_prog :=
  match instrs with
  | [] => acc
  | next_instr :: rest =>
      let acc' := leaf (cp_insert sl next_instr prog) params acc in
      (* prog.remove(&slot): the slot was undefined before the insert *)
      branch_last sl rest prog params acc'
  end.

(** tree.rs:96-181.  [fuel] bounds the recursion depth: each recursive call
    has [remaining_slots] smaller by one and happens only when the new value
    is non-zero, so [fuel = S (N.to_nat remaining_slots)] is enough and the
    [O] case is unreachable.  The [split_last]/[clone] detail (the last child
    takes the tape by move) does not change results; the iteration order is
    the order of [make_instrs].  [prog.insert(slot, _)] ... [prog.remove(&slot)]
    around each child restores [prog], so every child starts from [prog]. *)
Fixpoint branch (fuel : nat) (instr_ : instr) (prog : comp_prog) (st : state) (tp : tape)
  (sim_lim : N) (avail : N * N) (params : N * N) (remaining_slots : N)
  (acc : list comp_prog) : outcome (list comp_prog) :=
  match fuel with
  | O => Panic
  | S fuel' =>
    let '(max_states, max_colors) := params in
    let '(avail_states, avail_colors) := avail in
    match run_for_undefined prog st tp sim_lim with
    | (TrUndefined sl, tp') =>
        let '(slot_state, slot_color) := sl in
        let '(instr_color, _, instr_state) := instr_ in
        let avail_states' := update_avail avail_states max_states slot_state instr_state in
        let avail_colors' := update_avail avail_colors max_colors slot_color instr_color in
        let instrs := make_instrs avail_states' avail_colors' in
        if remaining_slots =? 0 then Panic                   (* remaining_slots - 1 underflows *)
        else
          let next_remaining_slots := remaining_slots - 1 in
          if next_remaining_slots =? 0 then
            Ok (branch_last sl instrs prog params acc)
          else
            match instrs with
            | [] => Panic                                     (* split_last().unwrap() *)
            | _ =>
              (fix children (l : list instr) (acc : list comp_prog) : outcome (list comp_prog) :=
                 match l with
                 | [] => Ok acc
                 | next_instr :: l' =>
                     match branch fuel' next_instr (cp_insert sl next_instr prog)
                                  slot_state tp' sim_lim (avail_states', avail_colors')
                                  params next_remaining_slots acc with
                     | Panic => Panic
                     | Ok acc' => children l' acc'
                     end
                 end) instrs acc
            end
    | (_, _) => Ok (leaf prog params acc)
    end
  end.

(** tree.rs:206: (states * colors) - 1 - (1 + Slots::from(halt)), u64, checked *)
Definition init_remaining (states colors : N) (halt : bool) : outcome N :=
  let sc := states * colors in
  if u64_max <? sc then Panic
  else if sc <? 1 then Panic
  else
    let h := if halt then 2 else 1 in
    if sc - 1 <? h then Panic else Ok (sc - 1 - h).

(** The closure of tree.rs:195-209 for one first-level instruction. *)
Definition build_subtree (params : N * N) (halt : bool) (sim_lim : N) (next_instr : instr)
  (acc : list comp_prog) : outcome (list comp_prog) :=
  let '(states, colors) := params in
  let init_states := N.min 3 states in
  let init_colors := N.min 3 colors in
  obind (init_remaining states colors halt) (fun remaining =>
  branch (S (N.to_nat remaining)) next_instr
         (cp_insert (1, 0) next_instr (cp_insert (0, 0) (1, true, 1) []))
         1 init_stepped sim_lim (init_states, init_colors) params remaining acc).

(** tree.rs:185-211, sequentially; the result is in emission order. *)
Fixpoint build_tree_loop (params : N * N) (halt : bool) (sim_lim : N) (instrs : list instr)
  (acc : list comp_prog) : outcome (list comp_prog) :=
  match instrs with
  | [] => Ok acc
  | i :: rest =>
      match build_subtree params halt sim_lim i acc with
      | Panic => Panic
      | Ok acc' => build_tree_loop params halt sim_lim rest acc'
      end
  end.

Definition build_tree (params : N * N) (halt : bool) (sim_lim : N) : outcome (list comp_prog) :=
  let '(states, colors) := params in
  match build_tree_loop params halt sim_lim
          (make_instrs (N.min 3 states) (N.min 3 colors)) [] with
  | Panic => Panic
  | Ok acc => Ok (rev' acc)
  end.

(** wrappers.rs:210-222 tree_progs: each harvested program shown with the
    given params ([None] = show panicked). *)
Definition tree_progs (params : N * N) (halt : bool) (sim_lim : N) : outcome (list str) :=
  obind (build_tree params halt sim_lim) (fun progs =>
  match all_some (map (fun p => show p (Some params)) progs) with
  | Some l => Ok l
  | None => Panic
  end).

Definition tree_sub_progs (params : N * N) (halt : bool) (sim_lim : N) (i : instr)
  : outcome (list str) :=
  obind (build_subtree params halt sim_lim i []) (fun progs =>
  match all_some (map (fun p => show p (Some params)) (rev' progs)) with
  | Some l => Ok l
  | None => Panic
  end).
