(** Model of src/machine.rs: run_quick_machine and quick_term_or_rec. *)
From BB Require Export Base Ref TapeModel InstrsModel.

Record mresult := mkRes {
  r_result : termres; r_steps : N; r_cycles : N; r_marks : N; r_rulapp : N;
  r_blanks : list (state * N);       (* BTreeMap: sorted by state *)
  r_last_slot : option slot }.

Record qstate := mkQ {
  q_tape : tape; q_state : state; q_steps : N; q_cycle : N; q_blanks : list (state * N) }.

(** One iteration of the loop at machine.rs:310-347.  [inr] = break with
    (result, cycles-field, last_slot, final loop state). *)
Definition quick_body (comp : comp_prog) (s : qstate)
  : qstate + (termres * N * option slot * qstate) :=
  let sl := (q_state s, scan (q_tape s)) in
  match cp_get comp sl with
  | None => inr (undfnd, q_cycle s, Some sl, s)
  | Some (color, sh, next_state) =>
    let same := q_state s =? next_state in
    if same && at_edge (q_tape s) sh then inr (spnout, q_cycle s, None, s)
    else
      let '(t', stepped) := step (q_tape s) sh color same in
      let steps' := q_steps s + stepped in
      let s' := mkQ t' next_state steps' (q_cycle s + 1) (q_blanks s) in
      if (color =? 0) && blank t' then
        if blanks_mem next_state (q_blanks s) then inr (infrul, 0, None, s')
        else
          let s'' := mkQ t' next_state steps' (q_cycle s + 1)
                         (blanks_insert next_state steps' (q_blanks s)) in
          if next_state =? 0 then inr (infrul, 0, None, s'') else inl s''
      else inl s'
  end.

Definition finish (rulapp : N) (x : qstate + (termres * N * option slot * qstate)) : mresult :=
  match x with
  | inl s => mkRes xlimit (q_steps s) 0 (marks (q_tape s)) rulapp (q_blanks s) None
  | inr (res, cyc, ls, s) => mkRes res (q_steps s) cyc (marks (q_tape s)) rulapp (q_blanks s) ls
  end.

Definition run_quick (comp : comp_prog) (sim_lim : N) : mresult :=
  finish 0 (for_upto sim_lim (quick_body comp) (mkQ (init_tape 0) 0 0 0 [])).

(** quick_term_or_rec, machine.rs:381-439 *)
Inductive recres := RLimit | RRecur | RSpinout | RUndefined (sl : slot).

Record rstate := mkR {
  rs_state : state; rs_tape : headtape;
  rs_ref_state : state; rs_ref_tape : headtape;
  rs_leftmost : Z; rs_rightmost : Z;
  rs_reset : N; rs_cycle : N }.

Definition rec_body (comp : comp_prog) (s : rstate) : rstate + recres :=
  let tp := rs_tape s in
  let sl := (rs_state s, scan (ht_tape tp)) in
  match cp_get comp sl with
  | None => inr (RUndefined sl)
  | Some (color, sh, next_state) =>
    let curr_state := rs_state s in
    let same := curr_state =? next_state in
    if same && at_edge (ht_tape tp) sh then inr RSpinout
    else
      let '(ref_state, ref_tape, leftmost, rightmost, reset) :=
        if rs_reset s =? 0
        then (curr_state, tp, ht_head tp, ht_head tp, rs_cycle s)
        else (rs_ref_state s, rs_ref_tape s, rs_leftmost s, rs_rightmost s, rs_reset s) in
      let reset := reset - 1 in
      let '(tp', _) := ht_step tp sh color same in
      let curr := ht_head tp' in
      let '(leftmost, rightmost) :=
        if (curr <? leftmost)%Z then (curr, rightmost)
        else if (rightmost <? curr)%Z then (leftmost, curr)
        else (leftmost, rightmost) in
      if (next_state =? ref_state) && aligns_with tp' ref_tape leftmost rightmost
      then inr RRecur
      else inl (mkR next_state tp' ref_state ref_tape leftmost rightmost reset (rs_cycle s + 1))
  end.

(** [for cycle in 1..sim_lim]: sim_lim - 1 iterations (0 when sim_lim = 0). *)
Definition quick_term_or_rec (comp : comp_prog) (sim_lim : N) : recres :=
  match for_upto (sim_lim - 1) (rec_body comp)
          (mkR 1 ht_init_stepped 1 ht_init_stepped 1 1 1 1) with
  | inl _ => RLimit
  | inr r => r
  end.

(** The stream of tape operations (shift, colour written, sweep flag) that
    run_quick performs in its first [fuel] cycles: used to drive the tape
    correspondence with the step streams of real programs. *)
Fixpoint quick_ops (comp : comp_prog) (fuel : nat) (s : qstate) : list (shift * colour * bool) :=
  match fuel with
  | O => []
  | S f =>
      match cp_get comp (q_state s, scan (q_tape s)) with
      | None => []
      | Some (color, sh, next_state) =>
          let same := q_state s =? next_state in
          match quick_body comp s with
          | inl s' => (sh, color, same) :: quick_ops comp f s'
          | inr _ => []
          end
      end
  end.
Definition quick_ops_init (comp : comp_prog) (n : N) : list (shift * colour * bool) :=
  quick_ops comp (N.to_nat n) (mkQ (init_tape 0) 0 0 0 []).
