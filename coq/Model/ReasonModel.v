(** Model of src/reason.rs: the backward reasoner ([cant_halt], [cant_blank],
    [cant_spin_out]).  Statement-by-statement mirror, quirks included.

    Conventions
    - [Vec] built with [push] is a list in push order (oldest first, newest
      LAST); [v.push x] is [v ++ [x]].  No [Vec] of reason.rs is ever popped,
      they are only iterated front to back, so "the top" never matters.
    - The block vector of a [Span] has its FIRST element next to the head
      (index 0 is what [pull]/[push]/[first] touch), as in tape.rs.
    - A block with count 0 is the "indefinite" block [c..].
    - [BTreeMap<State, _>] (Entrypoints) = list strictly sorted by state.
    - [HashSet<State>] (Blanks) = duplicate-free list in insertion order; the
      Rust code only calls [contains] and [insert] on it (never iterates),
      so no answer depends on hash iteration order.
    - Rust panics = [Panic] of [outcome].  The only reachable panic site of
      reason.rs is the [assert!( *state == 0 )] at reason.rs:153.  Arithmetic:
      [head] (isize) moves by one per step and block counts (u64) grow by one
      per step, and a run makes at most [depth] steps per branch, so neither
      can leave its machine range before memory is exhausted; they are
      unbounded [Z]/[N] here.
    - Counterfactual bw_switches ([bw_switches]); the bw_faithful model is
      [bw_faithful] = both [false]. *)
From BB Require Export Base InstrsModel TapeModel.

(** reason.rs:22-23 *)
Definition BW_MAX_RECS : N := 2.
Definition BW_MAX_STACK_DEPTH : N := 28.

Record bw_switches := mkSw {
  sw_nodrop : bool;       (* keep the same-state predecessor rejected at reason.rs:175 as a plain step *)
  sw_fullparams : bool }. (* halt_slots table size also from instruction contents *)
Definition bw_faithful : bw_switches := mkSw false false.

(** reason.rs:27-35 *)
Inductive backward_result :=
  | BwInit | BwLinRec | BwSpinout | BwStepLimit | BwDepthLimit | BwRefuted (step : N).

(** reason.rs:40-42 *)
Definition bw_is_settled (r : backward_result) : bool :=
  match r with BwRefuted _ | BwInit => true | _ => false end.

(** ------------------------------------------------------------------ *)
(** TapeEnd, reason.rs:571-592 *)
Inductive tape_end := EndBlanks | EndUnknown.

Definition tape_end_eqb (a b : tape_end) : bool :=
  match a, b with EndBlanks, EndBlanks | EndUnknown, EndUnknown => true | _, _ => false end.

(** reason.rs:586-591 *)
Definition end_matches_color (e : tape_end) (print : colour) : bool :=
  match e with EndBlanks => print =? 0 | EndUnknown => true end.

(** ------------------------------------------------------------------ *)
(** Span, reason.rs:597-656.  [span] (list of (colour, count), first = nearest
    the head) is tape.rs's [Span<BasicBlock>] from TapeModel. *)
Record bspan := mkSpan { sp_blocks : span; sp_end : tape_end }.

(** derive(PartialEq), reason.rs:596 *)
Definition bspan_eqb (a b : bspan) : bool :=
  span_eqb (sp_blocks a) (sp_blocks b) && tape_end_eqb (sp_end a) (sp_end b).

(** reason.rs:610-612 *)
Definition bspan_blank (s : bspan) : bool :=
  forallb (fun b : block => fst b =? 0) (sp_blocks s).

(** reason.rs:614-616 *)
Definition bspan_len (s : bspan) : N := N.of_nat (length (sp_blocks s)).

(** reason.rs:618-623 *)
Definition bspan_matches_color (s : bspan) (print : colour) : bool :=
  match sp_blocks s with
  | [] => end_matches_color (sp_end s) print
  | b :: _ => fst b =? print
  end.

(** reason.rs:625-639 *)
Definition bspan_pull (s : bspan) : bspan :=
  match sp_blocks s with
  | [] => s
  | (c, n) :: rest =>
      if n =? 1 then mkSpan rest (sp_end s)
      else if n =? 0 then s
      else mkSpan ((c, n - 1) :: rest) (sp_end s)
  end.

(** tape.rs:210-212 *)
Definition bspan_push_block (s : bspan) (color : colour) (count : N) : bspan :=
  mkSpan ((color, count) :: sp_blocks s) (sp_end s).

(** reason.rs:642-655 *)
Definition bspan_push (s : bspan) (color : colour) (count : N) : bspan :=
  match sp_blocks s with
  | (c, n) :: rest =>
      if (c =? color) && negb (n =? 0)
      then mkSpan ((c, n + count) :: rest) (sp_end s)
      else bspan_push_block s color count
  | [] =>
      if (color =? 0) && tape_end_eqb (sp_end s) EndBlanks
      then s
      else bspan_push_block s color count
  end.

(** ------------------------------------------------------------------ *)
(** Backstepper, reason.rs:661-786 *)
Record backstepper := mkBS {
  bs_scan : colour; bs_lspan : bspan; bs_rspan : bspan; bs_head : Z }.

(** reason.rs:688-695 *)
Definition bs_init_halt (sc : colour) : backstepper :=
  mkBS sc (mkSpan [] EndUnknown) (mkSpan [] EndUnknown) 0%Z.

(** reason.rs:697-704 *)
Definition bs_init_blank (sc : colour) : backstepper :=
  mkBS sc (mkSpan [] EndBlanks) (mkSpan [] EndBlanks) 0%Z.

(** reason.rs:706-719 *)
Definition bs_init_spinout (dir : shift) : backstepper :=
  let '(l_end, r_end) := if dir then (EndUnknown, EndBlanks) else (EndBlanks, EndUnknown) in
  mkBS 0 (mkSpan [] l_end) (mkSpan [] r_end) 0%Z.

(** reason.rs:721-723 *)
Definition bs_blank (t : backstepper) : bool :=
  (bs_scan t =? 0) && bspan_blank (bs_lspan t) && bspan_blank (bs_rspan t).

(** reason.rs:725-728 *)
Definition check_step (t : backstepper) (sh : shift) (print : colour) : bool :=
  bspan_matches_color (if sh then bs_lspan t else bs_rspan t) print.

(** reason.rs:730-749 *)
Definition check_spinout (t : backstepper) (sh : shift) (read : colour) : option bool :=
  let sc := bs_scan t in
  if negb (sc =? read) then None
  else
    let '(pull, push) :=
      if sh then (bs_lspan t, bs_rspan t) else (bs_rspan t, bs_lspan t) in
    match sp_blocks pull with
    | _ :: _ => None
    | [] =>
        if tape_end_eqb (sp_end pull) EndBlanks
           || match sp_blocks push with [] => false | _ :: _ => true end
        then Some (negb (bspan_matches_color push sc))
        else None
    end.

(** reason.rs:751-759 *)
Definition pulls_indef (t : backstepper) (sh : shift) : bool :=
  match sp_blocks (if sh then bs_lspan t else bs_rspan t) with
  | [] => false
  | b :: _ => snd b =? 0
  end.

(** reason.rs:761-775 *)
Definition backstep (t : backstepper) (sh : shift) (read : colour) : backstepper :=
  if sh
  then mkBS read (bspan_pull (bs_lspan t)) (bspan_push (bs_rspan t) (bs_scan t) 1)
            (bs_head t + (-1))%Z
  else mkBS read (bspan_push (bs_lspan t) (bs_scan t) 1) (bspan_pull (bs_rspan t))
            (bs_head t + 1)%Z.

(** reason.rs:777-785 *)
Definition push_indef (t : backstepper) (sh : shift) : backstepper :=
  if sh
  then mkBS (bs_scan t) (bs_lspan t) (bspan_push_block (bs_rspan t) (bs_scan t) 0) (bs_head t)
  else mkBS (bs_scan t) (bspan_push_block (bs_lspan t) (bs_scan t) 0) (bs_rspan t) (bs_head t).

(** impl Alignment for Backstepper, reason.rs:788-820, with the provided
    method tape.rs:488-518 *)
Definition bs_aligns_with (cur prev : backstepper) (leftmost rightmost : Z) : bool :=
  if negb (bs_scan cur =? bs_scan prev) then false
  else if negb (bspan_len (bs_lspan cur) =? bspan_len (bs_lspan prev))
          && negb (bspan_len (bs_rspan cur) =? bspan_len (bs_rspan prev)) then false
  else
    let p_head := bs_head prev in
    let l_take := Z.to_N (Z.abs (p_head - leftmost)) in
    let r_take := Z.to_N (Z.abs (p_head - rightmost)) in
    let diff := (bs_head cur - p_head)%Z in
    if (0 <? diff)%Z then
      compare_take (sp_blocks (bs_lspan cur)) (sp_blocks (bs_lspan prev)) l_take
      && bspan_eqb (bs_rspan cur) (bs_rspan prev)
    else if (diff <? 0)%Z then
      compare_take (sp_blocks (bs_rspan cur)) (sp_blocks (bs_rspan prev)) r_take
      && bspan_eqb (bs_lspan cur) (bs_lspan prev)
    else
      compare_take (sp_blocks (bs_lspan cur)) (sp_blocks (bs_lspan prev)) l_take
      && compare_take (sp_blocks (bs_rspan cur)) (sp_blocks (bs_rspan prev)) r_take.

(** ------------------------------------------------------------------ *)
(** Config, reason.rs:473-553.  [c_prev] is the [Option<Rc<Config>>] chain. *)
Inductive bw_config := mkBwConfig {
  c_state : state; c_tape : backstepper; c_recs : N; c_prev : option bw_config }.

(** reason.rs:481-488 *)
Definition bw_config_new (st : state) (tp : backstepper) : bw_config := mkBwConfig st tp 0 None.
(** reason.rs:490-492 *)
Definition bw_config_init_halt (st : state) (co : colour) : bw_config :=
  bw_config_new st (bs_init_halt co).
(** reason.rs:494-496 *)
Definition bw_config_init_blank (st : state) (co : colour) : bw_config :=
  bw_config_new st (bs_init_blank co).
(** reason.rs:498-500 *)
Definition bw_config_init_spinout (st : state) (sh : shift) : bw_config :=
  bw_config_new st (bs_init_spinout sh).

(** The [while let Some(config) = current] loop of reason.rs:529-549, entered
    with [current = Some cfg]; structural on the ancestor chain. *)
Fixpoint lin_rec_loop (self_state : state) (self_tape : backstepper)
         (cfg : bw_config) (leftmost rightmost : Z) : bool :=
  match cfg with
  | mkBwConfig st tp _ prev =>
      let pos := bs_head tp in
      let '(leftmost, rightmost) :=
        if (pos <? leftmost)%Z then (pos, rightmost)
        else if (rightmost <? pos)%Z then (leftmost, pos)
        else (leftmost, rightmost) in
      if (self_state =? st) && bs_aligns_with self_tape tp leftmost rightmost
      then true
      else match prev with
           | None => false
           | Some p => lin_rec_loop self_state self_tape p leftmost rightmost
           end
  end.

(** reason.rs:521-552 *)
Definition lin_rec (self : bw_config) : bool :=
  let head := bs_head (c_tape self) in
  match c_prev self with
  | None => false
  | Some p => lin_rec_loop (c_state self) (c_tape self) p head head
  end.

(** reason.rs:502-519 *)
Definition bw_config_descendant (st : state) (tp : backstepper) (prev : bw_config) : bw_config :=
  let cfg := mkBwConfig st tp (c_recs prev) (Some prev) in
  if lin_rec cfg then mkBwConfig st tp (c_recs prev + 1) (Some prev) else cfg.

(** ------------------------------------------------------------------ *)
(** reason.rs:69-74, 139 *)
Definition bw_configs := list bw_config.
Definition bw_blanks := list state.                       (* HashSet<State> *)
Definition bw_entry := (slot * (colour * shift))%type.
Definition bw_entries := list bw_entry.
Definition bw_entrypoints := list (state * (bw_entries * bw_entries)).   (* BTreeMap, sorted by state *)
Definition bw_validated_steps := list (list instr * bw_config).

Definition bw_blanks_contains (b : bw_blanks) (s : state) : bool := existsb (N.eqb s) b.
Definition bw_blanks_insert (b : bw_blanks) (s : state) : bw_blanks :=
  if bw_blanks_contains b s then b else b ++ [s].

Fixpoint ep_get (ep : bw_entrypoints) (k : state) : option (bw_entries * bw_entries) :=
  match ep with
  | [] => None
  | (k', v) :: ep' => if k' =? k then Some v else ep_get ep' k
  end.
Definition ep_contains_key (ep : bw_entrypoints) (k : state) : bool :=
  match ep_get ep k with Some _ => true | None => false end.

(** [entrypoints.entry(state).or_default()] followed by the push of
    reason.rs:333-334, on the sorted association list. *)
Definition ep_push_to (is_same : bool) (e : bw_entry) (v : bw_entries * bw_entries) : bw_entries * bw_entries :=
  if is_same then (fst v ++ [e], snd v) else (fst v, snd v ++ [e]).
Fixpoint ep_push (ep : bw_entrypoints) (k : state) (is_same : bool) (e : bw_entry) : bw_entrypoints :=
  match ep with
  | [] => [(k, ep_push_to is_same e ([], []))]
  | (k', v) :: ep' =>
      if k <? k' then (k, ep_push_to is_same e ([], [])) :: ep
      else if k =? k' then (k', ep_push_to is_same e v) :: ep'
      else (k', v) :: ep_push ep' k is_same e
  end.

(** reason.rs:327-338 *)
Definition get_entrypoints (comp : comp_prog) : bw_entrypoints :=
  fold_left (fun ep kv =>
               let '(sl, (color, sh, st)) := kv in
               ep_push ep st (fst sl =? st) (sl, (color, sh)))
            comp [].

(** instrs.rs:83-86 params(), and the counterfactual variant that also looks
    inside the instructions (switch [sw_fullparams]). *)
Definition cp_params_full (p : comp_prog) : N * N :=
  fold_left (fun acc kv =>
               let '((st, co), (pr, _, tr)) := kv in
               (N.max (N.max (fst acc) st) tr, N.max (N.max (snd acc) co) pr))
            p (0, 0).
Definition halt_slots_params (p : comp_prog) (params : N * N) : list slot :=
  let '(ms, mc) := params in
  flat_map (fun st => flat_map (fun co => if cp_mem p (st, co) then [] else [(st, co)])
                               (range 0 (mc + 1))) (range 0 (ms + 1)).
Definition halt_slots_sw (sw : bw_switches) (p : comp_prog) : list slot :=
  if sw_fullparams sw then halt_slots_params p (cp_params_full p) else halt_slots p.

(** reason.rs:297-302 *)
Definition halt_configs (sw : bw_switches) (comp : comp_prog) : bw_configs :=
  map (fun sl : slot => bw_config_init_halt (fst sl) (snd sl)) (halt_slots_sw sw comp).
(** reason.rs:304-309 *)
Definition erase_configs (comp : comp_prog) : bw_configs :=
  map (fun sl : slot => bw_config_init_blank (fst sl) (snd sl)) (erase_slots comp).
(** reason.rs:311-316 *)
Definition zero_reflexive_configs (comp : comp_prog) : bw_configs :=
  map (fun ss : state * shift => bw_config_init_spinout (fst ss) (snd ss)) (zr_shifts comp).

(** reason.rs:318-323 *)
Definition get_blanks (cfgs : bw_configs) : bw_blanks :=
  fold_left (fun b cfg => if bs_blank (c_tape cfg) then bw_blanks_insert b (c_state cfg) else b)
            cfgs [].

(** ------------------------------------------------------------------ *)
(** The loop of reason.rs:226-232 (also 157-163): entries that pass
    [check_step], as steps. *)
Definition checked_steps (tp : backstepper) (es : bw_entries) (steps : list instr) : list instr :=
  fold_left (fun steps (e : bw_entry) =>
               let '((st, co), (pr, sh)) := e in
               if negb (check_step tp sh pr) then steps
               else steps ++ [(co, sh, st)])
            es steps.

(** reason.rs:204-214: one pass over one of [diff, same] *)
Definition indef_filter (cfg : bw_config) (push : shift) (es : bw_entries) (acc : bw_entries) : bw_entries :=
  fold_left (fun acc (e : bw_entry) =>
               let '((st, co), (_, sh)) := e in
               if (st =? c_state cfg) && Bool.eqb sh push && (bs_scan (c_tape cfg) =? co)
               then acc
               else acc ++ [e])
            es acc.

(** reason.rs:194-244 *)
Definition get_indef (push : shift) (cfg : bw_config) (diff same : bw_entries)
  : option (list instr * bw_config) :=
  let checked_entries := indef_filter cfg push same (indef_filter cfg push diff []) in
  match checked_entries with
  | [] => None
  | _ :: _ =>
      let tp := push_indef (c_tape cfg) push in
      let steps := checked_steps tp checked_entries [] in
      match steps with
      | [] => None
      | _ :: _ => Some (steps, bw_config_new (c_state cfg) tp)
      end
  end.

(** reason.rs:165-182: the loop over [same]; loop state = (steps, checked) *)
Definition same_loop (sw : bw_switches) (cfg : bw_config) (diff same : bw_entries)
           (sc : list instr * bw_validated_steps) : list instr * bw_validated_steps :=
  let tp := c_tape cfg in
  fold_left (fun (sc : list instr * bw_validated_steps) (e : bw_entry) =>
               let '(steps, checked) := sc in
               let '((st, co), (pr, sh)) := e in
               if negb (check_step tp sh pr) then sc
               else match check_spinout tp sh co with
                    | None => (steps ++ [(co, sh, st)], checked)
                    | Some keep =>
                        if negb keep
                        then (if sw_nodrop sw then (steps ++ [(co, sh, st)], checked) else sc)
                        else match get_indef sh cfg diff same with
                             | Some indef => (steps, checked ++ [indef])
                             | None => sc
                             end
                    end)
            same sc.

(** reason.rs:147-189: body of the [for config in configs.drain(..)] loop *)
Definition valid_steps_body (sw : bw_switches) (ep : bw_entrypoints)
           (checked : bw_validated_steps) (cfg : bw_config) : outcome bw_validated_steps :=
  match ep_get ep (c_state cfg) with
  | None => if c_state cfg =? 0 then Ok checked else Panic      (* reason.rs:153 *)
  | Some (same, diff) =>
      let steps := checked_steps (c_tape cfg) diff [] in
      let '(steps, checked) := same_loop sw cfg diff same (steps, checked) in
      match steps with
      | [] => Ok checked
      | _ :: _ => Ok (checked ++ [(steps, cfg)])
      end
  end.

(** reason.rs:141-192 *)
Fixpoint get_valid_steps_loop (sw : bw_switches) (ep : bw_entrypoints)
         (cfgs : bw_configs) (checked : bw_validated_steps) : outcome bw_validated_steps :=
  match cfgs with
  | [] => Ok checked
  | cfg :: rest =>
      match valid_steps_body sw ep checked cfg with
      | Panic => Panic
      | Ok checked' => get_valid_steps_loop sw ep rest checked'
      end
  end.
Definition get_valid_steps (sw : bw_switches) (cfgs : bw_configs) (ep : bw_entrypoints)
  : outcome bw_validated_steps :=
  get_valid_steps_loop sw ep cfgs [].

(** reason.rs:265-289: the loop over the non-indef instrs of one config.
    [inr r] = [return Err(r)]. *)
Fixpoint step_instrs (cfg : bw_config) (instrs : list instr)
         (stepped : bw_configs) (bl : bw_blanks) : (bw_configs * bw_blanks) + backward_result :=
  match instrs with
  | [] => inl (stepped, bl)
  | (color, sh, st) :: rest =>
      let tp := backstep (c_tape cfg) sh color in
      let blank_tape := bs_blank tp in
      if blank_tape && (st =? 0) then inr BwInit
      else if blank_tape && bw_blanks_contains bl st then step_instrs cfg rest stepped bl
      else
        let bl' := if blank_tape then bw_blanks_insert bl st else bl in
        let next_config := bw_config_descendant st tp cfg in
        if BW_MAX_RECS <? c_recs next_config then inr BwLinRec
        else step_instrs cfg rest (stepped ++ [next_config]) bl'
  end.

(** reason.rs:254-290: the outer loop *)
Fixpoint step_configs_loop (vs : bw_validated_steps) (stepped : bw_configs)
         (indef_steps : bw_validated_steps) (bl : bw_blanks)
  : (bw_configs * bw_validated_steps * bw_blanks) + backward_result :=
  match vs with
  | [] => inl (stepped, indef_steps, bl)
  | (instrs, cfg) :: rest =>
      let '(pulls, instrs') :=
        partition (fun i : instr => pulls_indef (c_tape cfg) (snd (fst i))) instrs in
      let indef_steps' :=
        match pulls with [] => indef_steps | _ :: _ => indef_steps ++ [(pulls, cfg)] end in
      match step_instrs cfg instrs' stepped bl with
      | inr r => inr r
      | inl (stepped', bl') => step_configs_loop rest stepped' indef_steps' bl'
      end
  end.

(** reason.rs:246-293; the [&mut Blanks] is threaded through the result *)
Definition step_configs (vs : bw_validated_steps) (bl : bw_blanks)
  : (bw_configs * bw_validated_steps * bw_blanks) + backward_result :=
  step_configs_loop vs [] [] bl.

(** ------------------------------------------------------------------ *)
(** Loop state of reason.rs:99-134 *)
Record bw_reach_state := mkCR {
  cr_step : N; cr_configs : bw_configs; cr_blanks : bw_blanks; cr_indef_steps : bw_validated_steps }.

(** reason.rs:99-134: one iteration of [for step in 0..depth] *)
Definition cant_reach_body (sw : bw_switches) (ep : bw_entrypoints) (s : bw_reach_state)
  : bw_reach_state + outcome backward_result :=
  match get_valid_steps sw (cr_configs s) ep with
  | Panic => inr Panic
  | Ok valid_steps =>
      let n := N.of_nat (length valid_steps) in
      if n =? 0 then
        match cr_indef_steps s with
        | _ :: _ => inr (Ok BwSpinout)
        | [] => inr (Ok (BwRefuted (cr_step s)))
        end
      else if BW_MAX_STACK_DEPTH <? n then inr (Ok BwDepthLimit)
      else
        match step_configs valid_steps (cr_blanks s) with
        | inr err => inr (Ok err)
        | inl (cfgs, indefs, bl) =>
            let indef_steps := cr_indef_steps s ++ indefs in
            if BW_MAX_STACK_DEPTH <? N.of_nat (length indef_steps) then inr (Ok BwDepthLimit)
            else inl (mkCR (cr_step s + 1) cfgs bl indef_steps)
        end
  end.

(** reason.rs:76-137 *)
Definition cant_reach (sw : bw_switches) (comp : comp_prog) (depth : N)
           (get_configs : comp_prog -> bw_configs) : outcome backward_result :=
  let cfgs := get_configs comp in
  match cfgs with
  | [] => Ok (BwRefuted 0)
  | _ :: _ =>
      let ep := get_entrypoints comp in
      let cfgs := filter (fun cfg => ep_contains_key ep (c_state cfg)) cfgs in
      match cfgs with
      | [] => Ok (BwRefuted 0)
      | _ :: _ =>
          let bl := get_blanks cfgs in
          match for_upto depth (cant_reach_body sw ep) (mkCR 0 cfgs bl []) with
          | inr r => r
          | inl _ => Ok BwStepLimit
          end
      end
  end.

(** reason.rs:54-64 *)
Definition cant_halt_sw (sw : bw_switches) (comp : comp_prog) (depth : N) : outcome backward_result :=
  cant_reach sw comp depth (halt_configs sw).
Definition cant_blank_sw (sw : bw_switches) (comp : comp_prog) (depth : N) : outcome backward_result :=
  cant_reach sw comp depth erase_configs.
Definition cant_spin_out_sw (sw : bw_switches) (comp : comp_prog) (depth : N) : outcome backward_result :=
  cant_reach sw comp depth zero_reflexive_configs.

Definition cant_halt := cant_halt_sw bw_faithful.
Definition cant_blank := cant_blank_sw bw_faithful.
Definition cant_spin_out := cant_spin_out_sw bw_faithful.
