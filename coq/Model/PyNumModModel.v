(** PyNumModModel: executable transcription of the MODULAR machinery of
    /repo/tm/num.py (line numbers refer to that file):

      Add.__mod__  199-203      Mul.__mod__  414-424      Div.__mod__  696-710
      Exp.__mod__  877-955      find_period  1344-1361    exp_mod_special_cases 1364-2250
      Num.depth (for the ModDepthLimit test)  168, 369, 675, 839-845
      the int branches of Add/Mul/Div/Exp.__lt__ (294-305, 328-338, 588-589,
        795-796, 1135-1136) -- they decide `assert 1 < exp` (893) when the
        exponent is itself symbolic.

    Definitions only.  Python ints are [Z].  A Python exception is an
    explicit [MRaise] outcome carrying the class; quirks are kept as they are
    (the assert at 893 comes after the early returns; `x < int` never looks
    at the int; the loop at 944 stops when the accumulator is 0; ...).

    NOT modelled (inputs reaching these return [MUnmodelled], which the
    correspondence check counts and skips instead of comparing):
      * a modulus <= 0, a Div denominator <= 0 (Div.__init__ asserts den > 0,
        no such object exists);
      * the float tests of lines 922 (log2) and 1346 / 1365 (log base 3) for
        moduli that are not far below 2^53, where float rounding could make
        them differ from the exact tests "m is a power of two" / "m = 2*3^k"
        used here (guards [float_ok_log2], [float_ok_log3]);
      * [Tet] (no constructor of [nexpr]).
    Everything else that `%` can reach is transcribed.  The simplifier
    (+ - * // ** and the comparisons between two symbolic operands) is not
    modelled at all: see Properties/C18.v. *)
From BB Require Export Base NumExpr PyNumModTables.
Open Scope Z_scope.

(** Python exception classes that `%` can raise *)
Inductive pyexc :=
| PxAssertionError | PxNotImplementedError | PxExpModLimit | PxModDepthLimit | PxPeriodLimit.

Inductive mres (A : Type) := MVal (a : A) | MRaise (x : pyexc) | MUnmodelled.
Arguments MVal {A} a.
Arguments MRaise {A} x.
Arguments MUnmodelled {A}.

Definition mbind {A B} (r : mres A) (f : A -> mres B) : mres B :=
  match r with
  | MVal a => f a
  | MRaise x => MRaise x
  | MUnmodelled => MUnmodelled
  end.

(** [Num.depth]: Add 168, Mul 369: [1 + r.depth]; Div 675: [1 + num.depth];
    Exp 839-845: 1 for an int exponent, else [1 + exp.depth].  An int has
    no depth; [NInt] in a Num position does not occur in real objects. *)
Fixpoint pn_depth (e : nexpr) : Z :=
  match e with
  | NInt _ => 0
  | NAdd _ r => 1 + pn_depth r
  | NMul _ r => 1 + pn_depth r
  | NDiv num _ => 1 + pn_depth num
  | NExp _ (NInt _) => 1
  | NExp _ x => 1 + pn_depth x
  end.

(** [x.__lt__(k)] for a symbolic [x] and an int [k]: the answer never
    depends on [k] ([Some true] = True, [None] = NotImplementedError).
      Exp 1135-1136: False.
      Mul 588-589:   [return l < 0]   (l an int: a real comparison with 0)
      Div 795-796:   [return self.num < 0]
      Add 297-305:   l an int: [return r < 0]; otherwise
                     [if l < 0 and r < 0: return True]
                     [if 0 < l and 0 < r: return False]   where [0 < l] is
                     [Num.__gt__] 106-107 = [l != 0 and not l < 0];
                     then 328 [other == r] and 335 [other == l] are False for
                     an int against a Num (identity equality, 72-73), and 338
                     raises NotImplementedError. *)
Fixpoint pn_lt_int (e : nexpr) : option bool :=
  match e with
  | NInt z => Some (z <? 0)
  | NExp _ _ => Some false
  | NMul l _ => pn_lt_int l
  | NDiv num _ => pn_lt_int num
  | NAdd (NInt _) r => pn_lt_int r
  | NAdd l r =>
      match pn_lt_int l with
      | None => None
      | Some true =>            (* 301: l < 0 holds, evaluate r < 0 *)
          match pn_lt_int r with
          | Some true => Some true
          | Some false => None  (* 304: 0 < l is False; falls to 338 *)
          | None => None
          end
      | Some false =>           (* 301 short-circuits; 304: 0 < l holds, evaluate 0 < r *)
          match pn_lt_int r with
          | Some false => Some false
          | Some true => None
          | None => None
          end
      end
  end.

(** ------------------------------------------------------------------
    find_period (1344-1361) *)

(** float guards: below these bounds the float tests coincide with the
    exact integer tests (log2 of an int < 2^40 is integral only for powers
    of two; round(log(m/2, 3)) = k for m = 2*3^k < 2^53, and for any other m
    the comparison [mod == 2 * 3 ** round(..)] is an exact int comparison
    that fails whatever was rounded) *)
Definition float_ok_log2 (m : Z) : bool := m <? 2 ^ 40.
Definition float_ok_log3 (m : Z) : bool := m <? 2 ^ 53.

(** [n] is a power of 3 (n >= 1); 40 steps suffice below 2^53 *)
Fixpoint pn_pow3b (fuel : nat) (n : Z) : bool :=
  match fuel with
  | O => false
  | S f => if n =? 1 then true
           else if n mod 3 =? 0 then pn_pow3b f (n / 3) else false
  end.
(** [mod == 2 * (3 ** round(log(mod / 2, 3)))]  (1346, 1365) *)
Definition is_2x3pow (m : Z) : bool := (m mod 2 =? 0) && pn_pow3b 40 (m / 2).

(** [m] is 2^j: returns j  (922: [int(log_mod := log2(mod)) == log_mod]) *)
Definition pn_log2_exact (m : Z) : option Z :=
  if (0 <? m) && (2 ^ Z.log2 m =? m) then Some (Z.log2 m) else None.

(** 1354-1359: [for period in range(1, mod): val *= base; val %= mod;
    if val == 1: return period] -- state (val, period) *)
Definition fp_body (base m : Z) (s : Z * Z) : (Z * Z) + Z :=
  let '(val, period) := s in
  let val' := (val * base) mod m in
  if val' =? 1 then inr period else inl (val', period + 1).

Definition find_period (base m : Z) : mres Z :=
  if (base =? 2) && negb (float_ok_log3 m) then MUnmodelled else
  if (base =? 2) && is_2x3pow m then MVal 0 else                 (** 1346-1347 *)
  if 2 ^ 24 <=? m then MRaise PxPeriodLimit else                 (** 1351-1352 *)
  match for_upto (Z.to_N (m - 1)) (fp_body base m) (1, 1) with   (** 1349, 1354 *)
  | inr p => MVal p                                              (** 1358-1359 *)
  | inl _ => MVal 0                                              (** 1361 *)
  end.

(** ------------------------------------------------------------------
    the generic loop of Exp.__mod__ (942-955)

      res = 1
      loop: if exp <= 0 or res <= 0: break
            if exp % 2 == 1: res = (res * base) % mod
            exp //= 2
            base = (base ** 2) % mod
      return res

    structural on the binary digits of the (positive) exponent, which is
    exactly what [exp % 2] / [exp //= 2] walk through *)
Fixpoint binexp_pos (p : positive) (res base m : Z) : Z :=
  if res <=? 0 then res else                                      (** 945 *)
  match p with
  | xH => (res * base) mod m                                      (** 948-949; then exp = 0: 945 *)
  | xO q => binexp_pos q res ((base ^ 2) mod m) m                 (** 951, 953 *)
  | xI q => binexp_pos q ((res * base) mod m) ((base ^ 2) mod m) m
  end.
Definition binexp (exp base m : Z) : Z :=
  match exp with
  | Zpos p => binexp_pos p 1 base m
  | _ => 1                                                         (** 945 at once *)
  end.

(** ------------------------------------------------------------------
    Exp.__mod__ (877-955).  The local variable [exp] is either a Python int
    or still the symbolic [self.exp]; [emod k] stands for [self.exp % k]. *)
Inductive pexp := PInt (z : Z) | PSym.

(** [exp % k] *)
Definition exp_rem (emod : Z -> mres Z) (x : pexp) (k : Z) : mres Z :=
  match x with
  | PInt z => MVal (z mod k)
  | PSym => emod k
  end.
(** [exp %= k] *)
Definition exp_reduce (emod : Z -> mres Z) (x : pexp) (k : Z) : mres pexp :=
  mbind (exp_rem emod x k) (fun v => MVal (PInt v)).

Fixpoint pn_assoc (k : Z) (l : list (Z * Z)) : option Z :=
  match l with
  | [] => None
  | (k', v) :: t => if k =? k' then Some v else pn_assoc k t
  end.
Fixpoint pn_table (m : Z) (l : list (Z * list (Z * Z))) : option (list (Z * Z)) :=
  match l with
  | [] => None
  | (m', t) :: r => if m =? m' then Some t else pn_table m r
  end.

(** exp_mod_special_cases (1364-2250), called with a symbolic exponent only *)
Definition exp_mod_special_cases (m base : Z) (emod : Z -> mres Z) : mres Z :=
  if negb (base =? 2) then MRaise PxExpModLimit else               (** 1365-1367 *)
  if negb (float_ok_log3 m) then MUnmodelled else
  if negb (is_2x3pow m) then MRaise PxExpModLimit else             (** 1365-1367 *)
  mbind (emod (m / 3)) (fun period =>                              (** 1369 *)
  match pn_table m special_tables with                             (** 1371 *)
  | None => MRaise PxExpModLimit                                   (** 2244-2245 *)
  | Some values =>
      match pn_assoc period values with                            (** 2247-2250 *)
      | Some v => MVal v
      | None => MRaise PxExpModLimit
      end
  end).

(** the hard-coded residues (895-931): [inl v] = return v; [inr x] = go on
    with the (possibly reduced) exponent x *)
Definition exp_mod_hard (base m : Z) (x : pexp) (emod : Z -> mres Z) : mres (Z + pexp) :=
  if base =? 2 then                                                (** 896 *)
    if m =? 4 then MVal (inl 0)                                    (** 898-899 *)
    else if m =? 6 then                                            (** 901-902 *)
      mbind (exp_rem emod x 2) (fun p => MVal (inl (if p =? 0 then 4 else 2)))
    else if m =? 12 then                                           (** 904-905 *)
      mbind (exp_rem emod x 2) (fun p => MVal (inl (if p =? 0 then 4 else 8)))
    else if m =? 30 then                                           (** 907-916 *)
      mbind (exp_rem emod x 4) (fun p =>
        if p =? 3 then MVal (inl 8)
        else if p =? 0 then MVal (inl 16)
        else if p =? 1 then MVal (inl 2)
        else if p =? 2 then MVal (inl 4)
        else MVal (inr x))
    else MVal (inr x)
  else if base =? 3 then                                           (** 918 *)
    if m =? 6 then MVal (inl 3)                                    (** 919-920 *)
    else if negb (float_ok_log2 m) then MUnmodelled
    else match pn_log2_exact m with                                (** 922 *)
         | Some j =>                                               (** 923 *)
             mbind (exp_reduce emod x (2 ^ Z.max (j - 2) 1)) (fun x' => MVal (inr x'))
         | None => MVal (inr x)
         end
  else if base =? 6 then                                           (** 925 *)
    if m =? 10 then MVal (inl 6) else MVal (inr x)                 (** 926-927 *)
  else if base =? 7 then                                           (** 929 *)
    if m =? 12 then                                                (** 930-931 *)
      mbind (exp_rem emod x 2) (fun p => MVal (inl (if p =? 0 then 1 else 7)))
    else MVal (inr x)
  else MVal (inr x).

(** 933-955 *)
Definition exp_mod_tail (base m : Z) (x : pexp) (emod : Z -> mres Z) : mres Z :=
  mbind (find_period base m) (fun period =>                        (** 933 *)
  mbind (if 0 <? period then exp_reduce emod x period else MVal x) (fun x' =>   (** 933-934 *)
  match x' with
  | PInt z => if z =? 0 then MVal 1                                (** 936-937 *)
              else MVal (binexp z base m)                          (** 942-955 *)
  | PSym => exp_mod_special_cases m base emod                      (** 939-940 *)
  end)).

(** [lt1] is the outcome of [self.exp.__lt__(1)] for a symbolic exponent *)
Definition exp_mod (base m : Z) (x0 : pexp) (emod : Z -> mres Z) (lt1 : option bool) : mres Z :=
  if m =? 1 then MVal 0 else                                       (** 878-879 *)
  if m =? base then MVal 0 else                                    (** 883-884 *)
  if m =? 2 then MVal (base mod 2) else                            (** 886-887 *)
  if base mod m =? 0 then MRaise PxAssertionError else             (** 889 *)
  mbind (match x0 with                                             (** 893: assert 1 < exp *)
         | PInt z => MVal (1 <? z)
         | PSym => match lt1 with                                  (** Num.__gt__ 106-107 *)
                   | Some b => MVal (negb b)
                   | None => MRaise PxNotImplementedError
                   end
         end) (fun ok =>
  if negb ok then MRaise PxAssertionError else
  mbind (exp_mod_hard base m x0 emod) (fun h =>
  match h with
  | inl v => MVal v
  | inr x => exp_mod_tail base m x emod
  end)).

(** ------------------------------------------------------------------
    [e % m] for m > 0 *)
Fixpoint mod_model (e : nexpr) (m : Z) : mres Z :=
  match e with
  | NInt z => MVal (z mod m)                                       (** int % int *)
  | NAdd l r =>
      if m =? 1 then MVal 0 else                                   (** 200-201 *)
      mbind (mod_model l m) (fun a =>                              (** 203 *)
      mbind (mod_model r m) (fun b =>
      MVal ((a + b) mod m)))
  | NMul l r =>
      if m =? 1 then MVal 0 else                                   (** 415-416 *)
      mbind (mod_model l m) (fun a =>                              (** 418-419 *)
      if a =? 0 then MVal 0 else
      mbind (mod_model r m) (fun b =>                              (** 421-422 *)
      if b =? 0 then MVal 0 else
      MVal ((a * b) mod m)))                                       (** 424 *)
  | NDiv num den =>
      if den <=? 0 then MUnmodelled else
      if m =? 1 then MVal 0 else                                   (** 697-698 *)
      if 200 <? pn_depth num then MRaise PxModDepthLimit else      (** 700-702 *)
      mbind (mod_model num (m * den)) (fun r =>                    (** 704-706 *)
      if r mod den =? 0 then MVal ((r / den) mod m)                (** 708, 710 *)
      else MRaise PxAssertionError)
  | NExp base x =>
      exp_mod base m
        (match x with NInt z => PInt z | _ => PSym end)
        (fun k => mod_model x k)
        (pn_lt_int x)
  end.

(** entry point of the correspondence check *)
Definition mod_top (e : nexpr) (m : Z) : mres Z :=
  if m <=? 0 then MUnmodelled else mod_model e m.

(** ------------------------------------------------------------------
    HISTORY: the two repaired defects, kept as the pre-fix definitions.
    F5  (c18cf10): line 912 was [return 15].
    F5b (8f2bf3a): line 923 was [exp %= int(2 ** (int(log_mod) - 2))]. *)
Definition exp_mod_hard_prefix (base m : Z) (x : pexp) (emod : Z -> mres Z) : mres (Z + pexp) :=
  if (base =? 2) && (m =? 30) then
    mbind (exp_rem emod x 4) (fun p =>
      if p =? 3 then MVal (inl 8)
      else if p =? 0 then MVal (inl 15)                            (* pre-c18cf10 *)
      else if p =? 1 then MVal (inl 2)
      else if p =? 2 then MVal (inl 4)
      else MVal (inr x))
  else if (base =? 3) && negb (m =? 6) && float_ok_log2 m then
    match pn_log2_exact m with
    | Some j => mbind (exp_reduce emod x (2 ^ (j - 2))) (fun x' => MVal (inr x'))   (* pre-8f2bf3a *)
    | None => MVal (inr x)
    end
  else exp_mod_hard base m x emod.

Definition exp_mod_prefix (base m : Z) (x0 : pexp) (emod : Z -> mres Z) (lt1 : option bool) : mres Z :=
  if m =? 1 then MVal 0 else
  if m =? base then MVal 0 else
  if m =? 2 then MVal (base mod 2) else
  if base mod m =? 0 then MRaise PxAssertionError else
  mbind (match x0 with
         | PInt z => MVal (1 <? z)
         | PSym => match lt1 with
                   | Some b => MVal (negb b)
                   | None => MRaise PxNotImplementedError
                   end
         end) (fun ok =>
  if negb ok then MRaise PxAssertionError else
  mbind (exp_mod_hard_prefix base m x0 emod) (fun h =>
  match h with
  | inl v => MVal v
  | inr x => exp_mod_tail base m x emod
  end)).

Fixpoint mod_model_prefix (e : nexpr) (m : Z) : mres Z :=
  match e with
  | NInt z => MVal (z mod m)
  | NAdd l r =>
      if m =? 1 then MVal 0 else
      mbind (mod_model_prefix l m) (fun a =>
      mbind (mod_model_prefix r m) (fun b =>
      MVal ((a + b) mod m)))
  | NMul l r =>
      if m =? 1 then MVal 0 else
      mbind (mod_model_prefix l m) (fun a =>
      if a =? 0 then MVal 0 else
      mbind (mod_model_prefix r m) (fun b =>
      if b =? 0 then MVal 0 else
      MVal ((a * b) mod m)))
  | NDiv num den =>
      if den <=? 0 then MUnmodelled else
      if m =? 1 then MVal 0 else
      if 200 <? pn_depth num then MRaise PxModDepthLimit else
      mbind (mod_model_prefix num (m * den)) (fun r =>
      if r mod den =? 0 then MVal ((r / den) mod m)
      else MRaise PxAssertionError)
  | NExp base x =>
      exp_mod_prefix base m
        (match x with NInt z => PInt z | _ => PSym end)
        (fun k => mod_model_prefix x k)
        (pn_lt_int x)
  end.
