(** Model of tm/tape.py: the compressed-tape step [Tape.step] and the
    observers of class [Tape] that the C17 comparison reads.

    Value semantics.  The Python class keeps two lists of mutable [Block]
    objects; [step] pops, mutates and re-inserts those objects (a block popped
    from the pull side is re-used as the block pushed on the other side).
    Nothing outside [step] keeps a reference to a block of a live tape
    ([Tape.clone] copies every block), so the object identity is not
    observable through the tape and the model tracks VALUES only: a block is
    [(colour, count)], the re-used object [push_block] is an [option block].

    Orientation.  tape.py stores both spans NEAREST BLOCK FIRST ([pull[0]],
    [push[0]], [pull.pop(0)], [push.insert(0, _)]; [__str__] reverses
    [lspan]), exactly as tape.rs / TapeModel does, so the common
    representation is TapeModel's [tape] record itself; no conversion.

    Counts.  Python counts are unbounded ints; the model uses [N].  The only
    place where a Python count could leave [N] is [next_pull.count -= 1]
    (tape.py:184) executed on a count 0 (Python: -1; here: [0 - 1 = 0]); no
    tape reachable from the blank tape has a zero count (C12), every
    correspondence case has counts >= 1, and the agreement theorem carries
    that hypothesis explicitly.  Symbolic counts ([Add]/[Mul]/[Exp] objects
    of tm/num.py) are not modelled. *)
From BB Require Export Base TapeModel.

(** tape.py:161-205  [def step(self, shift, color, skip) -> Count] *)
Definition py_step (t : tape) (shift : shift) (color : colour) (skip : bool) : tape * N :=
  (** tape.py:162-166  pull, push = (rspan, lspan) if shift else (lspan, rspan) *)
  let '(pull0, push0) :=
    if shift then (rspan t, lspan t) else (lspan t, rspan t) in
  (** tape.py:168-172  push_block = pull.pop(0)
                       if skip and pull and pull[0].color == self.scan else None *)
  let '(push_block1, pull1) :=
    match pull0 with
    | b :: rest => if skip && (fst b =? scan t) then (Some b, rest) else (None, pull0)
    | [] => (None, pull0)
    end in
  (** tape.py:174  stepped = 1 if push_block is None else 1 + push_block.count *)
  let stepped := match push_block1 with None => 1 | Some b => 1 + snd b end in
  (** tape.py:178-190 *)
  let '(next_scan, pull2, push_block2) :=
    match pull1 with
    | [] =>
        (** tape.py:178-179  if not pull: next_scan = 0 *)
        (0, pull1, push_block1)
    | next_pull :: rest =>
        (** tape.py:181  next_scan = (next_pull := pull[0]).color *)
        let next_scan := fst next_pull in
        (** tape.py:183-184  if next_pull.count != 1: next_pull.count -= 1 *)
        if negb (snd next_pull =? 1)
        then (next_scan, (fst next_pull, snd next_pull - 1) :: rest, push_block1)
        else
          (** tape.py:186  popped = pull.pop(0) *)
          match push_block1 with
          | None =>
              (** tape.py:188-190  push_block = popped; push_block.count = 0 *)
              (next_scan, rest, Some (fst next_pull, 0))
          | Some _ => (next_scan, rest, push_block1)
          end
    end in
  (** tape.py:192-201 *)
  let push1 :=
    match push0 with
    | top_block :: prest =>
        (** tape.py:192-193  if push and (top_block := push[0]).color == color:
                                 top_block.count += stepped *)
        if fst top_block =? color
        then (fst top_block, snd top_block + stepped) :: prest
        else
          (** tape.py:194 (push non-empty) 195-201 *)
          (match push_block2 with
           | None => (color, 1)                       (** Block(color, 1) *)
           | Some b => (color, snd b + 1)             (** .color = color; .count += 1 *)
           end) :: push0
    | [] =>
        (** tape.py:194  elif push or color != 0 *)
        if negb (color =? 0)
        then [match push_block2 with
              | None => (color, 1)
              | Some b => (color, snd b + 1)
              end]
        else []
    end in
  (** tape.py:203-205  self.scan = next_scan; return stepped *)
  (if shift then mkTape next_scan push1 pull2 else mkTape next_scan pull2 push1, stepped).

(** ---- observers ---- *)

(** tape.py:80-82  blank *)
Definition py_blank (t : tape) : bool :=
  (scan t =? 0)
  && (match lspan t with [] => true | _ => false end)
  && (match rspan t with [] => true | _ => false end).

(** tape.py:84-93  marks: sum(blk.count for blk in span if blk.color != 0) *)
Definition py_span_marks (s : span) : N :=
  fold_left (fun acc b => if negb (fst b =? 0) then acc + snd b else acc) s 0.
Definition py_marks (t : tape) : N :=
  (if negb (scan t =? 0) then 1 else 0) + py_span_marks (lspan t) + py_span_marks (rspan t).

(** tape.py:95-99  at_edge *)
Definition py_at_edge (t : tape) (edge : shift) : bool :=
  (scan t =? 0)
  && (match (if edge then rspan t else lspan t) with [] => true | _ => false end).

(** tape.py:101-103  span_lens *)
Definition py_span_lens (t : tape) : N * N :=
  (N.of_nat (length (lspan t)), N.of_nat (length (rspan t))).

(** tape.py:105-110  counts *)
Definition py_counts (t : tape) : list N * list N :=
  (map (fun b => snd b) (lspan t), map (fun b => snd b) (rspan t)).

(** tape.py:112-122  signature: [block.color if block.count != 1 else (block.color,)];
    the bare colour is TapeModel's [Mult c], the 1-tuple is [Just c]. *)
Definition py_block_sig (b : block) : colorcount :=
  if negb (snd b =? 1) then Mult (fst b) else Just (fst b).
Definition py_signature (t : tape) : signature :=
  mkSig (scan t) (map py_block_sig (lspan t)) (map py_block_sig (rspan t)).

(** tape.py:138-159  sig_compatible.  NOTE the span lengths must be EQUAL
    here ([len(self.lspan) == len(lspan)], and [zip(.., strict = True)]),
    whereas tape.rs:358-367 asks for [>=]: see PyRsAgree.py_sig_compatible_*. *)
Fixpoint py_zip_all (s : span) (g : sigspan) : bool :=
  match s, g with
  | b :: s', c :: g' => (fst b =? cc_color c) && py_zip_all s' g'
  | _, _ => true
  end.
Definition py_sig_compatible (t : tape) (g : signature) : bool :=
  (scan t =? sig_scan g)
  && (length (lspan t) =? length (sig_l g))%nat
  && (length (rspan t) =? length (sig_r g))%nat
  && py_zip_all (firstn (length (sig_l g)) (lspan t)) (sig_l g)
  && py_zip_all (firstn (length (sig_r g)) (rspan t)) (sig_r g).

(** tape.py:33-40, 71-78  __str__.  [show_number] (tm/num.py:2258) prints an
    int below 10^12 in full; from 10^12 on it prints "(~10^k)" with a
    floating-point logarithm, which is not modelled: [py_show_block] returns
    the colour followed by "^?" there, and the comparison never reads the
    display of such a tape. *)
Definition py_truncate_count : N := 1000000000000.
Definition py_show_block (b : block) : list N :=
  let '(c, n) := b in
  if n =? 1 then show_N c
  else if n <? py_truncate_count then show_N c ++ [94] ++ show_N n
  else show_N c ++ [94; 63].
Definition py_show_tape (t : tape) : list N :=
  join_sp (map py_show_block (rev (lspan t))
           ++ [[91] ++ show_N (scan t) ++ [93]]
           ++ map py_show_block (rspan t)).
