(** A checker (not a model of /repo code): replays the C01-verified
    compressed simulator from one configuration until it meets another.
    Used to validate individual rule applications (C03) and macro steps. *)
From BB Require Export Base TapeModel InstrsModel.

Definition replay_body (comp : comp_prog) (tq : state) (tt : tape) (s : state * tape * N)
  : (state * tape * N) + bool :=
  let '(q, t, n) := s in
  if (0 <? n) && (q =? tq) && tape_eqb t tt then inr true else
  match cp_get comp (q, scan t) with
  | None => inr false
  | Some (color, sh, q') =>
      let same := q =? q' in
      if same && at_edge t sh then inr false
      else inl (q', fst (step t sh color same), n + 1)
  end.

(** true: (tq, tt) is reached from (q, t) after at least one and at most
    [fuel] cycles, with no halt and no spin-out test firing on the way *)
Definition replay (comp : comp_prog) (q : state) (t : tape) (tq : state) (tt : tape) (fuel : N) : bool :=
  match for_upto fuel (replay_body comp tq tt) (q, t, 0) with
  | inr b => b
  | inl _ => false
  end.

(** Three-valued variant for the checks: tells a definite failure (the
    machine halts or spins out before meeting the target) from an exhausted
    budget. *)
Inductive replay_res := RpReached (cycles : N) | RpStopped (cycles : N) | RpFuel.

Definition replay3_body (comp : comp_prog) (tq : state) (tt : tape) (s : state * tape * N)
  : (state * tape * N) + replay_res :=
  let '(q, t, n) := s in
  if (0 <? n) && (q =? tq) && tape_eqb t tt then inr (RpReached n) else
  match cp_get comp (q, scan t) with
  | None => inr (RpStopped n)
  | Some (color, sh, q') =>
      let same := q =? q' in
      if same && at_edge t sh then inr (RpStopped n)
      else inl (q', fst (step t sh color same), n + 1)
  end.

Definition replay3 (comp : comp_prog) (q : state) (t : tape) (tq : state) (tt : tape) (fuel : N) : replay_res :=
  match for_upto fuel (replay3_body comp tq tt) (q, t, 0) with
  | inr r => r
  | inl _ => RpFuel
  end.
