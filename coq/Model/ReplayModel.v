(** A checker (not a model of /repo code): replays the C01-verified
    compressed simulator from one configuration until it meets another.
    Used to validate individual rule applications (C03) and macro steps. *)
From BB Require Export Base TapeModel InstrsModel.

Definition replay_body (comp : comp_prog) (tq : state) (tt : tape) (s : state * tape * N)
  : (state * tape * N) + bool :=
  let '(q, t, n) := s in
  if (0 <? n) && (q =? tq) && tape_eqb t tt then inr true else
  match cp_get comp (q, scan t) with
  | None => inr false
  | Some (color, sh, q') =>
      let same := q =? q' in
      if same && at_edge t sh then inr false
      else inl (q', fst (step t sh color same), n + 1)
  end.

(** true: (tq, tt) is reached from (q, t) after at least one and at most
    [fuel] cycles, with no halt and no spin-out test firing on the way *)
Definition replay (comp : comp_prog) (q : state) (t : tape) (tq : state) (tt : tape) (fuel : N) : bool :=
  match for_upto fuel (replay_body comp tq tt) (q, t, 0) with
  | inr b => b
  | inl _ => false
  end.
