(** Model of tm/machine.py: [Machine.run] (machine.py:162-250) for a plain
    program ([Machine(prog)] without macro options: [make_macro] returns
    [tcompile(prog)], the dict built by the Rust [CompProg::from_str], i.e.
    InstrsModel's [comp_prog]), with [watch_tape = False].

    Restricted as PyProverModel is: plain int counts, additive rules; where
    Python would leave that fragment the outcome is [PyOutside].  In the
    fragment [RuleLimit] / [NotImplementedError] (raised only by the symbolic
    arithmetic of tm/num.py and by [apply_mult]/[apply_ops]) and
    [MacroInfLoop] (raised only by macro programs) cannot occur.

    An exception that [run] does not catch ends the run with [PyCrash]. *)
From BB Require Export Base TapeModel InstrsModel RulesModel PyTapeModel PyRulesModel
  ProverModel PyProverModel.

(** the attributes of [Machine] that [run] writes, plus the loop variables
    (machine.py:167-179) *)
Record py_machine := mkPyM {
  pm_tape : tape;                    (** self.tape *)
  pm_prover : py_prover;             (** self.prover *)
  pm_blanks : list (state * Z);      (** self.blanks : dict[State, int], insertion order *)
  pm_step : Z;                       (** step  (-1 after the first rule application) *)
  pm_state : state;                  (** state *)
  pm_cycle : N;                      (** cycle (the loop variable) *)
  pm_rulapp : N;                     (** self.rulapp *)
  pm_susrul : option (Z * Z) }.      (** self.susrul *)

(** machine.py:167-179 *)
Definition py_machine_init : py_machine :=
  mkPyM (init_tape 0) py_prover_new [] 0 0 0 0 None.

Definition pm_set_prover (m : py_machine) (pv : py_prover) : py_machine :=
  mkPyM (pm_tape m) pv (pm_blanks m) (pm_step m) (pm_state m) (pm_cycle m) (pm_rulapp m) (pm_susrul m).
Definition pm_set_susrul (m : py_machine) (s : Z * Z) : py_machine :=
  mkPyM (pm_tape m) (pm_prover m) (pm_blanks m) (pm_step m) (pm_state m) (pm_cycle m) (pm_rulapp m) (Some s).
(** the next value of the loop variable *)
Definition pm_next (m : py_machine) : py_machine :=
  mkPyM (pm_tape m) (pm_prover m) (pm_blanks m) (pm_step m) (pm_state m) (pm_cycle m + 1) (pm_rulapp m) (pm_susrul m).

(** which termination attribute [run] sets before [break] *)
Inductive py_term :=
| PtInfrul                 (** self.infrul = step *)
| PtCfglim                 (** self.cfglim = step *)
| PtUndfnd (sl : slot)     (** self.undfnd = step, slot *)
| PtSpnout.                (** self.spnout = step *)

Inductive py_exit :=
| PxBreak (k : py_term) (m : py_machine)
| PxCrash (e : pexc)
| PxOutside (w : outside_why).

Fixpoint pyb_mem (q : state) (b : list (state * Z)) : bool :=
  match b with [] => false | (k, _) :: b' => (k =? q) || pyb_mem q b' end.

(** machine.py:212-241: the part of the loop body after the prover *)
Definition py_step_part (comp : comp_prog) (m : py_machine) : py_machine + py_exit :=
  let st := pm_state m in let t := pm_tape m in
  (** machine.py:212-219  try: instr = comp[state, tape.scan]  except KeyError *)
  match cp_get comp (st, scan t) with
  | None => inr (PxBreak (PtUndfnd (st, scan t)) m)
  | Some (color, sh, next_state) =>
      (** machine.py:223-225 *)
      let same := st =? next_state in
      if same && py_at_edge t sh then inr (PxBreak PtSpnout m) else
      (** machine.py:227 *)
      let '(t', stepped) := py_step t sh color same in
      (** machine.py:229-231  if step != -1: step += stepped *)
      let step' := if negb (pm_step m =? -1)%Z then (pm_step m + Z.of_N stepped)%Z else pm_step m in
      (** machine.py:233 *)
      let m1 := mkPyM t' (pm_prover m) (pm_blanks m) step' next_state (pm_cycle m)
                      (pm_rulapp m) (pm_susrul m) in
      (** machine.py:235-245 *)
      if (color =? 0) && py_blank t' then
        if pyb_mem next_state (pm_blanks m) then inr (PxBreak PtInfrul m1)
        else
          let m2 := mkPyM t' (pm_prover m) (pm_blanks m ++ [(next_state, step')]) step' next_state
                          (pm_cycle m) (pm_rulapp m) (pm_susrul m) in
          if next_state =? 0 then inr (PxBreak PtInfrul m2) else inl (pm_next m2)
      else inl (pm_next m1)
  end.

(** machine.py:181-245: one iteration of [for cycle in range(sim_lim)] *)
Definition py_body (comp : comp_prog) (m : py_machine) : py_machine + py_exit :=
  (** machine.py:186-205 *)
  let '(res, pv) := py_try_rule comp (pm_prover m) (pm_cycle m) (pm_state m) (pm_tape m) in
  let m0 := pm_set_prover m pv in
  match res with
  | PRaise (PeRules ExInfiniteRule) => inr (PxBreak PtInfrul m0)      (** :188-190 *)
  | PRaise PeConfigLimit => inr (PxBreak PtCfglim m0)                 (** :197-199 *)
  | PRaise (PeRules (ExSuspectedRule a s)) =>                         (** :200-202 *)
      py_step_part comp (pm_set_susrul m0 (a, s))
  | PRaise (PeOutside w) => inr (PxOutside w)
  | PRaise e => inr (PxCrash e)                                       (** not caught by run *)
  | PRet None => py_step_part comp m0
  | PRet (Some rule) =>
      (** machine.py:207-218 *)
      match py_apply_rule (pm_tape m0) rule with
      | Raise e =>
          match pe_of e with
          | PeOutside w => inr (PxOutside w)
          | e' => inr (PxCrash e')
          end
      | Ret (Some times, t') =>
          (** step = -1; self.rulapp += times; continue *)
          inl (mkPyM t' pv (pm_blanks m0) (-1)%Z (pm_state m0) (pm_cycle m0 + 1)
                     (pm_rulapp m0 + times) (pm_susrul m0))
      | Ret (None, _) => py_step_part comp m0
      end
  end.

(** the termination categories (machine.py:26-33) the additive fragment reaches *)
Inductive py_kind := PkUndfnd | PkSpnout | PkInfrul | PkXlimit | PkCfglim.

Definition py_kind_of (k : py_term) : py_kind :=
  match k with
  | PtInfrul => PkInfrul | PtCfglim => PkCfglim | PtUndfnd _ => PkUndfnd | PtSpnout => PkSpnout
  end.

(** what is read off the Machine object after [run] *)
Record py_result := mkPyRes {
  pr_kind : py_kind;
  pr_marks : N;                      (** self.marks = self.tape.marks *)
  pr_rulapp : N;                     (** self.rulapp *)
  pr_blanks : list (state * Z);      (** self.blanks *)
  pr_steps : Z;                      (** self.steps *)
  pr_cycles : N;                     (** self.cycles *)
  pr_undfnd : option slot;           (** the slot of self.undfnd *)
  pr_susrul : option (Z * Z);        (** self.susrul *)
  pr_prover : py_prover }.           (** self.prover *)

Inductive py_outcome :=
| PyDone (r : py_result)
| PyOutside (w : outside_why)
| PyCrash (e : pexc).

(** machine.py:247-250 *)
Definition py_finish (k : py_kind) (sl : option slot) (m : py_machine) (cycle_ : N) : py_result :=
  mkPyRes k (py_marks (pm_tape m)) (pm_rulapp m) (pm_blanks m) (pm_step m) cycle_ sl
          (pm_susrul m) (pm_prover m).

(** machine.py:162-255  Machine.run(sim_lim).  The [else] of the [for] sets
    xlimit; then [self.cycles = cycle] reads the loop variable, which is
    unbound when [sim_lim = 0] (UnboundLocalError). *)
Definition py_run (comp : comp_prog) (sim_lim : N) : py_outcome :=
  match for_upto sim_lim (py_body comp) py_machine_init with
  | inl m =>
      if sim_lim =? 0 then PyCrash PeUnboundLocal
      else PyDone (py_finish PkXlimit None m (sim_lim - 1))
  | inr (PxBreak k m) =>
      PyDone (py_finish (py_kind_of k)
                (match k with PtUndfnd sl => Some sl | _ => None end) m (pm_cycle m))
  | inr (PxCrash e) => PyCrash e
  | inr (PxOutside w) => PyOutside w
  end.
