(** Model of src/prover.rs (the rule-inferring prover) and of [run_prover]
    (src/machine.rs:207-303).  Statement-by-statement mirror, quirks kept.

    Conventions
    - [Cycle = i32] is [Z]; every [+ - *] on cycles goes through [i32] (Panic when
      the mathematical result leaves the i32 range: the harness, like cargo test,
      is built with overflow-checks on).
    - u64 counts are unbounded [N] in TapeModel; the places where the real code
      would overflow a u64 ([1 + count] in pull, [add_count] in push,
      [steps += stepped], [rulapp += times], the [sum] of [marks]) are
      re-checked here after the fact ([step_overflow], [q_overflow], ...): a Rust
      panic anywhere inside a call is a Panic of the whole call, so checking the
      mathematical result afterwards is equivalent.
    - [BTreeMap] = association list sorted by key; [HashMap configs] = association
      list keyed by signature, organised in buckets (see [configs_map]): prover.rs
      only ever uses [contains_key], [len], [insert] (of an absent key) and
      [get_mut] on it, never iterates, so no result depends on hash order.
    - [Vec::push] appends at the END of the list. *)
From BB Require Export Base Ref TapeModel InstrsModel RulesModel MachineModel.

Notation "'do!' x '<-' e ';' k" := (obind e (fun x => k))
  (at level 200, x pattern, e at level 100, k at level 200, right associativity).

(** prover.rs:11  type Cycle = i32 *)
Definition cycle := Z.
(** prover.rs:13  type MinSig = (Signature, (bool, bool)) *)
Definition minsig := (signature * (bool * bool))%type.

(** prover.rs:17-22 *)
Inductive prover_result := ConfigLimit | InfiniteRule | MultRule | Got (r : rule).

(** checked i32 arithmetic: the value itself when in range, else Panic *)
Definition i32 (z : Z) : outcome Z := if in_i32 z then Ok z else Panic.

(** ------------------------------------------------------------------ *)
(** * PastConfig / PastConfigs  (prover.rs:251-347)                     *)

(** prover.rs:253-255  struct PastConfig { cycles: Vec<Cycle> }, oldest first *)
Definition past_config := list cycle.

(** prover.rs:258-264 *)
Definition pc_new (c : cycle) : past_config := [c].

Inductive nd_step := NdContinue | NdReturn (r : option (cycle * cycle * cycle)).

(** prover.rs:285-311: one iteration of [for i in 1..=4] *)
Definition next_deltas_iter (e d c b a i : Z) : outcome nd_step :=
  do! bi <- i32 (b * i); do! p1 <- i32 (a - bi);
  do! ci <- i32 (c * i); do! p2 <- i32 (b - ci);
  do! diff <- i32 (p1 - p2);
  do! di <- i32 (d * i); do! p3 <- i32 (c - di);
  do! d23 <- i32 (p2 - p3);
  if negb (d23 =? diff)%Z then Ok NdContinue else
  do! ei <- i32 (e * i); do! p4 <- i32 (d - ei);
  do! d34 <- i32 (p3 - p4);
  if negb (d34 =? diff)%Z then Ok NdContinue else
  do! ai <- i32 (a * i); do! ai_p1 <- i32 (ai + p1); do! nxt1 <- i32 (ai_p1 + diff);
  do! n1i <- i32 (nxt1 * i); do! n1i_p1 <- i32 (n1i + p1);
  do! diff2 <- i32 (2 * diff); do! nxt2 <- i32 (n1i_p1 + diff2);
  do! n2i <- i32 (nxt2 * i); do! n2i_p1 <- i32 (n2i + p1);
  do! diff3 <- i32 (3 * diff); do! nxt3 <- i32 (n2i_p1 + diff3);
  if (nxt1 <? a)%Z || (nxt2 <? nxt1)%Z || (nxt3 <? nxt2)%Z then Ok (NdReturn None) else
  do! r1 <- i32 (nxt1 - a); do! r2 <- i32 (nxt2 - nxt1); do! r3 <- i32 (nxt3 - nxt2);
  Ok (NdReturn (Some (r1, r2, r3))).

(** prover.rs:285-313: the loop over [is_ = [1;2;3;4]]; falling out = None *)
Fixpoint next_deltas_loop (e d c b a : Z) (is_ : list Z)
  : outcome (option (cycle * cycle * cycle)) :=
  match is_ with
  | [] => Ok None
  | i :: is' =>
      do! r <- next_deltas_iter e d c b a i;
      match r with
      | NdContinue => next_deltas_loop e d c b a is'
      | NdReturn x => Ok x
      end
  end.

(** prover.rs:267-314  PastConfig::next_deltas.  Returns the answer and the
    mutated [cycles].  ([let [e,d,c,b,a] = cycles[..] else panic!()]: the vector
    never has more than 5 elements, the Panic arm is unreachable.) *)
Definition pc_next_deltas (pc : past_config) (cyc : cycle)
  : outcome (option (cycle * cycle * cycle) * past_config) :=
  let cycles := pc ++ [cyc] in
  if (length cycles <? 5)%nat then Ok (None, cycles) else
  match cycles with
  | [e; d; c; b; a] =>
      do! r <- next_deltas_loop e d c b a [1; 2; 3; 4]%Z;
      Ok (r, [d; c; b; a])
  | _ => Panic
  end.

(** prover.rs:319-321  struct PastConfigs { configs: BTreeMap<State, PastConfig> } *)
Definition past_configs := list (state * past_config).

Fixpoint pcs_get (m : past_configs) (k : state) : option past_config :=
  match m with
  | [] => None
  | (k', v) :: m' => if k' =? k then Some v else pcs_get m' k
  end.
Fixpoint pcs_insert (k : state) (v : past_config) (m : past_configs) : past_configs :=
  match m with
  | [] => [(k, v)]
  | (k', v') :: m' => if k <? k' then (k, v) :: m
                      else if k =? k' then (k, v) :: m'
                      else (k', v') :: pcs_insert k v m'
  end.
Fixpoint pcs_remove (k : state) (m : past_configs) : past_configs :=
  match m with
  | [] => []
  | (k', v') :: m' => if k =? k' then m' else (k', v') :: pcs_remove k m'
  end.

(** prover.rs:326-330 *)
Definition pcs_new (st : state) (cyc : cycle) : past_configs := [(st, pc_new cyc)].

(** prover.rs:332-341.  QUIRK: a state that is absent gets [PastConfig::new(cycle)]
    and then [next_deltas(cycle)] pushes the same cycle again: [cycle; cycle]. *)
Definition pcs_next_deltas (m : past_configs) (st : state) (cyc : cycle)
  : outcome (option (cycle * cycle * cycle) * past_configs) :=
  let pc := match pcs_get m st with Some pc => pc | None => pc_new cyc end in
  do! (r, pc') <- pc_next_deltas pc cyc;
  Ok (r, pcs_insert st pc' m).

(** prover.rs:343-345 *)
Definition pcs_delete_configs (m : past_configs) (st : state) : past_configs :=
  pcs_remove st m.

(** ------------------------------------------------------------------ *)
(** * Prover  (prover.rs:27-247)                                        *)

Definition rules_map := list (slot * list (minsig * rule)).   (* BTreeMap<Slot, Vec<_>> *)

(** HashMap<Signature, PastConfigs>: keyed access only ([contains_key], [len],
    [insert] of an absent key, [get_mut]), never iterated.  Modelled as an
    association list in two levels: a bucket per [sig_key] (scan colour and the two
    span lengths, a function of the signature, so this is just an association
    list keyed by signature with a cheap first test), newest first. *)
Definition cfg_key := (colour * N * N)%type.
Definition configs_map := list (cfg_key * list (signature * past_configs)).

(** prover.rs:27-33 (the [prog] reference is passed separately as [comp]).
    [pv_count] is [configs.len()] (a stored field of the HashMap). *)
Record prover := mkProver { pv_rules : rules_map; pv_configs : configs_map; pv_count : N }.

(** prover.rs:36-42 *)
Definition prover_new : prover := mkProver [] [] 0.

Fixpoint sigspan_eqb (a b : sigspan) : bool :=
  match a, b with
  | [], [] => true
  | x :: a', y :: b' => cc_eqb x y && sigspan_eqb a' b'
  | _, _ => false
  end.
Definition sig_eqb (a b : signature) : bool :=
  (sig_scan a =? sig_scan b) && sigspan_eqb (sig_l a) (sig_l b)
  && sigspan_eqb (sig_r a) (sig_r b).

Fixpoint len_N {A} (l : list A) (acc : N) : N :=
  match l with [] => acc | _ :: l' => len_N l' (acc + 1) end.

Definition sig_key (g : signature) : cfg_key :=
  (sig_scan g, len_N (sig_l g) 0, len_N (sig_r g) 0).
Definition key_eqb (a b : cfg_key) : bool :=
  let '(a1, a2, a3) := a in let '(b1, b2, b3) := b in
  (a2 =? b2) && (a3 =? b3) && (a1 =? b1).

Fixpoint bucket_get (b : list (signature * past_configs)) (g : signature)
  : option past_configs :=
  match b with
  | [] => None
  | (g', v) :: b' => if sig_eqb g' g then Some v else bucket_get b' g
  end.
Fixpoint bucket_set (b : list (signature * past_configs)) (g : signature) (v : past_configs)
  : list (signature * past_configs) :=
  match b with
  | [] => []
  | (g', v') :: b' => if sig_eqb g' g then (g', v) :: b' else (g', v') :: bucket_set b' g v
  end.

(** [configs.get(&sig)] *)
Fixpoint cfg_get_key (m : configs_map) (k : cfg_key) (g : signature) : option past_configs :=
  match m with
  | [] => None
  | (k', b) :: m' => if key_eqb k' k then bucket_get b g else cfg_get_key m' k g
  end.
Definition cfg_get (m : configs_map) (g : signature) : option past_configs :=
  cfg_get_key m (sig_key g) g.
(** write-back through [get_mut]: replaces the value of an existing key *)
Fixpoint cfg_set_key (m : configs_map) (k : cfg_key) (g : signature) (v : past_configs)
  : configs_map :=
  match m with
  | [] => []
  | (k', b) :: m' => if key_eqb k' k then (k', bucket_set b g v) :: m'
                     else (k', b) :: cfg_set_key m' k g v
  end.
Definition cfg_set (m : configs_map) (g : signature) (v : past_configs) : configs_map :=
  cfg_set_key m (sig_key g) g v.
(** [configs.insert(sig, v)] for a signature that is not yet a key *)
Fixpoint cfg_insert_key (m : configs_map) (k : cfg_key) (g : signature) (v : past_configs)
  : configs_map :=
  match m with
  | [] => [(k, [(g, v)])]
  | (k', b) :: m' => if key_eqb k' k then (k', (g, v) :: b) :: m'
                     else (k', b) :: cfg_insert_key m' k g v
  end.
Definition cfg_insert (m : configs_map) (g : signature) (v : past_configs) : configs_map :=
  cfg_insert_key m (sig_key g) g v.

(** prover.rs:44-46 *)
Definition config_count (p : prover) : N := pv_count p.

Fixpoint rules_get (m : rules_map) (k : slot) : option (list (minsig * rule)) :=
  match m with
  | [] => None
  | (k', v) :: m' => if slot_eqb k' k then Some v else rules_get m' k
  end.
(** [entry(k).or_default().push(v)] *)
Fixpoint rules_push (k : slot) (v : minsig * rule) (m : rules_map) : rules_map :=
  match m with
  | [] => [(k, [v])]
  | (k', vs) :: m' => if slot_ltb k k' then (k, [v]) :: m
                      else if slot_eqb k k' then (k', vs ++ [v]) :: m'
                      else (k', vs) :: rules_push k v m'
  end.

(** prover.rs:48-53 *)
Definition set_rule (p : prover) (r : rule) (st : state) (sig : minsig) : prover :=
  mkProver (rules_push (st, sig_scan (fst sig)) (sig, r) (pv_rules p)) (pv_configs p) (pv_count p).

(** slice::starts_with: [pre] is a prefix of [s] *)
Fixpoint starts_with (s pre : sigspan) : bool :=
  match pre with
  | [] => true
  | x :: pre' => match s with
                 | y :: s' => cc_eqb y x && starts_with s' pre'
                 | [] => false
                 end
  end.

(** prover.rs:72-83: the condition of the [for] body *)
Definition rule_matches (ms : minsig) (sig : signature) : bool :=
  let '(g, (lex, rex)) := ms in
  (sig_scan g =? sig_scan sig)
  && (if lex then sigspan_eqb (sig_l g) (sig_l sig) else starts_with (sig_l sig) (sig_l g))
  && (if rex then sigspan_eqb (sig_r g) (sig_r sig) else starts_with (sig_r sig) (sig_r g)).

(** prover.rs:69-88: first match in insertion order *)
Fixpoint find_rule (rs : list (minsig * rule)) (sig : signature) : option rule :=
  match rs with
  | [] => None
  | (ms, r) :: rs' => if rule_matches ms sig then Some r else find_rule rs' sig
  end.

(** prover.rs:55-89.  [sc] is [tape.scan()], [sigf] yields the signature to
    match ([sig] when given, else [tape.signature()]); it is only evaluated when
    the slot has rules, exactly as in the Rust code. *)
Definition get_rule (p : prover) (st : state) (sc : colour) (sigf : unit -> signature)
  : option rule :=
  match rules_get (pv_rules p) (st, sc) with
  | None => None
  | Some rs => find_rule rs (sigf tt)
  end.

(** u64 overflow inside Tape::step: [1 + count] (pull), [add_count] (push) *)
Definition head_count (s : span) : N := match s with [] => 0 | b :: _ => snd b end.
Definition step_overflow (t' : tape) (stepped : N) : bool :=
  (u64_max <? stepped) || (u64_max <? head_count (lspan t'))
  || (u64_max <? head_count (rspan t')).
Definition step_ck (t : tape) (sh : shift) (color : colour) (skip : bool)
  : outcome (tape * N) :=
  let '(t', stepped) := step t sh color skip in
  if step_overflow t' stepped then Panic else Ok (t', stepped).

Inductive sim_exit := SimNone | SimPanic.

(** prover.rs:98-110: one iteration of the loop of run_simulator *)
Definition sim_body (comp : comp_prog) (p : prover) (s : state * tape)
  : (state * tape) + sim_exit :=
  let '(st, t) := s in
  let plain (_ : unit) :=
    match cp_get comp (st, scan t) with
    | None => inr SimNone
    | Some (color, sh, next_state) =>
        match step_ck t sh color (st =? next_state) with
        | Panic => inr SimPanic
        | Ok (t', _) => inl (next_state, t')
        end
    end in
  match get_rule p st (scan t) (fun _ => tape_sig t) with
  | Some r =>
      match apply_rule t r with
      | Panic => inr SimPanic
      | Ok (Some _, t') => inl (st, t')
      | Ok (None, _) => plain tt
      end
  | None => plain tt
  end.

(** prover.rs:91-113.  [for _ in 0..steps] with a negative [steps] runs zero
    times.  Result [None] = the [?] on a missing instruction. *)
Definition run_simulator (comp : comp_prog) (p : prover) (steps : cycle)
    (st : state) (t : tape) : outcome (option (state * tape)) :=
  match for_upto (Z.to_N steps) (sim_body comp p) (st, t) with
  | inl s => Ok (Some s)
  | inr SimNone => Ok None
  | inr SimPanic => Panic
  end.

(** ------------------------------------------------------------------ *)
(** * EnumTape  (tape.rs:557-730)                                       *)

(** tape.rs:557-562 *)
Record eblock := mkEB { eb_color : colour; eb_count : N; eb_index : option index }.
Definition espan := list eblock.

(** tape.rs:600-608: Tape<EnumBlock> plus the four cells *)
Record enum_tape := mkET {
  et_scan : colour; et_l : espan; et_r : espan;
  et_loff : N; et_roff : N; et_ledge : bool; et_redge : bool }.

Fixpoint enumerate_span (side : bool) (i : N) (s : span) : espan :=
  match s with
  | [] => []
  | (c, n) :: s' => mkEB c n (Some (side, 1 + i)) :: enumerate_span side (i + 1) s'
  end.

(** tape.rs:616-653  impl From<&BasicTape> for EnumTape *)
Definition et_from (t : tape) : enum_tape :=
  mkET (scan t) (enumerate_span false 0 (lspan t)) (enumerate_span true 0 (rspan t))
       0 0 false false.

(** forget the indices and the cells *)
Definition espan_erase (s : espan) : span := map (fun b => (eb_color b, eb_count b)) s.
Definition et_erase (et : enum_tape) : tape :=
  mkTape (et_scan et) (espan_erase (et_l et)) (espan_erase (et_r et)).

(** tape.rs:656-662 *)
Definition et_offsets (et : enum_tape) : N * N := (et_loff et, et_roff et).
Definition et_edges (et : enum_tape) : bool * bool := (et_ledge et, et_redge et).

(** tape.rs:664-666 *)
Definition touch_edge (et : enum_tape) (sh : shift) : enum_tape :=
  if sh
  then mkET (et_scan et) (et_l et) (et_r et) (et_loff et) (et_roff et) (et_ledge et) true
  else mkET (et_scan et) (et_l et) (et_r et) (et_loff et) (et_roff et) true (et_redge et).

(** tape.rs:668-677 *)
Definition check_offsets (et : enum_tape) (b : eblock) : enum_tape :=
  match eb_index b with
  | Some (side, offset) =>
      if side then
        if et_roff et <? offset
        then mkET (et_scan et) (et_l et) (et_r et) (et_loff et) offset (et_ledge et) (et_redge et)
        else et
      else
        if et_loff et <? offset
        then mkET (et_scan et) (et_l et) (et_r et) offset (et_roff et) (et_ledge et) (et_redge et)
        else et
  | None => et
  end.

(** tape.rs:679-708 *)
Definition check_step (et : enum_tape) (sh : shift) (color : colour) (skip : bool)
  : enum_tape :=
  let '(pull_, push_) := if sh then (et_r et, et_l et) else (et_l et, et_r et) in
  let et1 :=
    match pull_ with
    | [] => touch_edge et sh
    | near_block :: rest =>
        let et' := check_offsets et near_block in
        if skip && (eb_color near_block =? et_scan et) then
          match rest with
          | [] => touch_edge et' sh
          | b1 :: _ => check_offsets et' b1
          end
        else et'
    end in
  match push_ with
  | [] => et1
  | opp :: _ => if color =? eb_color opp then check_offsets et1 opp else et1
  end.

(** tape.rs:168-192 at B = EnumBlock: [decrement] keeps the index *)
Definition epull (s : espan) (sc : colour) (skip : bool) : espan * colour * N :=
  let '(s1, stepped) :=
    match s with
    | b :: rest => if skip && (eb_color b =? sc) then (rest, 1 + eb_count b) else (s, 1)
    | [] => (s, 1)
    end in
  match s1 with
  | [] => (s1, 0, stepped)
  | b :: rest =>
      if 1 <? eb_count b
      then (mkEB (eb_color b) (eb_count b - 1) (eb_index b) :: rest, eb_color b, stepped)
      else (rest, eb_color b, stepped)
  end.

(** tape.rs:195-212 at B = EnumBlock: [add_count] keeps the index,
    [Block::new] (tape.rs:565-571) has index None *)
Definition epush (s : espan) (print : colour) (stepped : N) : espan :=
  match s with
  | b :: rest => if eb_color b =? print
                 then mkEB (eb_color b) (eb_count b + stepped) (eb_index b) :: rest
                 else mkEB print stepped None :: s
  | [] => if print =? 0 then [] else [mkEB print stepped None]
  end.

Definition ehead_count (s : espan) : N := match s with [] => 0 | b :: _ => eb_count b end.

(** tape.rs:710-719  EnumTape::step = check_step; self.tape.step (tape.rs:378-397) *)
Definition et_step (et : enum_tape) (sh : shift) (color : colour) (skip : bool)
  : outcome (enum_tape * N) :=
  let et1 := check_step et sh color skip in
  let '(l', r', nx, stepped) :=
    if sh then
      let '(r', nx, stepped) := epull (et_r et1) (et_scan et1) skip in
      (epush (et_l et1) color stepped, r', nx, stepped)
    else
      let '(l', nx, stepped) := epull (et_l et1) (et_scan et1) skip in
      (l', epush (et_r et1) color stepped, nx, stepped) in
  if (u64_max <? stepped) || (u64_max <? ehead_count l') || (u64_max <? ehead_count r')
  then Panic
  else Ok (mkET nx l' r' (et_loff et1) (et_roff et1) (et_ledge et1) (et_redge et1), stepped).

(** copy the counts of a plain span back, keeping colours and indices *)
Fixpoint espan_set_counts (s : espan) (c : span) : espan :=
  match s, c with
  | b :: s', (_, n) :: c' => mkEB (eb_color b) n (eb_index b) :: espan_set_counts s' c'
  | _, _ => s
  end.

(** tape.rs:722-730 + rules.rs ApplyRule: the IndexTape of an EnumTape is that
    of its inner tape; apply_rule only reads and writes counts. *)
Definition et_apply_rule (et : enum_tape) (r : rule) : outcome (option N * enum_tape) :=
  do! (res, t') <- apply_rule (et_erase et) r;
  Ok (res, mkET (et_scan et) (espan_set_counts (et_l et) (lspan t'))
                (espan_set_counts (et_r et) (rspan t'))
                (et_loff et) (et_roff et) (et_ledge et) (et_redge et)).

(** prover.rs:123-135: one iteration of the loop of get_min_sig; [inr tt] = panic
    ([unwrap()] on a missing instruction, or an overflow). *)
Definition min_sig_body (comp : comp_prog) (p : prover) (s : state * enum_tape)
  : (state * enum_tape) + unit :=
  let '(st, et) := s in
  let plain (_ : unit) :=
    match cp_get comp (st, et_scan et) with
    | None => inr tt
    | Some (color, sh, next_state) =>
        match et_step et sh color (st =? next_state) with
        | Panic => inr tt
        | Ok (et', _) => inl (next_state, et')
        end
    end in
  match get_rule p st (et_scan et) (fun _ => tape_sig (et_erase et)) with
  | Some r =>
      match et_apply_rule et r with
      | Panic => inr tt
      | Ok (Some _, et') => inl (st, et')
      | Ok (None, _) => plain tt
      end
  | None => plain tt
  end.

(** [slice[..n].to_vec()]: panics when n > len *)
Definition take_prefix {A} (l : list A) (n : N) : outcome (list A) :=
  if n <=? len_N l 0 then Ok (firstn (N.to_nat n) l) else Panic.

(** prover.rs:115-147 *)
Definition get_min_sig (comp : comp_prog) (p : prover) (steps : cycle) (st : state)
    (et : enum_tape) (sig : signature) : outcome minsig :=
  match for_upto (Z.to_N steps) (min_sig_body comp p) (st, et) with
  | inr _ => Panic
  | inl (_, et') =>
      let '(lmax, rmax) := et_offsets et' in
      do! l <- take_prefix (sig_l sig) lmax;
      do! r <- take_prefix (sig_r sig) rmax;
      Ok (mkSig (sig_scan sig) l r, et_edges et')
  end.

(** prover.rs:191-199: one round of the [for delta in &deltas] loop.
    None = [return None]; Some tags' = continue with the advanced tape. *)
Definition sim_round (comp : comp_prog) (p : prover) (st : state) (sig : signature)
    (delta : cycle) (tags : tape) : outcome (option tape) :=
  do! r <- run_simulator comp p delta st tags;
  match r with
  | None => Ok None
  | Some (st', tags') =>
      if negb (st' =? st) || negb (sig_compatible tags' sig) then Ok None
      else Ok (Some tags')
  end.

Definition is_plus (o : op) : bool := match o with Plus _ => true | MultOp _ _ => false end.
Definition is_neg_plus (o : op) : bool :=
  match o with Plus d => (d <? 0)%Z | MultOp _ _ => false end.
Definition is_mult (o : op) : bool := negb (is_plus o).

(** i32::abs: overflows (panics) on i32::MIN *)
Definition i32_abs (d : Z) : outcome Z :=
  if (d =? -2147483648)%Z then Panic else Ok (Z.abs d).

(** prover.rs:223-230  [.map(|diff| ...abs()).collect::<Set<Diff>>()] as a
    duplicate-free list (only its length is used) *)
Fixpoint abs_set (r : rule) (acc : list Z) : outcome (list Z) :=
  match r with
  | [] => Ok acc
  | (_, o) :: r' =>
      do! v <- match o with Plus d => i32_abs d | MultOp _ _ => Ok 0%Z end;
      abs_set r' (if existsb (Z.eqb v) acc then acc else v :: acc)
  end.

(** prover.rs:219-234: the exclusion test (short-circuit [&&] chain) *)
Definition same_abs_exclusion (r : rule) (t : tape) : outcome bool :=
  let '(ll, rl) := span_lens t in
  if (length r =? 2)%nat && ((ll =? 1) && (rl =? 1)) && forallb (fun e => is_plus (snd e)) r
  then do! s <- abs_set r []; Ok (length s =? 1)%nat
  else Ok false.

(** prover.rs:149-246  try_rule.  Returns the answer and the mutated prover. *)
Definition try_rule (comp : comp_prog) (p : prover) (cycle_ : N) (st : state) (t : tape)
  : outcome (option prover_result * prover) :=
  let cyc := i32_of_u64 cycle_ in                                   (* :155 as Cycle *)
  let sig := tape_sig t in                                          (* :157 *)
  match get_rule p st (scan t) (fun _ => sig) with                  (* :159-162 *)
  | Some known_rule => Ok (Some (Got known_rule), p)
  | None =>
  match cfg_get (pv_configs p) sig with
  | None =>                                                         (* :164-172 *)
      if 100000 <? config_count p then Ok (Some ConfigLimit, p)
      else Ok (None, mkProver (pv_rules p) (cfg_insert (pv_configs p) sig (pcs_new st cyc))
                              (pv_count p + 1))
  | Some pcs =>
      do! (od, pcs') <- pcs_next_deltas pcs st cyc;                (* :174-181 *)
      let p1 := mkProver (pv_rules p) (cfg_set (pv_configs p) sig pcs') (pv_count p) in
      match od with
      | None => Ok (None, p1)
      | Some (d1, d2, d3) =>
          if (90000 <? d1)%Z || (90000 <? d2)%Z || (90000 <? d3)%Z  (* :183-185 *)
          then Ok (None, p1) else
          do! o1 <- sim_round comp p1 st sig d1 t;                  (* :187-199 *)
          match o1 with None => Ok (None, p1) | Some tags1 =>
          do! o2 <- sim_round comp p1 st sig d2 tags1;
          match o2 with None => Ok (None, p1) | Some tags2 =>
          do! o3 <- sim_round comp p1 st sig d3 tags2;
          match o3 with None => Ok (None, p1) | Some tags3 =>
          do! orule <- make_rule (counts t) (counts tags1) (counts tags2) (counts tags3);
          match orule with None => Ok (None, p1) | Some r =>        (* :201-206 *)
          if negb (existsb (fun e => is_neg_plus (snd e)) r)        (* :208-213 *)
          then Ok (Some InfiniteRule, p1) else
          if existsb (fun e => is_mult (snd e)) r                   (* :215-217 *)
          then Ok (Some MultRule, p1) else
          do! excl <- same_abs_exclusion r t;                       (* :219-233 *)
          if excl then Ok (None, p1) else
          match cfg_get (pv_configs p1) sig with                    (* :235 *)
          | None => Ok (None, p1)
          | Some pcs2 =>
              let p2 := mkProver (pv_rules p1)
                          (cfg_set (pv_configs p1) sig (pcs_delete_configs pcs2 st)) (pv_count p1) in
              do! ms <- get_min_sig comp p2 d1 st (et_from t) sig;  (* :237-241 *)
              Ok (Some (Got r), set_rule p2 r st ms)                (* :237-245 *)
          end end end end end
      end
  end end.

(** ------------------------------------------------------------------ *)
(** * run_prover  (machine.rs:207-303)                                  *)

(** one record of the verification hook machine.rs:233-241 (instrumentation:
    nothing in the result depends on it) *)
Record rule_app := mkApp {
  app_cycle : N; app_state : state; app_before : tape;
  app_rule : rule; app_times : N; app_after : tape }.

Record pstate := mkP {
  ps_q : qstate; ps_prover : prover; ps_rulapp : N;
  ps_apps : list rule_app }.                (* newest first *)

Definition pexit := outcome (termres * N * option slot * pstate).

(** u64 overflow of [tape.step] / [steps += stepped] inside machine.rs:273-275,
    checked on the state after the step *)
Definition q_overflow (q : qstate) : bool :=
  (u64_max <? q_steps q) || (u64_max <? head_count (lspan (q_tape q)))
  || (u64_max <? head_count (rspan (q_tape q))).

(** machine.rs:256-294: the part of the loop body shared with
    run_quick_machine (MachineModel.quick_body) *)
Definition prover_step (comp : comp_prog) (s : pstate) : pstate + pexit :=
  match quick_body comp (ps_q s) with
  | inl q' =>
      if q_overflow q' then inr Panic
      else inl (mkP q' (ps_prover s) (ps_rulapp s) (ps_apps s))
  | inr (res, cyc, ls, q') =>
      if q_overflow q' then inr Panic
      else inr (Ok (res, cyc, ls, mkP q' (ps_prover s) (ps_rulapp s) (ps_apps s)))
  end.

(** machine.rs:33-43  impl From<ProverResult> for TermRes *)
Definition termres_of (r : prover_result) : outcome termres :=
  match r with
  | ConfigLimit => Ok cfglim
  | InfiniteRule => Ok infrul
  | MultRule => Ok mulrul
  | Got _ => Panic
  end.

(** machine.rs:225-294: one iteration of [for cycle in 0..sim_lim] *)
Definition prover_body (comp : comp_prog) (s : pstate) : pstate + pexit :=
  let q := ps_q s in
  match try_rule comp (ps_prover s) (q_cycle q) (q_state q) (q_tape q) with
  | Panic => inr Panic
  | Ok (res, pv) =>
      let s1 := mkP q pv (ps_rulapp s) (ps_apps s) in
      match res with
      | Some (Got r) =>                                             (* :227-247 *)
          match apply_rule (q_tape q) r with
          | Panic => inr Panic
          | Ok (Some times, t') =>
              let rulapp' := ps_rulapp s + times in
              if u64_max <? rulapp' then inr Panic else
              inl (mkP (mkQ t' (q_state q) (q_steps q) (q_cycle q + 1) (q_blanks q))
                       pv rulapp'
                       (mkApp (q_cycle q) (q_state q) (q_tape q) r times t' :: ps_apps s))
          | Ok (None, _) => prover_step comp s1
          end
      | Some other =>                                               (* :248-252 *)
          match termres_of other with
          | Panic => inr Panic
          | Ok tr => inr (Ok (tr, q_cycle q, None, s1))
          end
      | None => prover_step comp s1                                 (* :253 *)
      end
  end.

Definition prover_init : pstate := mkP (mkQ (init_tape 0) 0 0 0 []) prover_new 0 [].

(** machine.rs:294-302: [marks()] sums u64 counts with overflow checks *)
Definition finish_prover (s : pstate) (x : qstate + (termres * N * option slot * qstate))
  : outcome (mresult * list rule_app) :=
  let r := finish (ps_rulapp s) x in
  if u64_max <? r_marks r then Panic else Ok (r, rev (ps_apps s)).

(** machine.rs:207-303 with the application records of the hook *)
Definition run_prover_trace (comp : comp_prog) (sim_lim : N) : outcome (mresult * list rule_app) :=
  match for_upto sim_lim (prover_body comp) prover_init with
  | inl s => finish_prover s (inl (ps_q s))
  | inr Panic => Panic
  | inr (Ok (res, cyc, ls, s)) => finish_prover s (inr (res, cyc, ls, ps_q s))
  end.

(** machine.rs:207-303 *)
Definition run_prover (comp : comp_prog) (sim_lim : N) : outcome mresult :=
  do! x <- run_prover_trace comp sim_lim; Ok (fst x).

(** the rules (with minimal signatures) the prover holds when run_prover
    returns: what the second cfg(bb_verif) hook (machine::verif::take_rules)
    reports.  Same loop; only the projection differs. *)
Definition run_prover_rules (comp : comp_prog) (sim_lim : N) : outcome rules_map :=
  match for_upto sim_lim (prover_body comp) prover_init with
  | inl s => do! _ <- finish_prover s (inl (ps_q s)); Ok (pv_rules (ps_prover s))
  | inr Panic => Panic
  | inr (Ok (res, cyc, ls, s)) =>
      do! _ <- finish_prover s (inr (res, cyc, ls, ps_q s)); Ok (pv_rules (ps_prover s))
  end.
