(** Model of tm/prover.py (class [Prover]) and of the pieces of tm/tape.py it
    uses that PyTapeModel does not have ([EnumTape], [Tape.to_enum]), for runs
    in which every count is a plain Python int and every proved rule is
    ADDITIVE.  Statement-by-statement mirror; line numbers are those of
    tm/prover.py, tm/tape.py, tm/rules.py.

    Restriction (the C17 quantifier).  Where Python would go on with a rule
    that has a multiplicative entry (tm/rules.py [Mult], leading to
    [apply_mult] and the symbolic numbers of tm/num.py) the model stops with
    the distinguished exception [PeOutside OwNonAdditive]; the machine model
    turns it into the outcome [PyOutside].  Nothing else is cut: every integer
    branch of [calculate_diff] (both multiplicative shapes, SuspectedRule,
    SecondDiffRule, UnknownRule) is evaluated by PyRulesModel as Python does.

    Representation.
    - Python ints are unbounded: counts are [N], steps/deltas/diffs are [Z];
      no wrap, no truncation anywhere.
    - Tapes, signatures, rules, min-sigs: the common representation of
      TapeModel/RulesModel/ProverModel (as PyTapeModel/PyRulesModel do).
    - [Prover.rules] (a dict, prover.py:23-26): association list in INSERTION
      order; only keyed access is used ([.get], [in], [\[slot\].append]).
    - [Prover.configs] (a dict Signature -> PastConfigs, prover.py:28): only
      keyed access and [len] are used; modelled with ProverModel's
      [configs_map] (an association list keyed by signature, with a cheap
      first-level key), [pp_count] is [len(self.configs)].
    - [PastConfigs] IS the Rust class of src/prover.rs (imported from
      tm.rust_stuff, prover.py:6), called through pyo3: ProverModel's
      [pcs_new], [pcs_next_deltas], [pcs_delete_configs] are reused.  pyo3
      converts the Python int [cycle] to [i32] and raises OverflowError when it
      does not fit.  ProverModel reports an i32 overflow inside [next_deltas]
      as Panic (harness build: overflow checks on); the extension Python
      imports is a release build that wraps instead, so that case is reported
      as [PeOutside OwPastConfigsWrap] (needs cycle numbers beyond 2^26).
    - Object identity.  [EnumTape.enums] is keyed by [id(block)]
      (tape.py:232-236) and [Tape.step] RE-USES the block objects it pops
      (tape.py:168-201).  An enum block is [eblock] with
      [eb_index = enums.get(id(block))]; a re-used block object keeps its
      index when it is inserted on the other side ([py_estep]); a block made
      by [Block(color, 1)] (tape.py:196) has none.  CPython may give a NEW
      block the address of a block that was dropped earlier; every dropped
      block was passed to [check_offsets] in the same [EnumTape.step] before
      it was popped (tape.py:283-289), and [check_offsets] only ever raises an
      offset to the block's number, so such a stale entry can never change an
      offset again; the model therefore gives fresh blocks no index.
    - Mutation.  Python mutates tapes and the prover in place; every function
      here returns the mutated object next to its answer, also when it raises
      and the caller goes on (SuspectedRule). *)
From BB Require Export Base TapeModel InstrsModel RulesModel PyTapeModel PyRulesModel ProverModel.

(** ------------------------------------------------------------------ *)
(** * Exceptions that cross the functions of prover.py / machine.py      *)

Inductive outside_why :=
| OwNonAdditive          (** a rule with a Mult entry came out of make_rule *)
| OwPastConfigsWrap.     (** i32 overflow inside the Rust PastConfigs (wraps in the release extension) *)

Inductive pexc :=
| PeRules (e : pyexc)    (** an exception class of tm/rules.py or a builtin one (PyRulesModel) *)
| PeConfigLimit          (** prover.py:16  class ConfigLimit *)
| PeOverflowError        (** pyo3: Python int does not fit i32 (PastConfigs arguments) *)
| PeUnboundLocal         (** machine.py:243 [self.cycles = cycle] after an empty [range] *)
| PeOutside (w : outside_why).

Inductive pr (A : Type) := PRaise (e : pexc) | PRet (a : A).
Arguments PRaise {A} e.
Arguments PRet {A} a.

(** an exception of the rules module, seen from prover.py: touching a
    multiplicative entry ([ExUnmodelled]) is the outside marker *)
Definition pe_of (e : pyexc) : pexc :=
  match e with ExUnmodelled => PeOutside OwNonAdditive | _ => PeRules e end.

(** ------------------------------------------------------------------ *)
(** * Prover: state, get_rule, set_rule  (prover.py:20-71)              *)

(** prover.py:23-26  rules: dict[Slot, list[tuple[MinSig, Rule]]] *)
Definition py_rules := list (slot * list (minsig * rule)).

(** prover.py:20-33 (prog is passed separately as [comp]) *)
Record py_prover := mkPyProver {
  pp_rules : py_rules; pp_configs : configs_map; pp_count : N }.

(** prover.py:30-33  __init__ *)
Definition py_prover_new : py_prover := mkPyProver [] [] 0.

(** prover.py:35-37  config_count = len(self.configs) *)
Definition py_config_count (p : py_prover) : N := pp_count p.

(** [self.rules.get(slot)] *)
Fixpoint pyr_get (m : py_rules) (k : slot) : option (list (minsig * rule)) :=
  match m with
  | [] => None
  | (k', v) :: m' => if slot_eqb k' k then Some v else pyr_get m' k
  end.

(** prover.py:67-70  [if slot not in self.rules: self.rules[slot] = []] then
    [self.rules[slot].append(v)]: a new key goes to the end of the dict *)
Fixpoint pyr_append (k : slot) (v : minsig * rule) (m : py_rules) : py_rules :=
  match m with
  | [] => [(k, [v])]
  | (k', vs) :: m' => if slot_eqb k' k then (k', vs ++ [v]) :: m'
                      else (k', vs) :: pyr_append k v m'
  end.

(** prover.py:51-54: the condition of the [for] body.  [sig\[1\]\[:len(lspan)\]]
    is a slice (never raises); tuple [==] compares element-wise, a bare colour
    (Mult) is never equal to a 1-tuple (Just). *)
Definition py_rule_matches (ms : minsig) (sig : signature) : bool :=
  let '(g, (lex, rex)) := ms in
  (sig_scan g =? sig_scan sig)
  && sigspan_eqb (sig_l g) (if lex then sig_l sig else firstn (length (sig_l g)) (sig_l sig))
  && sigspan_eqb (sig_r g) (if rex then sig_r sig else firstn (length (sig_r g)) (sig_r sig)).

(** prover.py:50-56: first match in list order *)
Fixpoint py_find_rule (rs : list (minsig * rule)) (sig : signature) : option rule :=
  match rs with
  | [] => None
  | (ms, r) :: rs' => if py_rule_matches ms sig then Some r else py_find_rule rs' sig
  end.

(** prover.py:39-58  get_rule.  [sc] is [tape.scan]; [sigf] yields [sig] when
    given, else [tape.signature] (prover.py:47-48), evaluated only when the
    slot has rules. *)
Definition py_get_rule (p : py_prover) (st : state) (sc : colour) (sigf : unit -> signature)
  : option rule :=
  match pyr_get (pp_rules p) (st, sc) with
  | None => None
  | Some temp => py_find_rule temp (sigf tt)
  end.

(** prover.py:60-70  set_rule: slot = (state, sig[0][0]) *)
Definition py_set_rule (p : py_prover) (r : rule) (st : state) (sig : minsig) : py_prover :=
  mkPyProver (pyr_append (st, sig_scan (fst sig)) (sig, r) (pp_rules p)) (pp_configs p) (pp_count p).

(** ------------------------------------------------------------------ *)
(** * run_simulator on a plain Tape  (prover.py:72-93)                  *)

(** how the loop of run_simulator ends early: [return None] (KeyError) or an
    exception out of apply_rule *)
Inductive py_sim_exit := PySimNone | PySimRaise (e : pexc).

(** prover.py:78-91: one iteration of [for _ in range(steps)] *)
Definition py_sim_body (comp : comp_prog) (p : py_prover) (s : state * tape)
  : (state * tape) + py_sim_exit :=
  let '(st, t) := s in
  let plain (_ : unit) :=
    (** prover.py:83-86  try: instr = self.prog[state, tape.scan]  except KeyError: return None *)
    match cp_get comp (st, scan t) with
    | None => inr PySimNone
    | Some (color, sh, next_state) =>
        (** prover.py:88-92 *)
        let '(t', _) := py_step t sh color (st =? next_state) in
        inl (next_state, t')
    end in
  (** prover.py:79-81 *)
  match py_get_rule p st (scan t) (fun _ => py_signature t) with
  | Some r =>
      match py_apply_rule t r with
      | Raise e => inr (PySimRaise (pe_of e))
      | Ret (Some _, t') => inl (st, t')          (** continue *)
      | Ret (None, _) => plain tt
      end
  | None => plain tt
  end.

(** prover.py:72-93.  [range(steps)] is empty for [steps <= 0].
    [PRet None] = [return None]. *)
Definition py_run_simulator (comp : comp_prog) (p : py_prover) (steps : Z)
    (st : state) (t : tape) : pr (option (state * tape)) :=
  match for_upto (Z.to_N steps) (py_sim_body comp p) (st, t) with
  | inl s => PRet (Some s)
  | inr PySimNone => PRet None
  | inr (PySimRaise e) => PRaise e
  end.

(** ------------------------------------------------------------------ *)
(** * EnumTape  (tape.py:211-309)                                       *)

(** tape.py:52-53, 222-236  [Tape.to_enum] = [EnumTape(self.clone())]:
    enums = {id(block): (side, num)}, side 0 = lspan, num from 1: this is
    ProverModel's [et_from] (the Rust constructor numbers the same way). *)
Definition py_to_enum (t : tape) : enum_tape := et_from t.

(** tape.py:238-244  offsets, edges *)
Definition py_et_offsets (et : enum_tape) : N * N := (et_loff et, et_roff et).
Definition py_et_edges (et : enum_tape) : bool * bool := (et_ledge et, et_redge et).

(** tape.py:246-250  touch_edge *)
Definition py_touch_edge (et : enum_tape) (sh : shift) : enum_tape :=
  if sh
  then mkET (et_scan et) (et_l et) (et_r et) (et_loff et) (et_roff et) (et_ledge et) true
  else mkET (et_scan et) (et_l et) (et_r et) (et_loff et) (et_roff et) true (et_redge et).

(** tape.py:252-262  check_offsets: [enums.get(id(block))] is [eb_index] *)
Definition py_check_offsets (et : enum_tape) (b : eblock) : enum_tape :=
  match eb_index b with
  | None => et
  | Some (side, offset) =>
      if side then
        if et_roff et <? offset
        then mkET (et_scan et) (et_l et) (et_r et) (et_loff et) offset (et_ledge et) (et_redge et)
        else et
      else
        if et_loff et <? offset
        then mkET (et_scan et) (et_l et) (et_r et) offset (et_roff et) (et_ledge et) (et_redge et)
        else et
  end.

(** tape.py:264-275  get_count: REGISTERS the block ([check_offsets]) and
    returns its count.  (tape.rs:722-725 does not register: see
    Proofs/PyRunAgree.v.) *)
Definition py_et_get_count (et : enum_tape) (ix : index) : pyres (N * enum_tape) :=
  match nth_error (if fst ix then et_r et else et_l et) (N.to_nat (snd ix)) with
  | Some b => Ret (eb_count b, py_check_offsets et b)
  | None => Raise ExIndexError
  end.

Fixpoint eset_nth (s : espan) (n : nat) (v : N) : espan :=
  match s, n with
  | [], _ => []
  | b :: s', O => mkEB (eb_color b) v (eb_index b) :: s'
  | b :: s', S n' => b :: eset_nth s' n' v
  end.

(** tape.py:277-278 -> tape.py:131-136  set_count *)
Definition py_et_set_count (et : enum_tape) (ix : index) (v : N) : pyres enum_tape :=
  match nth_error (if fst ix then et_r et else et_l et) (N.to_nat (snd ix)) with
  | None => Raise ExIndexError
  | Some _ =>
      Ret (if fst ix
           then mkET (et_scan et) (et_l et) (eset_nth (et_r et) (N.to_nat (snd ix)) v)
                     (et_loff et) (et_roff et) (et_ledge et) (et_redge et)
           else mkET (et_scan et) (eset_nth (et_l et) (N.to_nat (snd ix)) v) (et_r et)
                     (et_loff et) (et_roff et) (et_ledge et) (et_redge et))
  end.

(** tape.py:288-308  EnumTape.step, the part before [self.tape.step] *)
Definition py_check_step (et : enum_tape) (sh : shift) (color : colour) (skip : bool)
  : enum_tape :=
  (** tape.py:289-293 *)
  let '(pull_, push_) := if sh then (et_r et, et_l et) else (et_l et, et_r et) in
  let et1 :=
    match pull_ with
    | [] => py_touch_edge et sh                                      (** :295-296 *)
    | near_block :: rest =>
        let et' := py_check_offsets et near_block in                  (** :298 *)
        if skip && (eb_color near_block =? et_scan et) then           (** :300 *)
          match rest with
          | [] => py_touch_edge et' sh                               (** :301-302 *)
          | b1 :: _ => py_check_offsets et' b1                        (** :303-304 *)
          end
        else et'
    end in
  (** tape.py:306-307 *)
  match push_ with
  | [] => et1
  | opp :: _ => if color =? eb_color opp then py_check_offsets et1 opp else et1
  end.

(** tape.py:161-205  Tape.step on blocks WITH their identity: PyTapeModel.py_step
    line by line, a block object that is re-used keeps its [eb_index] *)
Definition py_new_eblock (color : colour) (pb : option eblock) : eblock :=
  match pb with
  | None => mkEB color 1 None                           (** tape.py:196  Block(color, 1) *)
  | Some b => mkEB color (eb_count b + 1) (eb_index b)    (** tape.py:198-199 *)
  end.

Definition py_estep (et : enum_tape) (shift : shift) (color : colour) (skip : bool)
  : enum_tape * N :=
  let '(pull0, push0) :=
    if shift then (et_r et, et_l et) else (et_l et, et_r et) in
  (** tape.py:168-172 *)
  let '(push_block1, pull1) :=
    match pull0 with
    | b :: rest => if skip && (eb_color b =? et_scan et) then (Some b, rest) else (None, pull0)
    | [] => (None, pull0)
    end in
  (** tape.py:174 *)
  let stepped := match push_block1 with None => 1 | Some b => 1 + eb_count b end in
  (** tape.py:178-190 *)
  let '(next_scan, pull2, push_block2) :=
    match pull1 with
    | [] => (0, pull1, push_block1)
    | next_pull :: rest =>
        let next_scan := eb_color next_pull in
        if negb (eb_count next_pull =? 1)
        then (next_scan,
              mkEB (eb_color next_pull) (eb_count next_pull - 1) (eb_index next_pull) :: rest,
              push_block1)
        else
          match push_block1 with
          | None => (next_scan, rest, Some (mkEB (eb_color next_pull) 0 (eb_index next_pull)))
          | Some _ => (next_scan, rest, push_block1)
          end
    end in
  (** tape.py:192-201 *)
  let push1 :=
    match push0 with
    | top_block :: prest =>
        if eb_color top_block =? color
        then mkEB (eb_color top_block) (eb_count top_block + stepped) (eb_index top_block) :: prest
        else py_new_eblock color push_block2 :: push0
    | [] =>
        if negb (color =? 0) then [py_new_eblock color push_block2] else []
    end in
  (if shift
   then mkET next_scan push1 pull2 (et_loff et) (et_roff et) (et_ledge et) (et_redge et)
   else mkET next_scan pull2 push1 (et_loff et) (et_roff et) (et_ledge et) (et_redge et),
   stepped).

(** tape.py:288-309  EnumTape.step *)
Definition py_et_step (et : enum_tape) (sh : shift) (color : colour) (skip : bool) : enum_tape :=
  fst (py_estep (py_check_step et sh color skip) sh color skip).

(** tape.py:280-286  scan, signature of the inner tape *)
Definition py_et_signature (et : enum_tape) : signature := py_signature (et_erase et).

(** ------------------------------------------------------------------ *)
(** * tm/rules.py count_apps / apply_rule on an EnumTape                *)
(** The same code as PyRulesModel.py_count_apps / py_apply_rule (the functions
    are written against the IndexTape protocol, rules.py:270-272); every
    [tape.get_count] goes through [py_et_get_count] and so registers the
    block.  The tape comes back also on [return None] (offsets stay raised). *)

Fixpoint py_et_count_apps_loop (et : enum_tape) (r : rule) (apps : option (N * index * N))
  : pyres (option (option (N * index * N)) * enum_tape) :=
  match r with
  | [] => Ret (Some apps, et)
  | (pos, MultOp _ _) :: r' => py_et_count_apps_loop et r' apps
  | (pos, Plus diff) :: r' =>
      if (0 <=? diff)%Z then py_et_count_apps_loop et r' apps else
      pybind (py_et_get_count et pos) (fun ce =>
        let '(count, et1) := ce in
        let absdiff := Z.to_N (Z.abs diff) in
        if count <=? absdiff then Ret (None, et1) else
        let div := count / absdiff in
        let rem := count mod absdiff in
        let '(times, min_res) := if 0 <? rem then (div, rem) else (div - 1, absdiff) in
        match apps with
        | Some (curr, _, _) =>
            if times <? curr then py_et_count_apps_loop et1 r' (Some (times, pos, min_res))
            else py_et_count_apps_loop et1 r' apps
        | None => py_et_count_apps_loop et1 r' (Some (times, pos, min_res))
        end)
  end.

Definition py_et_count_apps (et : enum_tape) (r : rule)
  : pyres (option (N * index * N) * enum_tape) :=
  pybind (py_et_count_apps_loop et r None) (fun x =>
    match x with
    | (None, et') => Ret (None, et')
    | (Some apps, et') => Ret (apps, et')
    end).

Fixpoint py_et_apply_loop (et : enum_tape) (r : rule) (times : N) (min_pos : index) (min_res : N)
  : pyres enum_tape :=
  match r with
  | [] => Ret et
  | (pos, diff) :: r' =>
      pybind (py_et_get_count et pos) (fun ce =>
      let '(count, et1) := ce in
      pybind
        (match diff with
         | MultOp _ _ => Raise ExUnmodelled
         | Plus d =>
             if negb (index_eqb pos min_pos)
             then Ret (Z.to_N (Z.of_N count + d * Z.of_N times))
             else if (d <? 0)%Z then Ret min_res else Raise ExAssertion
         end) (fun result =>
      pybind (py_et_set_count et1 pos result) (fun et2 =>
      py_et_apply_loop et2 r' times min_pos min_res)))
  end.

Definition py_et_apply_rule (et : enum_tape) (r : rule) : pyres (option N * enum_tape) :=
  pybind (py_et_count_apps et r) (fun x =>
    match x with
    | (None, et') => Ret (None, et')
    | (Some (times, min_pos, min_res), et') =>
        pybind (py_et_apply_loop et' r times min_pos min_res) (fun et'' => Ret (Some times, et''))
    end).

(** ------------------------------------------------------------------ *)
(** * run_simulator on an EnumTape, get_min_sig  (prover.py:72-107)     *)

Inductive py_esim_exit := PyESimNone (et : enum_tape) | PyESimRaise (e : pexc).

(** prover.py:78-91 with [tape : EnumTape] (the same Python function) *)
Definition py_esim_body (comp : comp_prog) (p : py_prover) (s : state * enum_tape)
  : (state * enum_tape) + py_esim_exit :=
  let '(st, et) := s in
  let plain (et0 : enum_tape) :=
    match cp_get comp (st, et_scan et0) with
    | None => inr (PyESimNone et0)
    | Some (color, sh, next_state) =>
        inl (next_state, py_et_step et0 sh color (st =? next_state))
    end in
  match py_get_rule p st (et_scan et) (fun _ => py_et_signature et) with
  | Some r =>
      match py_et_apply_rule et r with
      | Raise e => inr (PyESimRaise (pe_of e))
      | Ret (Some _, et') => inl (st, et')
      | Ret (None, et') => plain et'
      end
  | None => plain et
  end.

(** prover.py:95-107  get_min_sig: the value of run_simulator is discarded
    ([_ = ...]); the tape is read whether or not the run ended early *)
Definition py_get_min_sig (comp : comp_prog) (p : py_prover) (steps : Z) (st : state)
    (et : enum_tape) (sig : signature) : pr minsig :=
  let fin (et' : enum_tape) :=
    let '(lmax, rmax) := py_et_offsets et' in
    PRet (mkSig (sig_scan sig) (firstn (N.to_nat lmax) (sig_l sig))
                (firstn (N.to_nat rmax) (sig_r sig)), py_et_edges et') in
  match for_upto (Z.to_N steps) (py_esim_body comp p) (st, et) with
  | inl (_, et') => fin et'
  | inr (PyESimNone et') => fin et'
  | inr (PyESimRaise e) => PRaise e
  end.

(** ------------------------------------------------------------------ *)
(** * try_rule  (prover.py:109-169)                                     *)

(** prover.py:131-137: one round of [for delta in deltas].
    [PRet None] = [return None]; [PRet (Some tags')] = go on *)
Definition py_sim_round (comp : comp_prog) (p : py_prover) (st : state) (sig : signature)
    (delta : Z) (tags : tape) : pr (option tape) :=
  match py_run_simulator comp p delta st tags with
  | PRaise e => PRaise e
  | PRet None => PRet None                       (** None != state *)
  | PRet (Some (st', tags')) =>
      if negb (st' =? st) || negb (py_sig_compatible tags' sig) then PRet None
      else PRet (Some tags')
  end.

(** rules.py:236-254: the double loop of make_rule (the first half of
    PyRulesModel.py_make_rule: lemma [py_make_rule_split]) *)
Definition py_make_rule_raw (c1 c2 c3 c4 : list N * list N) : pyres (option (rule * bool)) :=
  pybind (py_make_rule_span false 0 (fst c1) (fst c2) (fst c3) (fst c4) [] false) (fun r =>
  match r with
  | None => Ret None
  | Some (acc, sd) => py_make_rule_span true 0 (snd c1) (snd c2) (snd c3) (snd c4) acc sd
  end).

Definition py_all_nonneg (r : rule) : bool :=
  forallb (fun e : index * op => match snd e with Plus d => (0 <=? d)%Z | MultOp _ _ => true end) r.
Definition py_has_mult (r : rule) : bool :=
  existsb (fun e : index * op => match snd e with Plus _ => false | MultOp _ _ => true end) r.

(** prover.py:146-149: [{abs(val) for val in rule.values() if isinstance(val, int)}]
    as a duplicate-free list (only its length is read) *)
Fixpoint py_abs_set (r : rule) (acc : list Z) : list Z :=
  match r with
  | [] => acc
  | (_, Plus d) :: r' =>
      let v := Z.abs d in py_abs_set r' (if existsb (Z.eqb v) acc then acc else v :: acc)
  | (_, MultOp _ _) :: r' => py_abs_set r' acc
  end.

(** prover.py:144-150 *)
Definition py_same_abs_exclusion (r : rule) (t : tape) : bool :=
  let '(ll, rl) := py_span_lens t in
  (length r =? 2)%nat && ((ll =? 1) && (rl =? 1))
  && forallb (fun e : index * op => match snd e with Plus _ => true | MultOp _ _ => false end) r
  && (length (py_abs_set r []) =? 1)%nat.

(** prover.py:109-169  try_rule.  Answer and the prover as it is afterwards. *)
Definition py_try_rule (comp : comp_prog) (p : py_prover) (cycle_ : N) (st : state) (t : tape)
  : pr (option rule) * py_prover :=
  let sig := py_signature t in                                       (** :115 *)
  match py_get_rule p st (scan t) (fun _ => sig) with                (** :117-118 *)
  | Some known => (PRet (Some known), p)
  | None =>
  match cfg_get (pp_configs p) sig with                              (** :120 *)
  | None =>
      if 100000 <? py_config_count p then (PRaise PeConfigLimit, p)  (** :121-122 *)
      else if negb (in_i32 (Z.of_N cycle_)) then (PRaise PeOverflowError, p)
      else (PRet None,                                               (** :124-125 *)
            mkPyProver (pp_rules p)
              (cfg_insert (pp_configs p) sig (pcs_new st (Z.of_N cycle_))) (pp_count p + 1))
  | Some past_configs =>
      if negb (in_i32 (Z.of_N cycle_)) then (PRaise PeOverflowError, p) else
      match pcs_next_deltas past_configs st (Z.of_N cycle_) with     (** :127 *)
      | Panic => (PRaise (PeOutside OwPastConfigsWrap), p)
      | Ok (deltas, past_configs1) =>
      (** the PastConfigs object was mutated in place *)
      let p1 := mkPyProver (pp_rules p) (cfg_set (pp_configs p) sig past_configs1) (pp_count p) in
      match deltas with
      | None => (PRet None, p1)                                      (** :128 *)
      | Some (d1, d2, d3) =>
      (** :130-141  tags = tape.clone(); for delta in deltas: ... *)
      match py_sim_round comp p1 st sig d1 t with
      | PRaise e => (PRaise e, p1) | PRet None => (PRet None, p1) | PRet (Some tags1) =>
      match py_sim_round comp p1 st sig d2 tags1 with
      | PRaise e => (PRaise e, p1) | PRet None => (PRet None, p1) | PRet (Some tags2) =>
      match py_sim_round comp p1 st sig d3 tags2 with
      | PRaise e => (PRaise e, p1) | PRet None => (PRet None, p1) | PRet (Some tags3) =>
      (** :145  make_rule(tape.counts, *counts) *)
      match py_make_rule_raw (py_counts t) (py_counts tags1) (py_counts tags2) (py_counts tags3) with
      | Raise e => (PRaise (pe_of e), p1)           (** SuspectedRule (and builtins) propagate *)
      | Ret None => (PRet None, p1)                 (** rules.py:248-249 -> prover.py:146 *)
      | Ret (Some (rule, second_diff)) =>
      if py_all_nonneg rule then                                     (** rules.py:256-262 *)
        (if py_has_mult rule then PRaise (PeOutside OwNonAdditive)
         else PRaise (PeRules ExInfiniteRule), p1)
      else if second_diff then (PRaise (PeRules ExUnknownRule), p1)  (** rules.py:264-265 *)
      else if py_has_mult rule then (PRaise (PeOutside OwNonAdditive), p1)
      else if py_same_abs_exclusion rule t then (PRet None, p1)      (** :148-154 *)
      else
        (** :156  past_configs.delete_configs(state) *)
        let p2 := mkPyProver (pp_rules p1)
                    (cfg_set (pp_configs p1) sig (pcs_delete_configs past_configs1 st))
                    (pp_count p1) in
        (** :158-167 *)
        match py_get_min_sig comp p2 d1 st (py_to_enum t) sig with
        | PRaise e => (PRaise e, p2)
        | PRet ms => (PRet (Some rule), py_set_rule p2 rule st ms)   (** :171 *)
        end
      end end end end end end
  end end.
