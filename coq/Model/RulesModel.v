(** Model of src/rules.rs (after the two fix: commits; the pre-fix
    definitions are kept as [*_prefix] for the refutation theorems). *)
From BB Require Export Base TapeModel.

Inductive op := Plus (d : Z) | MultOp (q r : Z).
Definition index := (bool * N)%type.            (* (side: true = right, position) *)
Definition rule := list (index * op).            (* BTreeMap<Index, Op>: sorted by key *)

Inductive diffres := DSkip | DUnknown | DGot (o : op).

(** rules.rs:27-66.  i32 arithmetic: [as Diff] truncates, [checked_sub]
    returns None out of range, plain [-] [/] [%] panic on overflow / zero. *)
Definition calculate_diff (a b c d : N) : outcome diffres :=
  if (a =? b) && (b =? c) && (c =? d) then Ok DSkip else
  let a := i32_of_u64 a in let b := i32_of_u64 b in
  let c := i32_of_u64 c in let d := i32_of_u64 d in
  let diff_1 := (b - a)%Z in
  if negb (in_i32 diff_1) then Ok DUnknown else
  let diff_2 := (c - b)%Z in
  if negb (in_i32 diff_2) then Ok DUnknown else
  obind (if (diff_1 =? diff_2)%Z
         then (if in_i32 (d - c)%Z then Ok ((diff_2 =? d - c)%Z) else Panic)
         else Ok false)
  (fun plus =>
  if plus then Ok (DGot (Plus diff_1)) else
  if (a =? 0)%Z || (b =? 0)%Z then Ok DUnknown else
  (* b / a, b % a : i32 division panics on MIN / -1 *)
  let divpanic (x y : Z) := ((x =? -2147483648) && (y =? -1))%Z in
  if divpanic b a then Panic else
  let dm1 := (Z.quot b a, Z.rem b a) in
  if divpanic c b then Panic else
  let dm2 := (Z.quot c b, Z.rem c b) in
  if ((fst dm1 =? fst dm2) && (snd dm1 =? snd dm2))%Z then
    if (c =? 0)%Z then Panic else
    if divpanic d c then Panic else
    let dm3 := (Z.quot d c, Z.rem d c) in
    if ((fst dm2 =? fst dm3) && (snd dm2 =? snd dm3))%Z
    then Ok (DGot (MultOp (fst dm1) (snd dm1))) else Ok DUnknown
  else Ok DUnknown).

Fixpoint zip4 (a b c d : list N) : list (N * N * N * N) :=
  match a, b, c, d with
  | x :: a', y :: b', z :: c', w :: d' => (x, y, z, w) :: zip4 a' b' c' d'
  | _, _, _, _ => []
  end.

(** one span of make_rule's double loop; result None = "return None" *)
Fixpoint make_rule_span (side : bool) (i : N) (l : list (N * N * N * N)) (acc : rule)
  : outcome (option rule) :=
  match l with
  | [] => Ok (Some acc)
  | (a, b, c, d) :: l' =>
      obind (calculate_diff a b c d) (fun r =>
        match r with
        | DSkip => make_rule_span side (i + 1) l' acc
        | DUnknown => Ok None
        | DGot o => make_rule_span side (i + 1) l' (acc ++ [((side, i), o)])
        end)
  end.

Definition make_rule (c1 c2 c3 c4 : list N * list N) : outcome (option rule) :=
  obind (make_rule_span false 0 (zip4 (fst c1) (fst c2) (fst c3) (fst c4)) []) (fun r =>
    match r with
    | None => Ok None
    | Some acc => make_rule_span true 0 (zip4 (snd c1) (snd c2) (snd c3) (snd c4)) acc
    end).

(** IndexTape *)
Definition get_count (t : tape) (ix : index) : outcome N :=
  match nth_error (if fst ix then rspan t else lspan t) (N.to_nat (snd ix)) with
  | Some b => Ok (snd b)
  | None => Panic
  end.
Fixpoint set_nth (s : span) (n : nat) (v : N) : span :=
  match s, n with
  | [], _ => []
  | (c, _) :: s', O => (c, v) :: s'
  | b :: s', S n' => b :: set_nth s' n' v
  end.
Definition set_count (t : tape) (ix : index) (v : N) : tape :=
  if fst ix then mkTape (scan t) (lspan t) (set_nth (rspan t) (N.to_nat (snd ix)) v)
  else mkTape (scan t) (set_nth (lspan t) (N.to_nat (snd ix)) v) (rspan t).

Definition index_eqb (a b : index) : bool := Bool.eqb (fst a) (fst b) && (snd a =? snd b).

(** rules.rs count_apps *)
Fixpoint count_apps_loop (t : tape) (r : rule) (apps : option (N * index * N))
  : outcome (option (option (N * index * N))) :=
  (* outer option: None = early "return None" *)
  match r with
  | [] => Ok (Some apps)
  | (pos, MultOp _ _) :: _ => Panic
  | (pos, Plus diff) :: r' =>
      if (0 <=? diff)%Z then count_apps_loop t r' apps else
      obind (get_count t pos) (fun count =>
        let absdiff := Z.to_N (Z.abs diff) in
        if count <=? absdiff then Ok None else
        let div := count / absdiff in
        let rem := count mod absdiff in
        let '(times, min_res) := if 0 <? rem then (div, rem) else (div - 1, absdiff) in
        match apps with
        | Some (curr, _, _) =>
            if times <? curr then count_apps_loop t r' (Some (times, pos, min_res))
            else count_apps_loop t r' apps
        | None => count_apps_loop t r' (Some (times, pos, min_res))
        end)
  end.
Definition count_apps (t : tape) (r : rule) : outcome (option (N * index * N)) :=
  obind (count_apps_loop t r None) (fun x =>
    match x with None => Ok None | Some apps => Ok apps end).

(** apply_plus after fixes 3663175 (signed update) and b6eaeed (checked_add):
    None = checked_mul or checked_add overflow *)
Definition apply_plus (count : N) (diff : Z) (times : N) : outcome (option N) :=
  let absdiff := Z.to_N (Z.abs diff) in
  let mult := absdiff * times in
  if u64_max <? mult then Ok None else
  if (diff <? 0)%Z then (if count <? mult then Panic else Ok (Some (count - mult)))
  else (if u64_max <? count + mult then Ok None else Ok (Some (count + mult))).

(** apply_plus between the F4 fix and the checked_add fix (for the record) *)
Definition apply_plus_prefix8 (count : N) (diff : Z) (times : N) : outcome (option N) :=
  let absdiff := Z.to_N (Z.abs diff) in
  let mult := absdiff * times in
  if u64_max <? mult then Ok None else
  if (diff <? 0)%Z then (if count <? mult then Panic else Ok (Some (count - mult)))
  else (if u64_max <? count + mult then Panic else Ok (Some (count + mult))).

(** apply_rule after fix a9bee5e: first pass computes, second pass writes *)
Fixpoint apply_results (t : tape) (r : rule) (times : N) (min_pos : index) (min_res : N)
  : outcome (option (list (index * N))) :=
  match r with
  | [] => Ok (Some [])
  | (pos, MultOp _ _) :: _ => Panic
  | (pos, Plus plus) :: r' =>
      obind (if index_eqb pos min_pos
             then (if (plus <? 0)%Z then Ok (Some min_res) else Panic)
             else obind (get_count t pos) (fun c => apply_plus c plus times)) (fun res =>
        match res with
        | None => Ok None
        | Some v => obind (apply_results t r' times min_pos min_res) (fun rest =>
                      match rest with
                      | None => Ok None
                      | Some l => Ok (Some ((pos, v) :: l))
                      end)
        end)
  end.

Definition apply_rule (t : tape) (r : rule) : outcome (option N * tape) :=
  obind (count_apps t r) (fun ca =>
    match ca with
    | None => Ok (None, t)
    | Some (times, min_pos, min_res) =>
        obind (apply_results t r times min_pos min_res) (fun res =>
          match res with
          | None => Ok (None, t)
          | Some l => Ok (Some times, fold_left (fun t' pv => set_count t' (fst pv) (snd pv)) l t)
          end)
    end).

(** ---- pre-fix definitions (for the *_refuted theorems) ---- *)
Definition apply_plus_prefix (count : N) (diff : Z) (times : N) : outcome (option N) :=
  let mult := Z.to_N (Z.abs diff) * times in
  if u64_max <? mult then Ok None else
  if u64_max <? count + mult then Panic else Ok (Some (count + mult)).

Fixpoint apply_loop_prefix (ap : N -> Z -> N -> outcome (option N))
    (t : tape) (r : rule) (times : N) (min_pos : index) (min_res : N)
  : outcome (bool * tape) :=     (* bool: true = completed, false = returned None midway *)
  match r with
  | [] => Ok (true, t)
  | (pos, MultOp _ _) :: _ => Panic
  | (pos, Plus plus) :: r' =>
      obind (if index_eqb pos min_pos
             then (if (plus <? 0)%Z then Ok (Some min_res) else Panic)
             else obind (get_count t pos) (fun c => ap c plus times)) (fun res =>
        match res with
        | None => Ok (false, t)
        | Some v => apply_loop_prefix ap (set_count t pos v) r' times min_pos min_res
        end)
  end.
Definition apply_rule_prefix (ap : N -> Z -> N -> outcome (option N)) (t : tape) (r : rule)
  : outcome (option N * tape) :=
  obind (count_apps t r) (fun ca =>
    match ca with
    | None => Ok (None, t)
    | Some (times, min_pos, min_res) =>
        obind (apply_loop_prefix ap t r times min_pos min_res) (fun x =>
          Ok (if fst x then Some times else None, snd x))
    end).
