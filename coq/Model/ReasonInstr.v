(** Instrumented copy of the main loop of the backward reasoner
    (Model/ReasonModel.v, reason.rs:76-137, 246-293).

    The Rust code prunes a predecessor whose abstract tape is "blank"
    ([bs_blank]: all blocks have colour 0 -- the tape ENDS are ignored) when
    its state is already in the set [blanks] (reason.rs:275-277,
    [if blank && blanks.contains(&state) { continue }]).  The functions below
    are the model's functions with ONE addition: they record every
    (state, tape) pair that was pruned that way, and the main loop keeps
      - the list of all configurations that were ever in the frontier,
      - a flag "some pruning happened" ([is_fired]),
      - a flag "some pruned pair was NOT identical (same state, same scan,
        same spans, same ends) to a configuration that is or was in the
        frontier" ([is_unjust]).
    The answer computed is the model's answer
    (Proofs/ReasonSound.v, [cant_reach_i_spec]); the flags are decidable guards
    on the concrete run for the soundness theorem. *)
From BB Require Export ReasonModel.

Definition bw_skips := list (state * backstepper).

(** [step_instrs] (reason.rs:265-289) + the pruned pairs *)
Fixpoint step_instrs_i (cfg : bw_config) (instrs : list instr)
         (stepped : bw_configs) (bl : bw_blanks) (sk : bw_skips)
  : (bw_configs * bw_blanks * bw_skips) + backward_result :=
  match instrs with
  | [] => inl (stepped, bl, sk)
  | (color, sh, st) :: rest =>
      let tp := backstep (c_tape cfg) sh color in
      let blank_tape := bs_blank tp in
      if blank_tape && (st =? 0) then inr BwInit
      else if blank_tape && bw_blanks_contains bl st
      then step_instrs_i cfg rest stepped bl (sk ++ [(st, tp)])
      else
        let bl' := if blank_tape then bw_blanks_insert bl st else bl in
        let next_config := bw_config_descendant st tp cfg in
        if BW_MAX_RECS <? c_recs next_config then inr BwLinRec
        else step_instrs_i cfg rest (stepped ++ [next_config]) bl' sk
  end.

(** [step_configs_loop] (reason.rs:254-290) + the pruned pairs *)
Fixpoint step_configs_loop_i (vs : bw_validated_steps) (stepped : bw_configs)
         (indef_steps : bw_validated_steps) (bl : bw_blanks) (sk : bw_skips)
  : (bw_configs * bw_validated_steps * bw_blanks * bw_skips) + backward_result :=
  match vs with
  | [] => inl (stepped, indef_steps, bl, sk)
  | (instrs, cfg) :: rest =>
      let '(pulls, instrs') :=
        partition (fun i : instr => pulls_indef (c_tape cfg) (snd (fst i))) instrs in
      let indef_steps' :=
        match pulls with [] => indef_steps | _ :: _ => indef_steps ++ [(pulls, cfg)] end in
      match step_instrs_i cfg instrs' stepped bl sk with
      | inr r => inr r
      | inl (stepped', bl', sk') => step_configs_loop_i rest stepped' indef_steps' bl' sk'
      end
  end.

Definition step_configs_i (vs : bw_validated_steps) (bl : bw_blanks)
  : (bw_configs * bw_validated_steps * bw_blanks * bw_skips) + backward_result :=
  step_configs_loop_i vs [] [] bl [].

(** [cant_reach_body] (reason.rs:99-134) + the pruned pairs of this round *)
Definition cant_reach_body_sk (sw : bw_switches) (ep : bw_entrypoints) (s : bw_reach_state)
  : (bw_reach_state * bw_skips) + outcome backward_result :=
  match get_valid_steps sw (cr_configs s) ep with
  | Panic => inr Panic
  | Ok valid_steps =>
      let n := N.of_nat (length valid_steps) in
      if n =? 0 then
        match cr_indef_steps s with
        | _ :: _ => inr (Ok BwSpinout)
        | [] => inr (Ok (BwRefuted (cr_step s)))
        end
      else if BW_MAX_STACK_DEPTH <? n then inr (Ok BwDepthLimit)
      else
        match step_configs_i valid_steps (cr_blanks s) with
        | inr err => inr (Ok err)
        | inl (cfgs, indefs, bl, sk) =>
            let indef_steps := cr_indef_steps s ++ indefs in
            if BW_MAX_STACK_DEPTH <? N.of_nat (length indef_steps) then inr (Ok BwDepthLimit)
            else inl (mkCR (cr_step s + 1) cfgs bl indef_steps, sk)
        end
  end.

(** same state, same scanned colour, same spans and ends ([bs_head] is
    bookkeeping for the recurrence test only) *)
Definition bs_same (a b : backstepper) : bool :=
  (bs_scan a =? bs_scan b) && bspan_eqb (bs_lspan a) (bs_lspan b)
  && bspan_eqb (bs_rspan a) (bs_rspan b).

Definition skip_just (hist : bw_configs) (p : state * backstepper) : bool :=
  existsb (fun c : bw_config => (c_state c =? fst p) && bs_same (c_tape c) (snd p)) hist.

Record bw_istate := mkIS {
  is_s : bw_reach_state;
  is_hist : bw_configs;      (* every configuration of every frontier so far *)
  is_fired : bool;           (* the pruning fired *)
  is_unjust : bool }.        (* ... on a pair that is in no frontier so far *)

Definition cant_reach_body_i (sw : bw_switches) (ep : bw_entrypoints) (si : bw_istate)
  : bw_istate + (outcome backward_result * bool * bool) :=
  match cant_reach_body_sk sw ep (is_s si) with
  | inr r => inr (r, is_fired si, is_unjust si)
  | inl (s', sk) =>
      let hist' := is_hist si ++ cr_configs s' in
      inl (mkIS s' hist'
                (is_fired si || match sk with [] => false | _ :: _ => true end)
                (is_unjust si || negb (forallb (skip_just hist') sk)))
  end.

(** [cant_reach] (reason.rs:76-137) + the two flags *)
Definition cant_reach_i (sw : bw_switches) (comp : comp_prog) (depth : N)
           (get_configs : comp_prog -> bw_configs) : outcome backward_result * bool * bool :=
  let cfgs := get_configs comp in
  match cfgs with
  | [] => (Ok (BwRefuted 0), false, false)
  | _ :: _ =>
      let ep := get_entrypoints comp in
      let cfgs := filter (fun cfg => ep_contains_key ep (c_state cfg)) cfgs in
      match cfgs with
      | [] => (Ok (BwRefuted 0), false, false)
      | _ :: _ =>
          let bl := get_blanks cfgs in
          match for_upto depth (cant_reach_body_i sw ep)
                         (mkIS (mkCR 0 cfgs bl []) cfgs false false) with
          | inr r => r
          | inl si => (Ok BwStepLimit, is_fired si, is_unjust si)
          end
      end
  end.

(** The decidable guards.
    [bw_no_blank_skip]: the pruning [blanks.contains(&state) => continue]
    never fired in this run.
    [bw_skips_justified] (weaker, implied by the former): whenever it fired,
    the pruned configuration was identical to one that is or was in the
    frontier, i.e. it was a true duplicate. *)
Definition bw_no_blank_skip (sw : bw_switches) (comp : comp_prog) (depth : N)
           (get_configs : comp_prog -> bw_configs) : bool :=
  negb (snd (fst (cant_reach_i sw comp depth get_configs))).
Definition bw_skips_justified (sw : bw_switches) (comp : comp_prog) (depth : N)
           (get_configs : comp_prog -> bw_configs) : bool :=
  negb (snd (cant_reach_i sw comp depth get_configs)).
