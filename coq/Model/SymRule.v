(** A checker (not a model of /repo code): SYMBOLIC execution of the compressed
    simulator (TapeModel.step) on a tape whose block counts are unknowns, used
    to certify the rules that src/prover.rs infers -- for ALL counts of a
    family, not only for the observed tapes.

    A symbolic count is [x_v + off] (one unknown [x_v] per block [v] of the
    START tape) or a constant.  Sums of two unknowns are never needed: a block
    that absorbed two unknown blocks can never be split again, so such a run
    can never come back to the shape of the start tape (the run fails).
    The only count-dependent decision of [Tape::step] is [1 <? n] in [pull]
    ("does the block survive losing one cell").  It is decided from LOWER
    BOUNDS [lb] on the unknowns; when the bounds do not decide it the run stops
    with [SNeed v k] ("needs x_v >= k"), and the driver [check_rule] restarts
    with the strengthened bound.  The result is a requirement vector [req]:
    the rule is certified for every tape of the family whose counts are
    >= [req] (Proofs/SymRuleSound.v). *)
From BB Require Export Base TapeModel InstrsModel RulesModel.
Open Scope N_scope.

(** (side: true = right, position of the block in the START tape) *)
Definition svar := (bool * nat)%type.
Inductive scount := SC (v : option svar) (off : Z).
Notation sblock := (colour * scount)%type (only parsing).
Definition sspan := list sblock.
Record stape := mkST { s_scan : colour; s_l : sspan; s_r : sspan }.

(** lower bounds / requirement vector: one entry per block of the start tape *)
Definition bounds := (list N * list N)%type.
Definition lb_get (lb : bounds) (v : svar) : N :=
  nth (snd v) (if fst v then snd lb else fst lb) 0.

(** the count of block [v] of a tape (0 when there is no such block) *)
Definition count_at (t : tape) (v : svar) : N :=
  match nth_error (if fst v then rspan t else lspan t) (snd v) with Some b => snd b | None => 0 end.

(** which blocks of the start tape are unknowns ([true]) and which are pinned
    to their count in the start tape ([false]); positions beyond the lists are
    unknowns *)
Definition smask := (list bool * list bool)%type.
Definition mask_get (m : smask) (v : svar) : bool :=
  nth (snd v) (if fst v then snd m else fst m) true.

Inductive sres (A : Type) := SOk (a : A) | SNeed (v : svar) (k : N) | SFail (why : N).
Arguments SOk {A} a.
Arguments SNeed {A} v k.
Arguments SFail {A} why.

(** fail codes
     1  sweep over a block whose count is not known to be >= 0 (unreachable)
     2  a block would absorb a second unknown (sum of two unknowns)
     3  push onto a block / of a sweep not known to be >= 0 (unreachable)
    10  cycle budget exhausted
    11  the machine halts (no instruction)
    12  the spin-out test fires
    20  the rule has a MultOp or a key outside the tape
    21  restart budget exhausted *)

(** ---- symbolic counts ---- *)
Definition slo (lb : bounds) (c : scount) : Z :=
  match c with
  | SC None o => o
  | SC (Some v) o => (Z.of_N (lb_get lb v) + o)%Z
  end.
Definition sshift (c : scount) (d : Z) : scount :=
  match c with SC v o => SC v (o + d)%Z end.
Definition sadd (a b : scount) : option scount :=
  match a, b with
  | SC None x, SC v y => Some (SC v (x + y)%Z)
  | SC v x, SC None y => Some (SC v (x + y)%Z)
  | _, _ => None
  end.
(** the decision [1 <? n] *)
Definition sgt1 (lb : bounds) (c : scount) : sres bool :=
  match c with
  | SC None o => SOk (1 <? o)%Z
  | SC (Some v) o =>
      if (2 <=? Z.of_N (lb_get lb v) + o)%Z then SOk true else SNeed v (Z.to_N (2 - o))
  end.

(** ---- tape.rs:168-192 pull, symbolically ---- *)
Definition stake1 (lb : bounds) (s : sspan) (stepped : scount)
  : sres (sspan * colour * scount) :=
  match s with
  | [] => SOk ([], 0, stepped)
  | (c, n) :: rest =>
      match sgt1 lb n with
      | SOk true => SOk ((c, sshift n (-1)) :: rest, c, stepped)
      | SOk false => SOk (rest, c, stepped)
      | SNeed v k => SNeed v k
      | SFail w => SFail w
      end
  end.
Definition spull (lb : bounds) (s : sspan) (sc : colour) (skip : bool)
  : sres (sspan * colour * scount) :=
  match s with
  | (c, n) :: rest =>
      if skip && (c =? sc)
      then (if (0 <=? slo lb n)%Z then stake1 lb rest (sshift n 1) else SFail 1)
      else stake1 lb s (SC None 1)
  | [] => SOk ([], 0, SC None 1)
  end.

(** ---- tape.rs:195-212 push, symbolically ---- *)
Definition spush (lb : bounds) (s : sspan) (print : colour) (stepped : scount) : sres sspan :=
  match s with
  | (c, n) :: rest =>
      if c =? print then
        if ((0 <=? slo lb n) && (0 <=? slo lb stepped))%Z then
          match sadd n stepped with
          | Some m => SOk ((c, m) :: rest)
          | None => SFail 2
          end
        else SFail 3
      else SOk ((print, stepped) :: s)
  | [] => if print =? 0 then SOk [] else SOk [(print, stepped)]
  end.

(** ---- tape.rs:378-397 step, symbolically ---- *)
Definition sstep (lb : bounds) (t : stape) (sh : shift) (color : colour) (skip : bool)
  : sres (stape * scount) :=
  if sh then
    match spull lb (s_r t) (s_scan t) skip with
    | SOk (r', nx, stepped) =>
        match spush lb (s_l t) color stepped with
        | SOk l' => SOk (mkST nx l' r', stepped)
        | SNeed v k => SNeed v k
        | SFail w => SFail w
        end
    | SNeed v k => SNeed v k
    | SFail w => SFail w
    end
  else
    match spull lb (s_l t) (s_scan t) skip with
    | SOk (l', nx, stepped) =>
        match spush lb (s_r t) color stepped with
        | SOk r' => SOk (mkST nx l' r', stepped)
        | SNeed v k => SNeed v k
        | SFail w => SFail w
        end
    | SNeed v k => SNeed v k
    | SFail w => SFail w
    end.

Definition s_at_edge (t : stape) (edge : shift) : bool :=
  (s_scan t =? 0) && match (if edge then s_r t else s_l t) with [] => true | _ => false end.

(** ---- syntactic equality of symbolic tapes ---- *)
Definition svar_eqb (a b : svar) : bool := Bool.eqb (fst a) (fst b) && Nat.eqb (snd a) (snd b).
Definition scount_eqb (a b : scount) : bool :=
  match a, b with
  | SC None x, SC None y => (x =? y)%Z
  | SC (Some v) x, SC (Some w) y => svar_eqb v w && (x =? y)%Z
  | _, _ => false
  end.
Fixpoint sspan_eqb (a b : sspan) : bool :=
  match a, b with
  | [], [] => true
  | x :: a', y :: b' => (fst x =? fst y) && scount_eqb (snd x) (snd y) && sspan_eqb a' b'
  | _, _ => false
  end.
Definition stape_eqb (a b : stape) : bool :=
  (s_scan a =? s_scan b) && sspan_eqb (s_l a) (s_l b) && sspan_eqb (s_r a) (s_r b).

(** ---- the symbolic run: same control flow as ReplayModel.replay_body ----
    from [(q, st)], until state [tq] and tape [target] are met after at least
    one cycle; answers the number of cycles *)
Fixpoint sym_run (comp : comp_prog) (lb : bounds) (tq : state) (target : stape)
    (fuel : nat) (q : state) (st : stape) (started : bool) (n : N) : sres N :=
  if started && (q =? tq) && stape_eqb st target then SOk n else
  match fuel with
  | O => SFail 10
  | S fuel' =>
    match cp_get comp (q, s_scan st) with
    | None => SFail 11
    | Some (color, sh, q') =>
        let same := q =? q' in
        if same && s_at_edge st sh then SFail 12 else
        match sstep lb st sh color same with
        | SOk (st', _) => sym_run comp lb tq target fuel' q' st' true (n + 1)
        | SNeed v k => SNeed v k
        | SFail w => SFail w
        end
    end
  end.

(** ---- start and target tapes of a rule ---- *)
Fixpoint sbuild (f : nat -> N -> scount) (i : nat) (s : span) : sspan :=
  match s with
  | [] => []
  | b :: s' => (fst b, f i (snd b)) :: sbuild f (S i) s'
  end.

Fixpoint srule_get (r : rule) (ix : index) : option op :=
  match r with
  | [] => None
  | (k, o) :: r' => if index_eqb k ix then Some o else srule_get r' ix
  end.
Definition rule_delta (r : rule) (ix : index) : Z :=
  match srule_get r ix with Some (Plus d) => d | _ => 0%Z end.

(** block [v] with count [n] in the start tape, changed by [d] *)
Definition sym_count (m : smask) (d : svar -> Z) (sd : bool) (i : nat) (n : N) : scount :=
  if mask_get m (sd, i) then SC (Some (sd, i)) (d (sd, i)) else SC None (Z.of_N n + d (sd, i))%Z.

Definition sym_tape (m : smask) (d : svar -> Z) (t0 : tape) : stape :=
  mkST (scan t0) (sbuild (sym_count m d false) 0 (lspan t0))
       (sbuild (sym_count m d true) 0 (rspan t0)).

Definition sstart (m : smask) (t0 : tape) : stape := sym_tape m (fun _ => 0%Z) t0.
Definition starget (m : smask) (r : rule) (t0 : tape) : stape :=
  sym_tape m (fun v => rule_delta r (fst v, N.of_nat (snd v))) t0.

(** every entry of the rule is a [Plus] on a block of the tape *)
Definition rule_ok (t0 : tape) (r : rule) : bool :=
  forallb (fun e : index * op =>
    match snd e with
    | Plus _ => let '(sd, p) := fst e in (N.to_nat p <? length (if sd then rspan t0 else lspan t0))%nat
    | MultOp _ _ => false
    end) r.

(** initial lower bounds: 1 for an unknown (every block of a tape has at least
    one cell), 0 (no requirement) for a pinned block *)
Fixpoint lb_init_span (mk : list bool) (s : span) : list N :=
  match s with
  | [] => []
  | _ :: s' => (if hd true mk then 1 else 0) :: lb_init_span (tl mk) s'
  end.
Definition lb_init (m : smask) (t0 : tape) : bounds :=
  (lb_init_span (fst m) (lspan t0), lb_init_span (snd m) (rspan t0)).

Fixpoint bump_nth (l : list N) (i : nat) (k : N) : list N :=
  match l, i with
  | [], _ => []
  | x :: l', O => N.max x k :: l'
  | x :: l', S i' => x :: bump_nth l' i' k
  end.
Definition lb_bump (lb : bounds) (v : svar) (k : N) : bounds :=
  if fst v then (fst lb, bump_nth (snd lb) (snd v) k) else (bump_nth (fst lb) (snd v) k, snd lb).

Inductive crule_res := CCert (cycles : N) (req : bounds) | CNo (why : N) (req : bounds).

(** run; on "needs x_v >= k" strengthen the bound and run again *)
Fixpoint check_loop (comp : comp_prog) (q : state) (start target : stape)
    (cycles restarts : nat) (lb : bounds) : crule_res :=
  match sym_run comp lb q target cycles q start false 0 with
  | SOk n => CCert n lb
  | SFail w => CNo w lb
  | SNeed v k =>
      match restarts with
      | O => CNo 21 lb
      | S restarts' => check_loop comp q start target cycles restarts' (lb_bump lb v k)
      end
  end.

(** [CCert n req]: one application of rule [r] in state [q] is a run of [n]
    cycles of the compressed simulator (>= 1 machine steps) on every tape with
    the colours of [t0] whose pinned blocks have the counts of [t0] and whose
    other blocks have counts >= [req] *)
Definition check_rule (comp : comp_prog) (q : state) (t0 : tape) (r : rule) (m : smask)
    (cycles restarts : nat) : crule_res :=
  if rule_ok t0 r
  then check_loop comp q (sstart m t0) (starget m r t0) cycles restarts (lb_init m t0)
  else CNo 20 (lb_init m t0).

(** the two masks used by the runner: every block an unknown ([RuleValid] of
    Proofs/RuleSound.v quantifies over all counts), or the blocks of count 1
    pinned (the prover matches rules by SIGNATURE, which records which counts
    are 1: these are the tapes the rule is really applied to) *)
Definition mask_all : smask := (@nil bool, @nil bool).
Definition mask_sig_span (s : span) : list bool := map (fun b => negb (snd b =? 1)) s.
Definition mask_sig (t0 : tape) : smask := (mask_sig_span (lspan t0), mask_sig_span (rspan t0)).

(** ---- case split on the boundary: the complete check ----
    A certificate is valid above its requirement [req]; the tapes the rule is
    applied to are only known to be above the guard [g] (<= req in general:
    typically the last application of a bulk application leaves a block with
    one cell, which then vanishes and is re-created, a different path).  The
    tapes of the domain that are not above [req] have some block [v] with
    g_v <= count < req_v: finitely many values; each is checked with block [v]
    pinned to that value, recursively. *)
Fixpoint pin_nth (l : list bool) (i : nat) : list bool :=
  match i, l with
  | O, [] => [false]
  | O, _ :: l' => false :: l'
  | S i', [] => true :: pin_nth [] i'
  | S i', b :: l' => b :: pin_nth l' i'
  end.
Definition mask_pin (m : smask) (v : svar) : smask :=
  if fst v then (fst m, pin_nth (snd m) (snd v)) else (pin_nth (fst m) (snd v), snd m).

Definition positions (t0 : tape) : list svar :=
  map (pair false) (seq 0 (length (lspan t0))) ++ map (pair true) (seq 0 (length (rspan t0))).
Fixpoint nrange (lo : N) (len : nat) : list N :=
  match len with O => [] | S len' => lo :: nrange (lo + 1) len' end.

Definition req_fits (req : bounds) (t0 : tape) : bool :=
  (length (fst req) <=? length (lspan t0))%nat && (length (snd req) <=? length (rspan t0))%nat.

Section Cover.
Variables (comp : comp_prog) (q : state) (r : rule) (cycles restarts : nat) (g : bounds).

Fixpoint cover (fuel : nat) (m : smask) (t0 : tape) : bool :=
  match fuel with
  | O => false
  | S fuel' =>
    match check_rule comp q t0 r m cycles restarts with
    | CCert _ req =>
        req_fits req t0 &&
        forallb (fun v =>
          forallb (fun c => cover fuel' (mask_pin m v) (set_count t0 (fst v, N.of_nat (snd v)) c))
                  (nrange (lb_get g v) (N.to_nat (lb_get req v - lb_get g v))))
          (positions t0)
    | CNo _ _ => false
    end
  end.

(** the same walk, for the report: number of certificates used, or the first
    case that is not certified (mask, tape, fail code, requirement reached) *)
Inductive cover_res := CvOk (ncert : N) | CvFail (m : smask) (t0 : tape) (why : N) (req : bounds).

Fixpoint cover_diag (fuel : nat) (m : smask) (t0 : tape) : cover_res :=
  match fuel with
  | O => CvFail m t0 22 ([], [])
  | S fuel' =>
    match check_rule comp q t0 r m cycles restarts with
    | CCert _ req =>
        fold_left (fun acc v =>
          fold_left (fun acc c =>
            match acc with
            | CvOk k =>
                match cover_diag fuel' (mask_pin m v) (set_count t0 (fst v, N.of_nat (snd v)) c) with
                | CvOk k' => CvOk (k + k')
                | bad => bad
                end
            | bad => bad
            end) (nrange (lb_get g v) (N.to_nat (lb_get req v - lb_get g v))) acc)
          (positions t0) (CvOk 1)
    | CNo w req => CvFail m t0 w req
    end
  end.
End Cover.

(** the guard as lower bounds: decreasing blocks > |d|, other unknown blocks
    >= [base] (1: every block of a tape; 2: a block that the signature marks
    as "more than one cell"), nothing for pinned blocks *)
Definition guard_val (base : N) (m : smask) (r : rule) (sd : bool) (i : nat) : N :=
  if mask_get m (sd, i)
  then (let d := rule_delta r (sd, N.of_nat i) in
        if (d <? 0)%Z then Z.to_N (Z.abs d) + 1 else base)
  else 0.
Definition guard_bounds (base : N) (m : smask) (r : rule) (t0 : tape) : bounds :=
  (map (guard_val base m r false) (seq 0 (length (lspan t0))),
   map (guard_val base m r true) (seq 0 (length (rspan t0)))).

(** ---- is a recorded bulk application covered by ONE certificate? ----
    the [times] single applications start from the tapes t + k.r, 0 <= k < times;
    a count that decreases is smallest at k = times - 1, the others at k = 0 *)
Definition app_covered (m : smask) (req : bounds) (t0 t : tape) (r : rule) (times : N) : bool :=
  req_fits req t0 &&
  forallb (fun v =>
    let d := rule_delta r (fst v, N.of_nat (snd v)) in
    (Z.of_N (lb_get req v)
     <=? Z.of_N (count_at t v) + (if (d <? 0)%Z then d * (Z.of_N times - 1) else 0))%Z
    && (mask_get m v || ((count_at t v =? count_at t0 v) && (d =? 0)%Z))) (positions t0).

(** ---- comparison of ONE certificate with the guard of rules.rs count_apps ----
    the tapes [apply_rule] applies a rule to (and every intermediate tape of a
    bulk application) have every decreasing block > |d| and every block >= 1:
    does the requirement ask for no more than that? *)
Definition req_within (req g : bounds) (t0 : tape) : bool :=
  req_fits req t0 && forallb (fun v => lb_get req v <=? lb_get g v) (positions t0).
Definition req_le_guard (r : rule) (t0 : tape) (req : bounds) : bool :=
  req_within req (guard_bounds 1 mask_all r t0) t0.
(** with the blocks of count 1 pinned ([mask_sig]): the prover applies a rule
    to tapes of the same SIGNATURE, whose other blocks have counts >= 2 *)
Definition req_le_sig (r : rule) (t0 : tape) (req : bounds) : bool :=
  req_within req (guard_bounds 2 (mask_sig t0) r t0) t0.

(** every block changed by the rule has more than one cell in [t0] (the rules
    of the prover come from four tapes of the same signature: a block whose
    count changes is never marked "one cell") *)
Definition rule_on_mult (t0 : tape) (r : rule) : bool :=
  forallb (fun e : index * op =>
    negb (count_at t0 (fst (fst e), N.to_nat (snd (fst e))) =? 1)) r.

(** the complete check on the tapes the prover applies the rule to: same
    SIGNATURE as [t0] (blocks of one cell pinned, the others >= 2) and the guard *)
Definition cover_sig (comp : comp_prog) (q : state) (r : rule) (cycles restarts fuel : nat)
    (t0 : tape) : bool :=
  rule_on_mult t0 r &&
  cover comp q r cycles restarts (guard_bounds 2 (mask_sig t0) r t0) fuel (mask_sig t0) t0.

(** ---- splitting a bulk application at the threshold of a certificate ---- *)
(** the tape t + K.r (the same tape as RuleSound.shift_tape, with a binary K) *)
Definition shift_val_N (t : tape) (K : N) (e : index * op) : N :=
  match snd e, get_count t (fst e) with
  | Plus d, Ok c => Z.to_N (Z.of_N c + d * Z.of_N K)
  | _, Ok c => c
  | _, Panic => 0
  end.
Definition shift_tape_N (r : rule) (K : N) (t : tape) : tape :=
  fold_left (fun t' pv => set_count t' (fst pv) (snd pv))
            (map (fun e => (fst e, shift_val_N t K e)) r) t.

(** largest [k] in [lo, hi] with [f k] (for a decreasing [f] with [f lo]) *)
Fixpoint bsearch (f : N -> bool) (fuel : nat) (lo hi : N) : N :=
  match fuel with
  | O => lo
  | S fuel' =>
      if hi <=? lo then lo else
      let mid := (lo + hi + 1) / 2 in
      if f mid then bsearch f fuel' mid hi else bsearch f fuel' lo (mid - 1)
  end.
(** the number K <= times of leading single applications that start above
    the threshold (0 when not even the first one does) *)
Definition max_covered (m : smask) (req : bounds) (t0 t : tape) (r : rule) (times : N) : N :=
  let K := bsearch (fun k => app_covered m req t0 t r k) 130 0 times in
  if (1 <=? K) && (K <=? times) && app_covered m req t0 t r K then K else 0.
