(** PyNumArithModel: executable transcription of the INT-OPERAND fragment of
    the simplifier of /repo/tm/num.py (line numbers refer to that file): the
    methods taken when the second operand of + - * // ** is a Python int,

      Add   __add__ 217-227   __radd__ 208-215   __sub__ 246-259   __neg__ 205-206
            __mul__ 261-263   __rmul__ 267-279   __floordiv__ 281-292
      Mul   __add__ 470-472   __radd__ 464-468   __sub__ 554-558   __neg__ 411-412
            __mul__ 426-428   __rmul__ 444-462   __floordiv__ 569-583
      Div   __add__ 715-722   __radd__ 735-739   __sub__ 741-753   __neg__ 693-694
            __mul__ 755-765   __rmul__ 767-779   __floordiv__ 781-792
      Exp   __add__ 963-965   __radd__ 957-961   __sub__ 1011-1024 __neg__ 862-863
            __mul__ 1040-1042 __rmul__ 1067-1094 __floordiv__ 1096-1135 (int branch)
            __pow__ 1191-1192
      Num   __rsub__ 121-122  __rpow__ 144-145 (= make_exp)
      make_add 148-158  make_mul 341-351 (+ Mul.__init__ 358-375)  make_div 655-662
      (+ Div.__init__ 670)  make_exp 806-828 (+ Exp.__init__ 839-842)  gcd 1306-1347

    A Python [Count] (int | Num) is an [nexpr]; [NInt] is the Python int.  All
    the methods call each other on freshly built objects ([(num + n*den) // den],
    [-(-other * self)], ...), so the whole fragment is ONE function [arith],
    recursive on a fuel (depth of the Python call stack); running out of fuel
    is [AUnm].  The operation is a code [aop]; one Python frame is
    [arith_step] (one [step_...] definition per operation, written against
    an abstract [call] for the frames below).

    INTERNING.  The library memoises every node (ADDS/MULS/DIVS/EXPS, 29-32;
    all four classes are only ever created through the make_ functions) and [Num.__eq__]
    is identity (72-73).  Inside this fragment the only [==] tests are between
    an int and an int, or between a Num and an int ([other == 0], [l == -1],
    [other == den], [self == other] with [other] an int, [exp == 0]): the
    latter are False whatever the Num is.  No test compares two Nums, so no
    assumption about interning is needed for the BRANCHES; interning only
    matters for the claim that the result object is the tree printed here,
    and a memo hit returns an object built earlier from the same (l, r), whose
    __init__ assertions are a function of (l, r) alone.

    NOT modelled ([AUnm], counted by the correspondence run):
      * any step that needs an operation between TWO symbolic operands
        (Num + Num, Num * Num: [cadd]/[cmul] below; the one exception is
        [Add * Num] = make_mul(self, other), 261-265), e.g. [(n*l) + (n*r)] of
        Add.__rmul__ 279 when [l] is symbolic, [-(l) * r] of Mul.__neg__ when [l]
        is symbolic, [(l // g) * r] of Mul.__floordiv__ 578 when [l // g] stays
        symbolic;
      * an Exp base < 2 inside __rmul__/__floordiv__/gcd (their loops 1087,
        1118 do not terminate for base 1; 0 divides by zero);
      * [x // 0] for a symbolic [x] (Exp: the loop 1118 does not terminate);
      * make_exp with base >= 2^26: the float tests [sqrt]/[log] of 816-819
        are exact below (checked for every square below 2^40 on the reference
        platform: the first wrong one is 9170^2 = 84088900, where
        [int(log(base, root))] is 1 and make_exp(84088900, e) is 9170 ** e);
      * gcd(l, Exp) when [l] is an exact power base^L with L >= 2 outside the
        table [float_log_low] (bases 2..12, l < 2^128): [int(log(l, base))]
        (1333) is L-1 for the listed pairs (e.g. log(243, 3) = 4.999..), and
        the result is then base^(L-1);
      * an int raised to a negative int (a float);  [Tet].

    Line numbers are those of the REPAIRED file (the two `fix:` commits of
    this finding; before them everything from 1102 on was 3 lines, from 1335
    on 6 lines, lower).

    THE SWITCH [chk].  [arith false] is the transcription.  [arith true] is
    the same function except in ONE place: the Exp branch of the library's
    [gcd] helper for a SYMBOLIC exponent, where the value returned divides
    [base ** exp] only if the exponent is large enough ([exp >= 1], or
    [exp >= blog]); [arith true] tests that on the integer value of the
    exponent and is [AUnm] when it fails.  Proofs/NumArith.v proves
    [arith true] sound for every operation, [arith true] a restriction of
    [arith false], and [arith false] = [arith true] (hence sound) on every
    operand all of whose exponents are Python ints.

    HISTORY (end of the file).  Before the repair [gcd] was not a
    common-divisor function even for int exponents ([min(lgcd, rgcd)] for an
    Add; the exponent of an Exp never looked at) and Exp.__floordiv__ dropped
    the sign of a negative divisor; [arith_prefix] is the transcription of
    that code and is refuted on concrete exact divisions. *)
From BB Require Export Base NumExpr PyNumModModel.
Open Scope Z_scope.

(** Python exception classes the fragment can raise *)
Inductive axc := AxAssertion | AxValue | AxType | AxZeroDivision | AxNotImplemented.

Inductive ares (A : Type) := AVal (a : A) | ARaise (x : axc) | AUnm.
Arguments AVal {A} a.
Arguments ARaise {A} x.
Arguments AUnm {A}.

Definition abind {A B} (r : ares A) (f : A -> ares B) : ares B :=
  match r with
  | AVal a => f a
  | ARaise x => ARaise x
  | AUnm => AUnm
  end.

Notation "x <- a ;; b" := (abind a (fun x => b))
  (at level 61, a at next level, right associativity, only parsing).

(** ------------------------------------------------------------------
    small integer helpers *)

(** the loops 1087-1092 and 1118-1123:
      for i in count(): if other % base != 0: break; other //= base
    returns (other, i) at the break.  [base >= 2] and [other <> 0] make it
    terminate within log2|other| + 1 rounds; [None] = fuel exhausted *)
Fixpoint strip_loop (fuel : nat) (other base i : Z) : option (Z * Z) :=
  match fuel with
  | O => None
  | S f => if negb (other mod base =? 0) then Some (other, i)
           else strip_loop f (other / base) base (i + 1)
  end.
Definition strip_base (other base : Z) : option (Z * Z) :=
  strip_loop (S (S (Z.to_nat (Z.log2 (Z.abs other))))) other base 0.

(** floor of log_base l  (l >= 1, base >= 2) *)
Fixpoint ilog_loop (fuel : nat) (l base : Z) : Z :=
  match fuel with
  | O => 0
  | S f => if l <? base then 0 else 1 + ilog_loop f (l / base) base
  end.
Definition ilog (l base : Z) : Z := ilog_loop (S (Z.to_nat (Z.log2 l))) l base.

(** pairs (base, L), base in 2..12, base^L < 2^128, L >= 2, for which CPython's
    [int(log(base ** L, base))] is L - 1 on the reference platform (for all
    other pairs in that range it is L); generated by evaluating the expression *)
Definition float_log_low : list (Z * Z) :=
  [(3, 5); (3, 10); (3, 13); (3, 15); (3, 17); (3, 20); (3, 23); (3, 26); (3, 27); (3, 29); (3, 30);
   (3, 31); (3, 34); (3, 37); (3, 40); (3, 43); (3, 46); (3, 49); (3, 52); (3, 54); (3, 55); (3, 57);
   (3, 58); (3, 60); (3, 61); (3, 62); (3, 63); (3, 68); (3, 69); (3, 74); (3, 75); (3, 79); (3, 80);
   (9, 5); (9, 10); (9, 13); (9, 15); (9, 17); (9, 20); (9, 23); (9, 26); (9, 27); (9, 29); (9, 30);
   (9, 31); (9, 34); (9, 37); (9, 40); (10, 3); (10, 6); (10, 9); (10, 12); (10, 13); (10, 15);
   (10, 18); (10, 21); (10, 23); (10, 24); (10, 26); (10, 27); (10, 29); (10, 30); (10, 31); (10, 33);
   (10, 36); (11, 7); (11, 14); (11, 17); (11, 21); (11, 25); (11, 28); (11, 31); (11, 34); (12, 7);
   (12, 13); (12, 14); (12, 26); (12, 27); (12, 28)].

Fixpoint in_pairs (b L : Z) (l : list (Z * Z)) : bool :=
  match l with
  | [] => false
  | (b', L') :: t => ((b =? b') && (L =? L')) || in_pairs b L t
  end.

(** [int(log(l, base))] (1333) for l >= 1, base >= 2, base | l; [None] =
    outside the range where the float is known *)
Definition py_int_log (l base : Z) : option Z :=
  let L := ilog l base in
  if base ^ L =? l then
    if (base <=? 12) && (l <? 2 ^ 128) then Some (if in_pairs base L float_log_low then L - 1 else L)
    else None
  else Some L.   (** an over-estimate by one, possible just below a power, is undone by the loop 1340 *)

(** 1338-1345: [over = base ** blog; while l % over != 0: blog -= 1; over //= base] *)
Fixpoint gcd_down (fuel : nat) (l base blog : Z) : Z :=
  match fuel with
  | O => 0
  | S f => if l mod base ^ blog =? 0 then blog else gcd_down f l base (blog - 1)
  end.

(** ------------------------------------------------------------------
    gcd (1306-1347): [l] an int, [r] a Count.

    [pre = true] is the function as it was BEFORE the repair (HISTORY, see the
    end of the file): [min(lgcd, rgcd)] for an Add, no look at the exponent
    of an Exp.

    [chk] only matters in the Exp branch, and there only for a SYMBOLIC
    exponent: the repaired function bounds [blog] by an int exponent
    (1335-1336) but has nothing to go by for a symbolic one, and the three
    returns (1328, 1331, 1347) divide [base ** exp] only if [exp >= 1],
    [exp >= 1], [exp >= blog] respectively.  With [chk] that inequality is
    tested on the integer value of the exponent ([exp_ge]) and the outcome is
    [AUnm] when it fails.  An int exponent <= 0 is no object of the library
    (Exp.__init__ 839-842 raises): [AUnm]. *)
Definition exp_ge (e : nexpr) (m : Z) : bool :=
  match eval e with
  | Some k => m <=? k
  | None => false
  end.

Section gcd.
Variable pre chk : bool.

(** the result [g] of the Exp branch, which divides base ** exp when exp >= m *)
Definition gcd_exp_ret (e : nexpr) (m g : Z) : ares Z :=
  match e with
  | NInt _ => AVal g
  | _ => if chk && negb (exp_ge e m) then AUnm else AVal g
  end.

Fixpoint gcd_gen (l : Z) (r : nexpr) : ares Z :=
  if l =? 1 then AVal 1 else                                       (** 1307-1308 *)
  match r with
  | NInt z => AVal (Z.gcd l z)                                     (** 1310-1311 *)
  | NAdd a b =>                                                    (** 1313-1320 *)
      lg <- gcd_gen l a ;;
      if lg =? 1 then AVal 1 else
      rg <- gcd_gen l b ;;
      if rg =? 1 then AVal 1 else
      AVal (if pre then Z.min lg rg else Z.gcd lg rg)              (** 1320; was [min(lgcd, rgcd)] *)
  | NMul a b =>                                                    (** 1322-1323 *)
      lg <- gcd_gen l a ;;
      rg <- gcd_gen l b ;;
      AVal (Z.max lg rg)
  | NDiv _ _ => ARaise AxAssertion                                 (** 1325 *)
  | NExp base e =>
      if base <? 2 then AUnm else
      if (match e with NInt z => z <=? 0 | _ => false end) then AUnm else
      if l =? base then gcd_exp_ret e 1 l else                     (** 1327-1328 *)
      if negb (l mod base =? 0) then                               (** 1330-1331 *)
        let g := Z.gcd l base in
        if g =? 1 then AVal 1 else gcd_exp_ret e 1 g
      else
      if l <=? 0 then ARaise AxValue else                          (** 1333: log of a number <= 0 *)
      match py_int_log l base with                                 (** 1333 *)
      | None => AUnm
      | Some blog0 =>
          let blog := if pre then blog0 else
                      match e with NInt z => Z.min blog0 z | _ => blog0 end in   (** 1335-1336 (repair) *)
          let b := gcd_down (S (Z.to_nat blog)) l base blog in     (** 1338-1345 *)
          gcd_exp_ret e b (base ^ b)                               (** 1347 *)
      end
  end.
End gcd.

(** the library's gcd, as repaired *)
Definition gcd_h (chk : bool) : Z -> nexpr -> ares Z := gcd_gen false chk.

(** ------------------------------------------------------------------
    constructors with an int left operand *)

(** make_add(l, r), l an int (148-158): no swap (149 is for a Num l), no assertion *)
Definition make_add_int (l : Z) (r : nexpr) : ares nexpr := AVal (NAdd (NInt l) r).

(** make_mul(l, r), l an int (341-351, Mul.__init__ 358-375).  For an Exp r:
    [r < 0] is False (1135-1136), [r > 0] is True, 375 holds.  For any other
    Num r line 375 fails, unless 359-364 raised before: [r < 0] / [r > 0] go
    through [__lt__(int)] = [pn_lt_int]. *)
Definition make_mul_int (l : Z) (r : nexpr) : ares nexpr :=
  match r with
  | NExp _ _ => AVal (NMul (NInt l) r)
  | NInt _ => AUnm
  | _ => match pn_lt_int r with
         | None => ARaise AxNotImplemented
         | Some _ => ARaise AxAssertion
         end
  end.

(** make_div(num, den) (655-662, Div.__init__ 670 [assert den > 0]) *)
Definition make_div (num : nexpr) (den : Z) : ares nexpr :=
  if den <=? 0 then ARaise AxAssertion else AVal (NDiv num den).

(** make_mul(a, b) for two symbolic operands, reached from Add.__mul__ 261-265
    ([return make_mul(self, other)]: no simplification).  341-351: the deeper
    operand goes right; Mul.__init__ 358-367 with a symbolic [l]: [l < 0]
    (359), [r > 0] = [not r < 0] (360, Num.__gt__ 106-107), [r < 0] (362),
    [l > 0] (363) are all [__lt__(0)] = [pn_lt_int]. *)
Definition make_mul_num (a b : nexpr) : ares nexpr :=
  let l := if pn_depth b <? pn_depth a then b else a in              (** 342-343 *)
  let r := if pn_depth b <? pn_depth a then a else b in
  match pn_lt_int l with                                             (** 359 *)
  | None => ARaise AxNotImplemented
  | Some ll =>
      match pn_lt_int r with                                         (** 360 / 362 *)
      | None => ARaise AxNotImplemented
      | Some rl => if ll && rl then ARaise AxAssertion               (** 360 *)
                   else AVal (NMul l r)                              (** 362-364 hold *)
      end
  end.

(** Exp(base, exp) at the end of make_exp (822-828, Exp.__init__ 839-842:
    [log10(exp)] of an int exponent <= 0 is a ValueError) *)
Definition exp_finish (base : Z) (e : nexpr) : ares nexpr :=
  match e with
  | NInt z => if z <=? 0 then ARaise AxValue else AVal (NExp base e)
  | _ => AVal (NExp base e)
  end.

(** ------------------------------------------------------------------
    the operations *)
Inductive aop :=
| OAddI (n : Z)      (** x + n      x.__add__(n) *)
| ORadd (n : Z)      (** n + x      x.__radd__(n) *)
| OSubI (n : Z)      (** x - n      x.__sub__(n) *)
| ORsub (n : Z)      (** n - x      x.__rsub__(n) *)
| ONeg               (** -x         x.__neg__() *)
| OMulI (n : Z)      (** x * n      x.__mul__(n) *)
| ORmul (n : Z)      (** n * x      x.__rmul__(n) *)
| OFdiv (n : Z)      (** x // n     x.__floordiv__(n) *)
| OPow (n : Z)       (** x ** n     x.__pow__(n) *)
| OMkExp (b : Z).    (** b ** x     make_exp(b, x)  (Num.__rpow__ 144-145) *)

Definition max_base : Z := 2 ^ 26.

(** [call] stands for the recursive call (one frame deeper in the Python
    call stack). *)
Section step.
Variable pre chk : bool.
Variable call : aop -> nexpr -> ares nexpr.

(** Count + Count, Count * Count: Python's dispatch ([a.__add__(b)] for a
    Num a and an int b, [b.__radd__(a)] for an int a and a Num b); two
    symbolic operands are outside the fragment, except [Add * Num], which
    is make_mul without any simplification *)
Definition cadd (a b : nexpr) : ares nexpr :=
  match b with
  | NInt q => call (OAddI q) a
  | _ => match a with NInt p => call (ORadd p) b | _ => AUnm end
  end.
Definition cmul (a b : nexpr) : ares nexpr :=
  match b with
  | NInt q => call (OMulI q) a
  | _ => match a with
         | NInt p => call (ORmul p) b
         | NAdd _ _ => make_mul_num a b                      (** Add.__mul__ 261-265 *)
         | _ => AUnm
         end
  end.
Definition cfdiv (a : nexpr) (n : Z) : ares nexpr := call (OFdiv n) a.

(** a call of the library's gcd from a __floordiv__ *)
Definition gcdc (n : Z) (y : nexpr) : ares Z := gcd_gen pre chk n y.

(** ---------------------------------------------------------- x + n *)
Definition step_addi (n : Z) (x : nexpr) : ares nexpr :=
  match x with
  | NInt z => AVal (NInt (z + n))
  | NAdd l r =>                                              (** 217-227 *)
      if n =? 0 then AVal x else                             (** 221-222 *)
      match l with
      | NInt lz => cadd (NInt (lz + n)) r                    (** 227 *)
      | _ => make_add_int n x                                (** 224-225 *)
      end
  | NMul _ _ => if n =? 0 then AVal x else make_add_int n x  (** 471-472 *)
  | NExp _ _ => if n =? 0 then AVal x else make_add_int n x  (** 964-965 *)
  | NDiv num den =>                                          (** 715-722 *)
      if n =? 0 then AVal x else
      t <- cadd num (NInt (n * den)) ;;
      cfdiv t den
  end.

(** ---------------------------------------------------------- n + x *)
Definition step_radd (n : Z) (x : nexpr) : ares nexpr :=
  match x with
  | NInt z => AVal (NInt (n + z))
  | NAdd l r =>                                              (** 208-215 *)
      if n =? 0 then AVal x else
      match l with
      | NInt lz => cadd (NInt (lz + n)) r                    (** 212-213 *)
      | _ => make_add_int n x                                (** 215 *)
      end
  | NMul _ _ => if n =? 0 then AVal x else make_add_int n x  (** 464-468 *)
  | NExp _ _ => if n =? 0 then AVal x else make_add_int n x  (** 957-961 *)
  | NDiv num den =>                                          (** 735-739 *)
      if n =? 0 then AVal x else
      t <- cadd (NInt (n * den)) num ;;
      cfdiv t den
  end.

(** ---------------------------------------------------------- x - n *)
Definition step_subi (n : Z) (x : nexpr) : ares nexpr :=
  match x with
  | NInt z => AVal (NInt (z - n))
  | NAdd _ _ => if n =? 0 then AVal x else call (OAddI (- n)) x      (** 247-248, 250 False, 259 *)
  | NMul _ _ => if n =? 0 then AVal x else call (ORadd (- n)) x      (** 554-558 *)
  | NDiv _ _ => if n =? 0 then AVal x else call (ORadd (- n)) x      (** 742-753 *)
  | NExp _ _ => if n =? 0 then AVal x else make_add_int (- n) x      (** 1012-1024 *)
  end.

(** ---------------------------------------------------------- n - x   (121-122) *)
Definition step_rsub (n : Z) (x : nexpr) : ares nexpr :=
  t <- call ONeg x ;;
  cadd (NInt n) t.

(** ---------------------------------------------------------- -x *)
Definition step_neg (x : nexpr) : ares nexpr :=
  match x with
  | NInt z => AVal (NInt (- z))
  | NAdd l r =>                                              (** 205-206 *)
      a <- call ONeg l ;;
      b <- call ONeg r ;;
      cadd a b
  | NMul l r =>                                              (** 411-412 *)
      a <- call ONeg l ;;
      cmul a r
  | NDiv num den =>                                          (** 693-694 *)
      a <- call ONeg num ;;
      cfdiv a den
  | NExp _ _ => call (ORmul (-1)) x                          (** 862-863 *)
  end.

(** ---------------------------------------------------------- x * n *)
Definition step_muli (n : Z) (x : nexpr) : ares nexpr :=
  match x with
  | NInt z => AVal (NInt (z * n))
  | NAdd _ _ => call (ORmul n) x                             (** 262-263 *)
  | NMul _ _ => call (ORmul n) x                             (** 427-428 *)
  | NExp _ _ => call (ORmul n) x                             (** 1041-1042 *)
  | NDiv num den =>                                          (** 755-765 *)
      if n =? den then AVal num else                         (** 759-760 *)
      let c := Z.gcd den n in
      if 1 <? c then                                         (** 762-763 *)
        t <- cmul (NInt (n / c)) num ;;
        cfdiv t (den / c)
      else
        t <- cmul num (NInt n) ;;                            (** 765 *)
        cfdiv t den
  end.

(** ---------------------------------------------------------- n * x *)
Definition step_rmul (n : Z) (x : nexpr) : ares nexpr :=
  match x with
  | NInt z => AVal (NInt (n * z))
  | NAdd l r =>                                              (** 267-279 *)
      if n =? 0 then AVal (NInt 0) else
      if n =? 1 then AVal x else
      if n =? -1 then call ONeg x else
      a <- cmul (NInt n) l ;;
      b <- cmul (NInt n) r ;;
      cadd a b
  | NMul l r =>                                              (** 444-462 *)
      if n =? -1 then
        match l with
        | NInt lz => if lz =? -1 then AVal r                 (** 448-449 *)
                     else cmul (NInt (- lz)) r               (** 451-452 *)
        | NExp _ _ =>                                        (** 454 *)
            match r with
            | NAdd _ _ => b <- call ONeg r ;; cmul l b       (** 455, 457 *)
            | _ => ARaise AxAssertion
            end
        | _ => ARaise AxAssertion
        end
      else if n =? 1 then AVal x                             (** 459-460 *)
      else
        a <- cmul (NInt n) l ;;                              (** 462 *)
        cmul a r
  | NDiv _ _ =>                                              (** 767-779 *)
      if n =? 0 then AVal (NInt 0) else
      if n =? 1 then AVal x else
      if 0 <? n then call (OMulI n) x else
      t <- call (OMulI (- n)) x ;;
      call ONeg t
  | NExp base e =>                                           (** 1067-1094 *)
      if n =? 0 then AVal (NInt 0) else
      if n =? 1 then AVal x else
      if n =? -1 then make_mul_int (-1) x else               (** 1074-1075 *)
      if base <? 2 then AUnm else
      if (n <? -1) && ((- n) mod base =? 0) then             (** 1079-1080 *)
        t <- call (ORmul (- n)) x ;;
        call ONeg t
      else if negb (n mod base =? 0) then make_mul_int n x   (** 1082-1083 *)
      else
        match strip_base n base with                         (** 1087-1092 *)
        | None => AUnm
        | Some (n', i) =>
            e' <- cadd e (NInt i) ;;                         (** 1089 *)
            me <- call (OMkExp base) e' ;;
            cmul (NInt n') me                                (** 1094 *)
        end
  end.

(** ---------------------------------------------------------- x // n *)
Definition step_fdiv (n : Z) (x : nexpr) : ares nexpr :=
  match x with
  | NInt z => if n =? 0 then ARaise AxZeroDivision else AVal (NInt (z / n))
  | NAdd l r =>                                              (** 281-292 *)
      if n =? 1 then AVal x else
      if n =? 0 then AUnm else
      lg <- gcdc n l ;;
      if lg =? 1 then make_div x n else                      (** 287, 290 *)
      rg <- gcdc n r ;;
      if rg =? 1 then make_div x n else                      (** 288, 290 *)
      let d := Z.gcd lg rg in                                (** 289: gcd of two ints, 1304-1308 *)
      if d =? 1 then make_div x n else
      a <- cfdiv l d ;;                                      (** 292 *)
      b <- cfdiv r d ;;
      s <- cadd a b ;;
      cfdiv s (n / d)
  | NMul l r =>                                              (** 569-583 *)
      if n =? 1 then AVal x else
      if n =? 0 then AUnm else
      lg <- gcdc n l ;;
      if 1 <? lg then                                        (** 577-578 *)
        a <- cfdiv l lg ;;
        m <- cmul a r ;;
        cfdiv m (n / lg)
      else
      rg <- gcdc n r ;;
      if 1 <? rg then                                        (** 580-581 *)
        b <- cfdiv r rg ;;
        m <- cmul l b ;;
        cfdiv m (n / rg)
      else make_div x n                                      (** 583 *)
  | NDiv num den =>                                          (** 781-792 *)
      if n =? 1 then AVal x else
      if n =? 0 then AUnm else
      c <- gcdc n num ;;
      if c =? 1 then make_div num (n * den) else             (** 789-790 *)
      a <- cfdiv num c ;;                                    (** 792 *)
      cfdiv a ((n / c) * den)
  | NExp base e =>                                           (** 1096-1135, int branch *)
      if n =? 1 then AVal x else
      if negb pre && (n <? 0) then                           (** 1102-1103 (repair) *)
        t <- cfdiv x (- n) ;;
        call ONeg t
      else
      if n =? 0 then AUnm else
      if base <? 2 then AUnm else
      match strip_base n base with                           (** 1118-1123 *)
      | None => AUnm
      | Some (n', i) =>
          e' <- call (OSubI i) e ;;                          (** 1120 *)
          if 1 <? n' then                                    (** 1125 *)
            if negb (n' <? base) then ARaise AxAssertion else        (** 1129 *)
            if negb (base mod n' =? 0) then ARaise AxAssertion else  (** 1127 *)
            e'' <- call (OSubI 1) e' ;;                      (** 1129 *)
            me <- call (OMkExp base) e'' ;;
            cmul (NInt (base / n')) me
          else
            match e' with                                    (** 1131-1135 *)
            | NInt 0 => AVal (NInt 1)
            | NInt 1 => AVal (NInt base)
            | _ => call (OMkExp base) e'
            end
      end
  end.

(** ---------------------------------------------------------- x ** n *)
Definition step_pow (n : Z) (x : nexpr) : ares nexpr :=
  match x with
  | NInt z => if 0 <=? n then AVal (NInt (z ^ n)) else AUnm
  | NExp base e =>                                           (** 1191-1192 *)
      t <- cmul e (NInt n) ;;
      call (OMkExp base) t
  | _ => ARaise AxType                                       (** no __pow__ on Add/Mul/Div *)
  end.

(** ---------------------------------------------------------- make_exp(b, x)  (806-828) *)
Definition step_mkexp (b : Z) (x : nexpr) : ares nexpr :=
  if b <=? 1 then exp_finish b x else                        (** 808-809 *)
  if max_base <=? b then AUnm else
  if b =? 8 then                                             (** 811-814 *)
    t <- cmul x (NInt 3) ;;
    exp_finish 2 t
  else
    let r := Z.sqrt b in
    if r * r =? b then                                       (** 816-820 *)
      t <- cmul x (NInt 2) ;;
      call (OMkExp r) t
    else exp_finish b x.

Definition arith_step (op : aop) (x : nexpr) : ares nexpr :=
  match op with
  | OAddI n => step_addi n x
  | ORadd n => step_radd n x
  | OSubI n => step_subi n x
  | ORsub n => step_rsub n x
  | ONeg => step_neg x
  | OMulI n => step_muli n x
  | ORmul n => step_rmul n x
  | OFdiv n => step_fdiv n x
  | OPow n => step_pow n x
  | OMkExp b => step_mkexp b x
  end.
End step.

Fixpoint arith (chk : bool) (fuel : nat) (op : aop) (x : nexpr) {struct fuel} : ares nexpr :=
  match fuel with
  | O => AUnm
  | S f => arith_step false chk (arith chk f) op x
  end.

(** entry point of the correspondence run: the call stack of the library
    never gets near this depth on the inputs of the check *)
Definition arith_fuel : nat := 400.
Definition arith_top (chk : bool) (op : aop) (x : nexpr) : ares nexpr := arith chk arith_fuel op x.

(** ------------------------------------------------------------------
    hypotheses of the unconditional theorem (Proofs/NumArith.v
    [arith_false_sound_nodiv]): an expression without a Div node, and an
    operation other than [//].  On such inputs no __floordiv__ is ever
    reached (only a Div operand makes + - * neg ** call one), hence no gcd. *)
Fixpoint no_div (e : nexpr) : bool :=
  match e with
  | NInt _ => true
  | NAdd l r => no_div l && no_div r
  | NMul l r => no_div l && no_div r
  | NDiv _ _ => false
  | NExp _ x => no_div x
  end.

Definition not_fdiv (op : aop) : bool :=
  match op with
  | OFdiv _ => false
  | _ => true
  end.

(** ------------------------------------------------------------------
    HISTORY: the library before the repair of [gcd] (Add: [min(lgcd, rgcd)];
    Exp: [blog] not bounded by an int exponent) and of Exp.__floordiv__ (no
    branch for a negative divisor), kept as the pre-fix definitions. *)
Definition gcd_h_prefix : Z -> nexpr -> ares Z := gcd_gen true false.
Definition step_fdiv_prefix := step_fdiv true false.

Fixpoint arith_prefix (fuel : nat) (op : aop) (x : nexpr) {struct fuel} : ares nexpr :=
  match fuel with
  | O => AUnm
  | S f => arith_step true false (arith_prefix f) op x
  end.
Definition arith_prefix_top (op : aop) (x : nexpr) : ares nexpr := arith_prefix arith_fuel op x.

(** ------------------------------------------------------------------
    hypothesis of the unconditional theorem about the transcription
    (Proofs/NumArith.v [arith_false_sound_intexp]): every Exp node has a
    Python int as its exponent *)
Fixpoint int_exps (e : nexpr) : bool :=
  match e with
  | NInt _ => true
  | NAdd l r => int_exps l && int_exps r
  | NMul l r => int_exps l && int_exps r
  | NDiv num _ => int_exps num
  | NExp _ (NInt _) => true
  | NExp _ _ => false
  end.
