(** Model of src/tape.rs: Span::{pull,push}, Tape::step and the observers.
    Statement-by-statement mirror; u64 counts are unbounded N here (every
    correspondence case keeps counts below 2^63, where Rust cannot overflow). *)
From BB Require Export Base.

Notation block := (colour * N)%type (only parsing).
Definition span := list block.
Record tape := mkTape { scan : colour; lspan : span; rspan : span }.

(** tape.rs:168-192 *)
Definition pull (s : span) (sc : colour) (skip : bool) : span * colour * N :=
  let '(s1, stepped) :=
    match s with
    | (c, n) :: rest => if skip && (c =? sc) then (rest, 1 + n) else (s, 1)
    | [] => (s, 1)
    end in
  match s1 with
  | [] => (s1, 0, stepped)
  | (c, n) :: rest =>
      if 1 <? n then ((c, n - 1) :: rest, c, stepped) else (rest, c, stepped)
  end.

(** tape.rs:195-212 *)
Definition push (s : span) (print : colour) (stepped : N) : span :=
  match s with
  | (c, n) :: rest => if c =? print then (c, n + stepped) :: rest
                      else (print, stepped) :: s
  | [] => if print =? 0 then [] else [(print, stepped)]
  end.

(** tape.rs:378-397 *)
Definition step (t : tape) (sh : shift) (color : colour) (skip : bool) : tape * N :=
  if sh then
    let '(r', nx, stepped) := pull (rspan t) (scan t) skip in
    (mkTape nx (push (lspan t) color stepped) r', stepped)
  else
    let '(l', nx, stepped) := pull (lspan t) (scan t) skip in
    (mkTape nx l' (push (rspan t) color stepped), stepped).

Definition init_tape (sc : colour) : tape := mkTape sc [] [].
Definition init_stepped : tape := mkTape 0 [(1, 1)] [].

(** Observers *)
Definition span_marks (s : span) : N :=
  fold_right (fun b acc => (if fst b =? 0 then 0 else snd b) + acc) 0 s.
Definition marks (t : tape) : N :=
  (if scan t =? 0 then 0 else 1) + span_marks (lspan t) + span_marks (rspan t).
Definition span_blank (s : span) : bool := match s with [] => true | _ => false end.
Definition at_edge (t : tape) (edge : shift) : bool :=
  (scan t =? 0) && span_blank (if edge then rspan t else lspan t).
Definition blank (t : tape) : bool :=
  (scan t =? 0) && span_blank (lspan t) && span_blank (rspan t).
Definition blocks (t : tape) : N := N.of_nat (length (lspan t) + length (rspan t)).
Definition span_counts (s : span) : list N := map snd s.
Definition counts (t : tape) : list N * list N := (span_counts (lspan t), span_counts (rspan t)).
Definition span_lens (t : tape) : N * N :=
  (N.of_nat (length (lspan t)), N.of_nat (length (rspan t))).

Inductive colorcount := Just (c : colour) | Mult (c : colour).
Definition cc_color (x : colorcount) : colour := match x with Just c | Mult c => c end.
Definition cc_eqb (a b : colorcount) : bool :=
  match a, b with
  | Just x, Just y | Mult x, Mult y => x =? y
  | _, _ => false
  end.
Definition block_cc (b : block) : colorcount :=
  if snd b =? 1 then Just (fst b) else Mult (fst b).
Definition sigspan := list colorcount.
Record signature := mkSig { sig_scan : colour; sig_l : sigspan; sig_r : sigspan }.
Definition span_sig (s : span) : sigspan := map block_cc s.
Definition tape_sig (t : tape) : signature :=
  mkSig (scan t) (span_sig (lspan t)) (span_sig (rspan t)).

(** zip/take/all of tape.rs:97-103 *)
Fixpoint span_sig_compatible (s : span) (g : sigspan) : bool :=
  match s, g with
  | b :: s', c :: g' => (fst b =? cc_color c) && span_sig_compatible s' g'
  | _, _ => true
  end.
Definition sig_compatible (t : tape) (g : signature) : bool :=
  (scan t =? sig_scan g)
  && (length (sig_l g) <=? length (lspan t))%nat
  && (length (sig_r g) <=? length (rspan t))%nat
  && span_sig_compatible (lspan t) (sig_l g)
  && span_sig_compatible (rspan t) (sig_r g).

(** Unrolled cells, nearest first. *)
Definition unroll_span (s : span) : list colour :=
  flat_map (fun b => repeat (fst b) (N.to_nat (snd b))) s.

(** tape.rs:127-166 compare_take.  NOTE: the Rust loop re-reads the FULL
    count of a block that was not exhausted (it does not track partial
    consumption); mirrored exactly.  Each iteration either advances a block
    or brings [take] to 0, so [length s + length p + 2] iterations suffice;
    fuel exhaustion is unreachable (lemma compare_take_fuel_enough). *)
Fixpoint compare_take_fuel (fuel : nat) (s p : span) (take : N) : bool :=
  match fuel with
  | O => true
  | S fuel' =>
    if take =? 0 then true else
    match s, p with
    | [], [] => true
    | [], _ :: _ | _ :: _, [] => false
    | (sc, sn) :: s', (pc, pn) :: p' =>
        if negb (sc =? pc) then false
        else if (sn =? 0) || (pn =? 0) then false
        else
          let m := N.min take (N.min sn pn) in
          compare_take_fuel fuel'
            (if sn =? m then s' else s) (if pn =? m then p' else p) (take - m)
    end
  end.
Definition compare_take (s p : span) (take : N) : bool :=
  compare_take_fuel (length s + length p + 2) s p take.

Definition block_eqb (a b : block) : bool := (fst a =? fst b) && (snd a =? snd b).
Fixpoint span_eqb (a b : span) : bool :=
  match a, b with
  | [], [] => true
  | x :: a', y :: b' => block_eqb x y && span_eqb a' b'
  | _, _ => false
  end.
Definition tape_eqb (a b : tape) : bool :=
  (scan a =? scan b) && span_eqb (lspan a) (lspan b) && span_eqb (rspan a) (rspan b).

(** HeadTape (tape.rs:431-553): head is an isize, modelled as Z (positions in
    any explored run are far inside the isize range). *)
Record headtape := mkHT { ht_head : Z; ht_tape : tape }.
Definition ht_init_stepped : headtape := mkHT 1%Z init_stepped.
Definition ht_step (h : headtape) (sh : shift) (color : colour) (skip : bool) : headtape * N :=
  let '(t', stepped) := step (ht_tape h) sh color skip in
  (mkHT (if sh then ht_head h + Z.of_N stepped else ht_head h - Z.of_N stepped)%Z t', stepped).

(** tape.rs:488-518 *)
Definition aligns_with (cur prev : headtape) (leftmost rightmost : Z) : bool :=
  let ct := ht_tape cur in let pt := ht_tape prev in
  if negb (scan ct =? scan pt) then false
  else if negb (length (lspan ct) =? length (lspan pt))%nat
          && negb (length (rspan ct) =? length (rspan pt))%nat then false
  else
    let p_head := ht_head prev in
    let l_take := Z.to_N (Z.abs (p_head - leftmost)) in
    let r_take := Z.to_N (Z.abs (p_head - rightmost)) in
    let diff := (ht_head cur - p_head)%Z in
    if (0 <? diff)%Z then
      compare_take (lspan ct) (lspan pt) l_take && span_eqb (rspan ct) (rspan pt)
    else if (diff <? 0)%Z then
      compare_take (rspan ct) (rspan pt) r_take && span_eqb (lspan ct) (lspan pt)
    else
      compare_take (lspan ct) (lspan pt) l_take && compare_take (rspan ct) (rspan pt) r_take.

(** Display (tape.rs:26-38, 268-282); strings are code-point lists. *)
Definition show_block (b : block) : list N :=
  let '(c, n) := b in
  if n =? 1 then show_N c
  else if n =? 0 then show_N c ++ [46; 46]
  else show_N c ++ [94] ++ show_N n.
Fixpoint join_sp (l : list (list N)) : list N :=
  match l with
  | [] => []
  | [x] => x
  | x :: l' => x ++ [32] ++ join_sp l'
  end.
Definition show_tape (t : tape) : list N :=
  join_sp (rev (map show_block (lspan t)) ++ [[91] ++ show_N (scan t) ++ [93]]
           ++ map show_block (rspan t)).
