(** Model of src/macros.rs: lazily compiled block macros and backsymbol
    macros (colour caches + instruction memo).

    A [MacroProg] is stateful (three [RefCell]s): the mutable part is the
    record [mstate]; the immutable part (the [Logic] minus its converter
    caches) is the record [logic].  The base program of a macro is any
    [GetInstr]; it is modelled by a state type [bstate] and a function
    [base_get : bstate -> slot -> outcome (option instr) * bstate], so that
    macros nest ([stack_get]).

    Every function returns the state it reached even when it panics: a Rust
    panic unwinds, all [RefCell] borrows are released by the guards' [Drop],
    and every mutation done before the panic stays (for instance the memo of
    an inner macro filled by the simulator before an outer layer panics). *)
From BB Require Export Base InstrsModel TapeModel.

(** macros.rs:11-12 *)
Definition mtape := list colour.                      (* Vec<Color> *)
Definition mconfig := (state * (bool * mtape))%type.   (* (State, (bool, Tape)) *)

(** ---- machine arithmetic (usize = u64, overflow-checks on) ---- *)
Definition chk_u64 (n : N) : outcome N := if n <=? u64_max then Ok n else Panic.
Definition chk_mul_u64 (a b : N) : outcome N := chk_u64 (a * b).
Definition chk_add_u64 (a b : N) : outcome N := chk_u64 (a + b).

(** [u64::pow(self, exp as u32)] (#[rustc_inherit_overflow_checks]): panics
    iff the mathematical result exceeds u64::MAX.  The exponent is cast to
    u32 by the callers ([as u32] truncates). *)
Definition pow_body (b : N) (acc : N) : N + unit :=
  if acc * b <=? u64_max then inl (acc * b) else inr tt.
Definition pow_u64 (b e : N) : outcome N :=
  let e32 := e mod 4294967296 in
  if e32 =? 0 then Ok 1
  else if b =? 0 then Ok 0
  else if b =? 1 then Ok 1
  else match for_upto e32 (pow_body b) 1 with
       | inl r => Ok r
       | inr _ => Panic
       end.

(** ---- Vec<Color> helpers ---- *)
Fixpoint mt_nth (l : mtape) (i : N) : option colour :=       (* tape[i], None = index panic *)
  match l with
  | [] => None
  | x :: l' => if i =? 0 then Some x else mt_nth l' (i - 1)
  end.
Fixpoint mt_set (l : mtape) (i : N) (v : colour) : mtape :=  (* tape[i] = v (i in bounds) *)
  match l with
  | [] => []
  | x :: l' => if i =? 0 then v :: l' else x :: mt_set l' (i - 1) v
  end.
Definition mt_len (l : mtape) : N := N.of_nat (length l).
Definition mt_take (n : N) (l : mtape) : mtape := firstn (N.to_nat n) l.
Definition mt_drop (n : N) (l : mtape) : mtape := skipn (N.to_nat n) l.

(** Ord for Vec<u64>: lexicographic, a proper prefix is smaller. *)
Fixpoint mtape_cmp (a b : mtape) : comparison :=
  match a, b with
  | [], [] => Eq
  | [], _ :: _ => Lt
  | _ :: _, [] => Gt
  | x :: a', y :: b' => match x ?= y with
                        | Eq => mtape_cmp a' b'
                        | c => c
                        end
  end.

(** ---- TapeColorConverter, macros.rs:360-405 ---- *)
Definition c2t_cache := list (colour * mtape).     (* BTreeMap<Color, Tape>, sorted by colour *)
Definition t2c_cache := list (mtape * colour).     (* BTreeMap<Tape, Color>, sorted by mtape_cmp *)

Fixpoint c2t_get (m : c2t_cache) (k : colour) : option mtape :=
  match m with
  | [] => None
  | (k', v) :: m' => if k' =? k then Some v else c2t_get m' k
  end.
Fixpoint c2t_insert (k : colour) (v : mtape) (m : c2t_cache) : c2t_cache :=
  match m with
  | [] => [(k, v)]
  | (k', v') :: m' => if k <? k' then (k, v) :: m
                      else if k =? k' then (k, v) :: m'          (* overwrite *)
                      else (k', v') :: c2t_insert k v m'
  end.
Fixpoint t2c_get (m : t2c_cache) (k : mtape) : option colour :=
  match m with
  | [] => None
  | (k', v) :: m' => match mtape_cmp k' k with Eq => Some v | _ => t2c_get m' k end
  end.
Fixpoint t2c_insert (k : mtape) (v : colour) (m : t2c_cache) : t2c_cache :=
  match m with
  | [] => [(k, v)]
  | (k', v') :: m' => match mtape_cmp k k' with
                      | Lt => (k, v) :: m
                      | Eq => (k, v) :: m'
                      | Gt => (k', v') :: t2c_insert k v m'
                      end
  end.

(** The mutable part of a MacroProg: the two converter caches (macros.rs:363-364)
    and the instruction memo (macros.rs:117). *)
Record mstate := mkMS {
  ms_c2t : c2t_cache;
  ms_t2c : t2c_cache;
  ms_instrs : comp_prog }.

(** macros.rs:368-378 TapeColorConverter::new (+ MacroProg::new, macros.rs:160-166) *)
Definition mstate_new (cells : N) : mstate :=
  mkMS [(0, repeat 0 (N.to_nat cells))] [] [].

(** macros.rs:380-382: [cache[&color]] panics when the colour is absent *)
Definition color_to_tape (m : mstate) (color : colour) : outcome mtape :=
  match c2t_get (ms_c2t m) color with
  | Some t => Ok t
  | None => Panic
  end.

(** macros.rs:391-396: fold over the reversed tape,
    acc + value * base_colors.pow(place as u32), every operation checked *)
Fixpoint t2c_fold (base_colors : N) (rtape : mtape) (place : N) (acc : N) : outcome N :=
  match rtape with
  | [] => Ok acc
  | value :: r =>
      obind (pow_u64 base_colors place) (fun p =>
      obind (chk_mul_u64 value p) (fun vp =>
      obind (chk_add_u64 acc vp) (fun acc' =>
      t2c_fold base_colors r (place + 1) acc')))
  end.

(** macros.rs:384-404.  A cache hit changes nothing; a miss inserts in BOTH
    caches, overwriting an existing colour entry of [color_to_tape_cache]. *)
Definition tape_to_color (base_colors : N) (m : mstate) (tp : mtape) : outcome colour * mstate :=
  match t2c_get (ms_t2c m) tp with
  | Some color => (Ok color, m)
  | None =>
      match t2c_fold base_colors (rev tp) 0 0 with
      | Panic => (Panic, m)
      | Ok color =>
          (Ok color, mkMS (c2t_insert color tp (ms_c2t m))
                          (t2c_insert tp color (ms_t2c m))
                          (ms_instrs m))
      end
  end.

(** ---- the two Logic implementations ---- *)
Inductive lkind := LkBlock | LkBacksymbol.

(** Immutable fields of BlockLogic (macros.rs:34-41) / BacksymbolLogic
    (macros.rs:235-242).  [lg_backsymbols] is meaningful for LkBacksymbol only.
    [lg_split_fix] is not in the Rust code: false = the code as written
    ([split_at(self.cells - 1)], macros.rs:320), true = [split_at(self.cells)]. *)
Record logic := mkLogic {
  lg_kind : lkind;
  lg_cells : N;
  lg_base_states : N;
  lg_base_colors : N;
  lg_backsymbols : N;
  lg_split_fix : bool }.

(** macros.rs:44-52 BlockLogic::new *)
Definition block_new (cells : N) (params : N * N) : outcome logic :=
  Ok (mkLogic LkBlock cells (fst params) (snd params) 0 false).
(** macros.rs:245-255 BacksymbolLogic::new: the [pow] can panic *)
Definition backsymbol_new (split_fix : bool) (cells : N) (params : N * N) : outcome logic :=
  obind (pow_u64 (snd params) cells) (fun bk =>
  Ok (mkLogic LkBacksymbol cells (fst params) (snd params) bk split_fix)).
Definition logic_new (k : lkind) (split_fix : bool) (cells : N) (params : N * N) : outcome logic :=
  match k with
  | LkBlock => block_new cells params
  | LkBacksymbol => backsymbol_new split_fix cells params
  end.

(** macros.rs:70-72 / 273-275 *)
Definition macro_states (lg : logic) : outcome N :=
  match lg_kind lg with
  | LkBlock => chk_mul_u64 2 (lg_base_states lg)
  | LkBacksymbol => obind (chk_mul_u64 2 (lg_base_states lg)) (fun x => chk_mul_u64 x (lg_backsymbols lg))
  end.
(** macros.rs:74-76 / 277-279 *)
Definition macro_colors (lg : logic) : outcome N :=
  match lg_kind lg with
  | LkBlock => pow_u64 (lg_base_colors lg) (lg_cells lg)
  | LkBacksymbol => Ok (lg_base_colors lg)
  end.
(** macros.rs:78-80 / 281-283 *)
Definition macro_sim_lim (lg : logic) : outcome N :=
  match lg_kind lg with
  | LkBlock => obind (chk_mul_u64 (lg_base_states lg) (lg_cells lg)) (fun x =>
             obind (macro_colors lg) (fun mc => chk_mul_u64 x mc))
  | LkBacksymbol => obind (macro_states lg) (fun ms =>
                  obind (macro_colors lg) (fun mc => chk_mul_u64 ms mc))
  end.

(** macros.rs:82-96 *)
Definition block_deconstruct_inputs (m : mstate) (sl : slot) : outcome mconfig :=
  let '(macro_state, macro_color) := sl in
  let st := macro_state / 2 in
  let right_edge := macro_state mod 2 in
  obind (color_to_tape m macro_color) (fun tp =>
  Ok (st, (right_edge =? 1, tp))).

(** macros.rs:285-311; [/] and [%] by [backsymbols] panic when it is 0 *)
Definition backsymbol_deconstruct_inputs (lg : logic) (m : mstate) (sl : slot) : outcome mconfig :=
  let '(macro_state, macro_color) := sl in
  let st_co := macro_state / 2 in
  let at_right := macro_state mod 2 in
  if lg_backsymbols lg =? 0 then Panic else
  let st := st_co / lg_backsymbols lg in
  obind (color_to_tape m (st_co mod lg_backsymbols lg)) (fun backspan =>
  Ok (st, if at_right =? 1
          then (false, macro_color :: backspan)
          else (true, backspan ++ [macro_color]))).

Definition deconstruct_inputs (lg : logic) (m : mstate) (sl : slot) : outcome mconfig :=
  match lg_kind lg with
  | LkBlock => block_deconstruct_inputs m sl
  | LkBacksymbol => backsymbol_deconstruct_inputs lg m sl
  end.

(** macros.rs:98-107 *)
Definition block_reconstruct_outputs (lg : logic) (m : mstate) (cfg : mconfig)
  : outcome instr * mstate :=
  let '(st, (right_edge, tp)) := cfg in
  let '(rc, m') := tape_to_color (lg_base_colors lg) m tp in
  match rc with
  | Panic => (Panic, m')
  | Ok color =>
      (obind (chk_mul_u64 2 st) (fun x =>
       obind (chk_add_u64 x (if right_edge then 0 else 1)) (fun ns =>
       Ok (color, right_edge, ns))), m')
  end.

(** macros.rs:313-334.  [split_at(mid)] panics when [mid > len]; [color[0]]
    panics on an empty slice; [self.cells - 1] panics when cells = 0. *)
Definition backsymbol_split (lg : logic) (shift : bool) (tp : mtape) : outcome (mtape * colour) :=
  if shift then
    let omid := if lg_split_fix lg then Ok (lg_cells lg)
                else if lg_cells lg =? 0 then Panic else Ok (lg_cells lg - 1) in
    obind omid (fun mid =>
    if mt_len tp <? mid then Panic else
    match mt_drop mid tp with
    | [] => Panic
    | c :: _ => Ok (mt_take mid tp, c)
    end)
  else
    match tp with
    | [] => Panic                       (* split_at(1) on an empty Vec *)
    | c :: rest => Ok (rest, c)
    end.

Definition backsymbol_reconstruct_outputs (lg : logic) (m : mstate) (cfg : mconfig)
  : outcome instr * mstate :=
  let '(st, (right_edge, tp)) := cfg in
  let shift := negb right_edge in
  match backsymbol_split lg shift tp with
  | Panic => (Panic, m)
  | Ok (backspan, macro_color) =>
      match chk_mul_u64 st (lg_backsymbols lg) with
      | Panic => (Panic, m)
      | Ok sb =>
          let '(rc, m') := tape_to_color (lg_base_colors lg) m backspan in
          match rc with
          | Panic => (Panic, m')
          | Ok bc =>
              (obind (chk_add_u64 sb bc) (fun x =>
               obind (chk_mul_u64 2 x) (fun y =>
               obind (chk_add_u64 (if shift then 1 else 0) y) (fun ns =>
               Ok (macro_color, shift, ns)))), m')
          end
      end
  end.

Definition reconstruct_outputs (lg : logic) (m : mstate) (cfg : mconfig)
  : outcome instr * mstate :=
  match lg_kind lg with
  | LkBlock => block_reconstruct_outputs lg m cfg
  | LkBacksymbol => backsymbol_reconstruct_outputs lg m cfg
  end.

(** ---- MacroProg over an arbitrary base ---- *)
Section MacroProg.
  Variable bstate : Type.
  Variable base_get : bstate -> slot -> outcome (option instr) * bstate.

  (** Loop state of run_simulator (macros.rs:176-182): state, tape, pos and
      the base program's own state. *)
  Record simst := mkSim { si_state : state; si_tape : mtape; si_pos : N; si_base : bstate }.

  Inductive sim_exit :=
  | SxNone (b : bstate)                                    (* the [?] at macros.rs:188 *)
  | SxSide (side : bool) (st : state) (tp : mtape) (b : bstate)   (* [break] with side = Some _ *)
  | SxPanic (b : bstate).

  Inductive sweep_res :=
  | SwCont (tp : mtape) (pos : N)          (* the [while] condition became false *)
  | SwExit (side : bool) (tp : mtape)      (* [break 'step] *)
  | SwPanic.

  (** macros.rs:209-216.  [pos] grows by one per iteration and the loop is
      left when [cells <= pos]: [S (length tape)] iterations suffice, fuel
      exhaustion is unreachable. *)
  Fixpoint sweep_right (fuel : nat) (cells scan color : N) (tp : mtape) (pos : N) : sweep_res :=
    match fuel with
    | O => SwPanic
    | S f =>
        match mt_nth tp pos with
        | None => SwPanic
        | Some v =>
            if v =? scan then
              let tp' := mt_set tp pos color in
              let pos' := pos + 1 in
              if cells <=? pos' then SwExit true tp'
              else sweep_right f cells scan color tp' pos'
            else SwCont tp pos
        end
    end.

  (** macros.rs:218-225 *)
  Fixpoint sweep_left (fuel : nat) (scan color : N) (tp : mtape) (pos : N) : sweep_res :=
    match fuel with
    | O => SwPanic
    | S f =>
        match mt_nth tp pos with
        | None => SwPanic
        | Some v =>
            if v =? scan then
              let tp' := mt_set tp pos color in
              if pos =? 0 then SwExit false tp'
              else sweep_left f scan color tp' (pos - 1)
            else SwCont tp pos
        end
    end.

  (** One iteration of ['step: for _ in 0..macro_sim_lim], macros.rs:184-227 *)
  Definition sim_body (cells : N) (s : simst) : simst + sim_exit :=
    let b := si_base s in
    match mt_nth (si_tape s) (si_pos s) with
    | None => inr (SxPanic b)                               (* tape[pos], macros.rs:185 *)
    | Some scan =>
        let '(r, b') := base_get b (si_state s, scan) in
        match r with
        | Panic => inr (SxPanic b')
        | Ok None => inr (SxNone b')
        | Ok (Some (color, sh, next_state)) =>
            if negb (next_state =? si_state s) then
              let tp' := mt_set (si_tape s) (si_pos s) color in
              if sh then
                let pos' := si_pos s + 1 in
                if cells <=? pos' then inr (SxSide true next_state tp' b')
                else inl (mkSim next_state tp' pos' b')
              else
                if si_pos s =? 0 then inr (SxSide false next_state tp' b')
                else inl (mkSim next_state tp' (si_pos s - 1) b')
            else
              match (if sh
                     then sweep_right (S (length (si_tape s))) cells scan color (si_tape s) (si_pos s)
                     else sweep_left (S (length (si_tape s))) scan color (si_tape s) (si_pos s)) with
              | SwCont tp' pos' => inl (mkSim (si_state s) tp' pos' b')
              | SwExit side tp' => inr (SxSide side (si_state s) tp' b')
              | SwPanic => inr (SxPanic b')
              end
        end
    end.

  (** macros.rs:174-230 *)
  Definition run_simulator (lg : logic) (cfg : mconfig) (b : bstate)
    : outcome (option mconfig) * bstate :=
    let '(st, (right_edge, tp)) := cfg in
    let cells := mt_len tp in
    if right_edge && (cells =? 0) then (Panic, b)           (* cells - 1 underflow *)
    else
      let pos := if right_edge then cells - 1 else 0 in
      match macro_sim_lim lg with
      | Panic => (Panic, b)
      | Ok lim =>
          match for_upto lim (sim_body cells) (mkSim st tp pos b) with
          | inl s => (Ok None, si_base s)                    (* side = None *)
          | inr (SxNone b') => (Ok None, b')
          | inr (SxSide side st' tp' b') => (Ok (Some (st', (side, tp'))), b')
          | inr (SxPanic b') => (Panic, b')
          end
      end.

  (** macros.rs:168-172 *)
  Definition macro_calculate_instr (lg : logic) (mb : mstate * bstate) (sl : slot)
    : outcome (option instr) * (mstate * bstate) :=
    let '(m, b) := mb in
    match deconstruct_inputs lg m sl with
    | Panic => (Panic, mb)
    | Ok cfg =>
        let '(r, b') := run_simulator lg cfg b in
        match r with
        | Panic => (Panic, (m, b'))
        | Ok None => (Ok None, (m, b'))
        | Ok (Some cfg') =>
            let '(ri, m') := reconstruct_outputs lg m cfg' in
            match ri with
            | Panic => (Panic, (m', b'))
            | Ok i => (Ok (Some i), (m', b'))
            end
        end
    end.

  (** macros.rs:121-131 *)
  Definition macro_get_instr (lg : logic) (mb : mstate * bstate) (sl : slot)
    : outcome (option instr) * (mstate * bstate) :=
    match cp_get (ms_instrs (fst mb)) sl with
    | Some i => (Ok (Some i), mb)
    | None =>
        let '(r, (m', b')) := macro_calculate_instr lg mb sl in
        match r with
        | Ok (Some i) =>
            (Ok (Some i), (mkMS (ms_c2t m') (ms_t2c m') (cp_insert sl i (ms_instrs m')), b'))
        | _ => (r, (m', b'))
        end
    end.
End MacroProg.

(** macros.rs:145-150 params() *)
Definition macro_params (lg : logic) : outcome (N * N) :=
  obind (macro_states lg) (fun s => obind (macro_colors lg) (fun c => Ok (s, c))).

(** ---- nesting: a stack of macro layers over a CompProg, OUTERMOST first.
    The base of the innermost layer is the plain table ([CompProg::macro_get_instr],
    instrs.rs:43-45, stateless). *)
Fixpoint stack_get (comp : comp_prog) (lgs : list logic)
  : list mstate -> slot -> outcome (option instr) * list mstate :=
  match lgs with
  | [] => fun st sl => (Ok (cp_get comp sl), st)
  | lg :: lgs' => fun st sl =>
      match st with
      | [] => (Panic, [])                 (* unreachable: |st| = |lgs| *)
      | m :: rest =>
          let '(r, (m', rest')) :=
            macro_get_instr (list mstate) (stack_get comp lgs') lg (m, rest) sl in
          (r, m' :: rest')
      end
  end.

Definition stack_new (lgs : list logic) : list mstate :=
  map (fun lg => mstate_new (lg_cells lg)) lgs.

(** A sequence of get_instr calls on one object. *)
Fixpoint stack_queries (comp : comp_prog) (lgs : list logic) (st : list mstate) (qs : list slot)
  : list (outcome (option instr)) * list mstate :=
  match qs with
  | [] => ([], st)
  | q :: qs' =>
      let '(r, st') := stack_get comp lgs st q in
      let '(rs, st'') := stack_queries comp lgs st' qs' in
      (r :: rs, st'')
  end.

(** Two independent objects over the same base program, calls interleaved
    A1 B1 A2 B2 ... (the objects share nothing mutable, so this is two
    separate sequences; defined as the interleaving for the record). *)
Fixpoint stack_queries2 (comp : comp_prog) (lgs : list logic) (sa sb : list mstate)
  (qa qb : list slot) {struct qa}
  : list (outcome (option instr)) * list (outcome (option instr)) :=
  match qa with
  | [] => ([], fst (stack_queries comp lgs sb qb))
  | a :: qa' =>
      let '(ra, sa') := stack_get comp lgs sa a in
      match qb with
      | [] => let '(ras, _) := stack_queries comp lgs sa' qa' in (ra :: ras, [])
      | b :: qb' =>
          let '(rb, sb') := stack_get comp lgs sb b in
          let '(ras, rbs) := stack_queries2 comp lgs sa' sb' qa' qb' in
          (ra :: ras, rb :: rbs)
      end
  end.

(** ---- running a macro program like run_for_infrul's loop without the
    prover (machine.rs:184-199) ---- *)
Inductive run_stop := RsLimit | RsUndef (sl : slot) | RsSpinout | RsPanic.

Record run_st := mkRun {
  rn_state : state;
  rn_tape : tape;
  rn_ms : list mstate;
  rn_cycles : N;
  rn_log : list (slot * outcome (option instr)) }.     (* newest first *)

Definition macro_run_body (comp : comp_prog) (lgs : list logic) (s : run_st)
  : run_st + (run_stop * run_st) :=
  let sl := (rn_state s, scan (rn_tape s)) in
  let '(r, ms') := stack_get comp lgs (rn_ms s) sl in
  let s1 := mkRun (rn_state s) (rn_tape s) ms' (rn_cycles s) ((sl, r) :: rn_log s) in
  match r with
  | Panic => inr (RsPanic, s1)
  | Ok None => inr (RsUndef sl, s1)
  | Ok (Some (color, sh, next_state)) =>
      let same := rn_state s =? next_state in
      if same && at_edge (rn_tape s) sh then inr (RsSpinout, s1)
      else
        let '(t', _) := step (rn_tape s) sh color same in
        inl (mkRun next_state t' ms' (rn_cycles s + 1) (rn_log s1))
  end.

Definition macro_run (comp : comp_prog) (lgs : list logic) (n : N) : run_stop * run_st :=
  match for_upto n (macro_run_body comp lgs) (mkRun 0 (init_tape 0) (stack_new lgs) 0 []) with
  | inl s => (RsLimit, s)
  | inr x => x
  end.
