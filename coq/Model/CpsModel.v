(** Model of src/cps.rs  (the "closed position set" decider).

    Statement-by-statement transcription.  Conventions:

    - A Rust panic is [Panic] of [outcome].
    - [BTreeMap<Vec<Color>, _>] ([Spans]) is a trie whose children are kept
      strictly sorted by colour ([ctrie]).  That is the canonical sorted
      representation of a map keyed by colour vectors: a pre-order walk
      (node value first, then the children in ascending order) enumerates
      the keys exactly in Rust's [Vec<Color>] order (lexicographic, a proper
      prefix first).  cps.rs never iterates over a [Spans] map (only [get],
      [get_mut], [insert]), so no observable depends on that order; the trie
      is used instead of a flat sorted association list for speed only.
    - [HashSet<Color>] (the value of a [Spans] entry) is a duplicate-free
      list in insertion order; its only reader is [get_colors], which sorts.
    - [HashSet<Config>] ([Configs.seen]) is a duplicate-free list in
      insertion order, NEWEST FIRST ([set_elems]), together with a membership
      index (a [ctrie unit] keyed by [config_key]) and the cached length.
      Invariant (to be proved, not needed for running):
        [In c (set_elems s) <-> cset_mem c s = true],  [NoDup (set_elems s)],
        [set_len s = N.of_nat (length (set_elems s))].

    HASH-ORDER DEPENDENCE.  cps.rs:64-65 turns a clone of [seen] into the
    [todo] vector, i.e. the processing order of one sweep is the iteration
    order of a [std::collections::HashSet] with the default [RandomState]
    (randomly keyed SipHash: the order differs between processes, threads
    and even between two sets in one thread).  That order is an explicit
    parameter [order] of the model: [order (set_elems seen)] is the list of
    configs in the order in which they are POPPED from [todo] (head = first
    popped = last element of the Rust vector).  Every Rust execution
    corresponds to some [order] with [Permutation (order l) l] (possibly a
    different permutation in every sweep, which a function of the list can
    express because [seen] is strictly larger in every later sweep).

    Why the order is (almost) unobservable:  [seen], [lspans], [rspans] only
    grow, and a sweep is "derive everything derivable from what is known";
    [Ok true] is returned only after a sweep that inserted no config, and in
    such a sweep no span entry is added either (every config of that sweep
    was already processed, hence its push span added, in the sweep that
    inserted it).  So at [Ok true] the triple (seen, lspans, rspans) is the
    least closed set, independent of [order]; and every goal test / missing
    instruction that fires in any sweep also fires in that last sweep
    (monotonicity of [get_colors]).  Hence, IGNORING the two limits, the
    boolean is independent of [order].  The limits are order sensitive in
    principle:
      - MAX_LOOPS: the number of sweeps needed depends on the order;
      - MAX_DEPTH: the test at cps.rs:158 is skipped by the [continue] at
        cps.rs:150, so whether it is ever evaluated with
        [seen.len() > MAX_DEPTH] depends on which config is inserted as
        "last colour", which depends on the spans known at that moment.
    Observed (tools/cps_diff.py, work/cps): with the real code (random
    order) closing sweeps number up to several hundred and MAX_LOOPS IS hit
    (e.g. "1RB 2RB 2LA  0LB 1LA 0RB", radius 8), but in every such case seen
    so far the closed set is larger than MAX_DEPTH, so the answer is [false]
    whatever the order.  The model itself shows that the boolean depends on
    [order]: for "2RB 2RB 3RB 1LA  0LA 1RB 2RB 3RB" (a base-3 counter), one
    pass at radius 7, goal Halt, the closed set has 96219 configs;
    [order_oldest_first] answers [Ok true] after 6 sweeps, the real code
    answers true after about 665 sweeps, [order_newest_first] needs more
    than 1000 sweeps and answers [Ok false]. *)
From BB Require Export Base InstrsModel.

(** instrs.rs:20-25  enum Term *)
Inductive cps_term := CpsHalt | CpsBlank | CpsSpinout.

(** cps.rs:11-12 *)
Definition MAX_LOOPS : N := 1000.
Definition MAX_DEPTH : N := 100000.

(** ------------------------------------------------------------------ *)
(** Generic containers *)

(** association list strictly sorted by its [N] key *)
Fixpoint nassoc_get {A : Type} (k : N) (l : list (N * A)) : option A :=
  match l with
  | [] => None
  | (k', v) :: l' =>
      match k ?= k' with
      | Eq => Some v
      | Lt => None
      | Gt => nassoc_get k l'
      end
  end.

(** replace the value at [k] by [f (old value)], inserting when absent *)
Fixpoint nassoc_upd {A : Type} (k : N) (f : option A -> A) (l : list (N * A)) : list (N * A) :=
  match l with
  | [] => [(k, f None)]
  | (k', v) :: l' =>
      match k ?= k' with
      | Eq => (k, f (Some v)) :: l'
      | Lt => (k, f None) :: l
      | Gt => (k', v) :: nassoc_upd k f l'
      end
  end.

(** map keyed by [list N]; children strictly sorted by key *)
Inductive ctrie (A : Type) := CNode (v : option A) (ch : list (N * ctrie A)).
Arguments CNode {A} v ch.

Definition ctrie_empty {A : Type} : ctrie A := CNode None [].

Fixpoint ctrie_get {A : Type} (k : list N) (t : ctrie A) {struct k} : option A :=
  match t with
  | CNode v ch =>
      match k with
      | [] => v
      | c :: k' =>
          match nassoc_get c ch with
          | None => None
          | Some t' => ctrie_get k' t'
          end
      end
  end.

(** set the value at key [k] to [f (old value)] *)
Fixpoint ctrie_upd {A : Type} (k : list N) (f : option A -> A) (t : ctrie A) {struct k} : ctrie A :=
  match t with
  | CNode v ch =>
      match k with
      | [] => CNode (Some (f v)) ch
      | c :: k' =>
          CNode v (nassoc_upd c
                     (fun ot => ctrie_upd k' f (match ot with Some t' => t' | None => ctrie_empty end))
                     ch)
      end
  end.

(** [HashSet<Color>]: duplicate-free list, insertion order *)
Definition colorset := list colour.
Definition colorset_insert (c : colour) (s : colorset) : colorset :=
  if existsb (N.eqb c) s then s else s ++ [c].

(** [sort_unstable] on a [Vec<Color>] (values are plain integers, so
    stability is unobservable): insertion sort *)
Fixpoint sort_insert (c : colour) (l : list colour) : list colour :=
  match l with
  | [] => [c]
  | x :: l' => if c <=? x then c :: l else x :: sort_insert c l'
  end.
Definition sort_colors (l : list colour) : list colour := fold_right sort_insert [] l.

(** [Vec::pop] on the non-empty vector [x :: l]: (remaining, popped) *)
Fixpoint pop_last_ne {A : Type} (x : A) (l : list A) : list A * A :=
  match l with
  | [] => ([], x)
  | y :: l' => let '(r, z) := pop_last_ne y l' in (x :: r, z)
  end.

(** [slice::split_last]: (last, init) -- returned here as (init, last) *)
Definition split_last {A : Type} (l : list A) : option (list A * A) :=
  match l with
  | [] => None
  | x :: l' => Some (pop_last_ne x l')
  end.

(** ------------------------------------------------------------------ *)
(** cps.rs:303-338  Span *)

Record cspan := mkCSpan { sp_span : list colour; sp_last : colour }.

(** cps.rs:310-317.  [assert!(rad > 0)] panics for rad = 0; after it
    [rad - 1] cannot underflow. *)
Definition span_init (rad : N) : outcome cspan :=
  if 0 <? rad then Ok (mkCSpan (N.iter (rad - 1) (cons 0) []) 0) else Panic.

(** cps.rs:319-323.  After [insert(0, color)] the vector is non-empty, so
    [pop().unwrap()] cannot panic. *)
Definition span_push (s : cspan) (color : colour) : cspan :=
  let '(sp, l) := pop_last_ne color (sp_span s) in mkCSpan sp l.

(** cps.rs:325-329.  After [push(last)] the vector is non-empty, so
    [remove(0)] cannot panic.  [last] is left unchanged (stale). *)
Definition span_pull (s : cspan) : colour * cspan :=
  match sp_span s with
  | [] => (sp_last s, mkCSpan [] (sp_last s))
  | x :: l => (x, mkCSpan (l ++ [sp_last s]) (sp_last s))
  end.

(** cps.rs:331-333 *)
Definition span_blank_span (s : cspan) : bool := forallb (fun c => c =? 0) (sp_span s).

(** cps.rs:335-337 *)
Definition span_all_blank (s : cspan) : bool := (sp_last s =? 0) && span_blank_span s.

(** ------------------------------------------------------------------ *)
(** cps.rs:250-277  Tape *)

Record ctape := mkCTape { ct_scan : colour; ct_lspan : cspan; ct_rspan : cspan }.

(** cps.rs:258-264 *)
Definition ctape_init (rad : N) : outcome ctape :=
  match span_init rad with
  | Panic => Panic
  | Ok l => match span_init rad with
            | Panic => Panic
            | Ok r => Ok (mkCTape 0 l r)
            end
  end.

(** cps.rs:266-276 *)
Definition ctape_from_spans (scan : colour) (push pull : cspan) (sh : shift) : ctape :=
  let '(l, r) := if sh then (push, pull) else (pull, push) in mkCTape scan l r.

(** ------------------------------------------------------------------ *)
(** cps.rs:224-237  Config *)

Record cconfig := mkConfig { cf_state : state; cf_tape : ctape }.

(** cps.rs:231-236 *)
Definition config_init (rad : N) : outcome cconfig :=
  match ctape_init rad with
  | Panic => Panic
  | Ok t => Ok (mkConfig 0 t)
  end.

(** Injective flattening of a config (the [derive(PartialEq, Eq, Hash)]
    identity): the length of the left span vector makes the encoding
    injective without any invariant on span lengths. *)
Definition config_key (c : cconfig) : list N :=
  let t := cf_tape c in
  let l := ct_lspan t in
  let r := ct_rspan t in
  cf_state c :: ct_scan t :: N.of_nat (length (sp_span l))
    :: sp_span l ++ sp_last l :: sp_span r ++ [sp_last r].

(** [HashSet<Config>] *)
Record cset := mkCSet {
  set_elems : list cconfig;       (* insertion order, newest first *)
  set_index : ctrie unit;        (* membership index on [config_key] *)
  set_len : N }.                 (* [len()] *)

Definition cset_empty : cset := mkCSet [] ctrie_empty 0.

(** [HashSet::contains] *)
Definition cset_mem (c : cconfig) (s : cset) : bool :=
  match ctrie_get (config_key c) (set_index s) with
  | Some _ => true
  | None => false
  end.

(** [HashSet::insert] (no effect when already present) *)
Definition cset_insert (c : cconfig) (s : cset) : cset :=
  if cset_mem c s then s
  else mkCSet (c :: set_elems s)
              (ctrie_upd (config_key c) (fun _ => tt) (set_index s))
              (set_len s + 1).

(** ------------------------------------------------------------------ *)
(** cps.rs:198-220  Spans, AddSpan *)

Definition spans := ctrie colorset.

(** cps.rs:206-212 *)
Definition add_span (sp : spans) (s : cspan) : spans :=
  ctrie_upd (sp_span s)
            (fun oc => match oc with
                       | Some colors => colorset_insert (sp_last s) colors
                       | None => [sp_last s]
                       end)
            sp.

(** cps.rs:214-219.  [get(..).unwrap()] panics on a missing key. *)
Definition get_colors (sp : spans) (s : cspan) : outcome (list colour) :=
  match ctrie_get (sp_span s) sp with
  | None => Panic
  | Some colors => Ok (sort_colors colors)
  end.

(** ------------------------------------------------------------------ *)
(** cps.rs:173-196  Configs *)

Record configs := mkConfigs { c_seen : cset; c_lspans : spans; c_rspans : spans }.

(** cps.rs:180-195 *)
Definition configs_init (rad : N) : outcome configs :=
  match config_init rad with
  | Panic => Panic
  | Ok init =>
      Ok (mkConfigs (cset_insert init cset_empty)
                    (add_span ctrie_empty (ct_lspan (cf_tape init)))
                    (add_span ctrie_empty (ct_rspan (cf_tape init))))
  end.

(** ------------------------------------------------------------------ *)
(** cps.rs:56-169  cps_cant_reach *)

(** State of the [while let Some(config) = todo.pop()] loop.
    [w_todo] is the stack, head = top (= the END of the Rust vector). *)
Record wstate := mkW { w_todo : list cconfig; w_cfgs : configs; w_update : bool }.

(** cps.rs:131-137 and 149-155.  [None] = the Rust [continue]. *)
Definition try_insert (next_config : cconfig) (w : wstate) : option wstate :=
  let cfgs := w_cfgs w in
  if cset_mem next_config (c_seen cfgs) then None
  else Some (mkW (next_config :: w_todo w)
                 (mkConfigs (cset_insert next_config (c_seen cfgs)) (c_lspans cfgs) (c_rspans cfgs))
                 true).

(** cps.rs:116-138: [for color in colors] over all but the last colour *)
Fixpoint branch_colors (next_state : state) (scan : colour) (push pull : cspan) (sh : shift)
                       (colors : list colour) (w : wstate) : wstate :=
  match colors with
  | [] => w
  | color :: colors' =>
      let next_config :=
        mkConfig next_state (ctape_from_spans scan push (mkCSpan (sp_span pull) color) sh) in
      branch_colors next_state scan push pull sh colors'
                    (match try_insert next_config w with
                     | None => w
                     | Some w' => w'
                     end)
  end.

(** cps.rs:101-109 *)
Definition goal_test (goal : cps_term) (colors : list colour) (scan : colour)
                     (pull push : cspan) (st next_state : state) : bool :=
  negb (match goal with CpsHalt => true | _ => false end)
  && existsb (N.eqb 0) colors
  && (scan =? 0)
  && span_blank_span pull
  && match goal with
     | CpsBlank => span_all_blank push
     | CpsSpinout => st =? next_state
     | CpsHalt => false
     end.

(** cps.rs:70-160: the body of the while loop for the popped [cfg];
    [w] is the state after the pop.  [inr r] = the function returns [r]
    (or panics). *)
Definition cps_process (prog : comp_prog) (goal : cps_term) (cfg : cconfig) (w : wstate)
  : wstate + outcome bool :=
  let st := cf_state cfg in
  let tape := cf_tape cfg in
  match cp_get prog (st, ct_scan tape) with
  | None =>                                                   (* 72-79 *)
      match goal with
      | CpsHalt => inr (Ok false)
      | _ => inl w
      end
  | Some (print, sh, next_state) =>
      let cfgs := w_cfgs w in
      let '(pull, pull_spans, push, push_spans) :=            (* 81-91 *)
        if sh then (ct_rspan tape, c_rspans cfgs, ct_lspan tape, c_lspans cfgs)
        else (ct_lspan tape, c_lspans cfgs, ct_rspan tape, c_rspans cfgs) in
      let push_spans' := add_span push_spans push in          (* 93 *)
      let push' := span_push push print in                    (* 95 *)
      let '(scan', pull') := span_pull pull in                (* 97 *)
      match get_colors pull_spans pull' with                  (* 99 *)
      | Panic => inr Panic
      | Ok colors =>
          if goal_test goal colors scan' pull' push' st next_state   (* 101-112 *)
          then inr (Ok false)
          else
            match split_last colors with                      (* 114 *)
            | None => inr Panic
            | Some (colors', last_color) =>
                let cfgs' :=
                  if sh then mkConfigs (c_seen cfgs) push_spans' (c_rspans cfgs)
                  else mkConfigs (c_seen cfgs) (c_lspans cfgs) push_spans' in
                let w1 := mkW (w_todo w) cfgs' (w_update w) in
                let w2 := branch_colors next_state scan' push' pull' sh colors' w1 in   (* 116-138 *)
                let next_config :=                            (* 141-147 *)
                  mkConfig next_state
                           (ctape_from_spans scan' push' (mkCSpan (sp_span pull') last_color) sh) in
                match try_insert next_config w2 with          (* 149-155 *)
                | None => inl w2                              (* continue: skips 158 *)
                | Some w3 =>
                    if MAX_DEPTH <? set_len (c_seen (w_cfgs w3))    (* 158-160 *)
                    then inr (Ok false)
                    else inl w3
                end
            end
      end
  end.

(** how the while loop ends *)
Inductive wexit :=
| WDone (cfgs : configs) (update : bool)     (* todo exhausted *)
| WReturn (r : outcome bool).                (* return / panic inside the body *)

(** cps.rs:69: one iteration of the while loop *)
Definition cps_while_body (prog : comp_prog) (goal : cps_term) (w : wstate) : wstate + wexit :=
  match w_todo w with
  | [] => inr (WDone (w_cfgs w) (w_update w))
  | cfg :: todo' =>
      match cps_process prog goal cfg (mkW todo' (w_cfgs w) (w_update w)) with
      | inl w' => inl w'
      | inr r => inr (WReturn r)
      end
  end.

(** Fuel for the while loop (which has no limit of its own).  Every config
    ever inserted has its state below [ns] and all its [2*rad+1] cells below
    [nc] (states: 0 or a transition target; cells: 0 or a printed colour).
    Each iteration pops one config, and the configs popped during one sweep
    are pairwise distinct members of the final [seen]; so one sweep takes at
    most [ns * nc^(2*rad+1)] iterations plus one to see the empty stack. *)
Definition while_fuel (prog : comp_prog) (rad : N) : N :=
  let '(ns, nc) :=
    fold_left (fun acc kv =>
                 let '((s, c), (pr, _, tr)) := kv in
                 (N.max (N.max (fst acc) s) tr, N.max (N.max (snd acc) c) pr))
              prog (0, 0) in
  (ns + 1) * (nc + 1) ^ (2 * rad + 1) + 1.

(** cps.rs:63-166: one iteration of [for _ in 0..MAX_LOOPS] (one sweep).
    [order] : see the header.  Fuel exhaustion of the inner loop is
    unreachable (see [while_fuel]); it answers [Ok false], the conservative
    answer, so that soundness statements do not depend on the fuel bound. *)
Definition cps_loop_body (order : list cconfig -> list cconfig) (prog : comp_prog)
                         (goal : cps_term) (fuel : N) (cfgs : configs)
  : configs + outcome bool :=
  let todo := order (set_elems (c_seen cfgs)) in              (* 64-65 *)
  match for_upto fuel (cps_while_body prog goal) (mkW todo cfgs false) with   (* 67-161 *)
  | inl _ => inr (Ok false)
  | inr (WReturn r) => inr r
  | inr (WDone cfgs' update) =>
      if update then inl cfgs' else inr (Ok true)             (* 163-165 *)
  end.

(** cps.rs:56-169 *)
Definition cps_cant_reach (order : list cconfig -> list cconfig) (prog : comp_prog)
                          (rad : N) (goal : cps_term) : outcome bool :=
  match configs_init rad with                                 (* 61 *)
  | Panic => Panic
  | Ok cfgs0 =>
      match for_upto MAX_LOOPS (cps_loop_body order prog goal (while_fuel prog rad)) cfgs0 with
      | inl _ => Ok false                                     (* 168 *)
      | inr r => r
      end
  end.

(** cps.rs:50-54.  [assert!(rad > 1)]; [(2..rad).any(..)] is sequential
    and short-circuiting; a panic inside propagates. *)
Definition cps_run (order : list cconfig -> list cconfig) (prog : comp_prog)
                   (rad : N) (goal : cps_term) : outcome bool :=
  if 1 <? rad then
    match for_upto (rad - 2)
                   (fun seg => match cps_cant_reach order prog seg goal with
                               | Panic => inr Panic
                               | Ok true => inr (Ok true)
                               | Ok false => inl (seg + 1)
                               end) 2 with
    | inl _ => Ok false
    | inr r => r
    end
  else Panic.

(** cps.rs:23-29 *)
Definition cps_cant_halt (order : list cconfig -> list cconfig) (prog : comp_prog) (rad : N)
  : outcome bool :=
  match halt_slots prog with
  | [] => Ok true
  | _ :: _ => cps_run order prog rad CpsHalt
  end.

(** cps.rs:31-37 *)
Definition cps_cant_blank (order : list cconfig -> list cconfig) (prog : comp_prog) (rad : N)
  : outcome bool :=
  match erase_slots prog with
  | [] => Ok true
  | _ :: _ => cps_run order prog rad CpsBlank
  end.

(** cps.rs:39-45 *)
Definition cps_cant_spin_out (order : list cconfig -> list cconfig) (prog : comp_prog) (rad : N)
  : outcome bool :=
  match zr_shifts prog with
  | [] => Ok true
  | _ :: _ => cps_run order prog rad CpsSpinout
  end.

(** Two concrete processing orders.  [order_newest_first] pops the most
    recently inserted config first; [order_oldest_first] pops the configs in
    insertion order (the initial config first) and is what the runner [bbm]
    uses: it needs far fewer sweeps than a random order (3-16 where the real
    code needs up to several hundred), so MAX_LOOPS is out of reach. *)
Definition order_newest_first (l : list cconfig) : list cconfig := l.
Definition order_oldest_first (l : list cconfig) : list cconfig := rev_append l [].
