(** C17, min-signatures: tm/tape.py [EnumTape] vs src/tape.rs [EnumTape].

    Python keys its enumeration by OBJECT IDENTITY ([enums\[id(block)\]]) and
    [Tape.step] re-uses the block objects it pops, so a block that moves to
    the other span keeps its number; Rust numbers by a field that a freshly
    pushed block does not have.  This file proves that this difference is NOT
    one: a block is always registered ([check_offsets]) in the very step that
    pops it, offsets only grow, hence a number that only Python still carries
    can never raise an offset again.  Consequently the two min-signatures are
    EQUAL whenever no stored rule is applied during the replay
    ([min_sig_agree_plain]); the one real difference is D4 (get_count
    registers, Proofs/PyRunAgree.v, witness C17_min_sig_differs_D4). *)
From BB Require Import Base TapeModel InstrsModel RulesModel MachineModel ProverModel.
From BB Require Import PyTapeModel PyRulesModel PyProverModel PyMachineModel.
From BB Require Import TapeCanon Loops PyRsAgree ProverSound PyRunAgree.
Open Scope N_scope.

(** [i] is the number of a block that is already registered under the
    offsets [(lo, ro)] (or no number at all) *)
Definition reg (lo ro : N) (i : option index) : bool :=
  match i with
  | None => true
  | Some (side, k) => k <=? (if side then ro else lo)
  end.

(** Python's number [pi] and Rust's number [ri] of the same block *)
Definition idx_rel (lo ro : N) (pi ri : option index) : Prop :=
  pi = ri \/ (ri = None /\ reg lo ro pi = true).
Definition blk_rel (lo ro : N) (pb rb : eblock) : Prop :=
  eb_color pb = eb_color rb /\ eb_count pb = eb_count rb /\
  idx_rel lo ro (eb_index pb) (eb_index rb).
Definition span_rel (lo ro : N) : espan -> espan -> Prop := Forall2 (blk_rel lo ro).
Definition epos (s : espan) : Prop := Forall (fun b => 1 <= eb_count b) s.

Definition et_rel (pe re : enum_tape) : Prop :=
  et_scan pe = et_scan re /\ et_loff pe = et_loff re /\ et_roff pe = et_roff re /\
  et_ledge pe = et_ledge re /\ et_redge pe = et_redge re /\
  span_rel (et_loff pe) (et_roff pe) (et_l pe) (et_l re) /\
  span_rel (et_loff pe) (et_roff pe) (et_r pe) (et_r re) /\
  epos (et_l pe) /\ epos (et_r pe).

Lemma reg_mono lo ro lo' ro' i : lo <= lo' -> ro <= ro' -> reg lo ro i = true -> reg lo' ro' i = true.
Proof.
  destruct i as [[[] k]|]; cbn [reg]; intros H1 H2 H; try reflexivity;
    apply N.leb_le in H; apply N.leb_le; lia.
Qed.
Lemma idx_rel_mono lo ro lo' ro' pi ri :
  lo <= lo' -> ro <= ro' -> idx_rel lo ro pi ri -> idx_rel lo' ro' pi ri.
Proof.
  intros H1 H2 [E|[E R]]; [left; exact E|right; split; [exact E|eapply reg_mono; eassumption]].
Qed.
Lemma blk_rel_mono lo ro lo' ro' pb rb :
  lo <= lo' -> ro <= ro' -> blk_rel lo ro pb rb -> blk_rel lo' ro' pb rb.
Proof. intros H1 H2 (A & B & C). repeat split; try assumption. eapply idx_rel_mono; eassumption. Qed.
Lemma span_rel_mono lo ro lo' ro' a b :
  lo <= lo' -> ro <= ro' -> span_rel lo ro a b -> span_rel lo' ro' a b.
Proof.
  intros H1 H2 H. induction H; constructor; [eapply blk_rel_mono; eassumption|assumption].
Qed.

(** ------------------------------------------------------------------ *)
(** * check_offsets                                                     *)

(** the offsets after registering number [i] *)
Definition co (lo ro : N) (i : option index) : N * N :=
  match i with
  | None => (lo, ro)
  | Some (true, k) => (lo, if ro <? k then k else ro)
  | Some (false, k) => (if lo <? k then k else lo, ro)
  end.

Lemma py_check_offsets_spec et b :
  py_check_offsets et b =
  mkET (et_scan et) (et_l et) (et_r et)
       (fst (co (et_loff et) (et_roff et) (eb_index b))) (snd (co (et_loff et) (et_roff et) (eb_index b)))
       (et_ledge et) (et_redge et).
Proof.
  destruct et as [sc l r lo ro le re_]. unfold py_check_offsets. cbn [et_scan et_l et_r et_loff et_roff et_ledge et_redge].
  destruct (eb_index b) as [[[] k]|]; cbn [co fst snd]; try reflexivity.
  - destruct (ro <? k); reflexivity.
  - destruct (lo <? k); reflexivity.
Qed.
Lemma check_offsets_spec et b :
  check_offsets et b =
  mkET (et_scan et) (et_l et) (et_r et)
       (fst (co (et_loff et) (et_roff et) (eb_index b))) (snd (co (et_loff et) (et_roff et) (eb_index b)))
       (et_ledge et) (et_redge et).
Proof.
  destruct et as [sc l r lo ro le re_]. unfold check_offsets. cbn [et_scan et_l et_r et_loff et_roff et_ledge et_redge].
  destruct (eb_index b) as [[[] k]|]; cbn [co fst snd]; try reflexivity.
  - destruct (ro <? k); reflexivity.
  - destruct (lo <? k); reflexivity.
Qed.

Lemma co_ge lo ro i : lo <= fst (co lo ro i) /\ ro <= snd (co lo ro i).
Proof.
  destruct i as [[[] k]|]; cbn [co fst snd]; try lia.
  - destruct (N.ltb_spec ro k); lia.
  - destruct (N.ltb_spec lo k); lia.
Qed.
Lemma co_reg lo ro i : reg (fst (co lo ro i)) (snd (co lo ro i)) i = true.
Proof.
  destruct i as [[[] k]|]; cbn [co fst snd reg]; try reflexivity; apply N.leb_le.
  - destruct (N.ltb_spec ro k); lia.
  - destruct (N.ltb_spec lo k); lia.
Qed.
Lemma co_registered lo ro i : reg lo ro i = true -> co lo ro i = (lo, ro).
Proof.
  destruct i as [[[] k]|]; cbn [co reg]; intros H; try reflexivity; apply N.leb_le in H.
  - destruct (N.ltb_spec ro k); [lia|reflexivity].
  - destruct (N.ltb_spec lo k); [lia|reflexivity].
Qed.
Lemma co_rel lo ro pi ri : idx_rel lo ro pi ri -> co lo ro pi = co lo ro ri.
Proof. intros [->|[-> R]]; [reflexivity|]. rewrite (co_registered _ _ _ R). reflexivity. Qed.

(** ------------------------------------------------------------------ *)
(** * the core of one step, on (scan, pull side, push side)             *)

(** tape.py:168-201 with identities (the body of PyProverModel.py_estep) *)
Definition py_core (sc : colour) (pull0 push0 : espan) (color : colour) (skip : bool)
  : colour * espan * espan * N :=
  let '(push_block1, pull1) :=
    match pull0 with
    | b :: rest => if skip && (eb_color b =? sc) then (Some b, rest) else (None, pull0)
    | [] => (None, pull0)
    end in
  let stepped := match push_block1 with None => 1 | Some b => 1 + eb_count b end in
  let '(next_scan, pull2, push_block2) :=
    match pull1 with
    | [] => (0, pull1, push_block1)
    | next_pull :: rest =>
        let next_scan := eb_color next_pull in
        if negb (eb_count next_pull =? 1)
        then (next_scan,
              mkEB (eb_color next_pull) (eb_count next_pull - 1) (eb_index next_pull) :: rest,
              push_block1)
        else
          match push_block1 with
          | None => (next_scan, rest, Some (mkEB (eb_color next_pull) 0 (eb_index next_pull)))
          | Some _ => (next_scan, rest, push_block1)
          end
    end in
  let push1 :=
    match push0 with
    | top_block :: prest =>
        if eb_color top_block =? color
        then mkEB (eb_color top_block) (eb_count top_block + stepped) (eb_index top_block) :: prest
        else py_new_eblock color push_block2 :: push0
    | [] =>
        if negb (color =? 0) then [py_new_eblock color push_block2] else []
    end in
  (next_scan, pull2, push1, stepped).

Lemma py_estep_core et (sh : bool) color skip :
  py_estep et sh color skip =
  let '(ns, pull2, push1, stepped) :=
    py_core (et_scan et) (if sh then et_r et else et_l et) (if sh then et_l et else et_r et) color skip in
  (if sh
   then mkET ns push1 pull2 (et_loff et) (et_roff et) (et_ledge et) (et_redge et)
   else mkET ns pull2 push1 (et_loff et) (et_roff et) (et_ledge et) (et_redge et), stepped).
Proof.
  unfold py_estep, py_core. destruct sh;
    repeat match goal with
           | |- context [let '(_, _) := ?x in _] => destruct x
           | |- context [match ?x with (_, _) => _ end] => destruct x
           end; reflexivity.
Qed.

(** tape.rs pull + push *)
Definition rs_core (sc : colour) (pull0 push0 : espan) (color : colour) (skip : bool)
  : colour * espan * espan * N :=
  let '(pull', nx, stepped) := epull pull0 sc skip in
  (nx, pull', epush push0 color stepped, stepped).

Ltac blk :=
  refine (conj _ (conj _ _)); cbn [eb_color eb_count eb_index];
  [try congruence; try reflexivity|try congruence; try lia|try assumption].

Lemma core_agree lo ro sc (ppull ppush rpull rpush : espan) color skip :
  span_rel lo ro ppull rpull -> span_rel lo ro ppush rpush ->
  epos ppull -> epos ppush ->
  (* what EnumTape.step has registered before the tape moves *)
  (forall b rest, ppull = b :: rest -> reg lo ro (eb_index b) = true) ->
  (forall b b1 rest, ppull = b :: b1 :: rest -> skip && (eb_color b =? sc) = true ->
                     reg lo ro (eb_index b1) = true) ->
  let '(ns, p2, q1, st) := py_core sc ppull ppush color skip in
  let '(ns', p2', q1', st') := rs_core sc rpull rpush color skip in
  ns = ns' /\ st = st' /\ span_rel lo ro p2 p2' /\ span_rel lo ro q1 q1' /\ epos p2 /\ epos q1.
Proof.
  intros Hpull Hpush Ppull Ppush Hreg0 Hreg1. unfold py_core, rs_core, epull.
  (* the push side, for any push block that is registered and any stepped *)
  assert (Hpush_gen : forall (pb : option eblock) stepped,
            (match pb with None => True | Some b => reg lo ro (eb_index b) = true /\ eb_count b + 1 = stepped end) ->
            (pb = None -> stepped = 1) -> 1 <= stepped ->
            span_rel lo ro
              (match ppush with
               | top_block :: prest =>
                   if eb_color top_block =? color
                   then mkEB (eb_color top_block) (eb_count top_block + stepped) (eb_index top_block) :: prest
                   else py_new_eblock color pb :: ppush
               | [] => if negb (color =? 0) then [py_new_eblock color pb] else []
               end)
              (epush rpush color stepped) /\
            epos (match ppush with
               | top_block :: prest =>
                   if eb_color top_block =? color
                   then mkEB (eb_color top_block) (eb_count top_block + stepped) (eb_index top_block) :: prest
                   else py_new_eblock color pb :: ppush
               | [] => if negb (color =? 0) then [py_new_eblock color pb] else []
               end)).
  { intros pb stepped Hpb Hnone Hst.
    assert (Hnew : blk_rel lo ro (py_new_eblock color pb) (mkEB color stepped None) /\
                   1 <= eb_count (py_new_eblock color pb)).
    { destruct pb as [b|]; cbn [py_new_eblock eb_color eb_count eb_index].
      - destruct Hpb as [R E]. split; [|lia]. refine (conj eq_refl (conj E _)). right. split; [reflexivity|exact R].
      - rewrite (Hnone eq_refl). split; [|lia]. refine (conj eq_refl (conj eq_refl _)). left. reflexivity. }
    destruct Hnew as [Hnew Hnewpos].
    unfold epush. inversion Hpush as [|pt rt ptl rtl Hb Htl]; subst.
    - destruct (color =? 0); cbn [negb]; [split; constructor|].
      split; [constructor; [exact Hnew|constructor]|constructor; [exact Hnewpos|constructor]].
    - destruct Hb as (Hc & Hn & Hi). rewrite <- Hc.
      inversion Ppush as [|? ? Hp1 Hp2]; subst.
      destruct (eb_color pt =? color).
      + split.
        * constructor; [|exact Htl]. blk.
        * constructor; [cbn [eb_count]; lia|exact Hp2].
      + split.
        * constructor; [exact Hnew|]. constructor; [exact (conj Hc (conj Hn Hi))|exact Htl].
        * constructor; [exact Hnewpos|exact Ppush]. }
  inversion Hpull as [|pb rb ptl rtl Hb Htl]; subst.
  - (* empty pull side *)
    cbn. destruct (Hpush_gen None 1 I (fun _ => eq_refl) (N.le_refl 1)) as [A B].
    repeat split; try assumption; constructor.
  - destruct Hb as (Hc & Hn & Hi). rewrite <- Hc.
    inversion Ppull as [|? ? Hp1 Hp2]; subst.
    destruct (skip && (eb_color pb =? sc)) eqn:Esk.
    + (* the near block is swept along *)
      rewrite <- Hn.
      pose proof (Hreg0 pb ptl eq_refl) as Rpb.
      assert (Hs1 : eb_count pb + 1 = 1 + eb_count pb) by lia.
      assert (Hs2 : Some pb = None -> 1 + eb_count pb = 1) by discriminate.
      assert (Hs3 : 1 <= 1 + eb_count pb) by lia.
      inversion Htl as [|pb1 rb1 ptl1 rtl1 Hb1 Htl1]; subst.
      * destruct (Hpush_gen (Some pb) (1 + eb_count pb) (conj Rpb Hs1) Hs2 Hs3) as [A B].
        repeat split; try assumption; constructor.
      * destruct Hb1 as (Hc1 & Hn1 & Hi1). rewrite <- Hc1, <- Hn1.
        inversion Hp2 as [|? ? Hq1 Hq2]; subst.
        replace (negb (eb_count pb1 =? 1)) with (1 <? eb_count pb1).
        2:{ destruct (N.eqb_spec (eb_count pb1) 1) as [E|E]; cbn [negb]; [rewrite E; reflexivity|].
            apply N.ltb_lt. lia. }
        destruct (1 <? eb_count pb1) eqn:Egt.
        -- apply N.ltb_lt in Egt.
           destruct (Hpush_gen (Some pb) (1 + eb_count pb) (conj Rpb Hs1) Hs2 Hs3) as [A B].
           repeat split; try assumption.
           ++ constructor; [|exact Htl1]. blk.
           ++ constructor; [cbn [eb_count]; lia|exact Hq2].
        -- destruct (Hpush_gen (Some pb) (1 + eb_count pb) (conj Rpb Hs1) Hs2 Hs3) as [A B].
           repeat split; assumption.
    + (* no sweep: the near block is read *)
      replace (negb (eb_count pb =? 1)) with (1 <? eb_count pb).
      2:{ destruct (N.eqb_spec (eb_count pb) 1) as [E|E]; cbn [negb]; [rewrite E; reflexivity|].
          apply N.ltb_lt. lia. }
      rewrite <- Hn.
      destruct (1 <? eb_count pb) eqn:Egt.
      * apply N.ltb_lt in Egt.
        destruct (Hpush_gen None 1 I (fun _ => eq_refl) (N.le_refl 1)) as [A B].
        repeat split; try assumption.
        -- constructor; [|exact Htl]. blk.
        -- constructor; [cbn [eb_count]; lia|exact Hp2].
      * (* the popped block is re-used as the pushed block, with count 0 + 1 *)
        pose proof (Hreg0 pb ptl eq_refl) as Rpb.
        assert (Hs2 : Some (mkEB (eb_color pb) 0 (eb_index pb)) = None -> 1 = 1) by reflexivity.
        destruct (Hpush_gen (Some (mkEB (eb_color pb) 0 (eb_index pb))) 1
                    (conj Rpb eq_refl) Hs2 (N.le_refl 1)) as [A B].
        repeat split; assumption.
Qed.

(** ------------------------------------------------------------------ *)
(** * EnumTape.step: the registrations before the tape moves            *)

Lemma py_check_step_eq et sh color skip : py_check_step et sh color skip = check_step et sh color skip.
Proof.
  assert (Hco : forall e b, py_check_offsets e b = check_offsets e b).
  { intros e b. rewrite py_check_offsets_spec, check_offsets_spec. reflexivity. }
  unfold py_check_step, check_step. destruct sh; cbv beta iota;
    repeat match goal with
           | |- context [match ?x with [] => _ | _ :: _ => _ end] => destruct x
           | |- context [if ?c then _ else _] => destruct c
           end; rewrite ?Hco; reflexivity.
Qed.

Lemma chk_rel pe re pb rb :
  et_rel pe re -> blk_rel (et_loff pe) (et_roff pe) pb rb ->
  let pe' := check_offsets pe pb in
  et_rel pe' (check_offsets re rb) /\
  et_loff pe <= et_loff pe' /\ et_roff pe <= et_roff pe' /\
  reg (et_loff pe') (et_roff pe') (eb_index pb) = true /\
  et_l pe' = et_l pe /\ et_r pe' = et_r pe /\ et_scan pe' = et_scan pe.
Proof.
  intros (Hs & Hlo & Hro & Hle & Hre & Hl & Hr & Pl & Pr) (_ & _ & Hi). cbv zeta.
  rewrite !check_offsets_spec. cbn [et_scan et_l et_r et_loff et_roff et_ledge et_redge].
  rewrite <- Hlo, <- Hro, <- (co_rel _ _ _ _ Hi).
  destruct (co_ge (et_loff pe) (et_roff pe) (eb_index pb)) as [G1 G2].
  repeat split; try assumption; try reflexivity.
  - eapply span_rel_mono; eassumption.
  - eapply span_rel_mono; eassumption.
  - apply co_reg.
Qed.

Lemma touch_rel pe re sh :
  et_rel pe re ->
  let pe' := touch_edge pe sh in
  et_rel pe' (touch_edge re sh) /\
  et_loff pe' = et_loff pe /\ et_roff pe' = et_roff pe /\
  et_l pe' = et_l pe /\ et_r pe' = et_r pe /\ et_scan pe' = et_scan pe.
Proof.
  intros (Hs & Hlo & Hro & Hle & Hre & Hl & Hr & Pl & Pr). cbv zeta. unfold touch_edge.
  destruct sh; cbn [et_scan et_l et_r et_loff et_roff et_ledge et_redge];
    repeat split; try assumption; try reflexivity.
Qed.

(** after the registrations of EnumTape.step: still related, the spans and
    the scan untouched, and the blocks the step is going to pop registered *)
Definition pull_of (sh : bool) (e : enum_tape) : espan := if sh then et_r e else et_l e.
Definition push_of (sh : bool) (e : enum_tape) : espan := if sh then et_l e else et_r e.

Ltac fin8 A :=
  split; [exact A|]; split; [try lia|]; split; [try lia|];
  split; [try assumption; try congruence|]; split; [try assumption; try congruence|];
  split; [try assumption; try congruence|]; split.

Lemma check_step_rel pe re sh color skip :
  et_rel pe re ->
  let pe' := check_step pe sh color skip in
  et_rel pe' (check_step re sh color skip) /\
  et_l pe' = et_l pe /\ et_r pe' = et_r pe /\ et_scan pe' = et_scan pe /\
  (forall b rest, pull_of sh pe = b :: rest -> reg (et_loff pe') (et_roff pe') (eb_index b) = true) /\
  (forall b b1 rest, pull_of sh pe = b :: b1 :: rest -> skip && (eb_color b =? et_scan pe) = true ->
                     reg (et_loff pe') (et_roff pe') (eb_index b1) = true).
Proof.
  intros HR. cbv zeta.
  assert (Hpull : span_rel (et_loff pe) (et_roff pe) (pull_of sh pe) (pull_of sh re)).
  { destruct HR as (_ & _ & _ & _ & _ & Hl & Hr & _). destruct sh; assumption. }
  assert (Hpush : span_rel (et_loff pe) (et_roff pe) (push_of sh pe) (push_of sh re)).
  { destruct HR as (_ & _ & _ & _ & _ & Hl & Hr & _). destruct sh; assumption. }
  assert (Hscan : et_scan pe = et_scan re) by apply HR.
  (* first part: the pull side *)
  assert (H1 : exists pe1 re1,
    (match pull_of sh pe with
     | [] => touch_edge pe sh
     | near_block :: rest =>
         let et' := check_offsets pe near_block in
         if skip && (eb_color near_block =? et_scan pe) then
           match rest with [] => touch_edge et' sh | b1 :: _ => check_offsets et' b1 end
         else et'
     end) = pe1 /\
    (match pull_of sh re with
     | [] => touch_edge re sh
     | near_block :: rest =>
         let et' := check_offsets re near_block in
         if skip && (eb_color near_block =? et_scan re) then
           match rest with [] => touch_edge et' sh | b1 :: _ => check_offsets et' b1 end
         else et'
     end) = re1 /\
    et_rel pe1 re1 /\ et_loff pe <= et_loff pe1 /\ et_roff pe <= et_roff pe1 /\
    et_l pe1 = et_l pe /\ et_r pe1 = et_r pe /\ et_scan pe1 = et_scan pe /\
    (forall b rest, pull_of sh pe = b :: rest -> reg (et_loff pe1) (et_roff pe1) (eb_index b) = true) /\
    (forall b b1 rest, pull_of sh pe = b :: b1 :: rest -> skip && (eb_color b =? et_scan pe) = true ->
                       reg (et_loff pe1) (et_roff pe1) (eb_index b1) = true)).
  { rewrite <- Hscan.
    destruct (pull_of sh pe) as [|pb ptl] eqn:Ep; destruct (pull_of sh re) as [|rb rtl] eqn:Er;
      inversion Hpull as [|? ? ? ? Hb Htl]; subst.
    - destruct (touch_rel pe re sh HR) as (A & B & C & D & E & F).
      cbv beta iota zeta. eexists. eexists. split; [reflexivity|]. split; [reflexivity|].
      rewrite B, C. fin8 A; intros; discriminate.
    - destruct (chk_rel pe re pb rb HR Hb) as (A & G1 & G2 & Rb & D & E & F).
      assert (Hc : eb_color pb = eb_color rb) by apply Hb. rewrite <- Hc.
      destruct (skip && (eb_color pb =? et_scan pe)) eqn:Esk.
      + destruct ptl as [|pb1 ptl1]; destruct rtl as [|rb1 rtl1]; inversion Htl as [|? ? ? ? Hb1 Htl1]; subst.
        * destruct (touch_rel _ _ sh A) as (A2 & B2 & C2 & D2 & E2 & F2).
          cbv beta iota zeta. eexists. eexists. split; [reflexivity|]. split; [reflexivity|].
          rewrite B2, C2. fin8 A2.
          -- intros b rest Eq. injection Eq as <- _. exact Rb.
          -- intros b b1 rest Eq. discriminate Eq.
        * assert (Hb1' : blk_rel (et_loff (check_offsets pe pb)) (et_roff (check_offsets pe pb)) pb1 rb1)
            by (eapply blk_rel_mono; eassumption).
          destruct (chk_rel _ _ pb1 rb1 A Hb1') as (A2 & G3 & G4 & Rb1 & D2 & E2 & F2).
          cbv beta iota zeta. eexists. eexists. split; [reflexivity|]. split; [reflexivity|].
          fin8 A2.
          -- intros b rest Eq. injection Eq as <- _. eapply reg_mono; [exact G3|exact G4|exact Rb].
          -- intros b b1 rest Eq _. injection Eq as _ <- _. exact Rb1.
      + cbv beta iota zeta. eexists. eexists. split; [reflexivity|]. split; [reflexivity|].
        fin8 A.
        * intros b rest Eq. injection Eq as <- _. exact Rb.
        * intros b b1 rest Eq Hsk. injection Eq as <- _. rewrite Hsk in Esk. discriminate. }
  destruct H1 as (pe1 & re1 & E1 & E2 & HR1 & G1 & G2 & L1 & R1 & S1 & Rg0 & Rg1).
  unfold check_step.
  replace (if sh then (et_r pe, et_l pe) else (et_l pe, et_r pe)) with (pull_of sh pe, push_of sh pe)
    by (destruct sh; reflexivity).
  replace (if sh then (et_r re, et_l re) else (et_l re, et_r re)) with (pull_of sh re, push_of sh re)
    by (destruct sh; reflexivity).
  cbv beta iota zeta in E1, E2 |- *. rewrite E1, E2. clear E1 E2.
  destruct (push_of sh pe) as [|ob otl] eqn:Ep; destruct (push_of sh re) as [|rb rtl] eqn:Er;
    inversion Hpush as [|? ? ? ? Hb Htl]; subst.
  - split; [exact HR1|]. repeat split; assumption.
  - assert (Hc : eb_color ob = eb_color rb) by apply Hb. rewrite <- Hc.
    destruct (color =? eb_color ob).
    + assert (Hb' : blk_rel (et_loff pe1) (et_roff pe1) ob rb) by (eapply blk_rel_mono; eassumption).
      destruct (chk_rel _ _ ob rb HR1 Hb') as (A & G3 & G4 & _ & D & E & F).
      split; [exact A|]. rewrite D, E, F. repeat split; try assumption.
      * intros b rest Eq. eapply reg_mono; [exact G3|exact G4|apply (Rg0 _ _ Eq)].
      * intros b b1 rest Eq Hsk. eapply reg_mono; [exact G3|exact G4|apply (Rg1 _ _ _ Eq Hsk)].
    + split; [exact HR1|]. repeat split; assumption.
Qed.

(** ------------------------------------------------------------------ *)
(** * EnumTape.step                                                     *)

Lemma et_step_rel pe re (sh : bool) color skip :
  et_rel pe re ->
  match et_step re sh color skip with
  | Panic => True
  | Ok (re', _) => et_rel (py_et_step pe sh color skip) re'
  end.
Proof.
  intros HR. unfold py_et_step, et_step.
  change (py_check_step pe sh color skip) with (check_step pe sh color skip).
  destruct (check_step_rel pe re sh color skip HR) as (HR1 & L1 & R1 & S1 & Rg0 & Rg1).
  set (pe1 := check_step pe sh color skip) in *. set (re1 := check_step re sh color skip) in *.
  destruct HR1 as (Hs & Hlo & Hro & Hle & Hre & Hl & Hr & Pl & Pr).
  rewrite py_estep_core.
  assert (Hpull : span_rel (et_loff pe1) (et_roff pe1) (if sh then et_r pe1 else et_l pe1)
                    (if sh then et_r re1 else et_l re1)) by (destruct sh; assumption).
  assert (Hpush : span_rel (et_loff pe1) (et_roff pe1) (if sh then et_l pe1 else et_r pe1)
                    (if sh then et_l re1 else et_r re1)) by (destruct sh; assumption).
  assert (Ppull : epos (if sh then et_r pe1 else et_l pe1)) by (destruct sh; assumption).
  assert (Ppush : epos (if sh then et_l pe1 else et_r pe1)) by (destruct sh; assumption).
  assert (Epull : (if sh then et_r pe1 else et_l pe1) = pull_of sh pe)
    by (unfold pull_of; destruct sh; assumption).
  pose proof (core_agree (et_loff pe1) (et_roff pe1) (et_scan pe1) _ _ _ _ color skip
                Hpull Hpush Ppull Ppush) as HC.
  rewrite Epull, S1 in HC. specialize (HC Rg0 Rg1). rewrite <- Epull, <- S1 in HC.
  destruct (py_core (et_scan pe1) (if sh then et_r pe1 else et_l pe1)
              (if sh then et_l pe1 else et_r pe1) color skip) as [[[ns p2] q1] st].
  unfold rs_core in HC. rewrite Hs in HC.
  destruct sh.
  - destruct (epull (et_r re1) (et_scan re1) skip) as [[p2' ns'] st'].
    destruct HC as (-> & -> & H2 & H1 & P2 & P1).
    destruct (_ || _ || _); [exact I|]. cbn [fst].
    repeat split; cbn [et_scan et_l et_r et_loff et_roff et_ledge et_redge]; assumption.
  - destruct (epull (et_l re1) (et_scan re1) skip) as [[p2' ns'] st'].
    destruct HC as (-> & -> & H2 & H1 & P2 & P1).
    destruct (_ || _ || _); [exact I|]. cbn [fst].
    repeat split; cbn [et_scan et_l et_r et_loff et_roff et_ledge et_redge]; assumption.
Qed.

Lemma span_rel_erase lo ro a b : span_rel lo ro a b -> espan_erase a = espan_erase b.
Proof.
  intros H. induction H as [|x y a b (Hc & Hn & _) _ IH]; [reflexivity|].
  cbn [espan_erase map]. rewrite Hc, Hn. f_equal. exact IH.
Qed.
Lemma et_rel_erase pe re : et_rel pe re -> et_erase pe = et_erase re.
Proof.
  intros (Hs & _ & _ & _ & _ & Hl & Hr & _). unfold et_erase.
  rewrite Hs, (span_rel_erase _ _ _ _ Hl), (span_rel_erase _ _ _ _ Hr). reflexivity.
Qed.

Lemma span_rel_refl lo ro s : span_rel lo ro s s.
Proof. induction s; constructor; [repeat split; left; reflexivity|assumption]. Qed.

Lemma enumerate_epos side : forall s i, counts_pos s -> epos (enumerate_span side i s).
Proof.
  induction s as [|[c n] s IH]; intros i H; [constructor|].
  inversion H; subst. cbn [enumerate_span]. constructor; [assumption|apply IH; assumption].
Qed.

Lemma et_rel_from t : canon_tape t -> et_rel (et_from t) (et_from t).
Proof.
  intros [(Hl & _) (Hr & _)]. unfold et_from.
  repeat split; cbn [et_scan et_l et_r et_loff et_roff et_ledge et_redge];
    try apply span_rel_refl; apply enumerate_epos; assumption.
Qed.

(** ------------------------------------------------------------------ *)
(** * the replay of get_min_sig when no stored rule matches             *)

Section Replay.
Variable comp : comp_prog.
Variable pp : py_prover.
Variable pv : prover.
Hypothesis Hlook : lookup_eq (pp_rules pp) (pv_rules pv).

(** guard: at every iteration of the replay no rule of the table matches
    (so apply_rule -- and with it get_count -- is never called: D4 is idle) *)
Definition plain_g (s : state * enum_tape) : bool :=
  match py_get_rule pp (fst s) (et_scan (snd s)) (fun _ => py_et_signature (snd s)) with
  | None => true
  | Some _ => false
  end.
Definition replay_plain (n : N) (st : state) (et : enum_tape) : bool :=
  match for_upto n (gbody plain_g (py_esim_body comp pp)) (st, et) with
  | inr None => false
  | _ => true
  end.

Definition rp_rel (s1 s2 : state * enum_tape) : Prop := fst s1 = fst s2 /\ et_rel (snd s1) (snd s2).

Lemma replay_body s1 s2 :
  rp_rel s1 s2 ->
  sim_res rp_rel (fun _ _ => False) (fun x : option py_esim_exit => x = None) (fun _ : unit => True)
    (gbody plain_g (py_esim_body comp pp) s1) (min_sig_body comp pv s2).
Proof.
  destruct s1 as [st pe], s2 as [st2 re]. intros [E HR]. cbn [fst snd] in E, HR. subst st2.
  unfold gbody, plain_g. cbn [fst snd].
  destruct (py_get_rule pp st (et_scan pe) (fun _ => py_et_signature pe)) as [r|] eqn:Eg.
  { destruct (min_sig_body comp pv (st, re)); cbn [sim_res]; auto. }
  unfold py_esim_body, min_sig_body. rewrite Eg.
  assert (Esc : et_scan pe = et_scan re) by apply HR.
  rewrite <- (py_get_rule_eq2 pp pv st (et_scan re) (fun _ => py_et_signature pe)
                (fun _ => tape_sig (et_erase re)) Hlook).
  2:{ unfold py_et_signature. rewrite py_signature_eq, (et_rel_erase _ _ HR). reflexivity. }
  rewrite <- Esc, Eg.
  destruct (cp_get comp (st, et_scan pe)) as [[[color sh] ns]|]; [|cbn [sim_res]; auto].
  pose proof (et_step_rel pe re sh color (st =? ns) HR) as HS.
  destruct (et_step re sh color (st =? ns)) as [|[re' stepped]]; cbn [sim_res]; [auto|].
  split; [reflexivity|exact HS].
Qed.

(** the object-identity difference is no difference: without a rule
    application during the replay the two min-signatures are equal *)
Theorem min_sig_agree_plain (d : Z) st t sig ms ms' :
  canon_tape t ->
  replay_plain (Z.to_N d) st (py_to_enum t) = true ->
  py_get_min_sig comp pp d st (py_to_enum t) sig = PRet ms ->
  get_min_sig comp pv d st (et_from t) sig = Ok ms' ->
  ms = ms'.
Proof.
  intros Hcan Hg Hpy Hrs. unfold replay_plain in Hg. unfold py_get_min_sig in Hpy. unfold get_min_sig in Hrs.
  unfold py_to_enum in *.
  pose proof (for_upto_sim (gbody plain_g (py_esim_body comp pp)) (min_sig_body comp pv)
                rp_rel (fun _ _ => False) (fun x => x = None) (fun _ => True) replay_body
                (Z.to_N d) (st, et_from t) (st, et_from t) (conj eq_refl (et_rel_from t Hcan))) as HS.
  rewrite for_upto_iter in Hg. rewrite for_upto_iter in HS. rewrite for_upto_iter in HS.
  rewrite for_upto_iter in Hpy. rewrite for_upto_iter in Hrs.
  destruct (giter_cases plain_g (py_esim_body comp pp) (N.to_nat (Z.to_N d)) (st, et_from t)) as [E|E].
  { rewrite E in Hg. discriminate. }
  rewrite E in HS. clear E Hg.
  destruct (iter_nat (N.to_nat (Z.to_N d)) (py_esim_body comp pp) (st, et_from t)) as [[s1 pe]|x];
    destruct (iter_nat (N.to_nat (Z.to_N d)) (min_sig_body comp pv) (st, et_from t)) as [[s2 re]|y];
    cbn [glift sim_res] in HS; try discriminate Hrs.
  - destruct HS as [_ HR]. cbn [snd] in HR.
    destruct HR as (_ & Hlo & Hro & Hle & Hre & _).
    unfold py_et_offsets, py_et_edges, et_offsets, et_edges in *. rewrite Hlo, Hro, Hle, Hre in Hpy.
    unfold take_prefix in Hrs.
    destruct (et_loff re <=? len_N (sig_l sig) 0); cbn [obind] in Hrs; [|discriminate].
    destruct (et_roff re <=? len_N (sig_r sig) 0); cbn [obind] in Hrs; [|discriminate].
    injection Hpy as <-. injection Hrs as <-. reflexivity.
  - discriminate HS.
Qed.
End Replay.

(** an exit of the guarded loop other than the guard's own was produced by the
    body on a state that satisfies the guard *)
Lemma giter_exit_guarded {St Rs : Type} (g : St -> bool) (body : St -> St + Rs) :
  forall n s r, iter_nat n (gbody g body) s = inr (Some r) ->
  exists s', g s' = true /\ body s' = inr r.
Proof.
  induction n as [|n IH]; intros s r H; [discriminate|].
  cbn [iter_nat] in H. unfold gbody at 1 in H. destruct (g s) eqn:Eg; [|discriminate].
  destruct (body s) as [s1|r1] eqn:Eb.
  - apply (IH _ _ H).
  - injection H as <-. exists s. split; assumption.
Qed.

(** so the D4 guard of the whole-run theorem ([minsig_inside]) holds by itself
    for every replay in which no stored rule matches *)
Theorem replay_plain_minsig_inside comp (p2 : py_prover) (d1 : Z) st t sig :
  canon_tape t ->
  replay_plain comp p2 (Z.to_N d1) st (py_to_enum t) = true ->
  minsig_inside comp p2 d1 st t sig = true.
Proof.
  intros Hcan Hg. unfold minsig_inside.
  assert (Hlook : lookup_eq (pp_rules p2) (pv_rules (rs_view p2))) by (intros sl; apply pyr_get_eq).
  destruct (py_get_min_sig comp p2 d1 st (py_to_enum t) sig) as [e|a] eqn:Epy.
  - (* Python cannot raise on the plain path *)
    exfalso. unfold py_get_min_sig in Epy. unfold replay_plain in Hg.
    rewrite for_upto_iter in Epy. rewrite for_upto_iter in Hg.
    destruct (giter_cases (plain_g p2) (py_esim_body comp p2) (N.to_nat (Z.to_N d1)) (st, py_to_enum t)) as [E|E].
    { rewrite E in Hg. discriminate. }
    destruct (iter_nat (N.to_nat (Z.to_N d1)) (py_esim_body comp p2) (st, py_to_enum t)) as [[s1 pe]|x] eqn:Ei.
    + destruct (py_et_offsets pe). discriminate Epy.
    + destruct x as [et'|e'].
      * destruct (py_et_offsets et'). discriminate Epy.
      * cbn [glift] in E. destruct (giter_exit_guarded _ _ _ _ _ E) as ([s' pe'] & Hgs & Hb).
        unfold plain_g in Hgs. cbn [fst snd] in Hgs. unfold py_esim_body in Hb.
        destruct (py_get_rule p2 s' (et_scan pe') (fun _ => py_et_signature pe')); [discriminate Hgs|].
        destruct (cp_get comp (s', et_scan pe')) as [[[c sh] ns]|]; discriminate Hb.
  - destruct (get_min_sig comp (rs_view p2) d1 st (et_from t) sig) as [|b] eqn:Ers; [reflexivity|].
    rewrite (min_sig_agree_plain comp p2 (rs_view p2) Hlook d1 st t sig a b Hcan Hg Epy Ers).
    destruct b as [g [l r]]. unfold minsig_eqb. cbn [fst snd].
    assert (Hrefl : forall x, sig_eqb x x = true).
    { intros [sc ll rr]. unfold sig_eqb. cbn [sig_scan sig_l sig_r]. rewrite N.eqb_refl.
      assert (Hs : forall q, sigspan_eqb q q = true).
      { induction q as [|y q IH]; [reflexivity|]. cbn [sigspan_eqb]. rewrite IH.
        destruct y; cbn [cc_eqb]; rewrite N.eqb_refl; reflexivity. }
      rewrite !Hs. reflexivity. }
    rewrite Hrefl, !Bool.eqb_reflx. reflexivity.
Qed.
Print Assumptions min_sig_agree_plain.
Print Assumptions replay_plain_minsig_inside.
