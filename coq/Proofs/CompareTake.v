(** Span::compare_take (tape.rs:127-166) and Alignment::aligns_with
    (tape.rs:474-519) read on cells.

    [compare_take s p take] walks two run-length spans block by block.  The
    Rust loop does NOT track partial consumption of a block: a block that
    was not exhausted in an iteration is re-read with its FULL count in the
    next one.  On canonical spans this is harmless: after a partial
    consumption the other span has either ended or continues with a block of
    a different colour, so the next iteration answers [false] -- and the
    cells really differ there.

    What is NOT true (even on canonical spans) is that agreement of the first
    [take] cells forces the answer [true]: when one span ends before [take]
    cells were compared and the other one continues -- with blanks -- the
    loop answers [false] although the cells agree (see
    [compare_take_incomplete]).  The exact characterisation is
    [compare_take_spec]; the direction used by the provers is
    [compare_take_sound]. *)
From BB Require Import Base TM TMabs TapeModel TapeCanon StepSim.

(** ---- small facts about canonical spans and their cells ---- *)
Definition head_differs (c : colour) (s : span) : Prop :=
  match s with [] => True | b :: _ => fst b <> c end.

Lemma canon_head_pos c n s : canon ((c, n) :: s) -> 1 <= n.
Proof. intros (Hc & _). inversion Hc as [|? ? Hn ?]; subst. exact Hn. Qed.

Lemma canon_head_differs c n s : canon ((c, n) :: s) -> head_differs c s.
Proof.
  intros (_ & Ha & _). destruct s as [|[c2 n2] s]; [exact I|].
  cbn in Ha. cbn. intro E. apply (proj1 Ha). symmetry. exact E.
Qed.

Lemma cell_unroll_lt c n s i :
  (i < N.to_nat n)%nat -> cell (unroll_span ((c, n) :: s)) i = c.
Proof. intro Hi. rewrite unroll_cons. apply cell_repeat_app_lt. exact Hi. Qed.

Lemma cell_unroll_ge c n s i :
  cell (unroll_span ((c, n) :: s)) (N.to_nat n + i) = cell (unroll_span s) i.
Proof. rewrite unroll_cons. apply cell_repeat_app_ge. Qed.

Lemma unroll_length_cons c n s :
  length (unroll_span ((c, n) :: s)) = (N.to_nat n + length (unroll_span s))%nat.
Proof. rewrite unroll_cons, app_length, repeat_length. reflexivity. Qed.

(** the cell right after the head block of a canonical span is not of the
    head block's colour (it is blank, and the head colour is not, when the
    span ends there) *)
Lemma canon_next_cell c n s : canon ((c, n) :: s) -> cell (unroll_span s) 0 <> c.
Proof.
  intros Hcan. destruct s as [|[c2 n2] s].
  - destruct Hcan as (_ & _ & Hl). apply last_nonzero_single in Hl. cbn [fst] in Hl.
    rewrite cell_nil. intro E. apply Hl. symmetry. exact E.
  - pose proof (canon_head_pos _ _ _ (canon_tail _ _ Hcan)) as Hn2.
    rewrite cell_unroll_lt by lia.
    exact (canon_head_differs _ _ _ Hcan).
Qed.

(** ---- the loop ---- *)
Lemma ctf_zero f a b : compare_take_fuel f a b 0 = true.
Proof. destruct f; reflexivity. Qed.

(** after a partial consumption of [(c, m)] the other span shows a different
    head (or none): the re-reading iteration answers [false] *)
Lemma ctf_left_mismatch f s c m p k :
  head_differs c s -> k <> 0 -> compare_take_fuel (S f) s ((c, m) :: p) k = false.
Proof.
  intros Hd Hk. cbn [compare_take_fuel].
  apply N.eqb_neq in Hk. rewrite Hk.
  destruct s as [|[c2 n2] s]; [reflexivity|].
  cbn in Hd. apply N.eqb_neq in Hd. rewrite Hd. reflexivity.
Qed.

Lemma ctf_right_mismatch f c n s p k :
  head_differs c p -> k <> 0 -> compare_take_fuel (S f) ((c, n) :: s) p k = false.
Proof.
  intros Hd Hk. cbn [compare_take_fuel].
  apply N.eqb_neq in Hk. rewrite Hk.
  destruct p as [|[c2 n2] p]; [reflexivity|].
  cbn in Hd. assert (Hd' : c <> c2) by (intro E; apply Hd; symmetry; exact E).
  apply N.eqb_neq in Hd'. rewrite Hd'. reflexivity.
Qed.

(** what a [true] answer means, exactly: the first [k] cells agree, and
    either the spans are equal or both reach at least [k] cells *)
Definition ct_ok (a b : span) (k : N) : Prop :=
  (forall i, (i < N.to_nat k)%nat -> cell (unroll_span a) i = cell (unroll_span b) i) /\
  (a = b \/ (N.to_nat k <= length (unroll_span a))%nat /\
            (N.to_nat k <= length (unroll_span b))%nat).

Lemma ct_ok_shift c n a b k :
  n <= k -> (ct_ok ((c, n) :: a) ((c, n) :: b) k <-> ct_ok a b (k - n)).
Proof.
  intros Hnk. unfold ct_ok. rewrite !unroll_length_cons. split.
  - intros [Hc Hl]. split.
    + intros i Hi. rewrite <- (cell_unroll_ge c n a i), <- (cell_unroll_ge c n b i).
      apply Hc. lia.
    + destruct Hl as [E|[H1 H2]].
      * left. injection E as E. exact E.
      * right. split; lia.
  - intros [Hc Hl]. split.
    + intros i Hi. destruct (Nat.lt_ge_cases i (N.to_nat n)) as [Hlt|Hge].
      * rewrite !cell_unroll_lt by exact Hlt. reflexivity.
      * replace i with (N.to_nat n + (i - N.to_nat n))%nat by lia.
        rewrite !cell_unroll_ge. apply Hc. lia.
    + destruct Hl as [E|[H1 H2]].
      * left. rewrite E. reflexivity.
      * right. split; lia.
Qed.

(** a cell below [k] where the spans differ refutes [ct_ok] *)
Lemma ct_ok_differ a b k i :
  (i < N.to_nat k)%nat -> cell (unroll_span a) i <> cell (unroll_span b) i -> ~ ct_ok a b k.
Proof. intros Hi Hd [Hc _]. apply Hd. apply Hc. exact Hi. Qed.

Lemma ctf_spec f : forall a b k,
  (length a + length b < f)%nat -> canon a -> canon b ->
  (compare_take_fuel f a b k = true <-> ct_ok a b k).
Proof.
  induction f as [|f IH]; intros a b k Hf Ha Hb; [lia|].
  destruct (N.eq_dec k 0) as [Ek|Ek].
  { subst k. rewrite ctf_zero. split; [intros _|reflexivity].
    split; [intros i Hi; lia|right; split; lia]. }
  cbn [compare_take_fuel].
  pose proof Ek as Ekb. apply N.eqb_neq in Ekb. rewrite Ekb.
  destruct a as [|[c n] a']; destruct b as [|[c' m] b'].
  - split; [intros _|reflexivity]. split; [intros i _; reflexivity|left; reflexivity].
  - split; [discriminate|]. intros [_ [E|[H _]]]; [discriminate|].
    cbn [unroll_span flat_map length] in H. lia.
  - split; [discriminate|]. intros [_ [E|[_ H]]]; [discriminate|].
    cbn [unroll_span flat_map length] in H. lia.
  - pose proof (canon_head_pos _ _ _ Ha) as Hn.
    pose proof (canon_head_pos _ _ _ Hb) as Hm.
    destruct (c =? c') eqn:Ec; cbn [negb].
    2:{ apply N.eqb_neq in Ec. split; [discriminate|]. intro Hok. exfalso.
        revert Hok. apply (ct_ok_differ _ _ _ O); [lia|].
        rewrite !cell_unroll_lt by lia. exact Ec. }
    apply N.eqb_eq in Ec. subst c'.
    replace ((n =? 0) || (m =? 0)) with false.
    2:{ symmetry. apply orb_false_iff. split; apply N.eqb_neq; lia. }
    destruct (N.le_gt_cases k (N.min n m)) as [Hk|Hk].
    + (* the remaining take fits in both head blocks *)
      replace (N.min k (N.min n m)) with k by lia.
      rewrite N.sub_diag, ctf_zero. split; [intros _|reflexivity].
      split.
      * intros i Hi. rewrite !cell_unroll_lt by lia. reflexivity.
      * right. rewrite !unroll_length_cons. split; lia.
    + cbn [length] in Hf.
      destruct (N.lt_trichotomy n m) as [Hnm|[Hnm|Hnm]].
      * (* a's head block is shorter: a advances, b's block is re-read in full *)
        replace (N.min k (N.min n m)) with n by lia.
        rewrite N.eqb_refl.
        replace (m =? n) with false by (symmetry; apply N.eqb_neq; lia).
        destruct f as [|f']; [lia|].
        rewrite ctf_left_mismatch; [|exact (canon_head_differs _ _ _ Ha)|lia].
        split; [discriminate|]. intro Hok. exfalso. revert Hok.
        apply (ct_ok_differ _ _ _ (N.to_nat n + 0)%nat); [lia|].
        rewrite cell_unroll_ge. rewrite cell_unroll_lt by lia.
        exact (canon_next_cell _ _ _ Ha).
      * (* equal head blocks: both advance *)
        subst m. replace (N.min k (N.min n n)) with n by lia.
        rewrite N.eqb_refl.
        rewrite (IH a' b' (k - n));
          [|lia|exact (canon_tail _ _ Ha)|exact (canon_tail _ _ Hb)].
        symmetry. apply ct_ok_shift. lia.
      * (* b's head block is shorter *)
        replace (N.min k (N.min n m)) with m by lia.
        rewrite N.eqb_refl.
        replace (n =? m) with false by (symmetry; apply N.eqb_neq; lia).
        destruct f as [|f']; [lia|].
        rewrite ctf_right_mismatch; [|exact (canon_head_differs _ _ _ Hb)|lia].
        split; [discriminate|]. intro Hok. exfalso. revert Hok.
        apply (ct_ok_differ _ _ _ (N.to_nat m + 0)%nat); [lia|].
        rewrite cell_unroll_ge. rewrite cell_unroll_lt by lia.
        intro E. apply (canon_next_cell _ _ _ Hb). symmetry. exact E.
Qed.

(** ---- item 1 ----
    The requested statement
      [compare_take a b k = true <-> forall i < k, cell a i = cell b i]
    is FALSE from right to left (see [compare_take_incomplete] below); the
    exact statement carries the extra clause "equal, or both at least [k]
    cells long". *)
Theorem compare_take_spec : forall a b k, canon a -> canon b ->
  (compare_take a b k = true <->
   (forall i, (i < N.to_nat k)%nat -> cell (unroll_span a) i = cell (unroll_span b) i) /\
   (a = b \/ (N.to_nat k <= length (unroll_span a))%nat /\
             (N.to_nat k <= length (unroll_span b))%nat)).
Proof.
  intros a b k Ha Hb. unfold compare_take. apply (ctf_spec _ a b k); [lia|exact Ha|exact Hb].
Qed.

(** the direction the provers rely on *)
Theorem compare_take_sound : forall a b k, canon a -> canon b ->
  compare_take a b k = true ->
  forall i, (i < N.to_nat k)%nat -> cell (unroll_span a) i = cell (unroll_span b) i.
Proof. intros a b k Ha Hb H. exact (proj1 (proj1 (compare_take_spec a b k Ha Hb) H)). Qed.

(** the converse holds when both spans reach [k] cells ... *)
Theorem compare_take_complete : forall a b k, canon a -> canon b ->
  (N.to_nat k <= length (unroll_span a))%nat -> (N.to_nat k <= length (unroll_span b))%nat ->
  (forall i, (i < N.to_nat k)%nat -> cell (unroll_span a) i = cell (unroll_span b) i) ->
  compare_take a b k = true.
Proof.
  intros a b k Ha Hb H1 H2 Hc. apply (compare_take_spec a b k Ha Hb).
  split; [exact Hc|right; split; assumption].
Qed.

(** ... and when ALL cells agree *)
Theorem compare_take_refl : forall a k, canon a -> compare_take a a k = true.
Proof.
  intros a k Ha. apply (compare_take_spec a a k Ha Ha).
  split; [intros; reflexivity|left; reflexivity].
Qed.

(** Counterexample to the right-to-left direction of the requested item 1,
    on CANONICAL spans: [] against 0^5 1 agree on their first 3 cells (all
    blank) but the loop answers false at (None, Some). *)
Example compare_take_incomplete :
  canon [] /\ canon [(0, 5); (1, 1)] /\
  compare_take [] [(0, 5); (1, 1)] 3 = false /\
  (forall i, (i < N.to_nat 3)%nat ->
     cell (unroll_span []) i = cell (unroll_span [(0, 5); (1, 1)]) i).
Proof.
  split; [apply canon_nil|]. split.
  - apply canon_cons; [|lia|cbn; lia].
    apply canon_cons; [apply canon_nil|lia|lia].
  - split; [reflexivity|].
    intros i Hi. change (N.to_nat 3) with 3%nat in Hi.
    destruct i as [|[|[|i]]]; [reflexivity|reflexivity|reflexivity|lia].
Qed.

(** same phenomenon after a common prefix *)
Example compare_take_incomplete2 :
  compare_take [(1, 1)] [(1, 1); (0, 5); (1, 1)] 3 = false /\
  (forall i, (i < N.to_nat 3)%nat ->
     cell (unroll_span [(1, 1)]) i = cell (unroll_span [(1, 1); (0, 5); (1, 1)]) i).
Proof.
  split; [reflexivity|].
  intros i Hi. change (N.to_nat 3) with 3%nat in Hi.
  destruct i as [|[|[|i]]]; [reflexivity|reflexivity|reflexivity|lia].
Qed.

(** Canonicity is needed for SOUNDNESS: with two adjacent blocks of the same
    colour the re-read of the full count lets a difference slip through:
    1 1^2 = 1,1,1 against 1^2 2 = 1,1,2 are declared equal on 3 cells. *)
Example compare_take_unsound_noncanon :
  compare_take [(1, 1); (1, 2)] [(1, 2); (2, 1)] 3 = true /\
  cell (unroll_span [(1, 1); (1, 2)]) 2 <> cell (unroll_span [(1, 2); (2, 1)]) 2.
Proof. split; [reflexivity|]. cbn. discriminate. Qed.

(** a trailing blank block (not canonical) gives a false negative of another
    kind: 0 against 0^2, all cells blank on both sides *)
Example compare_take_noncanon_blank :
  compare_take [(0, 1)] [(0, 2)] 2 = false /\
  side_eq (unroll_span [(0, 1)]) (unroll_span [(0, 2)]).
Proof.
  split; [reflexivity|]. intros [|[|[|i]]]; reflexivity.
Qed.

(** ---- item 2 ---- *)
Theorem span_eqb_cells : forall a b, canon a -> canon b ->
  (span_eqb a b = true <-> forall i, cell (unroll_span a) i = cell (unroll_span b) i).
Proof.
  intros a b Ha Hb. split.
  - intros H i. apply span_eqb_eq in H. subst b. reflexivity.
  - intros H. apply span_eqb_eq. apply canon_unique; assumption.
Qed.

(** ---- item 3 ---- *)
Theorem aligns_with_spec : forall cur prev leftmost rightmost,
  canon_tape (ht_tape cur) -> canon_tape (ht_tape prev) ->
  (leftmost <= ht_head prev <= rightmost)%Z ->
  aligns_with cur prev leftmost rightmost = true ->
  let hp := ht_head prev in
  let hc := ht_head cur in
  let d := (hc - hp)%Z in
  let L := Z.to_nat (hp - leftmost) in
  let R := Z.to_nat (rightmost - hp) in
  scan (ht_tape cur) = scan (ht_tape prev) /\
  (forall i, (i < L)%nat ->
     cell (unroll_span (lspan (ht_tape cur))) i = cell (unroll_span (lspan (ht_tape prev))) i) /\
  (forall i, (i < R)%nat ->
     cell (unroll_span (rspan (ht_tape cur))) i = cell (unroll_span (rspan (ht_tape prev))) i) /\
  ((0 < d)%Z -> forall i,
     cell (unroll_span (rspan (ht_tape cur))) i = cell (unroll_span (rspan (ht_tape prev))) i) /\
  ((d < 0)%Z -> forall i,
     cell (unroll_span (lspan (ht_tape cur))) i = cell (unroll_span (lspan (ht_tape prev))) i).
Proof.
  intros cur prev leftmost rightmost [Hcl Hcr] [Hpl Hpr] Hrange Hal hp hc d L R.
  unfold aligns_with in Hal.
  destruct (scan (ht_tape cur) =? scan (ht_tape prev)) eqn:Esc; cbn [negb] in Hal;
    [|discriminate].
  apply N.eqb_eq in Esc.
  match type of Hal with (if ?g then _ else _) = _ => destruct g; [discriminate|] end.
  fold hp in Hal. fold hc in Hal. fold d in Hal.
  assert (HL : N.to_nat (Z.to_N (Z.abs (hp - leftmost))) = L) by (subst L hp; lia).
  assert (HR : N.to_nat (Z.to_N (Z.abs (hp - rightmost))) = R) by (subst R hp; lia).
  assert (SL : forall k, compare_take (lspan (ht_tape cur)) (lspan (ht_tape prev)) k = true ->
            forall i, (i < N.to_nat k)%nat ->
            cell (unroll_span (lspan (ht_tape cur))) i = cell (unroll_span (lspan (ht_tape prev))) i).
  { intros k. apply compare_take_sound; assumption. }
  assert (SR : forall k, compare_take (rspan (ht_tape cur)) (rspan (ht_tape prev)) k = true ->
            forall i, (i < N.to_nat k)%nat ->
            cell (unroll_span (rspan (ht_tape cur))) i = cell (unroll_span (rspan (ht_tape prev))) i).
  { intros k. apply compare_take_sound; assumption. }
  split; [exact Esc|].
  destruct (0 <? d)%Z eqn:Ed1.
  - apply Z.ltb_lt in Ed1. apply andb_prop in Hal as [H1 H2].
    apply span_eqb_eq in H2.
    split; [|split; [|split]].
    + intros i Hi. apply (SL _ H1). rewrite HL. exact Hi.
    + intros i _. rewrite H2. reflexivity.
    + intros _ i. rewrite H2. reflexivity.
    + intros Hd. lia.
  - apply Z.ltb_ge in Ed1. destruct (d <? 0)%Z eqn:Ed2.
    + apply Z.ltb_lt in Ed2. apply andb_prop in Hal as [H1 H2].
      apply span_eqb_eq in H2.
      split; [|split; [|split]].
      * intros i _. rewrite H2. reflexivity.
      * intros i Hi. apply (SR _ H1). rewrite HR. exact Hi.
      * intros Hd. lia.
      * intros _ i. rewrite H2. reflexivity.
    + apply Z.ltb_ge in Ed2. apply andb_prop in Hal as [H1 H2].
      split; [|split; [|split]].
      * intros i Hi. apply (SL _ H1). rewrite HL. exact Hi.
      * intros i Hi. apply (SR _ H2). rewrite HR. exact Hi.
      * intros Hd. lia.
      * intros Hd. lia.
Qed.

(** ---- item 4: the same on absolute tapes ---- *)
Theorem aligns_with_abs : forall cur prev leftmost rightmost,
  aligns_with cur prev leftmost rightmost = true ->
  canon_tape (ht_tape cur) -> canon_tape (ht_tape prev) ->
  (leftmost <= ht_head prev <= rightmost)%Z ->
  let hp := ht_head prev in
  let hc := ht_head cur in
  let d := (hc - hp)%Z in
  let t1 := abs_of (unroll_tape (ht_tape prev)) hp in
  let t2 := abs_of (unroll_tape (ht_tape cur)) hc in
  (forall x, (leftmost <= x <= rightmost)%Z -> t2 (x + d)%Z = t1 x) /\
  ((0 < d)%Z -> forall x, (rightmost < x)%Z -> t2 (x + d)%Z = t1 x) /\
  ((d < 0)%Z -> forall x, (x < leftmost)%Z -> t2 (x + d)%Z = t1 x).
Proof.
  intros cur prev leftmost rightmost Hal Hc Hp Hrange hp hc d t1 t2.
  destruct (aligns_with_spec cur prev leftmost rightmost Hc Hp Hrange Hal)
    as (Hsc & HLc & HRc & Hpos & Hneg).
  fold hp in HLc, HRc, Hpos, Hneg, Hrange. fold hc in Hpos, Hneg. fold d in Hpos, Hneg.
  (* reading t2 at x + d is reading cur at the same offset from its head *)
  assert (Hread : forall x,
    t2 (x + d)%Z =
      if (x <? hp)%Z then cell (unroll_span (lspan (ht_tape cur))) (Z.to_nat (hp - x - 1))
      else if (x =? hp)%Z then scan (ht_tape cur)
      else cell (unroll_span (rspan (ht_tape cur))) (Z.to_nat (x - hp - 1))).
  { intros x. subst t2. unfold abs_of. cbn [unroll_tape zl zc zr].
    replace (x + d <? hc)%Z with (x <? hp)%Z
      by (subst d; destruct (Z.ltb_spec x hp), (Z.ltb_spec (x + (hc - hp)) hc); lia || reflexivity).
    replace (x + d =? hc)%Z with (x =? hp)%Z
      by (subst d; destruct (Z.eqb_spec x hp), (Z.eqb_spec (x + (hc - hp)) hc); lia || reflexivity).
    replace (hc - (x + d) - 1)%Z with (hp - x - 1)%Z by (subst d; lia).
    replace (x + d - hc - 1)%Z with (x - hp - 1)%Z by (subst d; lia).
    reflexivity. }
  assert (Hread1 : forall x,
    t1 x =
      if (x <? hp)%Z then cell (unroll_span (lspan (ht_tape prev))) (Z.to_nat (hp - x - 1))
      else if (x =? hp)%Z then scan (ht_tape prev)
      else cell (unroll_span (rspan (ht_tape prev))) (Z.to_nat (x - hp - 1))).
  { intros x. reflexivity. }
  split; [|split].
  - intros x Hx. rewrite Hread, Hread1.
    destruct (Z.ltb_spec x hp) as [Hlt|Hge].
    + apply HLc. lia.
    + destruct (Z.eqb_spec x hp) as [He|Hne]; [exact Hsc|].
      apply HRc. lia.
  - intros Hd x Hx. rewrite Hread, Hread1.
    destruct (Z.ltb_spec x hp) as [Hlt|Hge]; [lia|].
    destruct (Z.eqb_spec x hp) as [He|Hne]; [lia|].
    apply Hpos. exact Hd.
  - intros Hd x Hx. rewrite Hread, Hread1.
    destruct (Z.ltb_spec x hp) as [Hlt|Hge]; [|lia].
    apply Hneg. exact Hd.
Qed.

Print Assumptions compare_take_spec.
Print Assumptions compare_take_sound.
Print Assumptions span_eqb_cells.
Print Assumptions aligns_with_spec.
Print Assumptions aligns_with_abs.
