(** C08 layer 2 — the block logic (macros.rs:34-108).

    [calc_block P k Q C] is the instruction of the k-cell block macro of the
    plain base program [P] as a pure function of the slot: deconstruct
    (positional decoding), [run_simulator], reconstruct (positional
    encoding).  It is what [macro_calculate_instr] returns on every
    [cache_ok] object that knows the queried colour ([macro_calculate_block]);
    its meaning for the base machine is [calc_block_sound] /
    [calc_block_none]; the macro machine it defines simulates the base
    machine on the decoded configurations ([block_run_sim]). *)
From BB Require Import Base TM TMabs MacroSpec InstrsModel MacrosModel Loops TranslatedCycle AbsEquiv.
From BB Require Import MacroSim MacroPure.
Open Scope N_scope.

Definition blk_logic (k Q C : N) : logic := mkLogic LkBlock k Q C 0 false.

(** everything the logic computes fits in a u64 *)
Definition blk_fits (k Q C : N) : Prop :=
  C ^ k <= u64_max /\ Q * k * C ^ k <= u64_max /\ 2 * Q <= u64_max.

Lemma pow_ge_1 C k : 1 <= C -> 1 <= C ^ k.
Proof. intro H. pose proof (N.pow_nonzero C k ltac:(lia)). lia. Qed.

Lemma blk_sim_lim k Q C :
  1 <= C -> blk_fits k Q C -> macro_sim_lim (blk_logic k Q C) = Ok (Q * k * C ^ k).
Proof.
  intros HC (F1 & F2 & F3). unfold macro_sim_lim, macro_colors, blk_logic.
  cbn [lg_kind lg_base_states lg_cells lg_base_colors].
  pose proof (pow_ge_1 C k HC) as Hp.
  rewrite chk_mul_ok by nia. cbn [obind].
  rewrite (pow_u64_ok C k HC F1). cbn [obind].
  rewrite chk_mul_ok by exact F2. reflexivity.
Qed.

Lemma half_bit st (side : bool) :
  (2 * st + (if side then 0 else 1)) / 2 = st /\
  (2 * st + (if side then 0 else 1)) mod 2 = (if side then 0 else 1).
Proof.
  destruct side.
  - split; symmetry; [apply (N.div_unique _ _ _ 0)|apply (N.mod_unique _ _ st)]; lia.
  - split; symmetry; [apply (N.div_unique _ _ _ 1)|apply (N.mod_unique _ _ st)]; lia.
Qed.

(** the block macro as a pure function *)
Definition calc_block (P : prog) (k Q C : N) (sl : slot) : option instr :=
  match fst (run_simulator unit (pget P) (blk_logic k Q C)
               ((fst sl / 2 : state), (fst sl mod 2 =? 1, decode C (N.to_nat k) (snd sl))) tt) with
  | Ok (Some (st', (side, tp'))) => Some (encode C tp', side, 2 * st' + (if side then 0 else 1))
  | _ => None
  end.

Section Block.
Variables (P : prog) (k Q C : N).
Hypothesis Hk : 1 <= k.
Hypothesis HC : 1 <= C.
Hypothesis Hfit : blk_fits k Q C.
Hypothesis HW : prog_within_P P Q C.

Let kn := N.to_nat k.

Lemma decode_ne mc : decode C kn mc <> [].
Proof.
  intro E. pose proof (decode_length C kn mc) as Hl. rewrite E in Hl. cbn [length] in Hl.
  unfold kn in Hl. lia.
Qed.

(** SOUNDNESS of a computed instruction *)
Theorem calc_block_sound ms mc mc' sh ms' :
  calc_block P k Q C (ms, mc) = Some (mc', sh, ms') ->
  (forall lo t, win_at t lo (decode C kn mc) ->
     leaves P lo kn (mkA (ms / 2) (entry_pos (ms mod 2 =? 1) lo kn) t) sh (ms' / 2)
            (decode C kn mc')) /\
  ms' mod 2 = (if sh then 0 else 1) /\ ms' / 2 < Q /\ mc' < C ^ k.
Proof.
  unfold calc_block. cbn [fst snd]. fold kn.
  pose proof (blk_sim_lim k Q C HC Hfit) as Hlim.
  pose proof (decode_ne mc) as Hne.
  pose proof (decode_Forall C kn mc ltac:(lia)) as Hdec.
  pose proof (decode_length C kn mc) as Hlen.
  match goal with |- context [fst ?X] => destruct (fst X) as [|[[st' [side tp']]|]] eqn:Er end;
    try discriminate.
  intro Hc. injection Hc as <- <- <-.
  destruct (run_simulator_bounded P Q C _ _ _ _ _ _ _ _ Hlim Hne HW Hdec Er) as [Hst' Htp'].
  (* the length of the exit tape: from soundness on any tape carrying the window *)
  assert (Hl' : length tp' = kn).
  { pose proof (run_simulator_sound P (blk_logic k Q C) (ms / 2) (ms mod 2 =? 1)
                  (decode C kn mc) _ 0%Z
                  (fun x => nth (Z.to_nat x) (decode C kn mc) 0) Hlim Hne (win_at_self _)) as HS.
    rewrite Er in HS. destruct HS as [HS _]. lia. }
  assert (Hdd : decode C kn (encode C tp') = tp') by (rewrite <- Hl'; apply enc_dec; exact Htp').
  split; [|split; [|split]].
  - intros lo t Hw.
    pose proof (run_simulator_sound P (blk_logic k Q C) (ms / 2) (ms mod 2 =? 1)
                  (decode C kn mc) _ lo t Hlim Hne Hw) as HS.
    rewrite Er, Hlen in HS. destruct HS as [_ HL].
    rewrite (proj1 (half_bit st' side)), Hdd. exact HL.
  - apply half_bit.
  - rewrite (proj1 (half_bit st' side)). exact Hst'.
  - pose proof (encode_lt C tp' Htp') as He. rewrite Hl' in He. unfold kn in He.
    rewrite N2Nat.id in He. exact He.
Qed.

(** NO INSTRUCTION  <->  halts inside the block or never leaves it *)
Theorem calc_block_none ms mc lo t :
  win_at t lo (decode C kn mc) ->
  (calc_block P k Q C (ms, mc) = None <->
   halts_inside P lo kn (mkA (ms / 2) (entry_pos (ms mod 2 =? 1) lo kn) t) \/
   never_leaves P lo kn (mkA (ms / 2) (entry_pos (ms mod 2 =? 1) lo kn) t)).
Proof.
  intro Hw.
  pose proof (blk_sim_lim k Q C HC Hfit) as Hlim.
  pose proof (decode_ne mc) as Hne.
  pose proof (decode_Forall C kn mc ltac:(lia)) as Hdec.
  pose proof (decode_length C kn mc) as Hlen.
  unfold calc_block. cbn [fst snd]. fold kn. split.
  - intro Hc.
    pose proof (run_simulator_sound P (blk_logic k Q C) (ms / 2) (ms mod 2 =? 1)
                  (decode C kn mc) _ lo t Hlim Hne Hw) as HS.
    pose proof (run_simulator_none P Q C (blk_logic k Q C) (ms / 2) (ms mod 2 =? 1)
                  (decode C kn mc) _ lo t Hlim Hne Hw HW Hdec) as HN.
    rewrite Hlen in HN.
    revert Hc.
    match goal with |- context [fst ?X] => destruct (fst X) as [|[[st' [side tp']]|]] eqn:Er end;
      intro Hc; [contradiction|discriminate|].
    apply HN; [|reflexivity].
    unfold mt_len. rewrite Hlen. unfold kn. rewrite N2Nat.id. lia.
  - intro Hor.
    pose proof (run_simulator_none_conv P (blk_logic k Q C) (ms / 2) (ms mod 2 =? 1)
                  (decode C kn mc) _ lo t Hlim Hne Hw) as HN.
    rewrite Hlen in HN. rewrite (HN Hor). reflexivity.
Qed.

(** the stateful object agrees with the pure function *)
Theorem macro_calculate_block m ms mc tp :
  cache_ok k C m -> c2t_get (ms_c2t m) mc = Some tp ->
  exists m',
    macro_calculate_instr unit (pget P) (blk_logic k Q C) (m, tt) (ms, mc)
      = (Ok (calc_block P k Q C (ms, mc)), (m', tt)) /\
    cache_ok k C m' /\ ms_instrs m' = ms_instrs m /\
    (forall c x, c2t_get (ms_c2t m) c = Some x -> c2t_get (ms_c2t m') c = Some x) /\
    (forall mc' sh ms', calc_block P k Q C (ms, mc) = Some (mc', sh, ms') ->
       c2t_get (ms_c2t m') mc' = Some (decode C kn mc')).
Proof.
  intros Hok Hg.
  destruct (color_to_tape_decode k C m mc tp Hok Hg) as [Hct Htp]. fold kn in Htp.
  pose proof (blk_sim_lim k Q C HC Hfit) as Hlim.
  pose proof (decode_ne mc) as Hne.
  pose proof (decode_Forall C kn mc ltac:(lia)) as Hdec.
  pose proof (decode_length C kn mc) as Hlen.
  unfold macro_calculate_instr, deconstruct_inputs, block_deconstruct_inputs.
  cbn [lg_kind blk_logic]. rewrite Hct. cbn [obind]. rewrite Htp.
  unfold calc_block. cbn [fst snd]. fold kn.
  pose proof (run_simulator_sound P (blk_logic k Q C) (ms / 2) (ms mod 2 =? 1)
                (decode C kn mc) _ 0%Z
                (fun x => nth (Z.to_nat x) (decode C kn mc) 0) Hlim Hne (win_at_self _)) as HS.
  pose proof (run_simulator_bounded P Q C (blk_logic k Q C) (ms / 2) (ms mod 2 =? 1)
                (decode C kn mc) (Q * k * C ^ k)) as HB.
  unfold state, mtape, colour in *.
  revert HS HB.
  match goal with |- context [run_simulator ?a ?b ?c ?d ?e] =>
    destruct (run_simulator a b c d e) as [r []] end.
  cbn [fst]. intros HS HB.
  destruct r as [|[[st' [side tp']]|]].
  - exfalso. exact HS.
  - destruct (HB st' side tp' Hlim Hne HW Hdec eq_refl) as [Hst' Htp'].
    destruct HS as [Hl' _].
    rewrite Hlen in Hl'.
    destruct Hfit as (F1 & F2 & F3).
    destruct (tape_to_color_ok k C m tp' HC F1 Hok) as (m' & Ht2c & Hok' & Hmemo & Hmono & Hin);
      [unfold mt_len, colour; rewrite Hl'; unfold kn; lia|exact Htp'|].
    unfold reconstruct_outputs, block_reconstruct_outputs. cbn [lg_kind blk_logic lg_base_colors].
    rewrite Ht2c.
    rewrite chk_mul_ok by lia. cbn [obind].
    rewrite chk_add_ok by (destruct side; lia). cbn [obind].
    exists m'. split; [reflexivity|]. split; [exact Hok'|]. split; [exact Hmemo|].
    split; [exact Hmono|]. intros mc' sh ms' E. injection E as <- _ _.
    replace (decode C kn (encode C tp')) with tp'; [exact Hin|].
    symmetry. rewrite <- Hl'. apply enc_dec. exact Htp'.
  - exists m. split; [reflexivity|]. split; [exact Hok|]. split; [reflexivity|].
    split; [intros c x Hx; exact Hx|]. intros mc' sh ms' E. discriminate.
Qed.

(** ---- the macro machine on decoded configurations ---- *)
Let kz := Z.of_N k.

Notation dec_atape := (blk_dec_tape C k).
Notation dec_cfg := (blk_dec_cfg C k).

Lemma dec_atape_ext T1 T2 : aeq T1 T2 -> aeq (dec_atape T1) (dec_atape T2).
Proof. intros H x. unfold blk_dec_tape; fold kz kn. rewrite H. reflexivity. Qed.

Lemma dec_cfg_ext c1 c2 : aconf_eq c1 c2 -> aconf_eq (dec_cfg c1) (dec_cfg c2).
Proof.
  intros (Hq & Hh & Ht). unfold blk_dec_cfg, aconf_eq; fold kz kn. cbn [a_q a_h a_t]. rewrite Hq, Hh.
  split; [reflexivity|]. split; [reflexivity|]. apply dec_atape_ext. exact Ht.
Qed.

Lemma block_div H i : (0 <= i < kz)%Z -> ((kz * H + i) / kz = H)%Z.
Proof. intro Hi. symmetry. apply (Z.div_unique _ _ _ i); [left; exact Hi|reflexivity]. Qed.
Lemma block_mod H i : (0 <= i < kz)%Z -> ((kz * H + i) mod kz = i)%Z.
Proof. intro Hi. symmetry. apply (Z.mod_unique _ _ H); [left; exact Hi|reflexivity]. Qed.

Lemma inside_block H x : inside (kz * H) kn x <-> (x / kz = H)%Z.
Proof.
  unfold inside. assert (Hkz : (0 < kz)%Z) by (unfold kz; lia).
  replace (Z.of_nat kn) with kz by (unfold kn, kz; lia). split.
  - intro Hx. replace x with (kz * H + (x - kz * H))%Z by lia. apply block_div. lia.
  - intro E. pose proof (Z.div_mod x kz ltac:(lia)) as Hdm.
    pose proof (Z.mod_pos_bound x kz Hkz) as Hb. rewrite E in Hdm. lia.
Qed.

Lemma dec_atape_win T H : win_at (dec_atape T) (kz * H) (decode C kn (T H)).
Proof.
  intros i Hi. rewrite decode_length in Hi. unfold blk_dec_tape; fold kz kn.
  assert (Hb : (0 <= Z.of_nat i < kz)%Z) by (unfold kz, kn in *; lia).
  rewrite block_div, block_mod by exact Hb. rewrite Nat2Z.id. reflexivity.
Qed.

Notation M := (calc_block P k Q C).

(** one macro step = n >= 1 base steps between the decoded configurations *)
Lemma block_step_sim c c' :
  a_step M c = Some c' ->
  exists n cb, (1 <= n)%nat /\ a_steps P n (dec_cfg c) = Some cb /\ aconf_eq cb (dec_cfg c') /\
    (forall i ci, (i < n)%nat -> a_steps P i (dec_cfg c) = Some ci ->
                  inside (kz * a_h c) kn (a_h ci)).
Proof.
  destruct c as [ms H T]. unfold a_step. cbn [a_q a_h a_t].
  destruct (M (ms, T H)) as [[[mc' sh] ms']|] eqn:EM; [|discriminate].
  intro E. injection E as <-.
  destruct (calc_block_sound ms (T H) mc' sh ms' EM) as (HL & Hbit & _ & _).
  destruct (HL (kz * H)%Z (dec_atape T) (dec_atape_win T H)) as (n & t' & Hn & (R & I & U) & W').
  exists n. eexists. split; [exact Hn|]. split; [|split].
  - unfold blk_dec_cfg; fold kz kn. cbn [a_q a_h a_t].
    replace (if ms mod 2 =? 1 then (kz * H + kz - 1)%Z else (kz * H)%Z)
      with (entry_pos (ms mod 2 =? 1) (kz * H) kn)
      by (unfold entry_pos; destruct (ms mod 2 =? 1); unfold kz, kn; lia).
    exact R.
  - unfold blk_dec_cfg, aconf_eq; fold kz kn. cbn [a_q a_h a_t]. split; [reflexivity|]. split.
    + rewrite Hbit. destruct sh.
      * change (0 =? 1) with false. cbv iota. unfold kz, kn. lia.
      * change (1 =? 1) with true. cbv iota. unfold kz, kn. lia.
    + intro x. cbn [a_t] in U. unfold blk_dec_tape at 1, a_write; fold kz kn.
      destruct (Z.eqb_spec (x / kz) H) as [E|E].
      * (* inside the rewritten block *)
        apply inside_block in E. unfold inside in E.
        assert (Hkz : Z.of_nat kn = kz) by (unfold kn, kz; lia). rewrite Hkz in E.
        specialize (W' (Z.to_nat (x - kz * H))). rewrite decode_length in W'.
        replace (kz * H + Z.of_nat (Z.to_nat (x - kz * H)))%Z with x in W' by lia.
        rewrite W' by (unfold kn, kz in *; lia).
        replace x with (kz * H + (x - kz * H))%Z at 2 by lia.
        rewrite block_mod by lia. reflexivity.
      * rewrite U; [reflexivity|]. intro Hin. apply inside_block in Hin. contradiction.
  - cbn [a_h]. intros i ci Hi Hc. apply (I i ci Hi).
    unfold blk_dec_cfg in Hc; fold kz kn in Hc. cbn [a_q a_h a_t] in Hc.
    replace (entry_pos (ms mod 2 =? 1) (kz * H) kn)
      with (if ms mod 2 =? 1 then (kz * H + kz - 1)%Z else (kz * H)%Z)
      by (unfold entry_pos; destruct (ms mod 2 =? 1); unfold kz, kn; lia).
    exact Hc.
Qed.

Lemma a_steps_transport n c1 c2 d1 :
  aconf_eq c1 c2 -> a_steps P n c1 = Some d1 ->
  exists d2, a_steps P n c2 = Some d2 /\ aconf_eq d1 d2.
Proof.
  intros He H1. pose proof (a_steps_ext P n c1 c2 He) as Hx. rewrite H1 in Hx.
  destruct (a_steps P n c2) as [d2|]; [|contradiction]. exists d2. split; [reflexivity|exact Hx].
Qed.

(** THE RUN: there is a strictly increasing clock [tm] such that the macro
    configuration after i macro steps decodes to the base configuration
    after [tm i] base steps — the macro machine visits, in order, only
    configurations the base machine visits. *)
Theorem block_run_sim c0 n :
  exists tm : nat -> nat,
    tm O = O /\ (forall i, (i < n)%nat -> (tm i < tm (S i))%nat) /\
    forall i ci, (i <= n)%nat -> a_steps M i c0 = Some ci ->
      exists cb, a_steps P (tm i) (dec_cfg c0) = Some cb /\ aconf_eq cb (dec_cfg ci).
Proof.
  induction n as [|n (tm & T0 & Tmono & Tsim)].
  - exists (fun _ => O). split; [reflexivity|]. split; [intros i Hi; lia|].
    intros i ci Hi Hc. assert (i = O) by lia. subst i. cbn [a_steps] in Hc. injection Hc as <-.
    exists (dec_cfg c0). split; [reflexivity|apply aconf_eq_refl].
  - (* how many base steps does macro step number n+1 take? *)
    assert (Hd : exists d, (1 <= d)%nat /\
              forall cn cn1, a_steps M n c0 = Some cn -> a_step M cn = Some cn1 ->
                exists cb, a_steps P (tm n + d) (dec_cfg c0) = Some cb /\ aconf_eq cb (dec_cfg cn1)).
    { destruct (a_steps M n c0) as [cn|] eqn:En; [|exists 1%nat; split; [lia|discriminate]].
      destruct (a_step M cn) as [cn1|] eqn:Es.
      2:{ exists 1%nat. split; [lia|]. intros ? ? E. injection E as <-. rewrite Es. discriminate. }
      destruct (block_step_sim cn cn1 Es) as (d & cb1 & Hd & R1 & E1 & _).
      destruct (Tsim n cn (le_n _) En) as (cbn & Rn & En').
      destruct (a_steps_transport d (dec_cfg cn) cbn cb1 (aconf_eq_sym _ _ En') R1) as (cb2 & R2 & E2).
      exists d. split; [exact Hd|]. intros ? ? E E'. injection E as <-. rewrite Es in E'.
      injection E' as <-. exists cb2. split.
      - rewrite a_steps_add, Rn. exact R2.
      - eapply aconf_eq_trans; [apply aconf_eq_sym; exact E2|exact E1]. }
    destruct Hd as (d & Hd & Hstep).
    exists (fun i => if (i <=? n)%nat then tm i else (tm n + d)%nat).
    split; [cbn; exact T0|]. split.
    + intros i Hi. destruct (Nat.leb_spec i n) as [L|G]; [|lia].
      destruct (Nat.leb_spec (S i) n) as [L'|G'].
      * apply Tmono. lia.
      * assert (i = n) by lia. subst i. lia.
    + intros i ci Hi Hc. destruct (Nat.leb_spec i n) as [L|G].
      * apply (Tsim i ci L Hc).
      * assert (i = S n) by lia. subst i.
        replace (S n) with (n + 1)%nat in Hc by lia. rewrite a_steps_add in Hc.
        destruct (a_steps M n c0) as [cn|] eqn:En; [|discriminate].
        cbn [a_steps] in Hc. destruct (a_step M cn) as [cn1|] eqn:Es; [|discriminate].
        injection Hc as <-. apply (Hstep cn cn1 eq_refl Es).
Qed.

(** the same for the cell-by-cell machine of Spec/TM.v on a zipper of macro
    colours whose head stands at macro position [H] *)
Theorem block_run_sim_zipper ms z H n ms' z' :
  tm_steps M n (ms, z) = Some (ms', z') ->
  exists H' m cb, (n <= m)%nat /\
    a_steps P m (dec_cfg (mkA ms H (abs_of z H))) = Some cb /\
    aconf_eq cb (dec_cfg (mkA ms' H' (abs_of z' H'))).
Proof.
  intro Hrun. pose proof (zipper_abs_steps M n ms z H) as Hz. rewrite Hrun in Hz.
  destruct Hz as (H' & T' & Ha & Et).
  destruct (block_run_sim (mkA ms H (abs_of z H)) n) as (tm & T0 & Tmono & Tsim).
  destruct (Tsim n _ (le_n _) Ha) as (cb & Rb & Eb).
  exists H', (tm n), cb. split; [|split; [exact Rb|]].
  - clear - T0 Tmono. induction n as [|n IH]; [lia|].
    assert (tm n < tm (S n))%nat by (apply Tmono; lia).
    assert (n <= tm n)%nat by (apply IH; intros i Hi; apply Tmono; lia). lia.
  - eapply aconf_eq_trans; [exact Eb|]. apply dec_cfg_ext.
    split; [reflexivity|]. split; [reflexivity|exact Et].
Qed.

(** the blank macro configuration decodes to the blank base configuration *)
Lemma dec_cfg_blank :
  aconf_eq (dec_cfg (mkA 0 0%Z (abs_of blank_tape 0%Z))) (mkA 0 0%Z (fun _ => 0)).
Proof.
  unfold blk_dec_cfg, aconf_eq; fold kz kn. cbn [a_q a_h a_t].
  split; [reflexivity|]. split; [change (0 mod 2 =? 1) with false; cbv iota; lia|].
  intro x. unfold blk_dec_tape; fold kz kn.
  assert (Hb : abs_of blank_tape 0%Z (x / kz)%Z = 0).
  { unfold abs_of, blank_tape. cbn [zl zc zr]. unfold cell.
    destruct (x / kz <? 0)%Z; [destruct (Z.to_nat _); reflexivity|].
    destruct (x / kz =? 0)%Z; [reflexivity|destruct (Z.to_nat _); reflexivity]. }
  rewrite Hb.
  assert (Hz : forall n j, nth j (decode C n 0) 0 = 0).
  { induction n as [|n IH]; intro j; cbn [decode]; [destruct j; reflexivity|].
    replace (0 / C) with 0 by (symmetry; apply N.div_0_l; lia).
    replace (0 mod C) with 0 by (symmetry; apply N.mod_0_l; lia).
    destruct (Nat.lt_ge_cases j (length (decode C n 0))) as [L|G].
    - rewrite app_nth1 by exact L. apply IH.
    - rewrite app_nth2 by exact G. destruct (j - length (decode C n 0))%nat as [|[|]]; reflexivity. }
  apply Hz.
Qed.

End Block.

(** ---- the real object: [macro_get_instr] with its memo, driven along a run ---- *)
Section BlockObj.
Variables (P : prog) (k Q C : N).
Hypothesis Hk : 1 <= k.
Hypothesis HC : 1 <= C.
Hypothesis Hfit : blk_fits k Q C.
Hypothesis HW : prog_within_P P Q C.

Notation M := (calc_block P k Q C).
Notation lg := (blk_logic k Q C).

Definition known (m : mstate) (c : colour) : Prop :=
  c2t_get (ms_c2t m) c = Some (decode C (N.to_nat k) c).

(** the caches are positional, every memo entry is the pure answer and the
    colour it writes is known *)
Definition obj_ok (m : mstate) : Prop :=
  cache_ok k C m /\
  forall sl mc' sh ms', cp_get (ms_instrs m) sl = Some (mc', sh, ms') ->
    M sl = Some (mc', sh, ms') /\ known m mc'.

Lemma known_of m mc tp : cache_ok k C m -> c2t_get (ms_c2t m) mc = Some tp -> known m mc.
Proof.
  intros Hok Hg. unfold known. rewrite Hg. f_equal.
  apply (color_to_tape_decode k C m mc tp Hok Hg).
Qed.

Lemma obj_ok_new : obj_ok (mstate_new k) /\ known (mstate_new k) 0.
Proof.
  split; [split|].
  - apply cache_ok_new. lia.
  - intros sl mc' sh ms' H. discriminate.
  - apply (known_of _ 0 (repeat 0 (N.to_nat k))); [apply cache_ok_new; lia|reflexivity].
Qed.

Theorem macro_get_block m ms mc :
  obj_ok m -> known m mc ->
  exists m',
    macro_get_instr unit (pget P) lg (m, tt) (ms, mc) = (Ok (M (ms, mc)), (m', tt)) /\
    obj_ok m' /\ (forall c, known m c -> known m' c) /\
    (forall mc' sh ms', M (ms, mc) = Some (mc', sh, ms') -> known m' mc').
Proof.
  intros [Hok Hmemo] Hkn. unfold macro_get_instr. cbn [fst].
  destruct (cp_get (ms_instrs m) (ms, mc)) as [[[mc' sh] ms']|] eqn:Eg.
  - destruct (Hmemo _ _ _ _ Eg) as [EM Hk']. exists m. rewrite EM.
    split; [reflexivity|]. split; [split; assumption|]. split; [auto|].
    intros mc'' sh'' ms'' E. injection E as <- _ _. exact Hk'.
  - destruct (macro_calculate_block P k Q C Hk HC Hfit HW m ms mc _ Hok Hkn)
      as (m1 & E & Hok1 & Hmemo1 & Hmono & Hin).
    rewrite E. destruct (M (ms, mc)) as [[[mc' sh] ms']|] eqn:EM.
    + eexists. split; [reflexivity|]. split; [split|split].
      * apply cache_ok_memo. exact Hok1.
      * cbn [ms_instrs ms_c2t]. intros sl mc'' sh'' ms'' Hg.
        apply cp_get_insert in Hg. destruct Hg as [[-> Ei]|Hg].
        -- injection Ei as -> -> ->. split; [exact EM|]. exact (Hin mc' sh ms' eq_refl).
        -- rewrite Hmemo1 in Hg. destruct (Hmemo _ _ _ _ Hg) as [E1 E2].
           split; [exact E1|]. unfold known in *. apply Hmono. exact E2.
      * intros c Hc. unfold known in *. cbn [ms_c2t]. apply Hmono. exact Hc.
      * intros mc'' sh'' ms'' Ei. injection Ei as <- _ _. unfold known. cbn [ms_c2t].
        exact (Hin mc' sh ms' eq_refl).
    + exists m1. split; [reflexivity|]. split; [split|split].
      * exact Hok1.
      * intros sl mc'' sh'' ms'' Hg. rewrite Hmemo1 in Hg. destruct (Hmemo _ _ _ _ Hg) as [E1 E2].
        split; [exact E1|]. unfold known in *. apply Hmono. exact E2.
      * intros c Hc. unfold known in *. apply Hmono. exact Hc.
      * intros mc'' sh'' ms'' Ei. discriminate.
Qed.

(** every colour on the macro tape is known to the object *)
Definition tape_known (m : mstate) (z : ztape) : Prop :=
  known m 0 /\ known m (zc z) /\ Forall (known m) (zl z) /\ Forall (known m) (zr z).

Lemma tape_known_move m z sh pr :
  tape_known m z -> known m pr -> tape_known m (tm_move z sh pr).
Proof.
  intros (H0 & Hc & Hl & Hr) Hp. unfold tm_move. destruct sh; cbn [zl zc zr].
  - split; [exact H0|]. split; [|split].
    + destruct (zr z) as [|x r]; [exact H0|]. inversion Hr; assumption.
    + constructor; assumption.
    + destruct (zr z) as [|x r]; [constructor|]. inversion Hr; assumption.
  - split; [exact H0|]. split; [|split].
    + destruct (zl z) as [|x l]; [exact H0|]. inversion Hl; assumption.
    + destruct (zl z) as [|x l]; [constructor|]. inversion Hl; assumption.
    + constructor; assumption.
Qed.

Lemma tape_known_mono m m' z :
  (forall c, known m c -> known m' c) -> tape_known m z -> tape_known m' z.
Proof.
  intros Hm (H0 & Hc & Hl & Hr). split; [auto|]. split; [auto|].
  split; eapply Forall_impl; eauto.
Qed.

(** THE OBJECT RUN: querying the real stateful object ([macro_get_instr],
    caches + memo) along a run gives exactly the run of the pure macro program *)
Theorem block_obj_run : forall n m q z,
  obj_ok m -> tape_known m z ->
  match tm_steps M n (q, z) with
  | Some c' => exists m', obj_steps (macro_get_instr unit (pget P) lg) n ((m, tt), (q, z))
                            = Ok (Some ((m', tt), c')) /\ obj_ok m' /\ tape_known m' (snd c')
  | None => obj_steps (macro_get_instr unit (pget P) lg) n ((m, tt), (q, z)) = Ok None
  end.
Proof.
  induction n as [|n IH]; intros m q z Hobj Htk.
  - cbn [tm_steps obj_steps]. exists m. split; [reflexivity|]. split; assumption.
  - cbn [tm_steps obj_steps tm_step obj_step].
    destruct Htk as (H0 & Hc & Hl & Hr).
    destruct (macro_get_block m q (zc z) Hobj Hc) as (m1 & E & Hobj1 & Hmono & Hin).
    rewrite E. destruct (M (q, zc z)) as [[[pr sh] q']|] eqn:EM; [|reflexivity].
    apply IH; [exact Hobj1|]. apply tape_known_move.
    + apply (tape_known_mono m m1); [exact Hmono|]. split; [|split; [|split]]; assumption.
    + exact (Hin pr sh q' eq_refl).
Qed.

Corollary block_obj_run_blank n :
  match tm_steps M n ((0 : state), blank_tape) with
  | Some c' => exists m', obj_steps (macro_get_instr unit (pget P) lg) n
                            ((mstate_new k, tt), ((0 : state), blank_tape)) = Ok (Some ((m', tt), c'))
  | None => obj_steps (macro_get_instr unit (pget P) lg) n
              ((mstate_new k, tt), ((0 : state), blank_tape)) = Ok None
  end.
Proof.
  destruct obj_ok_new as [Hobj H0].
  assert (Htk : tape_known (mstate_new k) blank_tape).
  { split; [exact H0|]. split; [exact H0|]. split; constructor. }
  pose proof (block_obj_run n (mstate_new k) 0 blank_tape Hobj Htk) as HR.
  revert HR. match goal with |- context [tm_steps ?a ?b ?c] => destruct (tm_steps a b c) as [c'|] end;
    intro HR; [|exact HR].
  destruct HR as (m' & E & _). exists m'. exact E.
Qed.
End BlockObj.

(** ---- the same, for the stateful object over a program table ---- *)
Theorem block_instr_sound comp k Q C m ms mc tp r m' :
  1 <= k -> 1 <= C -> blk_fits k Q C -> prog_within comp Q C ->
  cache_ok k C m -> c2t_get (ms_c2t m) mc = Some tp ->
  macro_calculate_instr unit (plain_get comp) (blk_logic k Q C) (m, tt) (ms, mc) = (r, (m', tt)) ->
  cache_ok k C m' /\ r = Ok (calc_block (to_prog comp) k Q C (ms, mc)) /\
  forall mc' sh ms', r = Ok (Some (mc', sh, ms')) ->
    ms' mod 2 = (if sh then 0 else 1) /\ ms' / 2 < Q /\ mc' < C ^ k /\
    c2t_get (ms_c2t m') mc' = Some (decode C (N.to_nat k) mc') /\
    forall lo t, win_at t lo (decode C (N.to_nat k) mc) ->
      leaves (to_prog comp) lo (N.to_nat k)
             (mkA (ms / 2) (entry_pos (ms mod 2 =? 1) lo (N.to_nat k)) t)
             sh (ms' / 2) (decode C (N.to_nat k) mc').
Proof.
  intros Hk HC Hfit HW Hok Hg Hcalc. apply prog_within_sound in HW.
  destruct (macro_calculate_block (to_prog comp) k Q C Hk HC Hfit HW m ms mc tp Hok Hg)
    as (m1 & E & Hok1 & _ & _ & Hin).
  unfold plain_get in Hcalc. rewrite E in Hcalc. injection Hcalc as <- <-.
  split; [exact Hok1|]. split; [reflexivity|].
  intros mc' sh ms' Er. injection Er as Er.
  destruct (calc_block_sound (to_prog comp) k Q C Hk HC Hfit HW ms mc mc' sh ms' Er)
    as (HL & Hbit & Hq & Hc).
  split; [exact Hbit|]. split; [exact Hq|]. split; [exact Hc|].
  split; [exact (Hin mc' sh ms' Er)|exact HL].
Qed.

Theorem block_instr_none comp k Q C m ms mc tp lo t :
  1 <= k -> 1 <= C -> blk_fits k Q C -> prog_within comp Q C ->
  cache_ok k C m -> c2t_get (ms_c2t m) mc = Some tp ->
  win_at t lo (decode C (N.to_nat k) mc) ->
  (fst (macro_calculate_instr unit (plain_get comp) (blk_logic k Q C) (m, tt) (ms, mc)) = Ok None <->
   halts_inside (to_prog comp) lo (N.to_nat k)
                (mkA (ms / 2) (entry_pos (ms mod 2 =? 1) lo (N.to_nat k)) t) \/
   never_leaves (to_prog comp) lo (N.to_nat k)
                (mkA (ms / 2) (entry_pos (ms mod 2 =? 1) lo (N.to_nat k)) t)).
Proof.
  intros Hk HC Hfit HW Hok Hg Hw. apply prog_within_sound in HW.
  destruct (macro_calculate_block (to_prog comp) k Q C Hk HC Hfit HW m ms mc tp Hok Hg)
    as (m1 & E & _).
  unfold plain_get. rewrite E. cbn [fst].
  pose proof (calc_block_none (to_prog comp) k Q C Hk HC Hfit HW ms mc lo t Hw) as Hn.
  split.
  - intro H. injection H as H. apply Hn. exact H.
  - intro H. apply Hn in H. f_equal. exact H.
Qed.

Print Assumptions calc_block_sound.
Print Assumptions calc_block_none.
Print Assumptions macro_calculate_block.
Print Assumptions block_run_sim.
Print Assumptions block_run_sim_zipper.
Print Assumptions block_instr_sound.
Print Assumptions block_instr_none.
Print Assumptions block_obj_run.
Print Assumptions block_obj_run_blank.
