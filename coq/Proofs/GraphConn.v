(** Proofs about Model/GraphModel.v (src/graph.rs) — property C14.

    Contents
      1. small list / N facts, pigeonhole on duplicate-free lists of N
      2. [cp_wf]: the BTreeMap representation invariant of [comp_prog]
         (keys strictly increasing); preserved by [cp_insert], holds of
         everything [from_str] returns
      3. [get_exitpoints] characterised: exits E a = { b <> a | edge a b }
      4. the DFS loop [conn_loop]: the push fold, the invariant, and
         [dfs_complete] (the [for _ in 0..states] bound never cuts a search)
      5. graph lemmas ([reach]) and decidability of [reach]
      6. the final theorems about [is_connected]
      7. the run of the machine is a walk in the graph; TNF

    Stack convention of the model: head of [todo] = top of the Rust Vec. *)
From BB Require Import Base TM Graph InstrsModel GraphModel.
From Coq Require Import Sorted.

(* ------------------------------------------------------------------ *)
(** * 1. list / N facts *)

Lemma memN_In x l : memN x l = true <-> In x l.
Proof.
  unfold memN. rewrite existsb_exists. split.
  - intros [y [Hy He]]. apply N.eqb_eq in He. subst. exact Hy.
  - intros H. exists x. split; [exact H|apply N.eqb_refl].
Qed.

Lemma memN_false x l : memN x l = false <-> ~ In x l.
Proof.
  rewrite <- memN_In. destruct (memN x l); split; intro H.
  - discriminate.
  - exfalso. apply H. reflexivity.
  - intro H'. discriminate.
  - reflexivity.
Qed.

Lemma In_N_dec (x : N) l : In x l \/ ~ In x l.
Proof.
  destruct (memN x l) eqn:E; [left; apply memN_In|right; apply memN_false]; exact E.
Qed.

Lemma to_nat_NoDup l : NoDup l -> NoDup (map N.to_nat l).
Proof.
  induction 1 as [|x l Hx Hl IH]; cbn [map]; constructor; [|exact IH].
  rewrite in_map_iff. intros [y [Hy Hin]]. apply N2Nat.inj in Hy. subst. auto.
Qed.

Lemma to_nat_incl_seq l n : (forall x, In x l -> x < n) ->
  incl (map N.to_nat l) (seq 0 (N.to_nat n)).
Proof.
  intros Hlt y Hy. apply in_map_iff in Hy. destruct Hy as [x [Hx Hin]]. subst.
  apply in_seq. specialize (Hlt x Hin). lia.
Qed.

(** a duplicate-free list of numbers below [n] has at most [n] elements *)
Lemma pigeon_le (l : list N) n :
  NoDup l -> (forall x, In x l -> x < n) -> N.of_nat (length l) <= n.
Proof.
  intros Hnd Hlt.
  assert (H : (length (map N.to_nat l) <= length (seq 0 (N.to_nat n)))%nat).
  { apply NoDup_incl_length; [apply to_nat_NoDup; exact Hnd|apply to_nat_incl_seq; exact Hlt]. }
  rewrite map_length, seq_length in H. lia.
Qed.

(** ... and if it has [n] elements it contains every number below [n] *)
Lemma pigeon_full (l : list N) n :
  NoDup l -> (forall x, In x l -> x < n) -> n <= N.of_nat (length l) ->
  forall s, s < n -> In s l.
Proof.
  intros Hnd Hlt Hlen s Hs.
  assert (Hincl : incl (seq 0 (N.to_nat n)) (map N.to_nat l)).
  { apply NoDup_length_incl.
    - apply to_nat_NoDup; exact Hnd.
    - rewrite map_length, seq_length. lia.
    - apply to_nat_incl_seq; exact Hlt. }
  assert (Hin : In (N.to_nat s) (map N.to_nat l)) by (apply Hincl, in_seq; lia).
  apply in_map_iff in Hin. destruct Hin as [x [Hx Hin]]. apply N2Nat.inj in Hx. subst. exact Hin.
Qed.

(** ... and if it has fewer, some number below [n] is missing (constructively) *)
Lemma pigeon_missing (l : list N) n :
  NoDup l -> (forall x, In x l -> x < n) -> N.of_nat (length l) < n ->
  exists s, s < n /\ ~ In s l.
Proof.
  intros Hnd Hlt Hlen.
  set (cands := map N.of_nat (seq 0 (N.to_nat n))).
  destruct (existsb (fun s => negb (memN s l)) cands) eqn:E.
  - apply existsb_exists in E. destruct E as [s [Hs Hm]].
    exists s. split.
    + unfold cands in Hs. apply in_map_iff in Hs. destruct Hs as [k [Hk Hin]].
      apply in_seq in Hin. lia.
    + apply memN_false. destruct (memN s l); [discriminate|reflexivity].
  - exfalso.
    assert (Hall : forall s, s < n -> In s l).
    { intros s Hs. destruct (memN s l) eqn:M; [apply memN_In; exact M|].
      assert (Ht : existsb (fun s => negb (memN s l)) cands = true).
      { apply existsb_exists. exists s. split; [|rewrite M; reflexivity].
        unfold cands. apply in_map_iff. exists (N.to_nat s). split; [apply N2Nat.id|].
        apply in_seq. lia. }
      rewrite Ht in E. discriminate. }
    assert (H : (length (seq 0 (N.to_nat n)) <= length (map N.to_nat l))%nat).
    { apply NoDup_incl_length; [apply seq_NoDup|].
      intros k Hk. apply in_seq in Hk. apply in_map_iff. exists (N.of_nat k).
      split; [apply Nat2N.id|]. apply Hall. lia. }
    rewrite map_length, seq_length in H. lia.
Qed.

Lemma sorted_NoDup l : StronglySorted N.lt l -> NoDup l.
Proof.
  induction 1 as [|x l Hs IH Hall]; constructor; [|exact IH].
  intro Hin. rewrite Forall_forall in Hall. apply Hall in Hin. lia.
Qed.

(* ------------------------------------------------------------------ *)
(** * 2. the BTreeMap invariant of [comp_prog] *)

Definition slot_lt (a b : slot) : Prop := slot_ltb a b = true.

(** keys strictly increasing in BTreeMap order — what [CompProg] always is *)
Definition cp_wf (p : comp_prog) : Prop := StronglySorted slot_lt (map fst p).

Lemma slot_eqb_eq a b : slot_eqb a b = true <-> a = b.
Proof.
  destruct a as [a1 a2], b as [b1 b2]. unfold slot_eqb. cbn [fst snd].
  rewrite andb_true_iff, !N.eqb_eq. split.
  - intros [H1 H2]. subst. reflexivity.
  - intros H. inversion H. auto.
Qed.

Lemma slot_eqb_refl a : slot_eqb a a = true.
Proof. apply slot_eqb_eq. reflexivity. Qed.

Lemma slot_ltb_neq a b : slot_ltb a b = true -> slot_eqb a b = false.
Proof.
  destruct a as [a1 a2], b as [b1 b2]. unfold slot_ltb, slot_eqb. cbn [fst snd].
  destruct (N.ltb_spec a1 b1), (N.eqb_spec a1 b1), (N.ltb_spec a2 b2), (N.eqb_spec a2 b2);
    cbn [orb andb]; intros; try reflexivity; try discriminate; lia.
Qed.

Lemma slot_lt_trans a b c : slot_lt a b -> slot_lt b c -> slot_lt a c.
Proof.
  destruct a as [a1 a2], b as [b1 b2], c as [c1 c2]. unfold slot_lt, slot_ltb. cbn [fst snd].
  destruct (N.ltb_spec a1 b1), (N.eqb_spec a1 b1), (N.ltb_spec a2 b2),
           (N.ltb_spec b1 c1), (N.eqb_spec b1 c1), (N.ltb_spec b2 c2),
           (N.ltb_spec a1 c1), (N.eqb_spec a1 c1), (N.ltb_spec a2 c2);
    cbn [orb andb]; intros; try reflexivity; try discriminate; lia.
Qed.

Lemma slot_trichotomy a b : slot_ltb a b = false -> slot_eqb a b = false -> slot_lt b a.
Proof.
  destruct a as [a1 a2], b as [b1 b2]. unfold slot_lt, slot_ltb, slot_eqb. cbn [fst snd].
  destruct (N.ltb_spec a1 b1), (N.eqb_spec a1 b1), (N.ltb_spec a2 b2), (N.eqb_spec a2 b2),
           (N.ltb_spec b1 a1), (N.eqb_spec b1 a1), (N.ltb_spec b2 a2);
    cbn [orb andb]; intros; try reflexivity; try discriminate; lia.
Qed.

Lemma cp_get_In p k v : cp_get p k = Some v -> In (k, v) p.
Proof.
  induction p as [|[k' v'] p IH]; cbn [cp_get]; [discriminate|].
  destruct (slot_eqb k' k) eqn:E.
  - intros H. inversion H. subst. apply slot_eqb_eq in E. subst. left. reflexivity.
  - intros H. right. apply IH. exact H.
Qed.

Lemma In_cp_get p k v : cp_wf p -> In (k, v) p -> cp_get p k = Some v.
Proof.
  unfold cp_wf. induction p as [|[k' v'] p IH]; cbn [map fst cp_get]; intros Hwf Hin; [destruct Hin|].
  inversion Hwf as [|x l Hs Hall]. subst.
  destruct Hin as [Heq|Hin].
  - inversion Heq. subst. rewrite slot_eqb_refl. reflexivity.
  - rewrite Forall_forall in Hall.
    assert (Hlt : slot_lt k' k).
    { apply Hall. apply in_map_iff. exists (k, v). split; [reflexivity|exact Hin]. }
    rewrite (slot_ltb_neq _ _ Hlt). apply IH; assumption.
Qed.

Lemma cp_insert_keys k v p x :
  In x (map fst (cp_insert k v p)) -> x = k \/ In x (map fst p).
Proof.
  induction p as [|[k' v'] p IH]; cbn [cp_insert map fst In].
  - intros [H|[]]. left. auto.
  - destruct (slot_ltb k k').
    + cbn [map fst In]. intros [H|[H|H]]; auto.
    + destruct (slot_eqb k k').
      * cbn [map fst In]. intros [H|H]; auto.
      * cbn [map fst In]. intros [H|H]; [auto|]. apply IH in H. destruct H; auto.
Qed.

Lemma cp_insert_wf k v p : cp_wf p -> cp_wf (cp_insert k v p).
Proof.
  unfold cp_wf. induction p as [|[k' v'] p IH]; cbn [cp_insert map fst]; intros Hwf.
  - constructor; constructor.
  - inversion Hwf as [|x l Hs Hall]. subst.
    destruct (slot_ltb k k') eqn:E1.
    + cbn [map fst]. constructor; [exact Hwf|]. constructor; [exact E1|].
      eapply Forall_impl; [|exact Hall]. intros a Ha. eapply slot_lt_trans; [exact E1|exact Ha].
    + destruct (slot_eqb k k') eqn:E2.
      * apply slot_eqb_eq in E2. subst. cbn [map fst]. constructor; assumption.
      * cbn [map fst]. constructor; [apply IH; exact Hs|].
        apply Forall_forall. intros x Hx. apply cp_insert_keys in Hx. destruct Hx as [Hx|Hx].
        -- subst. apply slot_trichotomy; assumption.
        -- rewrite Forall_forall in Hall. apply Hall. exact Hx.
Qed.

Lemma parse_row_wf row : forall toks col acc p,
  cp_wf acc -> parse_row row col toks acc = Some p -> cp_wf p.
Proof.
  induction toks as [|tok toks IH]; cbn [parse_row]; intros col acc p Hacc H.
  - inversion H. subst. exact Hacc.
  - destruct (read_instr tok) as [[i|]|]; [| |discriminate].
    + eapply IH; [|exact H]. apply cp_insert_wf. exact Hacc.
    + eapply IH; [|exact H]. exact Hacc.
Qed.

Lemma parse_rows_wf : forall rows row acc p,
  cp_wf acc -> parse_rows row rows acc = Some p -> cp_wf p.
Proof.
  induction rows as [|r rows IH]; cbn [parse_rows]; intros row acc p Hacc H.
  - inversion H. subst. exact Hacc.
  - destruct (parse_row row 0 (split1 r []) acc) as [acc'|] eqn:E; [|discriminate].
    eapply IH; [|exact H]. eapply parse_row_wf; [exact Hacc|exact E].
Qed.

(** everything the parser returns is a well-formed map *)
Lemma from_str_wf s p : from_str s = Some p -> cp_wf p.
Proof. unfold from_str. apply parse_rows_wf. constructor. Qed.

(** list entries of a program / graph edges *)
Definition entry (p : comp_prog) (a b : state) : Prop :=
  exists c pr sh, In ((a, c), (pr, sh, b)) p.

Lemma edge_entry p a b : edge (to_prog p) a b -> entry p a b.
Proof.
  intros [c [pr [sh H]]]. exists c, pr, sh. apply cp_get_In. exact H.
Qed.

Lemma entry_edge p a b : cp_wf p -> entry p a b -> edge (to_prog p) a b.
Proof.
  intros Hwf [c [pr [sh H]]]. exists c, pr, sh. unfold to_prog. apply In_cp_get; assumption.
Qed.

(* ------------------------------------------------------------------ *)
(** * 3. get_exitpoints *)

Lemma ins_sorted_In x l y : In y (ins_sorted x l) <-> y = x \/ In y l.
Proof.
  induction l as [|z l IH]; cbn [ins_sorted].
  - cbn [In]. intuition.
  - destruct (x <? z) eqn:E1; [cbn [In]; intuition|].
    destruct (x =? z) eqn:E2.
    + apply N.eqb_eq in E2. subst. cbn [In]. intuition.
    + cbn [In]. rewrite IH. intuition.
Qed.

Lemma ins_sorted_sorted x l : StronglySorted N.lt l -> StronglySorted N.lt (ins_sorted x l).
Proof.
  induction 1 as [|z l Hs IH Hall]; cbn [ins_sorted].
  - constructor; constructor.
  - destruct (N.ltb_spec x z) as [Hlt|Hge].
    + constructor; [constructor; assumption|]. constructor; [exact Hlt|].
      eapply Forall_impl; [|exact Hall]. intros a Ha. cbv beta in Ha. lia.
    + destruct (N.eqb_spec x z) as [Heq|Hne].
      * constructor; assumption.
      * constructor; [exact IH|]. apply Forall_forall. intros y Hy.
        apply ins_sorted_In in Hy. rewrite Forall_forall in Hall.
        destruct Hy as [Hy|Hy]; [lia|apply Hall; exact Hy].
Qed.

(** the exits recorded for state [k] ([] when [k] is not a key) *)
Definition exits (e : exitpoints) (k : state) : list state :=
  match ep_get e k with Some v => v | None => [] end.

Lemma ep_get_keys e k : In k (map fst e) <-> exists v, ep_get e k = Some v.
Proof.
  induction e as [|[k' v'] e IH]; cbn [map fst ep_get In].
  - split; [intros []|intros [v H]; discriminate].
  - destruct (N.eqb_spec k' k) as [Heq|Hne].
    + split; [intros _; eauto|intros _; left; exact Heq].
    + rewrite IH. split; [intros [H|H]; [contradiction|exact H]|intros H; right; exact H].
Qed.

Lemma ep_get_None e k : ~ In k (map fst e) -> ep_get e k = None.
Proof.
  intros H. destruct (ep_get e k) as [v|] eqn:E; [|reflexivity].
  exfalso. apply H. apply ep_get_keys. eauto.
Qed.

Lemma ep_add_keys s d e x :
  In x (map fst (ep_add s d e)) -> x = s \/ In x (map fst e).
Proof.
  induction e as [|[k v] e IH]; cbn [ep_add map fst In].
  - intros [H|[]]. left. auto.
  - destruct (s <? k).
    + cbn [map fst In]. intros [H|[H|H]]; auto.
    + destruct (N.eqb_spec s k) as [Heq|Hne].
      * cbn [map fst In]. intros [H|H]; auto.
      * cbn [map fst In]. intros [H|H]; [auto|]. apply IH in H. destruct H; auto.
Qed.

Lemma ep_add_keys_sorted s d e :
  StronglySorted N.lt (map fst e) -> StronglySorted N.lt (map fst (ep_add s d e)).
Proof.
  induction e as [|[k v] e IH]; cbn [ep_add map fst]; intros Hs.
  - constructor; constructor.
  - inversion Hs as [|x l Hs' Hall]. subst.
    destruct (N.ltb_spec s k) as [Hlt|Hge].
    + cbn [map fst]. constructor; [exact Hs|]. constructor; [exact Hlt|].
      eapply Forall_impl; [|exact Hall]. intros a Ha. cbv beta in Ha. lia.
    + destruct (N.eqb_spec s k) as [Heq|Hne].
      * cbn [map fst]. constructor; assumption.
      * cbn [map fst]. constructor; [apply IH; exact Hs'|].
        apply Forall_forall. intros x Hx. apply ep_add_keys in Hx. rewrite Forall_forall in Hall.
        destruct Hx as [Hx|Hx]; [lia|apply Hall; exact Hx].
Qed.

(** the map after [entry(src).or_default().push(dst)] + final sort/dedup *)
Lemma ep_add_get s d e k : StronglySorted N.lt (map fst e) ->
  ep_get (ep_add s d e) k =
  if k =? s then Some (ins_sorted d (exits e s)) else ep_get e k.
Proof.
  induction e as [|[k0 v] e IH]; cbn [ep_add map fst]; intros Hs.
  - cbn [ep_get]. unfold exits. cbn [ep_get ins_sorted]. rewrite (N.eqb_sym s k). reflexivity.
  - inversion Hs as [|x l Hs' Hall]. subst.
    destruct (N.ltb_spec s k0) as [Hlt|Hge].
    + cbn [ep_get]. rewrite (N.eqb_sym s k).
      destruct (N.eqb_spec k s) as [Heq|Hne]; [|reflexivity].
      unfold exits. rewrite ep_get_None; [reflexivity|].
      cbn [map fst In]. intros [H|H]; [lia|].
      rewrite Forall_forall in Hall. apply Hall in H. lia.
    + destruct (N.eqb_spec s k0) as [Heq|Hne].
      * subst k0. cbn [ep_get]. unfold exits. cbn [ep_get]. rewrite N.eqb_refl.
        destruct (N.eqb_spec s k) as [Heq|Hne].
        -- subst k. rewrite N.eqb_refl. reflexivity.
        -- destruct (N.eqb_spec k s) as [Heq'|_]; [subst; contradiction|reflexivity].
      * cbn [ep_get]. rewrite (IH Hs'). unfold exits. cbn [ep_get].
        destruct (N.eqb_spec k0 s) as [Heq|_]; [subst; contradiction|].
        destruct (N.eqb_spec k0 k) as [Heq|Hne']; [|reflexivity].
        subst k0. destruct (N.eqb_spec k s) as [Heq|_]; [subst; contradiction|reflexivity].
Qed.

Definition ep_inv (e : exitpoints) : Prop :=
  StronglySorted N.lt (map fst e) /\
  forall k v, ep_get e k = Some v -> StronglySorted N.lt v /\ v <> [].

Lemma ep_inv_exits_sorted e k : ep_inv e -> StronglySorted N.lt (exits e k).
Proof.
  intros [_ Hv]. unfold exits. destruct (ep_get e k) as [v|] eqn:E; [apply (Hv k v E)|constructor].
Qed.

Lemma ep_add_inv s d e : ep_inv e -> ep_inv (ep_add s d e).
Proof.
  intros Hinv. pose proof Hinv as [Hs Hv]. split; [apply ep_add_keys_sorted; exact Hs|].
  intros k v. rewrite (ep_add_get s d e k Hs).
  destruct (k =? s).
  - intros H. inversion H. subst. split.
    + apply ins_sorted_sorted. apply ep_inv_exits_sorted. exact Hinv.
    + intro Hnil. assert (Hin : In d (ins_sorted d (exits e s))) by (apply ins_sorted_In; left; reflexivity).
      rewrite Hnil in Hin. destruct Hin.
  - apply Hv.
Qed.

Lemma ep_add_exits s d e k y : ep_inv e ->
  In y (exits (ep_add s d e) k) <-> (k = s /\ y = d) \/ In y (exits e k).
Proof.
  intros [Hs _]. unfold exits at 1. rewrite (ep_add_get s d e k Hs).
  destruct (N.eqb_spec k s) as [Heq|Hne].
  - subst k. rewrite ins_sorted_In. intuition.
  - fold (exits e k). intuition.
Qed.

Definition ep_step (e : exitpoints) (kv : slot * instr) : exitpoints :=
  let '((src, _), (_, _, dst)) := kv in if src =? dst then e else ep_add src dst e.

Lemma get_exitpoints_fold p : get_exitpoints p = fold_left ep_step p [].
Proof. reflexivity. Qed.

Lemma ep_fold_spec : forall p e, ep_inv e ->
  ep_inv (fold_left ep_step p e) /\
  forall a b, In b (exits (fold_left ep_step p e) a) <->
              In b (exits e a) \/ (a <> b /\ entry p a b).
Proof.
  induction p as [|[[src c] [[pr sh] dst]] p IH]; intros e Hinv; cbn [fold_left].
  - split; [exact Hinv|]. intros a b. split; [auto|].
    intros [H|[_ [c [pr [sh []]]]]]. exact H.
  - assert (Hinv' : ep_inv (ep_step e ((src, c), (pr, sh, dst)))).
    { cbn [ep_step]. destruct (src =? dst); [exact Hinv|apply ep_add_inv; exact Hinv]. }
    destruct (IH _ Hinv') as [H1 H2]. split; [exact H1|].
    intros a b. rewrite H2. clear H1 H2 IH.
    assert (Hst : In b (exits (ep_step e ((src, c), (pr, sh, dst))) a) <->
                  In b (exits e a) \/ (a <> b /\ a = src /\ b = dst)).
    { cbn [ep_step]. destruct (N.eqb_spec src dst) as [Heq|Hne].
      - split; [auto|]. intros [H|[H1 [H2 H3]]]; [exact H|]. subst. contradiction.
      - rewrite (ep_add_exits src dst e a b Hinv). split.
        + intros [[H1 H2]|H]; [|auto]. subst. right. auto.
        + intros [H|[_ [H1 H2]]]; auto. }
    rewrite Hst. unfold entry. split.
    + intros [[H|[Hne [H1 H2]]]|[Hne [c' [pr' [sh' Hin]]]]].
      * left. exact H.
      * subst. right. split; [exact Hne|]. exists c, pr, sh. left. reflexivity.
      * right. split; [exact Hne|]. exists c', pr', sh'. right. exact Hin.
    + intros [H|[Hne [c' [pr' [sh' [Heq|Hin]]]]]].
      * left. left. exact H.
      * inversion Heq. subst. left. right. auto.
      * right. split; [exact Hne|]. exists c', pr', sh'. exact Hin.
Qed.

Lemma ep_inv_nil : ep_inv [].
Proof. split; [constructor|]. intros k v H. discriminate. Qed.

Lemma get_exitpoints_inv p : ep_inv (get_exitpoints p).
Proof. rewrite get_exitpoints_fold. apply ep_fold_spec. apply ep_inv_nil. Qed.

(** the exits recorded for [a] are exactly the targets b <> a of [a]'s instructions *)
Lemma get_exitpoints_exits p a b :
  In b (exits (get_exitpoints p) a) <-> a <> b /\ entry p a b.
Proof.
  rewrite get_exitpoints_fold. destruct (ep_fold_spec p [] ep_inv_nil) as [_ H].
  rewrite H. unfold exits at 1. cbn [ep_get]. split; [intros [[]|H']; exact H'|auto].
Qed.

Lemma exits_edge p a b : cp_wf p ->
  In b (exits (get_exitpoints p) a) -> a <> b /\ edge (to_prog p) a b.
Proof.
  intros Hwf H. apply get_exitpoints_exits in H. destruct H as [H1 H2].
  split; [exact H1|apply entry_edge; assumption].
Qed.

Lemma edge_exits p a b :
  edge (to_prog p) a b -> a <> b -> In b (exits (get_exitpoints p) a).
Proof.
  intros He Hne. apply get_exitpoints_exits. split; [exact Hne|apply edge_entry; exact He].
Qed.

(** a key of the map has a non-empty exit list *)
Lemma key_has_exit p a : In a (map fst (get_exitpoints p)) ->
  exists b, In b (exits (get_exitpoints p) a).
Proof.
  intros H. apply ep_get_keys in H. destruct H as [v Hv].
  destruct (get_exitpoints_inv p) as [_ Hvals]. destruct (Hvals a v Hv) as [_ Hne].
  unfold exits. rewrite Hv. destruct v as [|b v]; [contradiction|]. exists b. left. reflexivity.
Qed.

Lemma keys_NoDup p : NoDup (map fst (get_exitpoints p)).
Proof. apply sorted_NoDup. apply (get_exitpoints_inv p). Qed.

Section Bounded.
  Variables (p : comp_prog) (n : N).
  Hypothesis Hwf : cp_wf p.
  Hypothesis Hlt : states_lt n (to_prog p).
  Let E := get_exitpoints p.

  Lemma exits_lt a b : In b (exits E a) -> a < n /\ b < n.
  Proof.
    intros H. apply (exits_edge p a b Hwf) in H. destruct H as [_ [c [pr [sh H]]]].
    exact (Hlt _ _ _ _ _ H).
  Qed.

  Lemma keys_lt a : In a (map fst E) -> a < n.
  Proof. intros H. apply key_has_exit in H. destruct H as [b Hb]. apply (exits_lt a b Hb). Qed.

  (** enough keys => every state below n is a key *)
  Lemma keys_full : n <= N.of_nat (length E) -> forall s, s < n -> In s (map fst E).
  Proof.
    intros Hlen. apply pigeon_full; [apply keys_NoDup|exact keys_lt|].
    rewrite map_length. exact Hlen.
  Qed.

  (** too few keys => some state below n has no exit *)
  Lemma keys_missing : N.of_nat (length E) < n -> exists s, s < n /\ no_exit (to_prog p) s.
  Proof.
    intros Hlen.
    destruct (pigeon_missing (map fst E) n (keys_NoDup p) keys_lt) as [s [Hs Hnin]].
    { rewrite map_length. exact Hlen. }
    exists s. split; [exact Hs|]. intros b He.
    destruct (N.eq_dec b s) as [Heq|Hne]; [exact Heq|]. exfalso. apply Hnin.
    apply ep_get_keys. assert (Hin : In b (exits E s)) by (apply edge_exits; [exact He|auto]).
    unfold exits in Hin. destruct (ep_get E s) as [v|]; [eauto|destruct Hin].
  Qed.
End Bounded.

(* ------------------------------------------------------------------ *)
(** * 4. the DFS loop *)

(** the inner [for &exit in &exitpoints[&state]] loop of graph.rs:33-37 *)
Definition push_exits (R : list state) (xs T : list state) : list state :=
  fold_left (fun td ex => if negb (memN ex R) && negb (memN ex td) then ex :: td else td) xs T.

Lemma push_cons R x xs T :
  push_exits R (x :: xs) T =
  push_exits R xs (if negb (memN x R) && negb (memN x T) then x :: T else T).
Proof. reflexivity. Qed.

Lemma push_In R : forall xs T y,
  In y (push_exits R xs T) <-> In y T \/ (In y xs /\ ~ In y R).
Proof.
  induction xs as [|x xs IH]; intros T y.
  - unfold push_exits. cbn [fold_left In]. intuition.
  - rewrite push_cons, IH. destruct (memN x R) eqn:ER; cbn [negb andb].
    + apply memN_In in ER. cbn [In]. split.
      * intros [H|[H1 H2]]; auto.
      * intros [H|[[H1|H1] H2]]; auto. subst. contradiction.
    + apply memN_false in ER. destruct (memN x T) eqn:ET; cbn [negb].
      * apply memN_In in ET. cbn [In]. split.
        -- intros [H|[H1 H2]]; auto.
        -- intros [H|[[H1|H1] H2]]; auto. subst. auto.
      * cbn [In]. split.
        -- intros [[H|H]|[H1 H2]]; auto. subst. auto.
        -- intros [H|[[H1|H1] H2]]; auto.
Qed.

Lemma push_NoDup R : forall xs T, NoDup T -> NoDup (push_exits R xs T).
Proof.
  induction xs as [|x xs IH]; intros T HT; [exact HT|].
  rewrite push_cons. apply IH. destruct (memN x R); cbn [negb andb]; [exact HT|].
  destruct (memN x T) eqn:ET; cbn [negb]; [exact HT|].
  constructor; [apply memN_false; exact ET|exact HT].
Qed.

Lemma conn_loop_step f e R st T :
  conn_loop (S f) e R (st :: T) =
  if st =? 0 then Ok true
  else if memN st R then conn_loop f e R T
  else match ep_get e st with
       | None => Panic
       | Some xs => conn_loop f e (st :: R) (push_exits (st :: R) xs T)
       end.
Proof. reflexivity. Qed.

Section DFS.
  Variables (E : exitpoints) (n : N) (init : list state).
  Hypothesis Hn : 1 <= n.
  Hypothesis Hexits_lt : forall a b, In b (exits E a) -> b < n.

  (** "true" only ever comes from popping state 0, and everything on the
      stack is reachable (P = any property closed under exits) *)
  Lemma conn_loop_true (P : state -> Prop) :
    (forall x y, P x -> In y (exits E x) -> P y) ->
    forall f R T, (forall x, In x T -> P x) -> conn_loop f E R T = Ok true -> P 0.
  Proof.
    intros Hclosed. induction f as [|f IH]; intros R T HT; [cbn [conn_loop]; discriminate|].
    destruct T as [|st T]; [cbn [conn_loop]; discriminate|].
    rewrite conn_loop_step. destruct (N.eqb_spec st 0) as [H0|H0].
    - intros _. subst. apply HT. left. reflexivity.
    - destruct (memN st R).
      + apply IH. intros x Hx. apply HT. right. exact Hx.
      + destruct (ep_get E st) as [xs|] eqn:Eg; [|discriminate].
        apply IH. intros x Hx. apply push_In in Hx. destruct Hx as [Hx|[Hx _]].
        * apply HT. right. exact Hx.
        * apply (Hclosed st x); [apply HT; left; reflexivity|]. unfold exits. rewrite Eg. exact Hx.
  Qed.

  (** no index panic as long as every state below n is a key *)
  Lemma conn_loop_no_panic :
    (forall s, s < n -> ep_get E s <> None) ->
    forall f R T, (forall x, In x T -> x < n) -> conn_loop f E R T <> Panic.
  Proof.
    intros Hkeys. induction f as [|f IH]; intros R T HT; [cbn [conn_loop]; discriminate|].
    destruct T as [|st T]; [cbn [conn_loop]; discriminate|].
    rewrite conn_loop_step. destruct (st =? 0); [discriminate|].
    destruct (memN st R).
    - apply IH. intros x Hx. apply HT. right. exact Hx.
    - destruct (ep_get E st) as [xs|] eqn:Eg.
      + apply IH. intros x Hx. apply push_In in Hx. destruct Hx as [Hx|[Hx _]].
        * apply HT. right. exact Hx.
        * apply (Hexits_lt st x). unfold exits. rewrite Eg. exact Hx.
      + exfalso. apply (Hkeys st); [apply HT; left; reflexivity|exact Eg].
  Qed.

  (** The loop invariant.  R = reached, T = todo (stack), f = iterations left.
      Every iteration that does not return marks a NEW state (the [continue]
      branch is dead: a state on the stack is never already reached), states
      that can be marked are 1..n-1, so [length R + f = n] can never hit
      f = 0: the iteration bound is never what ends the search. *)
  Definition dfs_inv (f : nat) (R T : list state) : Prop :=
    NoDup T /\ NoDup R /\ (forall x, In x T -> ~ In x R) /\
    (forall x, In x R -> x <> 0 /\ x < n) /\ (forall x, In x T -> x < n) /\
    (length R + f = N.to_nat n)%nat /\
    (forall x y, In x R -> In y (exits E x) -> In y R \/ In y T) /\
    (forall y, In y init -> In y R \/ In y T).

  (** a set closed under exits that contains the start's exits but not 0 *)
  Definition closed_wo_0 (R : list state) : Prop :=
    (forall x, In x R -> x <> 0) /\
    (forall x y, In x R -> In y (exits E x) -> In y R) /\
    (forall y, In y init -> In y R).

  Lemma dfs_inv_fuel f R T : dfs_inv f R T -> (0 < f)%nat.
  Proof.
    intros [_ [HR [_ [HRlt [_ [Hlen _]]]]]].
    assert (H : N.of_nat (length (0 :: R)) <= n).
    { apply pigeon_le.
      - constructor; [|exact HR]. intro Hin. apply HRlt in Hin. destruct Hin as [Hin _]. apply Hin. reflexivity.
      - intros x [Hx|Hx]; [subst; lia|apply HRlt; exact Hx]. }
    cbn [length] in H. unfold state in *. lia.
  Qed.

  (** one iteration that neither returns nor panics: the popped state is
      NOT already reached (the [continue] of graph.rs:27 is dead code under
      the invariant) and the invariant is re-established with one more
      reached state and one iteration less *)
  Lemma dfs_inv_step f R st T :
    dfs_inv (S f) R (st :: T) -> st <> 0 ->
    memN st R = false /\
    forall xs, ep_get E st = Some xs -> dfs_inv f (st :: R) (push_exits (st :: R) xs T).
  Proof.
    intros Hinv H0.
    destruct Hinv as [HT [HR [Hdisj [HRlt [HTlt [Hlen [Hcl Hin]]]]]]].
    assert (HstR : ~ In st R) by (apply Hdisj; left; reflexivity).
    split; [apply memN_false; exact HstR|]. intros xs Eg.
    inversion HT as [|x l HstT HT']. subst.
    unfold dfs_inv. repeat split.
    * apply push_NoDup. exact HT'.
    * constructor; assumption.
    * intros x Hx. apply push_In in Hx. destruct Hx as [Hx|[_ Hx]]; [|exact Hx].
      intros [Heq|HxR]; [subst; contradiction|]. apply (Hdisj x); [right; exact Hx|exact HxR].
    * destruct H as [Heq|HxR]; [subst; exact H0|apply HRlt; exact HxR].
    * destruct H as [Heq|HxR]; [subst; apply HTlt; left; reflexivity|apply HRlt; exact HxR].
    * intros x Hx. apply push_In in Hx. destruct Hx as [Hx|[Hx _]].
      -- apply HTlt. right. exact Hx.
      -- apply (Hexits_lt st x). unfold exits. rewrite Eg. exact Hx.
    * cbn [length]. lia.
    * intros x y Hx Hy. destruct (In_N_dec y (st :: R)) as [HyR|HyR]; [left; exact HyR|].
      right. apply push_In. destruct Hx as [Heq|HxR].
      -- subst x. right. split; [|exact HyR]. unfold exits in Hy. rewrite Eg in Hy. exact Hy.
      -- destruct (Hcl x y HxR Hy) as [H|[H|H]].
         ++ exfalso. apply HyR. right. exact H.
         ++ exfalso. apply HyR. left. exact H.
         ++ left. exact H.
    * intros y Hy. destruct (In_N_dec y (st :: R)) as [HyR|HyR]; [left; exact HyR|].
      right. apply push_In. destruct (Hin y Hy) as [H|[H|H]].
      -- exfalso. apply HyR. right. exact H.
      -- exfalso. apply HyR. left. exact H.
      -- left. exact H.
  Qed.

  (** a "false" under the invariant always comes from the EMPTY STACK exit,
      with a reached set closed under exits that avoids state 0 *)
  Lemma dfs_complete : forall f R T,
    dfs_inv f R T -> conn_loop f E R T = Ok false -> exists R', closed_wo_0 R'.
  Proof.
    induction f as [|f IH]; intros R T Hinv Hres.
    - apply dfs_inv_fuel in Hinv. lia.
    - destruct T as [|st T].
      + (* stack empty: R itself is closed *)
        destruct Hinv as [_ [_ [_ [HRlt [_ [_ [Hcl Hin]]]]]]].
        exists R. split; [intros x Hx; apply HRlt; exact Hx|]. split.
        * intros x y Hx Hy. destruct (Hcl x y Hx Hy) as [H|[]]. exact H.
        * intros y Hy. destruct (Hin y Hy) as [H|[]]. exact H.
      + rewrite conn_loop_step in Hres.
        destruct (N.eqb_spec st 0) as [H0|H0]; [discriminate|].
        destruct (dfs_inv_step f R st T Hinv H0) as [Hmem Hstep].
        rewrite Hmem in Hres.
        destruct (ep_get E st) as [xs|] eqn:Eg; [|discriminate].
        apply (IH (st :: R) (push_exits (st :: R) xs T)); [apply Hstep; reflexivity|exact Hres].
  Qed.

  (** the iteration bound is irrelevant: under the invariant, ANY number of
      extra iterations gives the same answer (true, false or panic) *)
  Lemma dfs_bound_irrelevant : forall f R T,
    dfs_inv f R T -> forall k, conn_loop (f + k) E R T = conn_loop f E R T.
  Proof.
    induction f as [|f IH]; intros R T Hinv k.
    - apply dfs_inv_fuel in Hinv. lia.
    - cbn [Nat.add]. destruct T as [|st T]; [reflexivity|].
      rewrite !conn_loop_step.
      destruct (N.eqb_spec st 0) as [H0|H0]; [reflexivity|].
      destruct (dfs_inv_step f R st T Hinv H0) as [Hmem Hstep].
      rewrite Hmem.
      destruct (ep_get E st) as [xs|] eqn:Eg; [|reflexivity].
      apply IH. apply Hstep. reflexivity.
  Qed.
End DFS.

(* ------------------------------------------------------------------ *)
(** * 5. graph lemmas *)

Lemma reach_one P a b : edge P a b -> reach P a b.
Proof. intros H. eapply reach_step; [exact H|apply reach_refl]. Qed.

Lemma reach_trans P a b c : reach P a b -> reach P b c -> reach P a c.
Proof.
  induction 1 as [a|a b' c' He Hr IH]; intros H; [exact H|].
  eapply reach_step; [exact He|apply IH; exact H].
Qed.

(** a set closed under edges is closed under reach *)
Lemma reach_closed P (Q : state -> Prop) :
  (forall x y, Q x -> edge P x y -> Q y) -> forall a b, reach P a b -> Q a -> Q b.
Proof.
  intros Hcl a b H. induction H as [a|a b c He Hr IH]; intros Ha; [exact Ha|].
  apply IH. apply (Hcl a b); assumption.
Qed.

Lemma no_exit_reach P s t : no_exit P s -> reach P s t -> t = s.
Proof.
  intros Hne Hr. apply (reach_closed P (fun x => x = s)) with (a := s); [|exact Hr|reflexivity].
  intros x y Hx He. subst x. apply Hne. exact He.
Qed.

Lemma has_exit_not_no_exit P s : has_exit P s -> ~ no_exit P s.
Proof. intros [b [Hne He]] H. apply Hne. apply H. exact He. Qed.

(** generic closure, to transport decidability from edge lists *)
Inductive rtc (R : N -> N -> Prop) : N -> N -> Prop :=
| rtc_refl : forall a, rtc R a a
| rtc_step : forall a b c, R a b -> rtc R b c -> rtc R a c.

Lemma rtc_trans R a b c : rtc R a b -> rtc R b c -> rtc R a c.
Proof.
  induction 1 as [a|a b' c' He Hr IH]; intros H; [exact H|].
  eapply rtc_step; [exact He|apply IH; exact H].
Qed.

Lemma rtc_mono (R R' : N -> N -> Prop) : (forall a b, R a b -> R' a b) ->
  forall a b, rtc R a b -> rtc R' a b.
Proof.
  intros Hsub a b H. induction H as [a|a b c He Hr IH]; [apply rtc_refl|].
  eapply rtc_step; [apply Hsub; exact He|exact IH].
Qed.

Lemma reach_rtc P a b : reach P a b <-> rtc (edge P) a b.
Proof.
  split; intros H.
  - induction H as [a|a b c He Hr IH]; [apply rtc_refl|eapply rtc_step; eassumption].
  - induction H as [a|a b c He Hr IH]; [apply reach_refl|eapply reach_step; eassumption].
Qed.

Definition inL (L : list (N * N)) (a b : N) : Prop := In (a, b) L.

(** paths over (u,v)::L either avoid (u,v) or split at a use of it *)
Lemma rtc_cons_split u v L a b :
  rtc (inL ((u, v) :: L)) a b <->
  rtc (inL L) a b \/ (rtc (inL L) a u /\ rtc (inL L) v b).
Proof.
  split.
  - intros H. induction H as [a|a a' b He Hr IH]; [left; apply rtc_refl|].
    destruct He as [Heq|HinL].
    + inversion Heq. subst. right. split; [apply rtc_refl|].
      destruct IH as [IH|[_ IH]]; exact IH.
    + destruct IH as [IH|[IH1 IH2]].
      * left. eapply rtc_step; [exact HinL|exact IH].
      * right. split; [eapply rtc_step; [exact HinL|exact IH1]|exact IH2].
  - assert (Hm : forall x y, rtc (inL L) x y -> rtc (inL ((u, v) :: L)) x y).
    { apply rtc_mono. intros x y H. right. exact H. }
    intros [H|[H1 H2]]; [apply Hm; exact H|].
    eapply rtc_trans; [apply Hm; exact H1|].
    eapply rtc_step; [left; reflexivity|apply Hm; exact H2].
Qed.

Lemma rtc_list_dec : forall L a b, rtc (inL L) a b \/ ~ rtc (inL L) a b.
Proof.
  induction L as [|[u v] L IH]; intros a b.
  - destruct (N.eq_dec a b) as [Heq|Hne]; [subst; left; apply rtc_refl|].
    right. intros H. inversion H as [|x y z He Hr]; subst; [contradiction|destruct He].
  - destruct (IH a b) as [H|H]; [left; apply rtc_cons_split; left; exact H|].
    destruct (IH a u) as [H1|H1].
    + destruct (IH v b) as [H2|H2].
      * left. apply rtc_cons_split. right. split; assumption.
      * right. intros Hr. apply rtc_cons_split in Hr. destruct Hr as [Hr|[_ Hr]]; contradiction.
    + right. intros Hr. apply rtc_cons_split in Hr. destruct Hr as [Hr|[Hr _]]; contradiction.
Qed.

Definition edge_list (p : comp_prog) : list (N * N) :=
  map (fun kv : slot * instr => (fst (fst kv), snd (snd kv))) p.

Lemma edge_list_entry p a b : inL (edge_list p) a b <-> entry p a b.
Proof.
  unfold inL, edge_list, entry. rewrite in_map_iff. split.
  - intros [[[a' c] [[pr sh] b']] [Heq Hin]]. cbn [fst snd] in Heq. inversion Heq. subst.
    exists c, pr, sh. exact Hin.
  - intros [c [pr [sh Hin]]]. exists ((a, c), (pr, sh, b)). split; [reflexivity|exact Hin].
Qed.

(** reachability in the graph of a (well-formed) program is decidable *)
Lemma reach_dec p a b : cp_wf p -> reach (to_prog p) a b \/ ~ reach (to_prog p) a b.
Proof.
  intros Hwf.
  assert (Heq : reach (to_prog p) a b <-> rtc (inL (edge_list p)) a b).
  { rewrite reach_rtc. split; apply rtc_mono; intros x y H.
    - apply edge_list_entry. apply edge_entry. exact H.
    - apply entry_edge; [exact Hwf|]. apply edge_list_entry. exact H. }
  destruct (rtc_list_dec (edge_list p) a b) as [H|H]; [left|right]; rewrite Heq; exact H.
Qed.

(* ------------------------------------------------------------------ *)
(** * 6. is_connected *)

(** unfolding of the top-level function into its four exits *)
Lemma is_connected_cases p n :
  (N.of_nat (length (get_exitpoints p)) < n /\ is_connected p n = Ok false) \/
  (n <= N.of_nat (length (get_exitpoints p)) /\
   ((n = 0 /\ is_connected p n = Panic) \/
    (n <> 0 /\ ep_get (get_exitpoints p) (n - 1) = None /\ is_connected p n = Panic) \/
    (n <> 0 /\ exists init, ep_get (get_exitpoints p) (n - 1) = Some init /\
       is_connected p n = conn_loop (N.to_nat n) (get_exitpoints p) [] (rev init)))).
Proof.
  unfold is_connected.
  destruct (N.ltb_spec (N.of_nat (length (get_exitpoints p))) n) as [Hlt|Hge]; [left; auto|].
  right. split; [exact Hge|].
  destruct (N.eqb_spec n 0) as [H0|H0]; [left; auto|]. right.
  destruct (ep_get (get_exitpoints p) (n - 1)) as [init|] eqn:Eg; [right|left]; eauto.
Qed.

Section Main.
  Variables (p : comp_prog) (n : N).
  Hypothesis Hwf : cp_wf p.
  Hypothesis Hn : 1 <= n.
  Hypothesis Hlt : states_lt n (to_prog p).
  Notation E := (get_exitpoints p).
  Notation P := (to_prog p).

  Lemma all_keys : n <= N.of_nat (length E) -> forall s, s < n -> ep_get E s <> None.
  Proof.
    intros Hlen s Hs. pose proof (keys_full p n Hwf Hlt Hlen s Hs) as Hin.
    apply ep_get_keys in Hin. destruct Hin as [v Hv]. rewrite Hv. discriminate.
  Qed.

  (** C14_no_panic *)
  Theorem is_connected_no_panic : is_connected p n <> Panic.
  Proof.
    destruct (is_connected_cases p n) as [[_ H]|[Hlen [[H0 _]|[[_ [Hnone _]]|[_ [init [Hinit H]]]]]]].
    - rewrite H. discriminate.
    - lia.
    - exfalso. apply (all_keys Hlen (n - 1)); [lia|exact Hnone].
    - rewrite H. apply (conn_loop_no_panic E n).
      + intros a b Hb. apply (exits_lt p n Hwf Hlt a b Hb).
      + apply all_keys. exact Hlen.
      + intros x Hx. apply in_rev in Hx. apply (exits_lt p n Hwf Hlt (n - 1) x).
        unfold exits. rewrite Hinit. exact Hx.
  Qed.

  (** "false" has exactly two causes *)
  Theorem is_connected_false_precise :
    is_connected p n = Ok false ->
    (exists s, s < n /\ no_exit P s) \/ ~ reach P (n - 1) 0.
  Proof.
    intros Hres.
    destruct (is_connected_cases p n) as [[Hlen _]|[Hlen [[H0 _]|[[_ [_ H]]|[_ [init [Hinit H]]]]]]].
    - left. apply (keys_missing p n Hwf Hlt Hlen).
    - lia.
    - rewrite H in Hres. discriminate.
    - rewrite H in Hres.
      assert (Hn1 : n - 1 <> 0).
      { (* n = 1 cannot have a key: its exit would be a state b <> 0 below 1 *)
        intro Hz. assert (Hin : In 0 (exits E (n - 1))).
        { assert (Hk : In (n - 1) (map fst E)) by (apply ep_get_keys; eauto).
          apply key_has_exit in Hk. destruct Hk as [b Hb].
          pose proof (exits_lt p n Hwf Hlt _ _ Hb) as [_ Hb'].
          pose proof (exits_edge p _ _ Hwf Hb) as [Hne _]. lia. }
        apply (exits_edge p _ _ Hwf) in Hin. destruct Hin as [Hne _]. lia. }
      destruct (dfs_complete E n (rev init) Hn
                  (fun a b Hb => proj2 (exits_lt p n Hwf Hlt a b Hb))
                  (N.to_nat n) [] (rev init)) as [R [HR0 [HRcl HRin]]]; [|exact Hres|].
      { unfold dfs_inv. repeat split.
        - apply NoDup_rev. apply sorted_NoDup.
          destruct (get_exitpoints_inv p) as [_ Hv]. apply (Hv (n - 1) init Hinit).
        - constructor.
        - intros x _ [].
        - destruct H0.
        - destruct H0.
        - intros x Hx. apply in_rev in Hx. apply (exits_lt p n Hwf Hlt (n - 1) x).
          unfold exits. rewrite Hinit. exact Hx.
        - intros x y [].
        - intros y Hy. right. exact Hy. }
      right. intros Hreach.
      assert (HQ : 0 = n - 1 \/ In 0 R).
      { apply (reach_closed P (fun x => x = n - 1 \/ In x R)) with (a := n - 1);
          [|exact Hreach|left; reflexivity].
        intros x y Hx He. destruct (N.eq_dec x y) as [Heq|Hne]; [subst; exact Hx|].
        right. pose proof (edge_exits p x y He Hne) as Hy.
        destruct Hx as [Hx|Hx].
        - subst x. apply HRin. apply in_rev. rewrite rev_involutive.
          unfold exits in Hy. rewrite Hinit in Hy. exact Hy.
        - apply (HRcl x y Hx Hy). }
      destruct HQ as [HQ|HQ]; [symmetry in HQ; contradiction|]. apply (HR0 0 HQ). reflexivity.
  Qed.

  (** C14_false_sound *)
  Theorem is_connected_false :
    is_connected p n = Ok false ->
    exists s, s < n /\ (no_exit P s \/ ~ reach P s 0).
  Proof.
    intros Hres. destruct (is_connected_false_precise Hres) as [[s [Hs Hne]]|Hnr].
    - exists s. auto.
    - exists (n - 1). split; [lia|]. right. exact Hnr.
  Qed.

  (** C14_true_reach *)
  Theorem is_connected_true :
    is_connected p n = Ok true ->
    reach P (n - 1) 0 /\ forall s, s < n -> has_exit P s.
  Proof.
    intros Hres.
    destruct (is_connected_cases p n) as [[_ H]|[Hlen [[_ H]|[[_ [_ H]]|[_ [init [Hinit H]]]]]]];
      try (rewrite H in Hres; discriminate).
    rewrite H in Hres. split.
    - apply (conn_loop_true E (fun x => reach P (n - 1) x)) in Hres; [exact Hres| |].
      + intros x y Hx Hy. eapply reach_trans; [exact Hx|]. apply reach_one.
        apply (exits_edge p x y Hwf Hy).
      + intros x Hx. apply in_rev in Hx. apply reach_one. apply (exits_edge p (n - 1) x Hwf).
        unfold exits. rewrite Hinit. exact Hx.
    - intros s Hs. pose proof (keys_full p n Hwf Hlt Hlen s Hs) as Hk.
      apply key_has_exit in Hk. destruct Hk as [b Hb].
      apply (exits_edge p s b Hwf) in Hb. destruct Hb as [Hne He].
      exists b. split; [auto|exact He].
  Qed.
End Main.

(** C14_exact: on in-range inputs the answer is true exactly when every
    state has an exit and the last state can get back to state 0 *)
Theorem is_connected_exact p n :
  cp_wf p -> 1 <= n -> states_lt n (to_prog p) ->
  (is_connected p n = Ok true <->
   (forall s, s < n -> has_exit (to_prog p) s) /\ reach (to_prog p) (n - 1) 0).
Proof.
  intros Hwf Hn Hlt. split.
  - intros Hres. destruct (is_connected_true p n Hwf Hlt Hres) as [H1 H2]. split; assumption.
  - intros [Hex Hr]. destruct (is_connected p n) as [|[|]] eqn:Hres; [|reflexivity|].
    + exfalso. apply (is_connected_no_panic p n Hwf Hn Hlt). exact Hres.
    + exfalso. destruct (is_connected_false_precise p n Hwf Hn Hlt Hres) as [[s [Hs Hne]]|Hnr].
      * apply (has_exit_not_no_exit _ s (Hex s Hs) Hne).
      * apply Hnr. exact Hr.
Qed.

(** [is_connected] with the iteration bound as a separate argument *)
Definition is_connected_fuel (p : comp_prog) (states : N) (fuel : nat) : outcome bool :=
  let e := get_exitpoints p in
  if N.of_nat (length e) <? states then Ok false else
  if states =? 0 then Panic else
  match ep_get e (states - 1) with
  | None => Panic
  | Some init => conn_loop fuel e [] (rev init)
  end.

Lemma is_connected_fuel_eq p n : is_connected p n = is_connected_fuel p n (N.to_nat n).
Proof. reflexivity. Qed.

(** C14_bound_never_cuts: the [for _ in 0..states] bound never decides *)
Theorem bound_never_cuts p n : cp_wf p -> 1 <= n -> states_lt n (to_prog p) ->
  forall k, is_connected_fuel p n (N.to_nat n + k) = is_connected p n.
Proof.
  intros Hwf Hn Hlt k. rewrite is_connected_fuel_eq. unfold is_connected_fuel.
  destruct (N.of_nat (length (get_exitpoints p)) <? n); [reflexivity|].
  destruct (n =? 0); [reflexivity|].
  destruct (ep_get (get_exitpoints p) (n - 1)) as [init|] eqn:Hinit; [|reflexivity].
  apply (dfs_bound_irrelevant (get_exitpoints p) n (rev init) Hn
           (fun a b Hb => proj2 (exits_lt p n Hwf Hlt a b Hb))).
  unfold dfs_inv. repeat split.
  - apply NoDup_rev. apply sorted_NoDup.
    destruct (get_exitpoints_inv p) as [_ Hv]. apply (Hv (n - 1) init Hinit).
  - constructor.
  - intros x _ [].
  - destruct H.
  - destruct H.
  - intros x Hx. apply in_rev in Hx. apply (exits_lt p n Hwf Hlt (n - 1) x).
    unfold exits. rewrite Hinit. exact Hx.
  - intros x y [].
  - intros y Hy. right. exact Hy.
Qed.

(** the reach half of "true" needs neither [states_lt] nor [1 <= n] *)
Theorem is_connected_true_reach p n : cp_wf p ->
  is_connected p n = Ok true -> reach (to_prog p) (n - 1) 0.
Proof.
  intros Hwf Hres.
  destruct (is_connected_cases p n) as [[_ H]|[Hlen [[_ H]|[[_ [_ H]]|[_ [init [Hinit H]]]]]]];
    try (rewrite H in Hres; discriminate).
  rewrite H in Hres.
  apply (conn_loop_true (get_exitpoints p) (fun x => reach (to_prog p) (n - 1) x)) in Hres; [exact Hres| |].
  - intros x y Hx Hy. eapply reach_trans; [exact Hx|]. apply reach_one.
    apply (exits_edge p x y Hwf Hy).
  - intros x Hx. apply in_rev in Hx. apply reach_one. apply (exits_edge p (n - 1) x Hwf).
    unfold exits. rewrite Hinit. exact Hx.
Qed.

(** C14_false_not_sc *)
Theorem is_connected_false_not_sc p n :
  cp_wf p -> 2 <= n -> states_lt n (to_prog p) ->
  is_connected p n = Ok false -> ~ strongly_connected (to_prog p) n.
Proof.
  intros Hwf Hn Hlt Hres Hsc.
  destruct (is_connected_false p n Hwf ltac:(lia) Hlt Hres) as [s [Hs [Hne|Hnr]]].
  - (* s cannot reach any other state *)
    destruct (N.eq_dec s 0) as [H0|H0].
    + assert (H : 1 = s) by (apply (no_exit_reach _ s 1 Hne); apply Hsc; lia). lia.
    + assert (H : 0 = s) by (apply (no_exit_reach _ s 0 Hne); apply Hsc; lia). lia.
  - apply Hnr. apply Hsc; lia.
Qed.

(** the filter never discards a strongly connected program *)
Theorem sc_is_connected p n :
  cp_wf p -> 2 <= n -> states_lt n (to_prog p) ->
  strongly_connected (to_prog p) n -> is_connected p n = Ok true.
Proof.
  intros Hwf Hn Hlt Hsc.
  destruct (is_connected p n) as [|[|]] eqn:Hres; [| reflexivity |].
  - exfalso. apply (is_connected_no_panic p n Hwf ltac:(lia) Hlt). exact Hres.
  - exfalso. apply (is_connected_false_not_sc p n Hwf Hn Hlt Hres Hsc).
Qed.

(** "true" + the graph-level consequence of the first-visit order
    => strongly connected *)
Theorem true_sc_given_order p n :
  cp_wf p -> is_connected p n = Ok true ->
  (forall s, s < n -> reach (to_prog p) 0 s) ->
  (forall X, X < n -> ~ reach (to_prog p) X 0 -> reach (to_prog p) X (n - 1)) ->
  strongly_connected (to_prog p) n.
Proof.
  intros Hwf Hres H0 Hord a b Ha Hb.
  pose proof (is_connected_true_reach p n Hwf Hres) as Hback.
  assert (Ha0 : reach (to_prog p) a 0).
  { destruct (reach_dec p a 0 Hwf) as [H|H]; [exact H|].
    eapply reach_trans; [apply (Hord a Ha H)|exact Hback]. }
  eapply reach_trans; [exact Ha0|apply H0; exact Hb].
Qed.

(* ------------------------------------------------------------------ *)
(** * 7. the run is a walk in the graph; TNF *)

Lemma tm_steps_add P : forall a b c,
  tm_steps P (a + b) c = match tm_steps P a c with Some c' => tm_steps P b c' | None => None end.
Proof.
  induction a as [|a IH]; intros b c; cbn [Nat.add tm_steps]; [reflexivity|].
  destruct (tm_step P c) as [c'|]; [apply IH|reflexivity].
Qed.

Lemma run_reach P : forall k c c', tm_steps P k c = Some c' -> reach P (fst c) (fst c').
Proof.
  induction k as [|k IH]; intros c c'; cbn [tm_steps].
  - intros H. inversion H. apply reach_refl.
  - destruct (tm_step P c) as [c1|] eqn:Es; [|discriminate]. intros H.
    eapply reach_step; [|apply (IH c1 c' H)].
    destruct c as [q t]. unfold tm_step in Es.
    destruct (P (q, zc t)) as [[[pr sh] q']|] eqn:Ep; [|discriminate].
    inversion Es. subst. cbn [fst]. exists (zc t), pr, sh. exact Ep.
Qed.

(** the run between two visits is a path from the earlier to the later state *)
Lemma visits_reach P t t' a b :
  visits P t a -> visits P t' b -> (t <= t')%nat -> reach P a b.
Proof.
  intros [tp Ha] [tp' Hb] Hle.
  replace t' with (t + (t' - t))%nat in Hb by lia.
  rewrite tm_steps_add, Ha in Hb. apply run_reach in Hb. exact Hb.
Qed.

Lemma visits_0 P : visits P 0 0.
Proof. exists blank_tape. reflexivity. Qed.

(** C14_tnf_iff.  ⇐ holds for all programs; ⇒ is the first-visit-order
    argument: "true" makes every state below n own an instruction, so (slots
    used) the run enters every state; it enters n-1 last, so the stretch of
    the run from the first visit of X to the first visit of n-1 is a path
    X ->* n-1, and the DFS found n-1 ->* 0. *)
Theorem tnf_iff p n : cp_wf p -> TNF (to_prog p) n ->
  (is_connected p n = Ok true <-> strongly_connected (to_prog p) n).
Proof.
  intros Hwf [Hn [Hlt [Hused Hord]]]. split; [|apply sc_is_connected; assumption].
  intros Hres.
  destruct (is_connected_true p n Hwf Hlt Hres) as [Hback Hexit].
  assert (Hvis : forall s, s < n -> exists t, visits (to_prog p) t s).
  { intros s Hs. destruct (Hexit s Hs) as [b [_ [c [pr [sh Hi]]]]].
    destruct (Hused _ _ _ Hi) as [t [tp [Ht _]]]. exists t, tp. exact Ht. }
  assert (H0 : forall s, s < n -> reach (to_prog p) 0 s).
  { intros s Hs. destruct (Hvis s Hs) as [t Ht].
    apply (visits_reach _ 0 t 0 s (visits_0 _) Ht). lia. }
  assert (Hlast : forall X, X < n -> reach (to_prog p) X (n - 1)).
  { intros X HX. destruct (N.eq_dec X (n - 1)) as [Heq|Hne]; [subst; apply reach_refl|].
    destruct (Hvis (n - 1)) as [t' Ht']; [lia|].
    destruct (Hord t' (n - 1) X Ht') as [t [Hle Ht]]; [lia|].
    apply (visits_reach _ t t' X (n - 1) Ht Ht' Hle). }
  intros a b Ha Hb.
  eapply reach_trans; [apply Hlast; exact Ha|].
  eapply reach_trans; [exact Hback|apply H0; exact Hb].
Qed.

(** every visited state is below n *)
Lemma visits_lt P n t s : 1 <= n -> states_lt n P -> visits P t s -> s < n.
Proof.
  intros Hn Hlt Hv. destruct t as [|t].
  - destruct Hv as [tp H]. cbn [tm_steps] in H. inversion H. lia.
  - destruct Hv as [tp H]. replace (S t) with (t + 1)%nat in H by lia.
    rewrite tm_steps_add in H. destruct (tm_steps P t init_config) as [[q tq]|]; [|discriminate].
    cbn [tm_steps] in H. unfold tm_step in H.
    destruct (P (q, zc tq)) as [[[pr sh] q']|] eqn:Ep; [|discriminate].
    inversion H. subst. apply (Hlt _ _ _ _ _ Ep).
Qed.

(* ------------------------------------------------------------------ *)
(** * sanity: the Rust unit tests of graph.rs, on the model *)

Definition tbl (rows : list (list (option instr))) : comp_prog :=
  let fix cols (r c : N) (l : list (option instr)) (acc : comp_prog) :=
      match l with
      | [] => acc
      | None :: l' => cols r (c + 1) l' acc
      | Some i :: l' => cols r (c + 1) l' (cp_insert (r, c) i acc)
      end in
  let fix rws (r : N) (l : list (list (option instr))) (acc : comp_prog) :=
      match l with
      | [] => acc
      | x :: l' => rws (r + 1) l' (cols r 0 x acc)
      end in
  rws 0 rows [].

Notation L_ := false (only parsing).
Notation R_ := true (only parsing).

(** "1RB 1LB  1LA 1LC  1RC 0LC", 3 : unconnected *)
Example graph_rs_unconnected_1 :
  is_connected (tbl [[Some (1, R_, 1); Some (1, L_, 1)]; [Some (1, L_, 0); Some (1, L_, 2)];
                     [Some (1, R_, 2); Some (0, L_, 2)]]) 3 = Ok false.
Proof. vm_compute. reflexivity. Qed.

(** "1RB 1LC  1RD 1RB  0RD 0RC  1LD 1LA", 4 : connected *)
Example graph_rs_connected_1 :
  is_connected (tbl [[Some (1, R_, 1); Some (1, L_, 2)]; [Some (1, R_, 3); Some (1, R_, 1)];
                     [Some (0, R_, 3); Some (0, R_, 2)]; [Some (1, L_, 3); Some (1, L_, 0)]]) 4 = Ok true.
Proof. vm_compute. reflexivity. Qed.

(** inputs outside [states_lt] can panic: 3 sources, [states] = 2, and the
    search walks into state C which has no exit ([exitpoints[&state]]) *)
Example panic_outside_states_lt :
  is_connected (tbl [[Some (1, R_, 1)]; [Some (1, R_, 2)]; [Some (1, R_, 2)]; [Some (1, R_, 0)]]) 2 = Panic.
Proof. vm_compute. reflexivity. Qed.

(** [states] = 0 panics ([states - 1] underflows) *)
Example panic_zero_states : is_connected [] 0 = Panic.
Proof. vm_compute. reflexivity. Qed.

(** with one state the answer is always false although a one-state graph
    is trivially strongly connected: hence [2 <= n] in the SC statements *)
Example one_state_false : is_connected (tbl [[Some (1, R_, 0); Some (1, L_, 0)]]) 1 = Ok false.
Proof. vm_compute. reflexivity. Qed.
