(** C05 layer 5, conclusion for goal Spinout: a saturated search is
    incompatible with a run that reaches a spin-out configuration.  The
    argument is made at the FIRST spin-out configuration of the run: a macro
    step (a same-state same-colour sweep) cannot run past it, because the
    configuration before a spin-out configuration inside a sweep is a
    spin-out configuration too. *)
From BB Require Import Base TM TMabs MacroSpec InstrsModel SegmentModel Loops TranslatedCycle AbsEquiv MacroSim.
From BB Require Import SegmentTape SegmentSound SegmentVerdicts SegmentAprog SegmentShape SegmentRefute SegmentCover SegmentRefuteHalt.
Open Scope N_scope.

(** a span whose cells are all 0 on the tape is a blank span *)
Lemma span_at_blank_conv s : forall T x d, span_ok s -> span_at s T x d ->
  (forall i, (0 <= i < zlen s)%Z -> T (x + d * i)%Z = 0) -> sg_span_blank s = true.
Proof.
  induction s as [|[c n] s IH]; intros T x d Hok Hat H0; [reflexivity|].
  destruct (span_ok_inv _ _ _ Hok) as [Hn Hok']. cbn [span_at] in Hat. destruct Hat as [H1 H2].
  rewrite zlen_cons in H0. pose proof (zlen_nonneg s) as Zs.
  unfold sg_span_blank. cbn [forallb fst]. apply andb_true_iff. split.
  - apply N.eqb_eq. rewrite <- (H1 0%Z) by lia. apply H0. lia.
  - apply (IH T (x + d * Z.of_N n)%Z d Hok' H2). intros i Hi.
    replace (x + d * Z.of_N n + d * i)%Z with (x + d * (Z.of_N n + i))%Z by lia. apply H0. lia.
Qed.

(** the configuration before a spin-out configuration, in the same state and
    reading a blank, is a spin-out configuration *)
Lemma spinout_back P c c' : a_step P c = Some c' -> a_spinout_cfg P c' ->
  a_q c = a_q c' -> a_t c (a_h c) = 0 -> a_spinout_cfg P c.
Proof.
  intros Hs Hsp Eq E0. destruct c' as [q' h' T']. destruct Hsp as (H0 & pr & sh & HP & Hb).
  cbn [a_q a_h a_t] in *. unfold a_step in Hs.
  assert (HP' : P (a_q c, a_t c (a_h c)) = Some (pr, sh, q')) by (rewrite E0, Eq; exact HP).
  rewrite HP' in Hs. injection Hs as Eh ET. subst h' T'.
  split; [exact E0|]. exists pr, sh. split; [rewrite Eq; exact HP|]. intros x Hx.
  assert (Hne : x <> a_h c) by (destruct sh; lia).
  assert (E : a_write (a_t c) (a_h c) pr x = a_t c x).
  { unfold a_write. destruct (Z.eqb_spec x (a_h c)); [contradiction|reflexivity]. }
  rewrite <- E. destruct sh.
  - destruct (Z.eq_dec x (a_h c + 1)) as [->|Ne]; [exact H0|apply Hb; lia].
  - destruct (Z.eq_dec x (a_h c - 1)) as [->|Ne]; [exact H0|apply Hb; lia].
Qed.

Section SpinEnd.
Variable prog : comp_prog.
Notation P := (to_prog prog).
Variables (S C seg : N).
Hypothesis Hseg : 4 <= seg.
Hypothesis Hwithin : prog_within_P (to_prog prog) S C.
Hypothesis HS : 0 < S.
Hypothesis HC : 0 < C.
Let ap := sg_aprog_new prog (S, C).
Let cells : Z := Z.of_N (seg - 2).
Variables (cs : sg_configs) (D : list (state * sg_tape)).
Hypothesis HI : Inv prog S C seg SgSpinout cs D D.
Hypothesis Htodo : sgs_todo cs = [].
Variables (h0 : Z) (n : nat) (cn : aconf).
Hypothesis Hrun : a_steps P n (mkA 0 h0 zero_tape) = Some cn.
Hypothesis Hspin : a_spinout_cfg P cn.
Hypothesis Hmin : forall i ci, (i < n)%nat ->
  a_steps P i (mkA 0 h0 zero_tape) = Some ci -> ~ a_spinout_cfg P ci.
Variable ps : sg_nset.
Hypothesis Hps : sg_dict_get 0 (sgs_blanks cs) = Some ps.
Hypothesis Hall : forall p, p < seg -> In p ps.

Lemma spin_noover : forall i ci k1 ci1, (i < n)%nat ->
  a_steps P i (mkA 0 h0 zero_tape) = Some ci -> (1 <= k1)%nat -> a_steps P k1 ci = Some ci1 ->
  (forall j cj, (j < k1)%nat -> a_steps P j ci = Some cj ->
     a_q cj = a_q ci /\ a_t cj (a_h cj) = a_t ci (a_h ci)) ->
  (i + k1 <= n)%nat.
Proof.
  intros i ci k1 ci1 Hi Hci Hk1 R1 Hmid.
  destruct (Nat.le_gt_cases (i + k1) n) as [L|G]; [exact L|]. exfalso.
  assert (Hrest : a_steps P (n - i) ci = Some cn).
  { replace n with (i + (n - i))%nat in Hrun by lia. rewrite a_steps_add, Hci in Hrun. exact Hrun. }
  (* the configuration at time n - 1 *)
  replace (n - i)%nat with ((n - i - 1) + 1)%nat in Hrest by lia. rewrite a_steps_add in Hrest.
  destruct (a_steps P (n - i - 1) ci) as [cp|] eqn:Ep; [|discriminate].
  cbn [a_steps] in Hrest. destruct (a_step P cp) as [cn'|] eqn:Es; [|discriminate].
  injection Hrest as ->.
  destruct (Hmid (n - i - 1)%nat cp ltac:(lia) Ep) as [Q1 C1].
  assert (En : a_steps P (n - i) ci = Some cn).
  { replace (n - i)%nat with ((n - i - 1) + 1)%nat by lia. rewrite a_steps_add, Ep. cbn [a_steps].
    rewrite Es. reflexivity. }
  destruct (Hmid (n - i)%nat cn ltac:(lia) En) as [Q2 C2].
  apply (Hmin (n - 1)%nat cp ltac:(lia)).
  - replace (n - 1)%nat with (i + (n - i - 1))%nat by lia. rewrite a_steps_add, Hci. exact Ep.
  - apply (spinout_back P cp cn Es Hspin); [congruence|].
    destruct Hspin as (H0 & _). congruence.
Qed.

Lemma all_positions_reached_spin p : p < seg -> reached_has cs (a_q cn) p.
Proof.
  intro Hp. set (lo := (a_h cn - Z.of_N p)%Z).
  pose proof (cells_pos' S C seg Hseg HS HC) as Hcp. fold cells in Hcp.
  destruct (cover_init prog S C seg SgSpinout Hseg HS HC cs D HI Htodo h0 ps Hps Hall lo) as (x & Hon & HR).
  destruct (cover prog S C seg SgSpinout Hseg Hwithin HS HC cs D HI Htodo h0 n cn Hrun spin_noover
              lo n 0%nat _ x ltac:(lia) eq_refl HR Hon) as (y & (x0 & m & Hin0 & Hm) & HRy).
  pose proof HI as (_ & _ & _ & _ & _ & I6 & _).
  destruct (I6 x0 Hin0 m y Hm) as [Hh He]. cbn [evt edge_goal] in Hh, He.
  pose proof HRy as (Eq & Hwf & (Rs & Rl & Rr) & Hpos).
  destruct Hspin as (H0 & pr & sh & HP & Hb).
  pose proof (steps_bounded prog S C Hwithin n _ cn (init_bounded S C HS HC h0) Hrun) as [Hq Hcol].
  pose proof Hwf as ((Hokl & Hokr) & _).
  destruct (zpos_cases cells (snd y) Hwf Hcp) as [(c0 & E & P1 & P2)|[(E & EL & P1 & P2)|(E & ER & P1 & P2)]];
    rewrite E in Hpos.
  - (* head inside the window *)
    assert (Epos : sg_tape_pos (snd y) = p) by (unfold zpos, lo in *; lia).
    rewrite <- Eq, <- Epos. apply Hh.
    pose proof (Rrel_scan cells lo cn y c0 HRy E) as Hco. rewrite H0 in Hco. subst c0.
    exists pr, sh. split; [exact E|]. split; [rewrite Eq; exact HP|].
    unfold sg_tape_at_edge. rewrite E. cbn [sg_ocolour_eqb]. rewrite N.eqb_refl. cbn [andb].
    destruct sh.
    + apply (span_at_blank_conv _ (a_t cn) _ _ Hokr Rr). intros i Hi. apply Hb. lia.
    + apply (span_at_blank_conv _ (a_t cn) _ _ Hokl Rl). intros i Hi. apply Hb. lia.
  - (* head left of the window *)
    rewrite P1 in Hpos. cbn in Hpos.
    assert (Epos : sg_tape_pos (snd y) = p) by (unfold zpos, lo in *; lia).
    rewrite <- Eq, <- Epos. apply (He E).
    exists sh, false. split.
    { rewrite Eq. apply (aprog_spinouts prog S C (a_q cn) pr sh Hq HC HP). }
    split.
    { rewrite (sg_tape_side_edge _ E), (span_ok_empty _ Hokr).
      destruct (sgt_rspan (snd y)); [rewrite zlen_nil in P2; lia|reflexivity]. }
    destruct sh; [|reflexivity]. cbn [Bool.eqb orb].
    unfold sg_tape_blank. rewrite E, EL. cbn [sg_span_blank forallb andb].
    apply (span_at_blank_conv _ (a_t cn) _ _ Hokr Rr). intros i Hi. apply Hb. rewrite P1. lia.
  - (* head right of the window *)
    rewrite P1 in Hpos. destruct (Z.eqb_spec (cells + 1) 0); [lia|].
    assert (Epos : sg_tape_pos (snd y) = p) by (unfold zpos, lo, cells in *; lia).
    rewrite <- Eq, <- Epos. apply (He E).
    exists sh, true. split.
    { rewrite Eq. apply (aprog_spinouts prog S C (a_q cn) pr sh Hq HC HP). }
    split.
    { rewrite (sg_tape_side_edge _ E), ER. reflexivity. }
    destruct sh; [reflexivity|]. cbn [Bool.eqb orb].
    unfold sg_tape_blank. rewrite E, ER. cbn [sg_span_blank forallb andb]. rewrite andb_true_r.
    apply (span_at_blank_conv _ (a_t cn) _ _ Hokl Rl). intros i Hi. apply Hb. rewrite P1. lia.
Qed.

Lemma no_spin : False.
Proof.
  pose proof (steps_bounded prog S C Hwithin n _ cn (init_bounded S C HS HC h0) Hrun) as [Hq Hcol].
  destruct Hspin as (H0 & pr & sh & HP & Hb).
  pose proof (aprog_spinouts prog S C (a_q cn) pr sh Hq HC HP) as Hk.
  pose proof HI as (_ & _ & _ & _ & _ & _ & I7 & I8).
  assert (Hkey : keys prog S C SgSpinout (a_q cn)) by (cbn [keys]; rewrite Hk; discriminate).
  specialize (I8 _ Hkey).
  destruct (sg_dict_get (a_q cn) (sgs_reached cs)) as [r|] eqn:Er; [|congruence].
  destruct (I7 _ _ Er) as [Hnd Hlen].
  assert (Hfull : seg <= sg_len r).
  { apply sg_nset_full; [exact Hnd|]. intros p Hp. apply (all_positions_reached_spin p Hp r Er). }
  lia.
Qed.

End SpinEnd.

(** ---- the refutation theorem for goal Spinout ---- *)
Lemma spins_abs prog n : spins_out_at (to_prog prog) init_config n ->
  exists cn, a_steps (to_prog prog) n (mkA 0 0%Z zero_tape) = Some cn /\
             a_spinout_cfg (to_prog prog) cn.
Proof.
  intros ([q t] & Hs & Hsp).
  pose proof (zipper_abs_steps_gen (to_prog prog) n 0 blank_tape 0%Z zero_tape (zero_abs 0%Z)) as H.
  change (tm_steps (to_prog prog) n (0, blank_tape)) with (tm_steps (to_prog prog) n init_config) in H.
  rewrite Hs in H. destruct H as (h' & t' & R & Ht).
  exists (mkA q h' t'). split; [exact R|].
  apply (spinout_abs (to_prog prog) q t h') in Hsp.
  destruct Hsp as (H0 & pr & sh & HP & Hb). cbn [a_q a_h a_t] in *.
  split; [cbn [a_t a_h]; rewrite Ht; exact H0|]. exists pr, sh. split; [exact HP|].
  intros x Hx. cbn [a_t a_h] in *. rewrite Ht. apply Hb. exact Hx.
Qed.

Lemma abs_spins prog n c : a_steps (to_prog prog) n (mkA 0 0%Z zero_tape) = Some c ->
  a_spinout_cfg (to_prog prog) c -> spins_out_at (to_prog prog) init_config n.
Proof.
  intros R Hs. destruct (run_zip prog n 0%Z c R) as (z & Hz & Ht).
  exists (a_q c, z). split; [exact Hz|].
  apply (spinout_abs (to_prog prog) (a_q c) z (a_h c)).
  destruct Hs as (H0 & pr & sh & HP & Hb). unfold a_spinout_cfg. cbn [a_q a_h a_t].
  split; [rewrite <- Ht; exact H0|]. exists pr, sh. split; [exact HP|].
  intros x Hx. rewrite <- Ht. apply Hb. exact Hx.
Qed.

Theorem sg_asr_spin_none_sound prog S C seg :
  prog_within_P (to_prog prog) S C -> 0 < S -> 0 < C -> 4 <= seg ->
  sg_all_segments_reached (sg_aprog_new prog (S, C)) seg SgSpinout = Ok None ->
  forall n, ~ spins_out_at (to_prog prog) init_config n.
Proof.
  intros Hw HS HC Hseg Hnone n. induction n as [n IH] using lt_wf_ind. intro Hsp.
  destruct (sg_asr_spin_none prog S C seg Hseg Hnone) as (cs & D & HI & Htodo & ps & Hps & Hall).
  destruct (spins_abs prog n Hsp) as (cn & Hrun & Hspin).
  refine (no_spin prog S C seg Hseg Hw HS HC cs D HI Htodo 0%Z n cn Hrun Hspin _ ps Hps Hall).
  intros i ci Hi Hci Hsi. apply (IH i Hi). apply (abs_spins prog i ci Hci Hsi).
Qed.

Theorem seg_refuted_spin_sound prog S C segs st :
  prog_within_P (to_prog prog) S C -> 0 < S -> 0 < C ->
  sg_seg_cant_spin_out prog (S, C) segs = Ok (SgrRefuted st) ->
  forall n, ~ spins_out_at (to_prog prog) init_config n.
Proof.
  intros Hw HS HC H. unfold sg_seg_cant_spin_out, sg_segment_cant_reach in H.
  destruct (negb (2 <=? segs)); [discriminate|].
  set (ap := sg_aprog_new prog (S, C)) in *. cbn [sg_term_eqb andb orb] in H.
  destruct (sga_spinouts ap) as [|kv sp] eqn:Esp.
  - (* no zero-reading self-loop within the table *)
    intros n Hsp. destruct (spins_abs prog n Hsp) as (cn & Hrun & (H0 & pr & sh & HP & Hb)).
    pose proof (steps_bounded prog S C Hw n _ cn (init_bounded S C HS HC 0%Z) Hrun) as [Hq Hcol].
    pose proof (aprog_spinouts prog S C (a_q cn) pr sh Hq HC HP) as Hk.
    fold ap in Hk. rewrite Esp in Hk. discriminate.
  - destruct (for_upto (segs - 1) (sg_scr_body ap SgSpinout) 2) as [x|r] eqn:E; [discriminate|].
    subst r. rewrite for_upto_iter in E.
    pose proof (iter_nat_inv (sg_scr_body ap SgSpinout) (fun s => 2 <= s)
                  (fun r => r = Ok (SgrRefuted st) ->
                            exists seg, 4 <= seg /\ sg_all_segments_reached ap seg SgSpinout = Ok None)
                  (scr_body_inv ap SgSpinout st) (N.to_nat (segs - 1)) 2 (N.le_refl 2)) as Hinv.
    rewrite E in Hinv. destruct (Hinv eq_refl) as (seg & Hseg & Hnone).
    apply (sg_asr_spin_none_sound prog S C seg Hw HS HC Hseg Hnone).
Qed.

Print Assumptions seg_refuted_spin_sound.
