(** C08/C09 layer 1 — THE CORE shared by the block logic and the backsymbol
    logic: what [run_simulator] (macros.rs:174-230) computes, for a PLAIN base
    program (a partial function [P : prog]; the base object has no state).

    A *window* is a list [tp] of base cells lying on an absolute tape at
    positions [lo, lo + length tp).  One iteration of the simulator loop
    ([sim_body]) is a positive number of base-machine steps
    ([a_steps], Spec/TMabs.v) during which the head stays inside the window;
    the loop therefore computes exactly how the base machine leaves the window
    (if it does), and when the iteration limit is at least the number of
    (state, position, contents) triples a run that exhausts it can never
    leave (pigeonhole). *)
From BB Require Import Base TM TMabs MacroSpec InstrsModel MacrosModel Loops TranslatedCycle AbsEquiv.
Open Scope N_scope.
Open Scope N_scope.

#[local] Arguments si_state {bstate}.
#[local] Arguments si_tape {bstate}.
#[local] Arguments si_pos {bstate}.
#[local] Arguments si_base {bstate}.
#[local] Arguments mkSim {bstate}.
#[local] Arguments SxNone {bstate}.
#[local] Arguments SxSide {bstate}.
#[local] Arguments SxPanic {bstate}.

(** ---- [mt_nth] / [mt_set] in terms of the stdlib ---- *)
Lemma mt_nth_nth_error (l : mtape) i : mt_nth l i = nth_error l (N.to_nat i).
Proof.
  revert i. induction l as [|x l IH]; intro i; cbn [mt_nth].
  - destruct (N.to_nat i); reflexivity.
  - destruct (N.eqb_spec i 0) as [->|Hi]; [reflexivity|].
    rewrite IH. replace (N.to_nat i) with (S (N.to_nat (i - 1))) by lia. reflexivity.
Qed.

Lemma mt_nth_some (l : mtape) i v :
  mt_nth l i = Some v -> (N.to_nat i < length l)%nat /\ nth (N.to_nat i) l 0 = v.
Proof.
  rewrite mt_nth_nth_error. intro H. split.
  - apply nth_error_Some. congruence.
  - apply nth_error_nth. exact H.
Qed.

Lemma mt_nth_in (l : mtape) i :
  (N.to_nat i < length l)%nat -> mt_nth l i = Some (nth (N.to_nat i) l 0).
Proof. intro H. rewrite mt_nth_nth_error. apply nth_error_nth'. exact H. Qed.

Lemma mt_nth_none (l : mtape) i : mt_nth l i = None -> (length l <= N.to_nat i)%nat.
Proof. rewrite mt_nth_nth_error. apply nth_error_None. Qed.

Lemma mt_set_length (l : mtape) i v : length (mt_set l i v) = length l.
Proof.
  revert i. induction l as [|x l IH]; intro i; cbn [mt_set]; [reflexivity|].
  destruct (i =? 0); cbn [length]; [reflexivity|]. rewrite IH. reflexivity.
Qed.

Lemma mt_set_nth (l : mtape) i v j :
  (N.to_nat i < length l)%nat ->
  nth j (mt_set l i v) 0 = if (j =? N.to_nat i)%nat then v else nth j l 0.
Proof.
  revert i j. induction l as [|x l IH]; intros i j Hi; cbn [length] in Hi; [lia|].
  cbn [mt_set]. destruct (N.eqb_spec i 0) as [->|Hn].
  - destruct j as [|j]; reflexivity.
  - destruct j as [|j].
    + destruct (Nat.eqb_spec 0 (N.to_nat i)) as [E|_]; [lia|reflexivity].
    + cbn [nth]. rewrite IH by lia.
      destruct (Nat.eqb_spec j (N.to_nat (i - 1))) as [E|E],
               (Nat.eqb_spec (S j) (N.to_nat i)) as [E'|E']; try reflexivity; lia.
Qed.

Lemma mt_len_set (l : mtape) i v : mt_len (mt_set l i v) = mt_len l.
Proof. unfold mt_len. rewrite mt_set_length. reflexivity. Qed.

Lemma mt_set_Forall (Q : colour -> Prop) (l : mtape) i v :
  Forall Q l -> Q v -> Forall Q (mt_set l i v).
Proof.
  intros Hl Hv. revert i. induction Hl as [|x l Hx Hl IH]; intro i; cbn [mt_set]; [constructor|].
  destruct (i =? 0); constructor; auto.
Qed.

(** ---- windows on an absolute tape ---- *)
Lemma win_at_write t lo tp pos v :
  win_at t lo tp -> (N.to_nat pos < length tp)%nat ->
  win_at (a_write t (lo + Z.of_N pos) v) lo (mt_set tp pos v).
Proof.
  intros Hw Hp i Hi. rewrite mt_set_length in Hi. rewrite mt_set_nth by exact Hp.
  unfold a_write.
  destruct (Nat.eqb_spec i (N.to_nat pos)) as [E|E],
           (Z.eqb_spec (lo + Z.of_nat i) (lo + Z.of_N pos)) as [E'|E'];
    try reflexivity; try lia.
  apply Hw. exact Hi.
Qed.

Lemma win_at_self tp : win_at (fun x => nth (Z.to_nat x) tp 0) 0%Z tp.
Proof. intros j Hj. replace (Z.to_nat (0 + Z.of_nat j)) with j by lia. reflexivity. Qed.

Lemma win_at_ext t t' lo tp : aeq t t' -> win_at t lo tp -> win_at t' lo tp.
Proof. intros He Hw i Hi. rewrite <- He. apply Hw. exact Hi. Qed.

(** ---- positional value of a tape (most significant cell first) ---- *)
Lemma encode_snoc C tp v : encode C (tp ++ [v]) = encode C tp * C + v.
Proof.
  induction tp as [|x r IH]; cbn [app encode length]; [cbn; lia|].
  rewrite IH, app_length. cbn [length].
  replace (N.of_nat (length r + 1)) with (N.succ (N.of_nat (length r))) by lia.
  rewrite N.pow_succ_r'. lia.
Qed.

Lemma encode_lt C tp : Forall (ltC C) tp -> encode C tp < C ^ N.of_nat (length tp).
Proof.
  induction tp as [|v tp IH] using rev_ind; intro H; [cbn; lia|].
  apply Forall_app in H. destruct H as [H1 H2]. inversion H2 as [|? ? Hv _]; subst.
  unfold ltC in Hv. specialize (IH H1).
  rewrite encode_snoc, app_length. cbn [length].
  replace (N.of_nat (length tp + 1)) with (N.succ (N.of_nat (length tp))) by lia.
  rewrite N.pow_succ_r'. nia.
Qed.

Lemma decode_length C k c : length (decode C k c) = k.
Proof.
  revert c. induction k as [|k IH]; intro c; cbn [decode]; [reflexivity|].
  rewrite app_length, IH. cbn [length]. lia.
Qed.

Lemma decode_Forall C k c : 0 < C -> Forall (ltC C) (decode C k c).
Proof.
  intro HC. revert c. induction k as [|k IH]; intro c; cbn [decode]; [constructor|].
  apply Forall_app. split; [apply IH|]. constructor; [|constructor].
  unfold ltC. apply N.mod_lt. lia.
Qed.

Lemma enc_dec C tp : Forall (ltC C) tp -> decode C (length tp) (encode C tp) = tp.
Proof.
  induction tp as [|v tp IH] using rev_ind; intro H; [reflexivity|].
  apply Forall_app in H. destruct H as [H1 H2]. inversion H2 as [|? ? Hv _]; subst.
  unfold ltC in Hv. rewrite app_length. cbn [length].
  replace (length tp + 1)%nat with (S (length tp)) by lia. cbn [decode].
  rewrite encode_snoc.
  assert (E1 : (encode C tp * C + v) / C = encode C tp).
  { symmetry. apply (N.div_unique _ _ _ v); [exact Hv|lia]. }
  assert (E2 : (encode C tp * C + v) mod C = v).
  { symmetry. apply (N.mod_unique _ _ (encode C tp)); [exact Hv|lia]. }
  rewrite E1, E2, (IH H1). reflexivity.
Qed.

Lemma dec_enc C k c : 0 < C -> c < C ^ N.of_nat k -> encode C (decode C k c) = c.
Proof.
  intro HC. revert c. induction k as [|k IH]; intros c Hc.
  - cbn in Hc |- *. lia.
  - cbn [decode]. rewrite encode_snoc.
    replace (N.of_nat (S k)) with (N.succ (N.of_nat k)) in Hc by lia.
    rewrite N.pow_succ_r' in Hc.
    rewrite IH.
    + pose proof (N.div_mod c C). lia.
    + apply N.div_lt_upper_bound; lia.
Qed.

Lemma encode_inj C a b :
  length a = length b -> Forall (ltC C) a -> Forall (ltC C) b ->
  encode C a = encode C b -> a = b.
Proof.
  intros Hl Ha Hb He. rewrite <- (enc_dec C a Ha), <- (enc_dec C b Hb), Hl, He. reflexivity.
Qed.

Lemma divmod_uniq M a e a' e' :
  a * M + e = a' * M + e' -> e < M -> e' < M -> a = a' /\ e = e'.
Proof.
  intros H He He'.
  assert (Ha : a = a').
  { rewrite (N.div_unique (a * M + e) M a e He) by lia.
    rewrite H. symmetry. apply (N.div_unique _ _ _ e'); [exact He'|lia]. }
  subst a'. split; [reflexivity|lia].
Qed.

(** ---- a duplicate in a list that is too long (pigeonhole) ---- *)
Lemma dup_indices (l : list nat) :
  ~ NoDup l -> exists i j, (i < j < length l)%nat /\ nth i l O = nth j l O.
Proof.
  induction l as [|a l IH]; intro H; [exfalso; apply H; constructor|].
  destruct (in_dec Nat.eq_dec a l) as [Hin|Hin].
  - destruct (In_nth l a O Hin) as (j & Hj & Ej).
    exists O, (S j). cbn [nth length]. split; [lia|symmetry; exact Ej].
  - assert (Hl : ~ NoDup l) by (intro N; apply H; constructor; assumption).
    destruct (IH Hl) as (i & j & Hij & E). exists (S i), (S j). cbn [nth length].
    split; [lia|exact E].
Qed.

Lemma pigeonhole_fun (n : nat) (f : nat -> nat) :
  (forall i, (i <= n)%nat -> (f i < n)%nat) ->
  exists i j, (i < j <= n)%nat /\ f i = f j.
Proof.
  intro Hf. set (l := map f (seq 0 (S n))).
  assert (Hlen : length l = S n) by (unfold l; rewrite map_length, seq_length; reflexivity).
  assert (Hnd : ~ NoDup l).
  { intro N. pose proof (NoDup_incl_length N (l' := seq 0 n)) as Hle.
    rewrite Hlen, seq_length in Hle. enough (S n <= n)%nat by lia. apply Hle.
    intros x Hx. unfold l in Hx. apply in_map_iff in Hx. destruct Hx as (i & <- & Hi).
    apply in_seq in Hi. apply in_seq. specialize (Hf i). lia. }
  destruct (dup_indices l Hnd) as (i & j & Hij & E). rewrite Hlen in Hij.
  exists i, j. split; [lia|].
  unfold l in E.
  rewrite !(nth_indep _ O (f O)) in E by (rewrite map_length, seq_length; lia).
  rewrite !map_nth in E. rewrite !seq_nth in E by lia. exact E.
Qed.

(** ---- periodic loops never exit ---- *)
Section Periodic.
Context {St Rs : Type} (body : St -> St + Rs).

Lemma iter_nat_prefix a b s s' :
  iter_nat b body s = inl s' -> (a <= b)%nat -> exists s1, iter_nat a body s = inl s1.
Proof.
  intros H Hab. replace b with (a + (b - a))%nat in H by lia.
  destruct (iter_nat_inl_split body _ _ _ _ H) as (s1 & H1 & _). exists s1. exact H1.
Qed.

Lemma iter_nat_periodic i j s si :
  (i < j)%nat -> iter_nat i body s = inl si -> iter_nat j body s = inl si ->
  forall m, exists sm, iter_nat m body s = inl sm.
Proof.
  intros Hij Hi Hj m. induction m as [m IH] using lt_wf_ind.
  destruct (Nat.le_gt_cases m j) as [L|G].
  - apply (iter_nat_prefix m j s si Hj L).
  - destruct (IH (i + (m - j))%nat ltac:(lia)) as [sm Hm].
    exists sm. replace m with (j + (m - j))%nat by lia.
    rewrite iter_nat_add, Hj. rewrite iter_nat_add, Hi in Hm. exact Hm.
Qed.
End Periodic.

Section Core.
Variable P : prog.

(** ---- runs that keep the head inside the window until the last step ---- *)
Notation wrun := (MacroSpec.wrun P).
Notation halts_inside := (MacroSpec.halts_inside P).
Notation never_leaves := (MacroSpec.never_leaves P).
Notation leaves := (MacroSpec.leaves P).
Notation prog_within_P := (MacroSpec.prog_within_P P).
Lemma wrun_refl lo len c : wrun lo len 0 c c.
Proof.
  split; [reflexivity|]. split; [intros i ci Hi; lia|reflexivity].
Qed.

Lemma wrun_trans lo len n m c c' c'' :
  wrun lo len n c c' -> wrun lo len m c' c'' -> wrun lo len (n + m) c c''.
Proof.
  intros (R1 & I1 & U1) (R2 & I2 & U2). split; [|split].
  - rewrite a_steps_add, R1. exact R2.
  - intros i ci Hi Hc. destruct (Nat.lt_ge_cases i n) as [L|G].
    + apply (I1 i ci L Hc).
    + replace i with (n + (i - n))%nat in Hc by lia.
      rewrite a_steps_add, R1 in Hc. apply (I2 (i - n)%nat ci); [lia|exact Hc].
  - intros y Hy. rewrite U2, U1 by exact Hy. reflexivity.
Qed.

Lemma wrun_step lo len c c' :
  inside lo len (a_h c) -> a_step P c = Some c' ->
  (forall y, y <> a_h c -> a_t c' y = a_t c y) ->
  wrun lo len 1 c c'.
Proof.
  intros Hin Hs Hu. split; [|split].
  - cbn [a_steps]. rewrite Hs. reflexivity.
  - intros i ci Hi Hc. assert (i = O) by lia. subst i.
    cbn [a_steps] in Hc. injection Hc as <-. exact Hin.
  - intros y Hy. apply Hu. intro E. apply Hy. rewrite E. exact Hin.
Qed.

(** one base step on a cell of the window *)
Lemma step_in_window lo tp t q pos color sh q' :
  win_at t lo tp -> (N.to_nat pos < length tp)%nat ->
  P (q, nth (N.to_nat pos) tp 0) = Some (color, sh, q') ->
  wrun lo (length tp) 1 (mkA q (lo + Z.of_N pos) t)
       (mkA q' (if sh then lo + Z.of_N pos + 1 else lo + Z.of_N pos - 1)%Z
            (a_write t (lo + Z.of_N pos) color)) /\
  win_at (a_write t (lo + Z.of_N pos) color) lo (mt_set tp pos color).
Proof.
  intros Hw Hp HP. split; [|apply win_at_write; assumption].
  apply wrun_step.
  - cbn [a_h]. unfold inside. lia.
  - unfold a_step. cbn [a_q a_h a_t].
    replace (lo + Z.of_N pos)%Z with (lo + Z.of_nat (N.to_nat pos))%Z at 1 by lia.
    rewrite (Hw _ Hp), HP. reflexivity.
  - intros y Hy. cbn [a_t a_h] in *. unfold a_write.
    destruct (Z.eqb_spec y (lo + Z.of_N pos)) as [E|E]; [contradiction|reflexivity].
Qed.


(** ---- the plain base object: no state, never panics ---- *)
Definition pget (b : unit) (sl : slot) : outcome (option instr) * unit := (Ok (P sl), tt).

Notation psim := (simst unit).
Notation pbody := (sim_body unit pget).

(** ---- the two same-state sweeps (macros.rs:209-225) ---- *)
Lemma sweep_right_sound q scan color lo (HP : P (q, scan) = Some (color, true, q)) :
  forall fuel cells tp pos t,
  cells = mt_len tp ->
  win_at t lo tp -> (N.to_nat pos < length tp)%nat -> (length tp - N.to_nat pos < fuel)%nat ->
  match sweep_right fuel cells scan color tp pos with
  | SwCont tp' pos' =>
      length tp' = length tp /\ (N.to_nat pos' < length tp)%nat /\
      exists n t', (nth (N.to_nat pos) tp 0 = scan -> (1 <= n)%nat) /\
        wrun lo (length tp) n (mkA q (lo + Z.of_N pos) t) (mkA q (lo + Z.of_N pos') t') /\
        win_at t' lo tp'
  | SwExit side tp' =>
      side = true /\ length tp' = length tp /\
      exists n t', (1 <= n)%nat /\
        wrun lo (length tp) n (mkA q (lo + Z.of_N pos) t)
             (mkA q (lo + Z.of_nat (length tp)) t') /\
        win_at t' lo tp'
  | SwPanic => False
  end.
Proof.
  induction fuel as [|f IH]; intros cells tp pos t Hc Hw Hp Hf; [lia|].
  cbn [sweep_right]. rewrite (mt_nth_in tp pos Hp).
  destruct (N.eqb_spec (nth (N.to_nat pos) tp 0) scan) as [E|E].
  - assert (HP' : P (q, nth (N.to_nat pos) tp 0) = Some (color, true, q)) by (rewrite E; exact HP).
    destruct (step_in_window lo tp t q pos color true q Hw Hp HP') as [R1 W1].
    destruct (N.leb_spec cells (pos + 1)) as [L|L].
    + split; [reflexivity|]. split; [apply mt_set_length|].
      exists 1%nat, (a_write t (lo + Z.of_N pos) color). split; [lia|]. split; [|exact W1].
      replace (lo + Z.of_nat (length tp))%Z with (lo + Z.of_N pos + 1)%Z
        by (subst cells; unfold mt_len in L; lia).
      exact R1.
    + assert (Hc' : cells = mt_len (mt_set tp pos color)) by (rewrite mt_len_set; exact Hc).
      assert (Hp' : (N.to_nat (pos + 1) < length (mt_set tp pos color))%nat)
        by (rewrite mt_set_length; subst cells; unfold mt_len in L; lia).
      assert (Hf' : (length (mt_set tp pos color) - N.to_nat (pos + 1) < f)%nat)
        by (rewrite mt_set_length; lia).
      specialize (IH cells _ (pos + 1) _ Hc' W1 Hp' Hf').
      rewrite mt_set_length in IH.
      replace (lo + Z.of_N (pos + 1))%Z with (lo + Z.of_N pos + 1)%Z in IH by lia.
      destruct (sweep_right f cells scan color (mt_set tp pos color) (pos + 1))
        as [tp' pos'|side tp'|]; [| |exact IH].
      * destruct IH as (L1 & L2 & n & t' & _ & R2 & W2).
        split; [exact L1|]. split; [exact L2|].
        exists (1 + n)%nat, t'. split; [lia|]. split; [|exact W2].
        eapply wrun_trans; eassumption.
      * destruct IH as (S1 & L1 & n & t' & _ & R2 & W2).
        split; [exact S1|]. split; [exact L1|].
        exists (1 + n)%nat, t'. split; [lia|]. split; [|exact W2].
        eapply wrun_trans; eassumption.
  - split; [reflexivity|]. split; [exact Hp|].
    exists 0%nat, t. split; [intro; contradiction|]. split; [apply wrun_refl|exact Hw].
Qed.

Lemma sweep_left_sound q scan color lo (HP : P (q, scan) = Some (color, false, q)) :
  forall fuel tp pos t,
  win_at t lo tp -> (N.to_nat pos < length tp)%nat -> (N.to_nat pos < fuel)%nat ->
  match sweep_left fuel scan color tp pos with
  | SwCont tp' pos' =>
      length tp' = length tp /\ (N.to_nat pos' < length tp)%nat /\
      exists n t', (nth (N.to_nat pos) tp 0 = scan -> (1 <= n)%nat) /\
        wrun lo (length tp) n (mkA q (lo + Z.of_N pos) t) (mkA q (lo + Z.of_N pos') t') /\
        win_at t' lo tp'
  | SwExit side tp' =>
      side = false /\ length tp' = length tp /\
      exists n t', (1 <= n)%nat /\
        wrun lo (length tp) n (mkA q (lo + Z.of_N pos) t) (mkA q (lo - 1) t') /\
        win_at t' lo tp'
  | SwPanic => False
  end.
Proof.
  induction fuel as [|f IH]; intros tp pos t Hw Hp Hf; [lia|].
  cbn [sweep_left]. rewrite (mt_nth_in tp pos Hp).
  destruct (N.eqb_spec (nth (N.to_nat pos) tp 0) scan) as [E|E].
  - assert (HP' : P (q, nth (N.to_nat pos) tp 0) = Some (color, false, q)) by (rewrite E; exact HP).
    destruct (step_in_window lo tp t q pos color false q Hw Hp HP') as [R1 W1].
    destruct (N.eqb_spec pos 0) as [Z0|Z0].
    + split; [reflexivity|]. split; [apply mt_set_length|].
      exists 1%nat, (a_write t (lo + Z.of_N pos) color). split; [lia|]. split; [|exact W1].
      replace (lo - 1)%Z with (lo + Z.of_N pos - 1)%Z by lia. exact R1.
    + assert (Hp' : (N.to_nat (pos - 1) < length (mt_set tp pos color))%nat)
        by (rewrite mt_set_length; lia).
      assert (Hf' : (N.to_nat (pos - 1) < f)%nat) by lia.
      specialize (IH _ (pos - 1) _ W1 Hp' Hf').
      rewrite mt_set_length in IH.
      replace (lo + Z.of_N (pos - 1))%Z with (lo + Z.of_N pos - 1)%Z in IH by lia.
      destruct (sweep_left f scan color (mt_set tp pos color) (pos - 1))
        as [tp' pos'|side tp'|]; [| |exact IH].
      * destruct IH as (L1 & L2 & n & t' & _ & R2 & W2).
        split; [exact L1|]. split; [exact L2|].
        exists (1 + n)%nat, t'. split; [lia|]. split; [|exact W2].
        eapply wrun_trans; eassumption.
      * destruct IH as (S1 & L1 & n & t' & _ & R2 & W2).
        split; [exact S1|]. split; [exact L1|].
        exists (1 + n)%nat, t'. split; [lia|]. split; [|exact W2].
        eapply wrun_trans; eassumption.
  - split; [reflexivity|]. split; [exact Hp|].
    exists 0%nat, t. split; [intro; contradiction|]. split; [apply wrun_refl|exact Hw].
Qed.

Lemma sweep_right_Forall (Q : colour -> Prop) color (Hq : Q color) :
  forall fuel cells scan tp pos, Forall Q tp ->
  match sweep_right fuel cells scan color tp pos with
  | SwCont tp' _ => Forall Q tp'
  | SwExit _ tp' => Forall Q tp'
  | SwPanic => True
  end.
Proof.
  induction fuel as [|f IH]; intros cells scan tp pos Ht; cbn [sweep_right]; [exact I|].
  destruct (mt_nth tp pos) as [v|]; [|exact I].
  destruct (v =? scan); [|exact Ht].
  destruct (cells <=? pos + 1); [apply mt_set_Forall; assumption|].
  apply IH. apply mt_set_Forall; assumption.
Qed.

Lemma sweep_left_Forall (Q : colour -> Prop) color (Hq : Q color) :
  forall fuel scan tp pos, Forall Q tp ->
  match sweep_left fuel scan color tp pos with
  | SwCont tp' _ => Forall Q tp'
  | SwExit _ tp' => Forall Q tp'
  | SwPanic => True
  end.
Proof.
  induction fuel as [|f IH]; intros scan tp pos Ht; cbn [sweep_left]; [exact I|].
  destruct (mt_nth tp pos) as [v|]; [|exact I].
  destruct (v =? scan); [|exact Ht].
  destruct (pos =? 0); [apply mt_set_Forall; assumption|].
  apply IH. apply mt_set_Forall; assumption.
Qed.


(** ---- one iteration of the simulator loop (macros.rs:184-227) ---- *)
Definition sim_ok (cells : N) (s : psim) : Prop :=
  mt_len (si_tape s) = cells /\ si_pos s < cells.
Definition cfg_of (lo : Z) (s : psim) (t : atape) : aconf :=
  mkA (si_state s) (lo + Z.of_N (si_pos s)) t.

Lemma sim_body_sound cells s lo t :
  sim_ok cells s -> win_at t lo (si_tape s) ->
  match pbody cells s with
  | inl s' =>
      sim_ok cells s' /\
      exists n t', (1 <= n)%nat /\
        wrun lo (N.to_nat cells) n (cfg_of lo s t) (cfg_of lo s' t') /\
        win_at t' lo (si_tape s')
  | inr (SxSide side st' tp' _) =>
      mt_len tp' = cells /\
      exists n t', (1 <= n)%nat /\
        wrun lo (N.to_nat cells) n (cfg_of lo s t)
             (mkA st' (if side then lo + Z.of_N cells else lo - 1)%Z t') /\
        win_at t' lo tp'
  | inr (SxNone _) => a_step P (cfg_of lo s t) = None
  | inr (SxPanic _) => False
  end.
Proof.
  destruct s as [st tp pos []]. unfold sim_ok, cfg_of. cbn [si_state si_tape si_pos si_base].
  intros [Hl Hp] Hw. unfold mt_len in Hl.
  assert (Hlen : N.to_nat cells = length tp) by lia.
  assert (Hp' : (N.to_nat pos < length tp)%nat) by lia.
  unfold sim_body. cbn [si_state si_tape si_pos si_base].
  rewrite (mt_nth_in tp pos Hp'). unfold pget.
  set (scan := nth (N.to_nat pos) tp 0).
  destruct (P (st, scan)) as [[[color sh] q']|] eqn:HP.
  2:{ unfold a_step. cbn [a_q a_h a_t].
      replace (lo + Z.of_N pos)%Z with (lo + Z.of_nat (N.to_nat pos))%Z by lia.
      rewrite (Hw _ Hp'). fold scan. rewrite HP. reflexivity. }
  destruct (N.eqb_spec q' st) as [E|E]; cbn [negb].
  - subst q'. rewrite Hlen. destruct sh.
    + assert (Hc : cells = mt_len tp) by (unfold mt_len; lia).
      pose proof (sweep_right_sound st scan color lo HP (S (length tp)) cells tp pos t
                    Hc Hw Hp' ltac:(lia)) as HS.
      destruct (sweep_right (S (length tp)) cells scan color tp pos) as [tp' pos'|side tp'|];
        [| |exact HS].
      * destruct HS as (L1 & L2 & n & t' & Hn & R & W).
        cbn [si_state si_tape si_pos]. split; [unfold mt_len; split; lia|].
        exists n, t'. split; [apply Hn; reflexivity|]. split; assumption.
      * destruct HS as (S1 & L1 & n & t' & Hn & R & W). subst side.
        split; [unfold mt_len; lia|]. exists n, t'. split; [exact Hn|]. split; [|exact W].
        replace (lo + Z.of_N cells)%Z with (lo + Z.of_nat (length tp))%Z by lia. exact R.
    + pose proof (sweep_left_sound st scan color lo HP (S (length tp)) tp pos t
                    Hw Hp' ltac:(lia)) as HS.
      destruct (sweep_left (S (length tp)) scan color tp pos) as [tp' pos'|side tp'|];
        [| |exact HS].
      * destruct HS as (L1 & L2 & n & t' & Hn & R & W).
        cbn [si_state si_tape si_pos]. split; [unfold mt_len; split; lia|].
        exists n, t'. split; [apply Hn; reflexivity|]. split; assumption.
      * destruct HS as (S1 & L1 & n & t' & Hn & R & W). subst side.
        split; [unfold mt_len; lia|]. exists n, t'. split; [exact Hn|]. split; [|exact W].
        exact R.
  - destruct (step_in_window lo tp t st pos color sh q' Hw Hp' HP) as [R W].
    rewrite <- Hlen in R. destruct sh.
    + destruct (N.leb_spec cells (pos + 1)) as [L|L].
      * split; [rewrite mt_len_set; unfold mt_len; lia|].
        exists 1%nat, (a_write t (lo + Z.of_N pos) color). split; [lia|]. split; [|exact W].
        replace (lo + Z.of_N cells)%Z with (lo + Z.of_N pos + 1)%Z by lia. exact R.
      * cbn [si_state si_tape si_pos]. split; [rewrite mt_len_set; unfold mt_len; split; lia|].
        exists 1%nat, (a_write t (lo + Z.of_N pos) color). split; [lia|]. split; [|exact W].
        replace (lo + Z.of_N (pos + 1))%Z with (lo + Z.of_N pos + 1)%Z by lia. exact R.
    + destruct (N.eqb_spec pos 0) as [Z0|Z0].
      * split; [rewrite mt_len_set; unfold mt_len; lia|].
        exists 1%nat, (a_write t (lo + Z.of_N pos) color). split; [lia|]. split; [|exact W].
        replace (lo - 1)%Z with (lo + Z.of_N pos - 1)%Z by lia. exact R.
      * cbn [si_state si_tape si_pos]. split; [rewrite mt_len_set; unfold mt_len; split; lia|].
        exists 1%nat, (a_write t (lo + Z.of_N pos) color). split; [lia|]. split; [|exact W].
        replace (lo + Z.of_N (pos - 1))%Z with (lo + Z.of_N pos - 1)%Z by lia. exact R.
Qed.


(** ---- what the three possible endings mean for the base machine ---- *)
(** the three endings exclude each other (the machine is deterministic) *)
Lemma leaves_not_halts lo len c side st' tp' :
  leaves lo len c side st' tp' -> ~ halts_inside lo len c.
Proof.
  intros (n & t' & Hn & (R & I & _) & _) (m & c' & (R' & I' & _) & Hin & Hh).
  destruct (Nat.lt_ge_cases m n) as [L|G].
  - replace n with (m + S (n - m - 1))%nat in R by lia.
    rewrite a_steps_add, R' in R. cbn [a_steps] in R. rewrite Hh in R. discriminate.
  - destruct (Nat.eq_dec m n) as [->|Ne].
    + rewrite R in R'. injection R' as <-. cbn [a_h] in Hin. unfold inside in Hin.
      destruct side; lia.
    + pose proof (I' n _ ltac:(lia) R) as Hx. cbn [a_h] in Hx. unfold inside in Hx.
      destruct side; lia.
Qed.

Lemma leaves_not_never lo len c side st' tp' :
  leaves lo len c side st' tp' -> ~ never_leaves lo len c.
Proof.
  intros (n & t' & Hn & (R & _ & _) & _) H. destruct (H n) as (c' & R' & Hin).
  rewrite R in R'. injection R' as <-. cbn [a_h] in Hin. unfold inside in Hin.
  destruct side; lia.
Qed.

(** ---- m iterations of the loop ---- *)
Lemma iter_sound cells lo : forall m s t,
  sim_ok cells s -> win_at t lo (si_tape s) ->
  match iter_nat m (pbody cells) s with
  | inl s' =>
      sim_ok cells s' /\
      exists n t', (m <= n)%nat /\
        wrun lo (N.to_nat cells) n (cfg_of lo s t) (cfg_of lo s' t') /\
        win_at t' lo (si_tape s')
  | inr (SxSide side st' tp' _) =>
      mt_len tp' = cells /\ leaves lo (N.to_nat cells) (cfg_of lo s t) side st' tp'
  | inr (SxNone _) => halts_inside lo (N.to_nat cells) (cfg_of lo s t)
  | inr (SxPanic _) => False
  end.
Proof.
  induction m as [|m IH]; intros s t Hok Hw; cbn [iter_nat].
  - split; [exact Hok|]. exists 0%nat, t. split; [lia|]. split; [apply wrun_refl|exact Hw].
  - pose proof (sim_body_sound cells s lo t Hok Hw) as HB.
    destruct (pbody cells s) as [s1|[b|side st' tp' b|b]].
    + destruct HB as (Hok1 & n1 & t1 & Hn1 & R1 & W1).
      specialize (IH s1 t1 Hok1 W1).
      destruct (iter_nat m (pbody cells) s1) as [s'|[b|side st' tp' b|b]].
      * destruct IH as (Hok' & n & t' & Hn & R & W). split; [exact Hok'|].
        exists (n1 + n)%nat, t'. split; [lia|]. split; [|exact W].
        eapply wrun_trans; eassumption.
      * destruct IH as (n & c' & R & Hin & Hh). exists (n1 + n)%nat, c'.
        split; [eapply wrun_trans; eassumption|]. split; assumption.
      * destruct IH as (Hl & n & t' & Hn & R & W). split; [exact Hl|].
        exists (n1 + n)%nat, t'. split; [lia|]. split; [|exact W].
        eapply wrun_trans; eassumption.
      * exact IH.
    + exists 0%nat, (cfg_of lo s t). split; [apply wrun_refl|]. split; [|exact HB].
      unfold cfg_of, inside. cbn [a_h]. destruct Hok as [_ Hp]. lia.
    + destruct HB as (Hl & n & t' & Hn & R & W). split; [exact Hl|].
      exists n, t'. replace (Z.of_nat (N.to_nat cells)) with (Z.of_N cells) by lia.
      split; [exact Hn|]. split; assumption.
    + exact HB.
Qed.

(** ---- bounds on the states and colours that occur ---- *)
Lemma sim_body_bounded Q C cells s :
  prog_within_P Q C -> Forall (ltC C) (si_tape s) ->
  match pbody cells s with
  | inl s' => si_state s < Q /\ si_state s' < Q /\ Forall (ltC C) (si_tape s')
  | inr (SxSide _ st' tp' _) => st' < Q /\ Forall (ltC C) tp'
  | _ => True
  end.
Proof.
  intros HW Ht. destruct s as [st tp pos []]. unfold sim_body.
  cbn [si_state si_tape si_pos si_base] in *.
  destruct (mt_nth tp pos) as [scan|]; [|exact I]. unfold pget.
  destruct (P (st, scan)) as [[[color sh] q']|] eqn:HP; [|exact I].
  destruct (HW _ _ _ _ _ HP) as (Hq & _ & Hc & Hq').
  destruct (N.eqb_spec q' st) as [E|E]; cbn [negb].
  - subst q'. destruct sh.
    + pose proof (sweep_right_Forall (ltC C) color Hc (S (length tp)) cells scan tp pos Ht) as HS.
      destruct (sweep_right (S (length tp)) cells scan color tp pos); cbn [si_state si_tape];
        auto.
    + pose proof (sweep_left_Forall (ltC C) color Hc (S (length tp)) scan tp pos Ht) as HS.
      destruct (sweep_left (S (length tp)) scan color tp pos); cbn [si_state si_tape]; auto.
  - pose proof (mt_set_Forall (ltC C) tp pos color Ht Hc) as HF.
    destruct sh.
    + destruct (cells <=? pos + 1); cbn [si_state si_tape]; auto.
    + destruct (pos =? 0); cbn [si_state si_tape]; auto.
Qed.

(** a numbering of the iteration-boundary configurations *)
Definition code (C cells : N) (s : psim) : N :=
  (si_state s * cells + si_pos s) * C ^ cells + encode C (si_tape s).

Definition sim_bounded (Q C cells : N) (s : psim) : Prop :=
  sim_ok cells s /\ si_state s < Q /\ Forall (ltC C) (si_tape s).

Lemma code_lt Q C cells s : sim_bounded Q C cells s -> code C cells s < Q * cells * C ^ cells.
Proof.
  intros ((Hl & Hp) & Hs & Ht). unfold code.
  pose proof (encode_lt C _ Ht) as He. unfold mt_len in Hl. rewrite Hl in He.
  assert (H1 : si_state s * cells + si_pos s + 1 <= Q * cells) by nia.
  set (M := C ^ cells) in *. set (a := si_state s * cells + si_pos s) in *.
  assert ((a + 1) * M <= Q * cells * M) by (apply N.mul_le_mono_r; exact H1). lia.
Qed.

Lemma code_inj Q C cells s1 s2 :
  sim_bounded Q C cells s1 -> sim_bounded Q C cells s2 ->
  code C cells s1 = code C cells s2 -> s1 = s2.
Proof.
  intros ((Hl1 & Hp1) & _ & Ht1) ((Hl2 & Hp2) & _ & Ht2) E. unfold code in E.
  pose proof (encode_lt C _ Ht1) as He1. pose proof (encode_lt C _ Ht2) as He2.
  unfold mt_len in Hl1, Hl2. rewrite Hl1 in He1. rewrite Hl2 in He2.
  destruct (divmod_uniq _ _ _ _ _ E He1 He2) as [Ea Ee].
  destruct (divmod_uniq _ _ _ _ _ Ea Hp1 Hp2) as [Es Ep].
  assert (Et : si_tape s1 = si_tape s2) by (apply (encode_inj C); [lia|assumption..]).
  destruct s1 as [st1 tp1 p1 []], s2 as [st2 tp2 p2 []].
  cbn [si_state si_tape si_pos] in *. subst. reflexivity.
Qed.

Lemma sim_body_ok cells s s' : sim_ok cells s -> pbody cells s = inl s' -> sim_ok cells s'.
Proof.
  intros Hok Eb.
  pose proof (sim_body_sound cells s 0%Z (fun x => nth (Z.to_nat x) (si_tape s) 0) Hok) as HS.
  rewrite Eb in HS. apply HS.
  intros j Hj. replace (Z.to_nat (0 + Z.of_nat j)) with j by lia. reflexivity.
Qed.

(** every boundary configuration of a run of all-[inl] iterations is bounded *)
Lemma iter_bounded Q C cells : prog_within_P Q C -> forall m s s',
  sim_ok cells s -> Forall (ltC C) (si_tape s) ->
  iter_nat (S m) (pbody cells) s = inl s' ->
  forall i, (i <= S m)%nat ->
  exists si, iter_nat i (pbody cells) s = inl si /\ sim_bounded Q C cells si.
Proof.
  intros HW. induction m as [|m IH]; intros s s' Hok Ht Hrun i Hi;
    cbn [iter_nat] in Hrun; pose proof (sim_body_bounded Q C cells s HW Ht) as HB;
    destruct (pbody cells s) as [s1|r] eqn:Eb; try discriminate;
    destruct HB as (B1 & B2 & B3); pose proof (sim_body_ok cells s s1 Hok Eb) as Hok1;
    (destruct i as [|i];
     [exists s; split; [reflexivity|]; split; [exact Hok|]; split; assumption|]).
  - assert (i = O) by lia. subst i. exists s1. cbn [iter_nat]. rewrite Eb.
    split; [reflexivity|]. split; [exact Hok1|]. split; assumption.
  - destruct (IH s1 s' Hok1 B3 Hrun i ltac:(lia)) as (si & Hsi & Bsi).
    exists si. cbn [iter_nat]. rewrite Eb. split; [exact Hsi|exact Bsi].
Qed.

(** PIGEONHOLE: a loop that survives [Q * cells * C^cells] iterations goes on
    for ever. *)
Lemma iter_forever Q C cells L s sL :
  prog_within_P Q C -> 0 < Q -> sim_ok cells s -> Forall (ltC C) (si_tape s) ->
  (N.to_nat (Q * cells * C ^ cells) <= L)%nat ->
  iter_nat L (pbody cells) s = inl sL ->
  forall m, exists sm, iter_nat m (pbody cells) s = inl sm.
Proof.
  intros HW HQ Hok Ht HL Hrun.
  remember (N.to_nat (Q * cells * C ^ cells)) as K eqn:EK.
  destruct (iter_nat_prefix (pbody cells) K L s sL Hrun HL) as [sK HK].
  destruct K as [|K'].
  { exfalso. destruct Hok as [Hl Hp].
    pose proof (encode_lt C _ Ht) as He. unfold mt_len in Hl. rewrite Hl in He.
    set (M := C ^ cells) in *.
    assert (Hz : Q * cells * M = 0) by lia.
    apply N.eq_mul_0 in Hz. destruct Hz as [Hz|Hz]; [|lia].
    apply N.eq_mul_0 in Hz. lia. }
  pose proof (iter_bounded Q C cells HW K' s sK Hok Ht HK) as HB.
  set (f := fun i => match iter_nat i (pbody cells) s with
                     | inl si => N.to_nat (code C cells si)
                     | inr _ => O
                     end).
  destruct (pigeonhole_fun (S K') f) as (i & j & Hij & Ef).
  { intros i Hi. destruct (HB i Hi) as (si & Hsi & Bsi). unfold f. rewrite Hsi.
    pose proof (code_lt Q C cells si Bsi). lia. }
  destruct (HB i ltac:(lia)) as (si & Hsi & Bsi).
  destruct (HB j ltac:(lia)) as (sj & Hsj & Bsj).
  unfold f in Ef. rewrite Hsi, Hsj in Ef.
  assert (E : si = sj) by (apply (code_inj Q C cells); [assumption..|lia]).
  subst sj. apply (iter_nat_periodic (pbody cells) i j s si); [lia|assumption..].
Qed.

(** a loop that goes on for ever keeps the base machine inside the window *)
Lemma forever_never_leaves cells lo s t :
  sim_ok cells s -> win_at t lo (si_tape s) ->
  (forall m, exists sm, iter_nat m (pbody cells) s = inl sm) ->
  never_leaves lo (N.to_nat cells) (cfg_of lo s t).
Proof.
  intros Hok Hw Hall n0. destruct (Hall (S n0)) as [sm Hm].
  pose proof (iter_sound cells lo (S n0) s t Hok Hw) as HI. rewrite Hm in HI.
  destruct HI as (_ & n & t' & Hn & (R & I & _) & _).
  destruct (a_steps_prefix P n n0 _ _ ltac:(lia) R) as [c' Hc'].
  exists c'. split; [exact Hc'|]. apply (I n0 c'); [lia|exact Hc'].
Qed.


Lemma iter_exit_bounded Q C cells : prog_within_P Q C -> forall m s,
  Forall (ltC C) (si_tape s) ->
  match iter_nat m (pbody cells) s with
  | inr (SxSide _ st' tp' _) => st' < Q /\ Forall (ltC C) tp'
  | _ => True
  end.
Proof.
  intros HW. induction m as [|m IH]; intros s Ht; cbn [iter_nat]; [exact I|].
  pose proof (sim_body_bounded Q C cells s HW Ht) as HB.
  destruct (pbody cells s) as [s1|[b|side st' tp' b|b]]; try exact I.
  - apply IH. apply HB.
  - exact HB.
Qed.

(** ---- [run_simulator] (macros.rs:174-230) ---- *)
Definition sim_start (st : state) (re : bool) (tp : mtape) : psim :=
  mkSim st tp (if re then mt_len tp - 1 else 0) tt.

Lemma sim_start_ok st re tp : tp <> [] -> sim_ok (mt_len tp) (sim_start st re tp).
Proof.
  intro Hne. unfold sim_ok, sim_start, mt_len. cbn [si_tape si_pos].
  split; [reflexivity|]. destruct tp as [|x tp]; [contradiction|]. cbn [length].
  destruct re; lia.
Qed.

Lemma cfg_of_start st re tp lo t :
  tp <> [] -> cfg_of lo (sim_start st re tp) t = mkA st (entry_pos re lo (length tp)) t.
Proof.
  intro Hne. unfold cfg_of, sim_start, entry_pos, mt_len. cbn [si_state si_pos].
  f_equal. destruct tp as [|x tp]; [contradiction|]. cbn [length]. destruct re; lia.
Qed.

Lemma run_simulator_unfold lg st re tp lim :
  macro_sim_lim lg = Ok lim -> tp <> [] ->
  run_simulator unit pget lg (st, (re, tp)) tt =
  match iter_nat (N.to_nat lim) (pbody (mt_len tp)) (sim_start st re tp) with
  | inl s => (Ok None, si_base s)
  | inr (SxNone b') => (Ok None, b')
  | inr (SxSide side st' tp' b') => (Ok (Some (st', (side, tp'))), b')
  | inr (SxPanic b') => (Panic, b')
  end.
Proof.
  intros Hlim Hne. unfold run_simulator. rewrite Hlim.
  assert (Hz : (mt_len tp =? 0) = false).
  { apply N.eqb_neq. unfold mt_len. destruct tp; [contradiction|cbn [length]; lia]. }
  rewrite Hz, andb_false_r. rewrite for_upto_iter. reflexivity.
Qed.

Theorem run_simulator_sound lg st re tp lim lo t :
  macro_sim_lim lg = Ok lim -> tp <> [] -> win_at t lo tp ->
  match fst (run_simulator unit pget lg (st, (re, tp)) tt) with
  | Ok (Some (st', (side, tp'))) =>
      length tp' = length tp /\
      leaves lo (length tp) (mkA st (entry_pos re lo (length tp)) t) side st' tp'
  | Ok None =>
      halts_inside lo (length tp) (mkA st (entry_pos re lo (length tp)) t) \/
      exists sL, iter_nat (N.to_nat lim) (pbody (mt_len tp)) (sim_start st re tp) = inl sL
  | Panic => False
  end.
Proof.
  intros Hlim Hne Hw. rewrite (run_simulator_unfold lg st re tp lim Hlim Hne).
  pose proof (iter_sound (mt_len tp) lo (N.to_nat lim) (sim_start st re tp) t
                (sim_start_ok st re tp Hne) Hw) as HI.
  rewrite (cfg_of_start st re tp lo t Hne) in HI.
  replace (N.to_nat (mt_len tp)) with (length tp) in HI by (unfold mt_len; lia).
  destruct (iter_nat (N.to_nat lim) (pbody (mt_len tp)) (sim_start st re tp))
    as [s'|[b|side st' tp' b|b]]; cbn [fst].
  - right. exists s'. reflexivity.
  - left. exact HI.
  - destruct HI as [Hl HL]. split; [unfold mt_len in Hl; lia|exact HL].
  - exact HI.
Qed.

(** the exit state and the exit tape are within the bounds of the program *)
Lemma run_simulator_bounded Q C lg st re tp lim st' side tp' :
  macro_sim_lim lg = Ok lim -> tp <> [] -> prog_within_P Q C -> Forall (ltC C) tp ->
  fst (run_simulator unit pget lg (st, (re, tp)) tt) = Ok (Some (st', (side, tp'))) ->
  st' < Q /\ Forall (ltC C) tp'.
Proof.
  intros Hlim Hne HW Ht. rewrite (run_simulator_unfold lg st re tp lim Hlim Hne).
  pose proof (iter_exit_bounded Q C (mt_len tp) HW (N.to_nat lim) (sim_start st re tp) Ht) as HB.
  destruct (iter_nat (N.to_nat lim) (pbody (mt_len tp)) (sim_start st re tp))
    as [s'|[b|side0 st0 tp0 b|b]]; cbn [fst]; intro E; try discriminate.
  injection E as -> -> ->. exact HB.
Qed.

(** [None] means: halts inside the window, or never leaves it — provided the
    iteration limit is at least the number of (state, position, contents)
    triples. *)
Theorem run_simulator_none Q C lg st re tp lim lo t :
  macro_sim_lim lg = Ok lim -> tp <> [] -> win_at t lo tp ->
  prog_within_P Q C -> Forall (ltC C) tp ->
  Q * mt_len tp * C ^ mt_len tp <= lim ->
  fst (run_simulator unit pget lg (st, (re, tp)) tt) = Ok None ->
  halts_inside lo (length tp) (mkA st (entry_pos re lo (length tp)) t) \/
  never_leaves lo (length tp) (mkA st (entry_pos re lo (length tp)) t).
Proof.
  intros Hlim Hne Hw HW Ht Hbound Hres.
  pose proof (run_simulator_sound lg st re tp lim lo t Hlim Hne Hw) as HS.
  rewrite Hres in HS. destruct HS as [HS|[sL HL]]; [left; exact HS|].
  pose proof (sim_start_ok st re tp Hne) as Hok.
  (* is the very first slot defined? *)
  destruct (a_step P (mkA st (entry_pos re lo (length tp)) t)) as [c1|] eqn:E1.
  - right. assert (HQ : 0 < Q).
    { unfold a_step in E1. cbn [a_q a_h a_t] in E1.
      destruct (P (st, t (entry_pos re lo (length tp)))) as [[[pr sh] q']|] eqn:HP; [|discriminate].
      destruct (HW _ _ _ _ _ HP) as (Hq & _). lia. }
    pose proof (iter_forever Q C (mt_len tp) (N.to_nat lim) (sim_start st re tp) sL
                  HW HQ Hok Ht ltac:(lia) HL) as Hall.
    pose proof (forever_never_leaves (mt_len tp) lo (sim_start st re tp) t Hok Hw Hall) as HN.
    rewrite (cfg_of_start st re tp lo t Hne) in HN.
    replace (N.to_nat (mt_len tp)) with (length tp) in HN by (unfold mt_len; lia). exact HN.
  - left. exists 0%nat, (mkA st (entry_pos re lo (length tp)) t).
    split; [apply wrun_refl|]. split; [|exact E1].
    cbn [a_h]. unfold inside, entry_pos. destruct tp as [|x tp]; [contradiction|].
    cbn [length]. destruct re; lia.
Qed.

(** ... and conversely *)
Theorem run_simulator_none_conv lg st re tp lim lo t :
  macro_sim_lim lg = Ok lim -> tp <> [] -> win_at t lo tp ->
  halts_inside lo (length tp) (mkA st (entry_pos re lo (length tp)) t) \/
  never_leaves lo (length tp) (mkA st (entry_pos re lo (length tp)) t) ->
  fst (run_simulator unit pget lg (st, (re, tp)) tt) = Ok None.
Proof.
  intros Hlim Hne Hw Hor.
  pose proof (run_simulator_sound lg st re tp lim lo t Hlim Hne Hw) as HS.
  destruct (fst (run_simulator unit pget lg (st, (re, tp)) tt)) as [|[[st' [side tp']]|]];
    [contradiction| |reflexivity].
  exfalso. destruct HS as [_ HL]. destruct Hor as [Hh|Hn].
  - exact (leaves_not_halts _ _ _ _ _ _ HL Hh).
  - exact (leaves_not_never _ _ _ _ _ _ HL Hn).
Qed.

End Core.

(** ---- a deterministic run leaves a window in one way only ---- *)
Lemma nth_ext_len (a b : list colour) :
  length a = length b -> (forall i, (i < length a)%nat -> nth i a 0 = nth i b 0) -> a = b.
Proof.
  revert b. induction a as [|x a IH]; intros [|y b] Hl H; cbn [length] in Hl; try lia; [reflexivity|].
  f_equal.
  - apply (H O). cbn [length]. lia.
  - apply IH; [lia|]. intros i Hi. apply (H (S i)). cbn [length]. lia.
Qed.

Lemma leaves_unique P lo len c side1 st1 tp1 side2 st2 tp2 :
  leaves P lo len c side1 st1 tp1 -> leaves P lo len c side2 st2 tp2 ->
  length tp1 = len -> length tp2 = len ->
  side1 = side2 /\ st1 = st2 /\ tp1 = tp2.
Proof.
  intros (n1 & t1 & Hn1 & (R1 & I1 & _) & W1) (n2 & t2 & Hn2 & (R2 & I2 & _) & W2) L1 L2.
  assert (En : n1 = n2).
  { destruct (Nat.lt_trichotomy n1 n2) as [L|[E|G]]; [exfalso|exact E|exfalso].
    - pose proof (I2 n1 _ L R1) as Hin. cbn [a_h] in Hin. unfold inside in Hin.
      destruct side1; lia.
    - pose proof (I1 n2 _ G R2) as Hin. cbn [a_h] in Hin. unfold inside in Hin.
      destruct side2; lia. }
  subst n2. rewrite R1 in R2. injection R2 as Est Eh Et.
  split; [|split].
  - destruct side1, side2; try reflexivity; lia.
  - exact Est.
  - apply nth_ext_len; [lia|]. intros i Hi.
    rewrite <- (W1 i Hi), <- (W2 i ltac:(lia)), Et. reflexivity.
Qed.

(** ---- from one macro step to the whole run (shared by C08 and C09) ---- *)
Section RunSim.
Variables (P M : prog) (dec : aconf -> aconf) (Inv : aconf -> Prop).
Hypothesis step_sim : forall c c', Inv c -> a_step M c = Some c' ->
  Inv c' /\
  exists n cb, (1 <= n)%nat /\ a_steps P n (dec c) = Some cb /\ aconf_eq cb (dec c').

Lemma a_steps_transport_ n c1 c2 d1 :
  aconf_eq c1 c2 -> a_steps P n c1 = Some d1 ->
  exists d2, a_steps P n c2 = Some d2 /\ aconf_eq d1 d2.
Proof.
  intros He H1. pose proof (AbsEquiv.a_steps_ext P n c1 c2 He) as Hx. rewrite H1 in Hx.
  destruct (a_steps P n c2) as [d2|]; [|contradiction]. exists d2. split; [reflexivity|exact Hx].
Qed.

Theorem run_sim_generic c0 n :
  Inv c0 ->
  exists tm : nat -> nat,
    tm O = O /\ (forall i, (i < n)%nat -> (tm i < tm (S i))%nat) /\
    forall i ci, (i <= n)%nat -> a_steps M i c0 = Some ci ->
      Inv ci /\ exists cb, a_steps P (tm i) (dec c0) = Some cb /\ aconf_eq cb (dec ci).
Proof.
  intro Hinv0. induction n as [|n (tm & T0 & Tmono & Tsim)].
  - exists (fun _ => O). split; [reflexivity|]. split; [intros i Hi; lia|].
    intros i ci Hi Hc. assert (i = O) by lia. subst i. cbn [a_steps] in Hc. injection Hc as <-.
    split; [exact Hinv0|].
    exists (dec c0). split; [reflexivity|apply AbsEquiv.aconf_eq_refl].
  - assert (Hd : exists d, (1 <= d)%nat /\
              forall cn cn1, a_steps M n c0 = Some cn -> a_step M cn = Some cn1 ->
                Inv cn1 /\
                exists cb, a_steps P (tm n + d) (dec c0) = Some cb /\ aconf_eq cb (dec cn1)).
    { destruct (a_steps M n c0) as [cn|] eqn:En; [|exists 1%nat; split; [lia|discriminate]].
      destruct (a_step M cn) as [cn1|] eqn:Es.
      2:{ exists 1%nat. split; [lia|]. intros ? ? E. injection E as <-. rewrite Es. discriminate. }
      destruct (Tsim n cn (le_n _) En) as (Hinvn & cbn & Rn & En').
      destruct (step_sim cn cn1 Hinvn Es) as (Hinv1 & d & cb1 & Hd & R1 & E1).
      destruct (a_steps_transport_ d (dec cn) cbn cb1 (AbsEquiv.aconf_eq_sym _ _ En') R1)
        as (cb2 & R2 & E2).
      exists d. split; [exact Hd|]. intros ? ? E E'. injection E as <-. rewrite Es in E'.
      injection E' as <-. split; [exact Hinv1|]. exists cb2. split.
      - rewrite a_steps_add, Rn. exact R2.
      - eapply AbsEquiv.aconf_eq_trans; [apply AbsEquiv.aconf_eq_sym; exact E2|exact E1]. }
    destruct Hd as (d & Hd & Hstep).
    exists (fun i => if (i <=? n)%nat then tm i else (tm n + d)%nat).
    split; [cbn; exact T0|]. split.
    + intros i Hi. destruct (Nat.leb_spec i n) as [L|G]; [|lia].
      destruct (Nat.leb_spec (S i) n) as [L'|G'].
      * apply Tmono. lia.
      * assert (i = n) by lia. subst i. lia.
    + intros i ci Hi Hc. destruct (Nat.leb_spec i n) as [L|G].
      * apply (Tsim i ci L Hc).
      * assert (i = S n) by lia. subst i.
        replace (S n) with (n + 1)%nat in Hc by lia. rewrite a_steps_add in Hc.
        destruct (a_steps M n c0) as [cn|] eqn:En; [|discriminate].
        cbn [a_steps] in Hc. destruct (a_step M cn) as [cn1|] eqn:Es; [|discriminate].
        injection Hc as <-. apply (Hstep cn cn1 eq_refl Es).
Qed.

Lemma clock_ge (tm : nat -> nat) n :
  (forall i, (i < n)%nat -> (tm i < tm (S i))%nat) -> (n <= tm n)%nat.
Proof.
  induction n as [|n IH]; intro H; [lia|].
  assert (tm n < tm (S n))%nat by (apply H; lia).
  assert (n <= tm n)%nat by (apply IH; intros i Hi; apply H; lia). lia.
Qed.
End RunSim.

(** ---- plain base programs given as tables ---- *)
Definition plain_get (comp : comp_prog) : unit -> slot -> outcome (option instr) * unit :=
  pget (to_prog comp).

Definition entry_within (Q C : N) (e : slot * instr) : bool :=
  let '((q, c), (pr, _, q')) := e in (q <? Q) && (c <? C) && (pr <? C) && (q' <? Q).

(** all keys and all instruction components are below (Q states, C colours) *)
Definition prog_within (comp : comp_prog) (Q C : N) : Prop :=
  forallb (entry_within Q C) comp = true.

Lemma cp_get_In_ comp sl i : cp_get comp sl = Some i -> In (sl, i) comp.
Proof.
  induction comp as [|[k v] comp IH]; cbn [cp_get]; [discriminate|].
  destruct (slot_eqb k sl) eqn:E.
  - intro H. injection H as <-. left. f_equal.
    unfold slot_eqb in E. apply andb_true_iff in E. destruct E as [E1 E2].
    apply N.eqb_eq in E1, E2. destruct k, sl. cbn [fst snd] in *. subst. reflexivity.
  - intro H. right. apply IH. exact H.
Qed.

Lemma prog_within_sound comp Q C : prog_within comp Q C -> prog_within_P (to_prog comp) Q C.
Proof.
  intros H q c pr sh q' Hg. unfold to_prog in Hg. apply cp_get_In_ in Hg.
  unfold prog_within in H. rewrite forallb_forall in H. specialize (H _ Hg).
  cbn [entry_within] in H. rewrite !andb_true_iff in H. destruct H as (((H1 & H2) & H3) & H4).
  apply N.ltb_lt in H1, H2, H3, H4. repeat split; assumption.
Qed.

Print Assumptions sim_body_sound.
Print Assumptions run_simulator_sound.
Print Assumptions run_simulator_none.
Print Assumptions run_simulator_none_conv.
Print Assumptions leaves_unique.
Print Assumptions run_sim_generic.
