(** The two presentations of the machine agree: the zipper presentation
    (Spec/TM.v, the semantics a reader has to believe) and the absolute-tape
    presentation (Spec/TMabs.v) are related by [abs_of].  Tapes of the
    absolute presentation are functions, so everything is stated pointwise
    ([aeq], [aconf_eq]); no function equality is ever needed. *)
From BB Require Import Base TM TMabs TapeCanon StepSim.
Open Scope Z_scope.

(** ---- [aeq] / [aconf_eq] are equivalences ---- *)
Lemma aeq_refl t : aeq t t.
Proof. intro x; reflexivity. Qed.
Lemma aeq_sym t1 t2 : aeq t1 t2 -> aeq t2 t1.
Proof. intros H x; symmetry; apply H. Qed.
Lemma aeq_trans t1 t2 t3 : aeq t1 t2 -> aeq t2 t3 -> aeq t1 t3.
Proof. intros H1 H2 x. rewrite H1. apply H2. Qed.

Lemma aconf_eq_refl c : aconf_eq c c.
Proof. split; [reflexivity|]. split; [reflexivity|apply aeq_refl]. Qed.
Lemma aconf_eq_sym c1 c2 : aconf_eq c1 c2 -> aconf_eq c2 c1.
Proof.
  intros (Hq & Hh & Ht). split; [symmetry; exact Hq|].
  split; [symmetry; exact Hh|apply aeq_sym; exact Ht].
Qed.
Lemma aconf_eq_trans c1 c2 c3 : aconf_eq c1 c2 -> aconf_eq c2 c3 -> aconf_eq c1 c3.
Proof.
  intros (Hq & Hh & Ht) (Gq & Gh & Gt). split; [congruence|].
  split; [congruence|eapply aeq_trans; eassumption].
Qed.

Lemma a_write_ext t1 t2 h pr : aeq t1 t2 -> aeq (a_write t1 h pr) (a_write t2 h pr).
Proof. intros H x. unfold a_write. destruct (x =? h); [reflexivity|apply H]. Qed.

(** ---- [abs_of]: reading the three regions ---- *)
Lemma abs_of_head z h : abs_of z h h = zc z.
Proof. unfold abs_of. rewrite Z.ltb_irrefl, Z.eqb_refl. reflexivity. Qed.

Lemma abs_of_left z h x : x < h -> abs_of z h x = cell (zl z) (Z.to_nat (h - x - 1)).
Proof.
  intro Hx. unfold abs_of. destruct (Z.ltb_spec x h) as [_|Hge]; [reflexivity|lia].
Qed.

Lemma abs_of_right z h x : h < x -> abs_of z h x = cell (zr z) (Z.to_nat (x - h - 1)).
Proof.
  intro Hx. unfold abs_of. destruct (Z.ltb_spec x h) as [Hlt|_]; [lia|].
  destruct (Z.eqb_spec x h) as [He|_]; [lia|reflexivity].
Qed.

(** A.2: one zipper move is one absolute write (the head moves by one). *)
Lemma abs_of_move : forall z h sh pr,
  aeq (abs_of (tm_move z sh pr) (if sh then h + 1 else h - 1))
      (a_write (abs_of z h) h pr).
Proof.
  intros z h sh pr x. unfold a_write.
  destruct (Z.eqb_spec x h) as [E|E].
  - subst x. destruct sh.
    + rewrite abs_of_left by lia. cbn [tm_move zl].
      replace (Z.to_nat (h + 1 - h - 1)) with O by lia. reflexivity.
    + rewrite abs_of_right by lia. cbn [tm_move zr].
      replace (Z.to_nat (h - (h - 1) - 1)) with O by lia. reflexivity.
  - destruct (Z.lt_total x h) as [L|[L|L]]; [|contradiction|].
    + rewrite (abs_of_left z h x L). destruct sh.
      * rewrite abs_of_left by lia. cbn [tm_move zl].
        replace (Z.to_nat (h + 1 - x - 1)) with (S (Z.to_nat (h - x - 1))) by lia.
        apply cell_cons.
      * destruct (Z.eq_dec x (h - 1)) as [E1|E1].
        -- subst x. rewrite abs_of_head. cbn [tm_move zc]. rewrite cell_hd0.
           replace (Z.to_nat (h - (h - 1) - 1)) with O by lia. reflexivity.
        -- rewrite abs_of_left by lia. cbn [tm_move zl]. rewrite cell_tl.
           f_equal. lia.
    + rewrite (abs_of_right z h x L). destruct sh.
      * destruct (Z.eq_dec x (h + 1)) as [E1|E1].
        -- subst x. rewrite abs_of_head. cbn [tm_move zc]. rewrite cell_hd0.
           replace (Z.to_nat (h + 1 - h - 1)) with O by lia. reflexivity.
        -- rewrite abs_of_right by lia. cbn [tm_move zr]. rewrite cell_tl.
           f_equal. lia.
      * rewrite abs_of_right by lia. cbn [tm_move zr].
        replace (Z.to_nat (x - (h - 1) - 1)) with (S (Z.to_nat (x - h - 1))) by lia.
        apply cell_cons.
Qed.

(** A.3: zippers equal up to trailing blanks have the same absolute tape. *)
Lemma abs_of_tape_eq z1 z2 h : tape_eq z1 z2 -> aeq (abs_of z1 h) (abs_of z2 h).
Proof.
  intros (H1 & H2 & H3) x. unfold abs_of.
  destruct (x <? h); [apply H1|]. destruct (x =? h); [exact H2|apply H3].
Qed.

(** ... and conversely. *)
Lemma abs_of_tape_eq_inv z1 z2 h : aeq (abs_of z1 h) (abs_of z2 h) -> tape_eq z1 z2.
Proof.
  intro H. split; [|split].
  - intro i. pose proof (H (h - Z.of_nat i - 1)) as Hi.
    rewrite !abs_of_left in Hi by lia.
    replace (Z.to_nat (h - (h - Z.of_nat i - 1) - 1)) with i in Hi by lia. exact Hi.
  - pose proof (H h) as Hh. rewrite !abs_of_head in Hh. exact Hh.
  - intro i. pose proof (H (h + Z.of_nat i + 1)) as Hi.
    rewrite !abs_of_right in Hi by lia.
    replace (Z.to_nat (h + Z.of_nat i + 1 - h - 1)) with i in Hi by lia. exact Hi.
Qed.

Section AbsEquiv.
Variable P : prog.

(** A.1: [a_step] / [a_steps] respect pointwise equality of configurations. *)
Lemma a_step_ext c1 c2 :
  aconf_eq c1 c2 ->
  match a_step P c1, a_step P c2 with
  | Some d1, Some d2 => aconf_eq d1 d2
  | None, None => True
  | _, _ => False
  end.
Proof.
  intros (Hq & Hh & Ht). unfold a_step.
  rewrite <- Hq, <- Hh, <- (Ht (a_h c1)).
  destruct (P (a_q c1, a_t c1 (a_h c1))) as [[[pr sh] q']|]; [|exact I].
  unfold aconf_eq. cbn [a_q a_h a_t].
  split; [reflexivity|]. split; [reflexivity|]. apply a_write_ext. exact Ht.
Qed.

Lemma a_steps_ext n : forall c1 c2,
  aconf_eq c1 c2 ->
  match a_steps P n c1, a_steps P n c2 with
  | Some d1, Some d2 => aconf_eq d1 d2
  | None, None => True
  | _, _ => False
  end.
Proof.
  induction n as [|n IH]; intros c1 c2 H; cbn [a_steps]; [exact H|].
  pose proof (a_step_ext c1 c2 H) as Hs.
  destruct (a_step P c1) as [d1|], (a_step P c2) as [d2|]; try contradiction.
  - apply IH. exact Hs.
  - exact I.
Qed.

(** A.4, generalised to any absolute tape pointwise equal to [abs_of z h]
    (needed for the induction in A.5, where the tape after one step is only
    [aeq] to the [abs_of] of the moved zipper). *)
Lemma zipper_abs_step_gen q z h t q' z' :
  aeq t (abs_of z h) ->
  tm_step P (q, z) = Some (q', z') ->
  exists c', a_step P (mkA q h t) = Some c' /\ a_q c' = q' /\
             aeq (a_t c') (abs_of z' (a_h c')) /\
             (a_h c' = h + 1 \/ a_h c' = h - 1).
Proof.
  intros Ht Hs. cbn [tm_step] in Hs. unfold a_step. cbn [a_q a_h a_t].
  rewrite (Ht h), abs_of_head.
  destruct (P (q, zc z)) as [[[pr sh] q1]|]; [|discriminate].
  injection Hs as E1 E2. subst q1 z'.
  eexists. split; [reflexivity|]. cbn [a_q a_h a_t].
  split; [reflexivity|]. split.
  - eapply aeq_trans; [apply a_write_ext; exact Ht|]. apply aeq_sym, abs_of_move.
  - destruct sh; [left|right]; reflexivity.
Qed.

Lemma zipper_abs_step_none_gen q z h t :
  aeq t (abs_of z h) ->
  (tm_step P (q, z) = None <-> a_step P (mkA q h t) = None).
Proof.
  intro Ht. cbn [tm_step]. unfold a_step. cbn [a_q a_h a_t].
  rewrite (Ht h), abs_of_head.
  destruct (P (q, zc z)) as [[[pr sh] q1]|]; split; intro H;
    try discriminate; reflexivity.
Qed.

Theorem zipper_abs_step q z h q' z' :
  tm_step P (q, z) = Some (q', z') ->
  exists c', a_step P (mkA q h (abs_of z h)) = Some c' /\ a_q c' = q' /\
             aeq (a_t c') (abs_of z' (a_h c')) /\
             (a_h c' = h + 1 \/ a_h c' = h - 1).
Proof. apply zipper_abs_step_gen. apply aeq_refl. Qed.

Theorem zipper_abs_step_none q z h :
  tm_step P (q, z) = None <-> a_step P (mkA q h (abs_of z h)) = None.
Proof. apply zipper_abs_step_none_gen. apply aeq_refl. Qed.

(** A.5 *)
Lemma zipper_abs_steps_gen n : forall q z h t,
  aeq t (abs_of z h) ->
  match tm_steps P n (q, z) with
  | Some (q', z') =>
      exists h', exists t',
        a_steps P n (mkA q h t) = Some (mkA q' h' t') /\ aeq t' (abs_of z' h')
  | None => a_steps P n (mkA q h t) = None
  end.
Proof.
  induction n as [|n IH]; intros q z h t Ht.
  - cbn [tm_steps a_steps]. exists h, t. split; [reflexivity|exact Ht].
  - cbn [tm_steps a_steps]. destruct (tm_step P (q, z)) as [[q1 z1]|] eqn:Es.
    + destruct (zipper_abs_step_gen q z h t q1 z1 Ht Es)
        as ([q1' h1 t1] & Ha & Hq & Ht1 & _).
      cbn [a_q a_h a_t] in Hq, Ht1. subst q1'. rewrite Ha. apply IH. exact Ht1.
    + apply (zipper_abs_step_none_gen q z h t Ht) in Es. rewrite Es. reflexivity.
Qed.

Theorem zipper_abs_steps : forall n q z h,
  match tm_steps P n (q, z) with
  | Some (q', z') =>
      exists h', exists t',
        a_steps P n (mkA q h (abs_of z h)) = Some (mkA q' h' t') /\
        aeq t' (abs_of z' h')
  | None => a_steps P n (mkA q h (abs_of z h)) = None
  end.
Proof. intros n q z h. apply zipper_abs_steps_gen. apply aeq_refl. Qed.

Theorem never_halts_abs q z h :
  a_never_halts P (mkA q h (abs_of z h)) <-> never_halts P (q, z).
Proof.
  split; intros H n; specialize (H n); pose proof (zipper_abs_steps n q z h) as Hs.
  - destruct (tm_steps P n (q, z)) as [[q' z']|]; [eexists; reflexivity|].
    destruct H as [c' Hc]. rewrite Hs in Hc. discriminate.
  - destruct H as [[q' z'] Hc]. rewrite Hc in Hs.
    destruct Hs as (h' & t' & Ha & _). eexists. exact Ha.
Qed.

(** The spin-out event is the same event in both presentations. *)
Lemma spinout_abs q z h :
  a_spinout_cfg P (mkA q h (abs_of z h)) <-> spinout_cfg P (q, z).
Proof.
  unfold a_spinout_cfg, spinout_cfg. cbn [a_q a_h a_t]. rewrite abs_of_head.
  split.
  - intros (H0 & pr & sh & HP & Hb). split; [exact H0|].
    exists pr, sh. split; [exact HP|]. intro i. destruct sh; cbn [side].
    + pose proof (Hb (h + Z.of_nat i + 1)) as Hi. rewrite abs_of_right in Hi by lia.
      replace (Z.to_nat (h + Z.of_nat i + 1 - h - 1)) with i in Hi by lia.
      apply Hi. lia.
    + pose proof (Hb (h - Z.of_nat i - 1)) as Hi. rewrite abs_of_left in Hi by lia.
      replace (Z.to_nat (h - (h - Z.of_nat i - 1) - 1)) with i in Hi by lia.
      apply Hi. lia.
  - intros (H0 & pr & sh & HP & Hb). split; [exact H0|].
    exists pr, sh. split; [exact HP|]. intros x Hx. destruct sh; cbn [side] in Hb.
    + rewrite abs_of_right by lia. apply Hb.
    + rewrite abs_of_left by lia. apply Hb.
Qed.

End AbsEquiv.

Print Assumptions a_steps_ext.
Print Assumptions abs_of_move.
Print Assumptions abs_of_tape_eq.
Print Assumptions zipper_abs_step.
Print Assumptions zipper_abs_step_none.
Print Assumptions zipper_abs_steps.
Print Assumptions never_halts_abs.
Print Assumptions spinout_abs.
