(** C04: the [blanks] pruning of the backward reasoner only ever removes TRUE
    DUPLICATES (model: Model/ReasonModel.v + Model/ReasonInstr.v; code:
    /repo/src/reason.rs:275-277).

    RESULT ([skips_always_justified]): for every table whose slots are
    pairwise distinct ([NoDup (map fst comp)]: the Rust [CompProg] is a
    [BTreeMap]; the hypothesis is necessary, [dup_keys_unjustified]), every
    pair of switches, every depth and WHATEVER the answer of the run, the
    decidable run guard [bw_skips_justified] holds for the halt targets and
    for the spin-out targets.  Hence the guard can be dropped from the global
    soundness theorems of Proofs/ReasonSound.v
    ([bw_halt_refuted_sound_nodrop], [bw_spinout_refuted_sound_nodrop]).

    WHY.  (1) An indefinite block [(c,0)] is created by [push_indef] only
    when [check_spinout] says [Some true], i.e. on top of a block of ANOTHER
    colour (or on the bare end [EndBlanks] with [c <> 0]); it is never
    removed (a step that would pull it is diverted to [indef_steps]) and the
    blocks below it never change.  So a tape with an indefinite block is never
    "blank" ([span_wf_blank_def]).  (2) A configuration WITHOUT indefinite
    blocks at depth d comes from a target by d plain backward steps along
    real instructions ([chain]); every concretisation of it runs FORWARD, in
    exactly d steps, into the target ([chain_run]), and the chain is
    determined by that forward run ([chain_det]).  (3) Two "blank"
    configurations in the same state p both cover (p, blank tape), so both
    chains are read off the one run of the machine started in state p on the
    blank tape.  For halting the run reaches a halt slot at one time only, so
    the two chains have the same length and the same target
    ([halt_merge]); for spinning out the run, once it spins, spins for ever
    in the same state and direction, and a backward step of a spin-out
    target along its own instruction gives the same tape again
    ([spin_merge]).  Either way the two tapes are identical up to [bs_head]
    ([blank_unique]). *)
From BB Require Import Base TM Ref InstrsModel TapeModel TapeCanon TapeObs StepSim Loops.
From BB Require Import ReasonModel ReasonInstr ReasonFacts BackstepSound ReasonSound.
From BB Require InstrsRoundTrip GraphConn.
From Coq Require Import Sorted.

(** ------------------------------------------------------------------ *)
(** * 1. One backward step, read FORWARD *)

Lemma bspan_push_fwd s l c :
  span_conc (bspan_push s c 1) l -> cell l 0 = c /\ span_conc s (tl l).
Proof.
  unfold span_conc, bspan_push, bspan_push_block.
  destruct (sp_blocks s) as [|[c' n] rest] eqn:Eb.
  - destruct ((c =? 0) && tape_end_eqb (sp_end s) EndBlanks) eqn:E.
    + apply andb_prop in E as [E1 E2]. apply N.eqb_eq in E1. subst c.
      rewrite Eb. destruct (sp_end s); [|discriminate]. cbn [blocks_conc].
      intro H. split; [apply H|apply all_blank_tl; exact H].
    + cbn [sp_blocks sp_end blocks_conc fst snd]. rewrite eqb_1_0.
      intros (k & Hk & Hc & Hr). subst k. split; [apply Hc; lia|].
      rewrite skipn_1_tl in Hr. exact Hr.
  - destruct ((c' =? c) && negb (n =? 0)) eqn:E.
    + apply andb_prop in E as [E1 E2]. apply N.eqb_eq in E1. subst c'.
      apply negb_true_iff in E2. cbn [sp_blocks sp_end blocks_conc fst snd]. rewrite E2.
      apply N.eqb_neq in E2.
      destruct (n + 1 =? 0) eqn:E3; [apply N.eqb_eq in E3; lia|].
      intros (k & Hk & Hc & Hr). subst k. split; [apply Hc; lia|].
      exists (N.to_nat n). split; [reflexivity|]. split.
      * intros i Hi. rewrite cell_tl. apply Hc. lia.
      * rewrite skipn_tl. replace (S (N.to_nat n)) with (N.to_nat (n + 1)) by lia. exact Hr.
    + cbn [sp_blocks sp_end blocks_conc fst snd]. rewrite eqb_1_0.
      intros (k & Hk & Hc & Hr). subst k. split; [apply Hc; lia|].
      rewrite skipn_1_tl in Hr. exact Hr.
Qed.

Lemma bspan_pull_fwd s l c :
  bspan_matches_color s c = true -> span_indef_front s = false ->
  span_conc (bspan_pull s) l -> span_conc s (c :: l).
Proof.
  unfold span_conc, bspan_matches_color, span_indef_front, bspan_pull.
  destruct (sp_blocks s) as [|[c' n] rest] eqn:Eb.
  - intros Hm _. rewrite Eb. cbn [blocks_conc].
    destruct (sp_end s); cbn [end_matches_color] in Hm; [|intros; exact I].
    apply N.eqb_eq in Hm. subst c. apply all_blank_cons0.
  - cbn [fst snd]. intros Hm Hn. apply N.eqb_eq in Hm. subst c'.
    cbn [blocks_conc fst snd]. rewrite Hn. apply N.eqb_neq in Hn.
    destruct (n =? 1) eqn:E1.
    + apply N.eqb_eq in E1. subst n. cbn [sp_blocks sp_end]. intro H.
      exists 1%nat. split; [reflexivity|]. split.
      * intros i Hi. assert (i = 0%nat) by lia. subst i. reflexivity.
      * exact H.
    + apply N.eqb_neq in E1. cbn [sp_blocks sp_end blocks_conc fst snd].
      destruct (n - 1 =? 0) eqn:E2; [apply N.eqb_eq in E2; lia|].
      intros (k & Hk & Hc & Hr). subst k. exists (N.to_nat n). split; [reflexivity|]. split.
      * intros [|i] Hi; [reflexivity|]. rewrite cell_cons. apply Hc. lia.
      * replace (N.to_nat n) with (S (N.to_nat (n - 1))) by lia. exact Hr.
Qed.

(** the converse of [backstep_covers]: every tape described by the abstract
    predecessor scans the colour read and steps into a tape described by
    the abstract successor *)
Lemma backstep_fwd t sh pr co z :
  check_step t sh pr = true -> pulls_indef t sh = false ->
  bs_conc (backstep t sh co) z ->
  zc z = co /\ bs_conc t (tm_move z sh pr).
Proof.
  intros Hck Hp (C1 & C2 & C3). rewrite pulls_indef_front in Hp. unfold check_step in Hck.
  unfold backstep in *. destruct sh; cbn [bs_scan bs_lspan bs_rspan] in *.
  - split; [exact C1|]. apply bspan_push_fwd in C3. destruct C3 as [D1 D2].
    unfold bs_conc. cbn [tm_move zl zc zr]. split; [rewrite cell_hd0; exact D1|].
    split; [apply bspan_pull_fwd; assumption|exact D2].
  - split; [exact C1|]. apply bspan_push_fwd in C2. destruct C2 as [D1 D2].
    unfold bs_conc. cbn [tm_move zl zc zr]. split; [rewrite cell_hd0; exact D1|].
    split; [exact D2|apply bspan_pull_fwd; assumption].
Qed.

(** ------------------------------------------------------------------ *)
(** * 2. Same tape up to [bs_head] *)
Definition same_tape (a b : backstepper) : Prop :=
  bs_scan a = bs_scan b /\ bs_lspan a = bs_lspan b /\ bs_rspan a = bs_rspan b.

Lemma same_tape_refl a : same_tape a a.
Proof. repeat split. Qed.
Lemma same_tape_sym a b : same_tape a b -> same_tape b a.
Proof. intros (A & B & C). repeat split; congruence. Qed.
Lemma same_tape_trans a b c : same_tape a b -> same_tape b c -> same_tape a c.
Proof. intros (A & B & C) (D & E & F). repeat split; congruence. Qed.

Lemma same_tape_backstep a b sh co : same_tape a b -> same_tape (backstep a sh co) (backstep b sh co).
Proof.
  intros (A & B & C). unfold backstep. destruct sh; unfold same_tape; cbn [bs_scan bs_lspan bs_rspan];
    rewrite A, B, C; repeat split.
Qed.

Lemma bspan_eqb_refl s : bspan_eqb s s = true.
Proof.
  unfold bspan_eqb. apply andb_true_intro. split; [apply span_eqb_eq; reflexivity|].
  destruct (sp_end s); reflexivity.
Qed.

Lemma same_tape_bs_same a b : same_tape a b -> bs_same a b = true.
Proof.
  intros (A & B & C). unfold bs_same. rewrite A, B, C, N.eqb_refl, !bspan_eqb_refl. reflexivity.
Qed.

(** ------------------------------------------------------------------ *)
(** * 3. Indefinite blocks: well-formedness, definiteness *)

(** every indefinite block sits on a block of another colour, or on the bare
    end [EndBlanks] with a non-zero colour *)
Fixpoint blocks_wf (bs : span) (e : tape_end) : Prop :=
  match bs with
  | [] => True
  | b :: rest =>
      (snd b = 0 -> match rest with
                    | [] => e = EndBlanks /\ fst b <> 0
                    | b' :: _ => fst b' <> fst b
                    end) /\ blocks_wf rest e
  end.
Definition span_wf (s : bspan) : Prop := blocks_wf (sp_blocks s) (sp_end s).
Definition bs_wf (t : backstepper) : Prop := span_wf (bs_lspan t) /\ span_wf (bs_rspan t).

(** no indefinite block *)
Definition span_def (s : bspan) : bool := forallb (fun b : block => negb (snd b =? 0)) (sp_blocks s).
Definition bs_def (t : backstepper) : bool := span_def (bs_lspan t) && span_def (bs_rspan t).

Lemma blocks_wf_blank_def e : forall bs,
  blocks_wf bs e -> forallb (fun b : block => fst b =? 0) bs = true ->
  forallb (fun b : block => negb (snd b =? 0)) bs = true.
Proof.
  induction bs as [|[c n] rest IH]; intros Hw Hb; [reflexivity|].
  cbn [blocks_wf forallb fst snd] in *. destruct Hw as [Hw1 Hw2].
  apply andb_prop in Hb as [Hb1 Hb2]. apply N.eqb_eq in Hb1. subst c.
  rewrite (IH Hw2 Hb2), andb_true_r. apply negb_true_iff. apply N.eqb_neq. intro En.
  specialize (Hw1 En). destruct rest as [|[c' n'] rest'].
  - destruct Hw1 as [_ H]. apply H. reflexivity.
  - cbn [forallb fst] in Hb2. apply andb_prop in Hb2 as [Hb2 _]. apply N.eqb_eq in Hb2.
    cbn [fst] in Hw1. apply Hw1. exact Hb2.
Qed.

Lemma span_wf_blank_def s : span_wf s -> bspan_blank s = true -> span_def s = true.
Proof. apply blocks_wf_blank_def. Qed.

Lemma bs_wf_blank_def t : bs_wf t -> bs_blank t = true -> bs_def t = true.
Proof.
  intros [W1 W2] Hb. unfold bs_blank in Hb. apply andb_prop in Hb as [Hb Hb3].
  apply andb_prop in Hb as [_ Hb2]. unfold bs_def.
  rewrite (span_wf_blank_def _ W1 Hb2), (span_wf_blank_def _ W2 Hb3). reflexivity.
Qed.

Lemma span_wf_pull s : span_wf s -> span_wf (bspan_pull s).
Proof.
  unfold span_wf, bspan_pull. destruct (sp_blocks s) as [|[c n] rest] eqn:Eb; [rewrite Eb; auto|].
  cbn [blocks_wf fst snd]. intros [H1 H2].
  destruct (n =? 1) eqn:E1; [exact H2|].
  destruct (n =? 0) eqn:E0; [rewrite Eb; cbn [blocks_wf fst snd]; split; assumption|].
  cbn [sp_blocks sp_end blocks_wf fst snd]. split; [|exact H2].
  apply N.eqb_neq in E1, E0. intro H. lia.
Qed.

Lemma span_wf_push s c : span_wf s -> span_wf (bspan_push s c 1).
Proof.
  unfold span_wf, bspan_push, bspan_push_block.
  destruct (sp_blocks s) as [|[c' n] rest] eqn:Eb.
  - destruct ((c =? 0) && tape_end_eqb (sp_end s) EndBlanks); [rewrite Eb; auto|].
    cbn [sp_blocks sp_end blocks_wf fst snd]. intros _. split; [intro H; discriminate|exact I].
  - destruct ((c' =? c) && negb (n =? 0)) eqn:E.
    + apply andb_prop in E as [_ E2]. apply negb_true_iff in E2. apply N.eqb_neq in E2.
      cbn [sp_blocks sp_end blocks_wf fst snd]. intros [H1 H2]. split; [intro H; lia|exact H2].
    + cbn [sp_blocks sp_end]. intro H. cbn [blocks_wf fst snd]. split; [intro H0; discriminate|exact H].
Qed.

Lemma span_def_pull s : span_def (bspan_pull s) = true -> span_def s = true.
Proof.
  unfold span_def, bspan_pull. destruct (sp_blocks s) as [|[c n] rest] eqn:Eb; [rewrite Eb; auto|].
  destruct (n =? 1) eqn:E1.
  - cbn [sp_blocks forallb snd]. intro H. rewrite H. apply N.eqb_eq in E1. subst n. reflexivity.
  - destruct (n =? 0) eqn:E0; [rewrite Eb; auto|].
    cbn [sp_blocks forallb snd]. rewrite E0. intro H. apply andb_prop in H as [_ H]. exact H.
Qed.

Lemma span_def_push s c : span_def (bspan_push s c 1) = true -> span_def s = true.
Proof.
  unfold span_def, bspan_push, bspan_push_block.
  destruct (sp_blocks s) as [|[c' n] rest] eqn:Eb.
  - intros _. reflexivity.
  - destruct ((c' =? c) && negb (n =? 0)) eqn:E.
    + apply andb_prop in E as [_ E2]. cbn [sp_blocks forallb snd]. rewrite E2.
      intro H. apply andb_prop in H as [_ H]. exact H.
    + cbn [sp_blocks forallb snd]. intro H. apply andb_prop in H as [_ H]. exact H.
Qed.

Lemma bs_wf_backstep t sh co : bs_wf t -> bs_wf (backstep t sh co).
Proof.
  intros [W1 W2]. unfold backstep, bs_wf. destruct sh; cbn [bs_lspan bs_rspan];
    split; try (apply span_wf_pull; assumption); apply span_wf_push; assumption.
Qed.

Lemma bs_def_backstep t sh co : bs_def (backstep t sh co) = true -> bs_def t = true.
Proof.
  unfold backstep, bs_def. destruct sh; cbn [bs_lspan bs_rspan]; intro H;
    apply andb_prop in H as [H1 H2]; apply andb_true_intro; split;
    try (eapply span_def_pull; eassumption); eapply span_def_push; eassumption.
Qed.

Lemma bs_wf_push_indef t sh c :
  check_spinout t sh c = Some true -> bs_wf t -> bs_wf (push_indef t sh).
Proof.
  intros Hcs [W1 W2]. apply check_spinout_spec in Hcs. cbn zeta in Hcs.
  destruct Hcs as (_ & _ & _ & Hb). symmetry in Hb. apply negb_true_iff in Hb.
  assert (Hgen : forall s, span_wf s -> bspan_matches_color s (bs_scan t) = false ->
                           span_wf (bspan_push_block s (bs_scan t) 0)).
  { intros s W Hm. unfold span_wf, bspan_push_block, bspan_matches_color in *.
    cbn [sp_blocks sp_end blocks_wf fst snd]. split; [|exact W]. intros _.
    destruct (sp_blocks s) as [|b' rest'].
    - destruct (sp_end s); cbn [end_matches_color] in Hm; [|discriminate].
      split; [reflexivity|]. apply N.eqb_neq. exact Hm.
    - apply N.eqb_neq. exact Hm. }
  unfold push_indef, bs_wf. destruct sh; cbn [bs_lspan bs_rspan bs_scan].
  - split; [exact W1|apply Hgen; assumption].
  - split; [apply Hgen; assumption|exact W2].
Qed.

Lemma bs_def_push_indef t sh : bs_def (push_indef t sh) = false.
Proof.
  unfold push_indef, bs_def, span_def, bspan_push_block. destruct sh; cbn [bs_lspan bs_rspan sp_blocks forallb snd].
  - apply andb_false_r.
  - reflexivity.
Qed.

(** ------------------------------------------------------------------ *)
(** * 4. Chains of plain backward steps along real instructions *)
Definition acfg := (state * backstepper)%type.

Section Chains.
Variable P : prog.

Inductive chain (T : acfg) : nat -> acfg -> Prop :=
  | chain_0 : chain T 0 T
  | chain_S d q t q0 co pr sh :
      chain T d (q, t) ->
      P (q0, co) = Some (pr, sh, q) ->
      check_step t sh pr = true ->
      pulls_indef t sh = false ->
      chain T (S d) (q0, backstep t sh co).

Lemma chain_inv T d a : chain T d a ->
  match d with
  | O => a = T
  | S d' => exists q t q0 co pr sh,
      a = (q0, backstep t sh co) /\ chain T d' (q, t) /\ P (q0, co) = Some (pr, sh, q) /\
      check_step t sh pr = true /\ pulls_indef t sh = false
  end.
Proof.
  intro H. destruct H as [|d q t q0 co pr sh Hch HP Hck Hp]; [reflexivity|].
  exists q, t, q0, co, pr, sh. repeat split; assumption.
Qed.

(** forward: every concretisation runs into the start of the chain in
    exactly [d] steps *)
Lemma chain_run T d a : chain T d a ->
  forall z, bs_conc (snd a) z ->
  exists z', tm_steps P d (fst a, z) = Some (fst T, z') /\ bs_conc (snd T) z'.
Proof.
  induction 1 as [|d q t q0 co pr sh Hch IH HP Hck Hp]; intros z Hz; cbn [fst snd] in *.
  - exists z. split; [reflexivity|exact Hz].
  - destruct (backstep_fwd t sh pr co z Hck Hp Hz) as [Ec Hm].
    destruct (IH _ Hm) as (z' & Hr & Hc). exists z'. split; [|exact Hc].
    cbn [tm_steps tm_step]. rewrite Ec, HP. exact Hr.
Qed.

Lemma chain_split T e : forall d a, chain T (e + d) a ->
  exists m, chain T e m /\ chain m d a.
Proof.
  induction d as [|d IH]; intros a H.
  - rewrite Nat.add_0_r in H. exists a. split; [exact H|constructor].
  - rewrite Nat.add_succ_r in H. inversion H as [|d0 q t q0 co pr sh Hch HP Hck Hp]; subst.
    destruct (IH _ Hch) as (m & M1 & M2). exists m. split; [exact M1|].
    econstructor; eassumption.
Qed.

(** backward determinism: two chains of the same length from the same start
    whose ends share a concretisation have the same end *)
Lemma chain_det : forall d A A' a a' z,
  chain A d a -> chain A' d a' ->
  fst A = fst A' -> same_tape (snd A) (snd A') ->
  fst a = fst a' -> bs_conc (snd a) z -> bs_conc (snd a') z ->
  same_tape (snd a) (snd a').
Proof.
  induction d as [|d IH]; intros A A' a a' z H H' EA SA Ea Hz Hz'.
  - inversion H; subst. inversion H'; subst. exact SA.
  - inversion H as [|d0 q t q0 co pr sh Hch HP Hck Hp]; subst.
    inversion H' as [|d0 q' t' q0' co' pr' sh' Hch' HP' Hck' Hp']; subst.
    cbn [fst snd] in *. subst q0'.
    destruct (backstep_fwd t sh pr co z Hck Hp Hz) as [Ec Hm].
    destruct (backstep_fwd t' sh' pr' co' z Hck' Hp' Hz') as [Ec' Hm'].
    subst co co'.
    rewrite HP in HP'. inversion HP'; subst pr' sh' q'.
    apply same_tape_backstep.
    exact (IH A A' (q, t) (q, t') (tm_move z sh pr) Hch Hch' EA SA eq_refl Hm Hm').
Qed.
End Chains.

(** ------------------------------------------------------------------ *)
(** * 5. "Good" configurations; two blank good configurations in the same
      state have the same tape *)
Section Good.
Variable P : prog.
Variable targets : acfg -> Prop.

(** what the targets must satisfy: a chain from a target [T2] that ends, in
    the state of a target [T1], on a tape sharing a concretisation with [T1]
    has the tape of [T1] *)
Definition targets_merge : Prop :=
  forall T1 T2 e m z, targets T1 -> targets T2 -> chain P T2 e m ->
    fst m = fst T1 -> bs_conc (snd m) z -> bs_conc (snd T1) z ->
    same_tape (snd T1) (snd m).
Hypothesis Hmerge : targets_merge.

Definition good (a : acfg) : Prop :=
  bs_wf (snd a) /\ (bs_def (snd a) = true -> exists T d, targets T /\ chain P T d a).
Definition goodc (c : bw_config) : Prop := good (c_state c, c_tape c).

Lemma good_backstep q t q0 co pr sh :
  good (q, t) -> P (q0, co) = Some (pr, sh, q) ->
  check_step t sh pr = true -> pulls_indef t sh = false ->
  good (q0, backstep t sh co).
Proof.
  intros [W D] HP Hck Hp. split; cbn [snd].
  - apply bs_wf_backstep. exact W.
  - intro Hd. apply bs_def_backstep in Hd. destruct (D Hd) as (T & d & HT & Hch).
    exists T, (S d). split; [exact HT|]. econstructor; eassumption.
Qed.

Lemma good_push_indef q t sh c :
  good (q, t) -> check_spinout t sh c = Some true -> good (q, push_indef t sh).
Proof.
  intros [W _] Hcs. split; cbn [snd].
  - eapply bs_wf_push_indef; eassumption.
  - rewrite bs_def_push_indef. discriminate.
Qed.

Lemma blank_unique_le T1 d1 T2 d2 a b :
  targets T1 -> targets T2 -> chain P T1 d1 a -> chain P T2 d2 b -> (d1 <= d2)%nat ->
  fst a = fst b -> bs_blank (snd a) = true -> bs_blank (snd b) = true ->
  same_tape (snd a) (snd b).
Proof.
  intros HT1 HT2 C1 C2 Hle Eab Ba Bb.
  replace d2 with ((d2 - d1) + d1)%nat in C2 by lia.
  destruct (chain_split P T2 (d2 - d1) d1 b C2) as (m & M1 & M2).
  pose proof (bs_blank_covers_blank _ _ Ba blank_tape_blank) as Za.
  pose proof (bs_blank_covers_blank _ _ Bb blank_tape_blank) as Zb.
  destruct (chain_run P T1 d1 a C1 _ Za) as (z1 & R1 & K1).
  destruct (chain_run P m d1 b M2 _ Zb) as (z2 & R2 & K2).
  rewrite Eab, R2 in R1. inversion R1 as [[E1 E2]]. subst z2.
  pose proof (Hmerge T1 T2 _ m z1 HT1 HT2 M1 E1 K2 K1) as Sm.
  exact (chain_det P d1 T1 m a b blank_tape C1 M2 (eq_sym E1) Sm Eab Za Zb).
Qed.

Theorem blank_unique a b :
  good a -> good b -> fst a = fst b ->
  bs_blank (snd a) = true -> bs_blank (snd b) = true ->
  same_tape (snd a) (snd b).
Proof.
  intros [Wa Da] [Wb Db] Eab Ba Bb.
  destruct (Da (bs_wf_blank_def _ Wa Ba)) as (T1 & d1 & HT1 & C1).
  destruct (Db (bs_wf_blank_def _ Wb Bb)) as (T2 & d2 & HT2 & C2).
  destruct (Nat.le_ge_cases d1 d2) as [L|L].
  - exact (blank_unique_le T1 d1 T2 d2 a b HT1 HT2 C1 C2 L Eab Ba Bb).
  - apply same_tape_sym. exact (blank_unique_le T2 d2 T1 d1 b a HT2 HT1 C2 C1 L (eq_sym Eab) Bb Ba).
Qed.
End Good.

(** ------------------------------------------------------------------ *)
(** * 6. The two families of targets merge *)

(** halting: the run from the shared concretisation is in a halt slot, so the
    chain cannot have a step *)
Lemma halt_merge (P : prog) :
  targets_merge P (fun T => P (fst T, bs_scan (snd T)) = None /\ snd T = bs_init_halt (bs_scan (snd T))).
Proof.
  intros [q1 t1] [q2 t2] e m z [N1 I1] [N2 I2] Hch Em Hm H1. cbn [fst snd] in *.
  destruct H1 as (Z1 & _). apply chain_inv in Hch. destruct e as [|e'].
  - subst m. cbn [fst snd] in *. destruct Hm as (Z2 & _). rewrite I1, I2, <- Z1, <- Z2.
    apply same_tape_refl.
  - exfalso. destruct Hch as (q & t & q0 & co & pr & sh & Ea & _ & HP & _ & _). subst m.
    cbn [fst snd] in *. destruct Hm as (Z2 & _).
    assert (E : bs_scan (backstep t sh co) = co) by (unfold backstep; destruct sh; reflexivity).
    rewrite E in Z2. rewrite <- Z1, Z2, <- Em, HP in N1. discriminate.
Qed.

(** spinning out *)
Lemma spin_conc_next d pr z :
  bs_conc (bs_init_spinout d) z -> bs_conc (bs_init_spinout d) (tm_move z d pr).
Proof.
  intros (Z1 & Z2 & Z3). unfold bs_conc, span_conc, bs_init_spinout in *.
  destruct d; cbn [bs_scan bs_lspan bs_rspan sp_blocks sp_end blocks_conc tm_move zl zc zr] in *.
  - split; [rewrite cell_hd0; apply Z3|]. split; [exact I|apply all_blank_tl; exact Z3].
  - split; [rewrite cell_hd0; apply Z2|]. split; [apply all_blank_tl; exact Z2|exact I].
Qed.

Lemma spin_backstep_same d : same_tape (bs_init_spinout d) (backstep (bs_init_spinout d) d 0).
Proof. destruct d; repeat split. Qed.

Lemma spin_merge (P : prog) :
  targets_merge P (fun T => exists pr d, P (fst T, 0) = Some (pr, d, fst T) /\ snd T = bs_init_spinout d).
Proof.
  intros [q1 t1] [q2 t2] e m z (pr1 & d1 & P1 & I1) (pr2 & d2 & P2 & I2) Hch Em Hm H1.
  cbn [fst snd] in *. subst t1 t2. revert m z Hch Em Hm H1.
  induction e as [|e IH]; intros m z Hch Em Hm H1; apply chain_inv in Hch.
  - subst m. cbn [fst snd] in *. subst q2. rewrite P1 in P2. inversion P2; subst. apply same_tape_refl.
  - destruct Hch as (q & t & q0 & co & pr & sh & Ea & Hch & HP & Hck & Hp). subst m.
    cbn [fst snd] in *. subst q0.
    destruct (backstep_fwd t sh pr co z Hck Hp Hm) as [Ec Hm'].
    assert (Z0 : zc z = 0) by (destruct H1 as (Z1 & _); rewrite Z1; destruct d1; reflexivity).
    rewrite Z0 in Ec. subst co. pose proof (eq_trans (eq_sym HP) P1) as E. inversion E; subst pr sh q.
    eapply same_tape_trans; [apply spin_backstep_same|]. apply same_tape_backstep.
    apply (IH (q1, t) (tm_move z d1 pr1) Hch eq_refl Hm'). apply spin_conc_next. exact H1.
Qed.

(** ------------------------------------------------------------------ *)
(** * 7. With pairwise distinct slots, every entry point is a real
      instruction *)
Lemma slot_eqb_true a b : slot_eqb a b = true -> a = b.
Proof.
  unfold slot_eqb. intro H. apply andb_prop in H as [H1 H2]. apply N.eqb_eq in H1, H2.
  destruct a, b. cbn [fst snd] in *. subst. reflexivity.
Qed.

Lemma slot_eqb_refl a : slot_eqb a a = true.
Proof. unfold slot_eqb. rewrite !N.eqb_refl. reflexivity. Qed.

Lemma cp_get_nodup (comp : comp_prog) k v :
  NoDup (map fst comp) -> In (k, v) comp -> cp_get comp k = Some v.
Proof.
  induction comp as [|[k' v'] comp IH]; intros Hnd Hin; [destruct Hin|].
  cbn [map fst] in Hnd. inversion Hnd as [|x l Hni Hnd']; subst. cbn [cp_get].
  destruct Hin as [Hin|Hin].
  - inversion Hin; subst. rewrite slot_eqb_refl. reflexivity.
  - destruct (slot_eqb k' k) eqn:E.
    + apply slot_eqb_true in E. subst k'. exfalso. apply Hni.
      apply (in_map fst) in Hin. exact Hin.
    + apply IH; assumption.
Qed.

Definition ep_real (comp : comp_prog) (ep : bw_entrypoints) : Prop :=
  forall q v e, ep_get ep q = Some v -> In e (fst v) \/ In e (snd v) ->
    In (fst e, (fst (snd e), snd (snd e), q)) comp.

Lemma get_entrypoints_fold_real (comp0 : comp_prog) : forall l ep,
  incl l comp0 -> ep_from 0 ep -> ep_real comp0 ep ->
  ep_real comp0 (fold_left (fun ep kv =>
                         let '(sl, (color, sh, st)) := kv in
                         ep_push ep st (fst sl =? st) (sl, (color, sh))) l ep).
Proof.
  induction l as [|[sl0 [[pr0 sh0] st0]] l IH]; intros ep Hl Hs Hr; cbn [fold_left]; [exact Hr|].
  destruct (ep_push_spec st0 (fst sl0 =? st0) (sl0, (pr0, sh0)) ep 0 Hs ltac:(lia)) as [S1 S2].
  apply IH.
  - intros x Hx. apply Hl. right. exact Hx.
  - exact S1.
  - intros q v e Hg Hin. rewrite S2 in Hg. destruct (q =? st0) eqn:Eq.
    + apply N.eqb_eq in Eq. subst q. inversion Hg; subst v. clear Hg.
      assert (Hcase : e = (sl0, (pr0, sh0)) \/
                      (In e (fst (ep_default (ep_get ep st0))) \/ In e (snd (ep_default (ep_get ep st0))))).
      { unfold ep_push_to in Hin. destruct (fst sl0 =? st0); cbn [fst snd] in Hin.
        - destruct Hin as [Hin|Hin]; [|right; right; exact Hin].
          apply in_app_or in Hin. destruct Hin as [Hin|[Hin|[]]]; [right; left; exact Hin|left; symmetry; exact Hin].
        - destruct Hin as [Hin|Hin]; [right; left; exact Hin|].
          apply in_app_or in Hin. destruct Hin as [Hin|[Hin|[]]]; [right; right; exact Hin|left; symmetry; exact Hin]. }
      destruct Hcase as [He|Hold].
      * subst e. cbn [fst snd]. apply Hl. left. reflexivity.
      * destruct (ep_get ep st0) as [v0|] eqn:Eg; cbn [ep_default fst snd] in Hold.
        -- eapply Hr; eassumption.
        -- destruct Hold as [[]|[]].
    + eapply Hr; eassumption.
Qed.

Lemma get_entrypoints_real (comp : comp_prog) q same diff e :
  NoDup (map fst comp) ->
  ep_get (get_entrypoints comp) q = Some (same, diff) -> In e same \/ In e diff ->
  to_prog comp (fst e) = Some (fst (snd e), snd (snd e), q).
Proof.
  intros Hnd Hg Hin. apply cp_get_nodup; [exact Hnd|].
  apply (get_entrypoints_fold_real comp comp [] (incl_refl _) I) with (v := (same, diff)).
  - intros q0 v0 e0 H0. discriminate.
  - exact Hg.
  - exact Hin.
Qed.

(** ------------------------------------------------------------------ *)
(** * 8. The run: every frontier configuration is good, every configuration
      pruned by the [blanks] test has the tape of a recorded one *)
Section Run.
Variables (sw : bw_switches) (comp : comp_prog).
Hypothesis Hnd : NoDup (map fst comp).
Let P := to_prog comp.
Let ep := get_entrypoints comp.
Variable targets : acfg -> Prop.
Hypothesis Hmerge : targets_merge P targets.

Definition real_entry (q : state) (e : bw_entry) : Prop :=
  P (fst e) = Some (fst (snd e), snd (snd e), q).

(** [i = (colour read, shift, from-state)] is a real instruction into [q]
    that passes [check_step] on [tp] *)
Definition estep (q : state) (tp : backstepper) (i : instr) : Prop :=
  exists pr, P (snd i, fst (fst i)) = Some (pr, snd (fst i), q) /\ check_step tp (snd (fst i)) pr = true.

Definition vs_ok (x : list instr * bw_config) : Prop :=
  goodc P targets (snd x) /\ forall i, In i (fst x) -> estep (c_state (snd x)) (c_tape (snd x)) i.

Lemma checked_steps_ok q tp : forall es steps,
  (forall e, In e es -> real_entry q e) ->
  (forall i, In i steps -> estep q tp i) ->
  forall i, In i (checked_steps tp es steps) -> estep q tp i.
Proof.
  unfold checked_steps.
  induction es as [|[[st co] [pr sh]] es IH]; intros steps Hes Hst; cbn [fold_left]; [exact Hst|].
  apply IH; [intros e He; apply Hes; right; exact He|].
  destruct (negb (check_step tp sh pr)) eqn:Eck; [exact Hst|].
  apply negb_false_iff in Eck. intros i Hi. apply in_app_or in Hi. destruct Hi as [Hi|[Hi|[]]]; [apply Hst; exact Hi|].
  subst i. exists pr. cbn [fst snd]. split; [|exact Eck].
  exact (Hes ((st, co), (pr, sh)) (or_introl eq_refl)).
Qed.

Lemma indef_filter_sub cfg push (R : bw_entry -> Prop) : forall es acc,
  (forall e, In e acc -> R e) -> (forall e, In e es -> R e) ->
  forall e, In e (indef_filter cfg push es acc) -> R e.
Proof.
  unfold indef_filter.
  induction es as [|[[st co] [pr sh]] es IH]; intros acc Hacc Hes; cbn [fold_left]; [exact Hacc|].
  apply IH; [|intros e He; apply Hes; right; exact He].
  destruct (_ && _ && _); [exact Hacc|].
  intros e He. apply in_app_or in He. destruct He as [He|[He|[]]]; [apply Hacc; exact He|].
  subst e. apply Hes. left. reflexivity.
Qed.

Lemma get_indef_ok push cfg diff same x :
  (forall e, In e diff -> real_entry (c_state cfg) e) ->
  (forall e, In e same -> real_entry (c_state cfg) e) ->
  get_indef push cfg diff same = Some x ->
  snd x = bw_config_new (c_state cfg) (push_indef (c_tape cfg) push) /\
  forall i, In i (fst x) -> estep (c_state cfg) (push_indef (c_tape cfg) push) i.
Proof.
  intros Hd Hs. unfold get_indef.
  pose proof (indef_filter_sub cfg push (real_entry (c_state cfg)) same (indef_filter cfg push diff [])
                (indef_filter_sub cfg push _ diff [] (fun e (H : In e []) => match H with end) Hd) Hs) as Hf.
  destruct (indef_filter cfg push same (indef_filter cfg push diff [])) as [|e0 es0]; [discriminate|].
  pose proof (checked_steps_ok (c_state cfg) (push_indef (c_tape cfg) push) (e0 :: es0) [] Hf
                (fun i (H : In i []) => match H with end)) as Hc.
  destruct (checked_steps (push_indef (c_tape cfg) push) (e0 :: es0) []) as [|i0 is0]; [discriminate|].
  intro E. inversion E; subst x. cbn [fst snd]. split; [reflexivity|exact Hc].
Qed.

Lemma same_fold_ok cfg diff same :
  goodc P targets cfg ->
  (forall e, In e diff -> real_entry (c_state cfg) e) ->
  (forall e, In e same -> real_entry (c_state cfg) e) ->
  forall es (steps : list instr) (checked : bw_validated_steps),
  (forall e, In e es -> real_entry (c_state cfg) e) ->
  (forall i, In i steps -> estep (c_state cfg) (c_tape cfg) i) ->
  (forall x, In x checked -> vs_ok x) ->
  (forall i, In i (fst (fold_left (same_body sw cfg diff same) es (steps, checked))) ->
             estep (c_state cfg) (c_tape cfg) i) /\
  (forall x, In x (snd (fold_left (same_body sw cfg diff same) es (steps, checked))) -> vs_ok x).
Proof.
  intros Hg Hd Hs.
  induction es as [|e es IH]; intros steps checked Hes Hst Hch; cbn [fold_left]; [split; assumption|].
  destruct (same_body sw cfg diff same (steps, checked) e) as [s1 c1] eqn:Eb.
  assert (Hes' : forall e0, In e0 es -> real_entry (c_state cfg) e0) by (intros e0 H0; apply Hes; right; exact H0).
  assert (Hnew : forall i, In i (steps ++ [entry_instr e]) ->
                   check_step (c_tape cfg) (snd (snd e)) (fst (snd e)) = true ->
                   estep (c_state cfg) (c_tape cfg) i).
  { intros i Hi Hck. apply in_app_or in Hi. destruct Hi as [Hi|[Hi|[]]]; [apply Hst; exact Hi|].
    subst i. exists (fst (snd e)). unfold entry_instr. cbn [fst snd]. split; [|exact Hck].
    pose proof (Hes e (or_introl eq_refl)) as Hr. unfold real_entry in Hr.
    destruct e as [[st co] [pr sh]]. exact Hr. }
  unfold same_body in Eb. destruct e as [[st co] [pr sh]]. unfold entry_instr in Hnew. cbn [fst snd] in Hnew.
  destruct (negb (check_step (c_tape cfg) sh pr)) eqn:Eck.
  { inversion Eb; subst. apply IH; assumption. }
  apply negb_false_iff in Eck.
  destruct (check_spinout (c_tape cfg) sh co) as [[|]|] eqn:Ecs; cbn [negb] in Eb.
  - destruct (get_indef sh cfg diff same) as [indef|] eqn:Eg; inversion Eb; subst; [|apply IH; assumption].
    apply IH; [exact Hes'|exact Hst|].
    intros x Hx. apply in_app_or in Hx. destruct Hx as [Hx|[Hx|[]]]; [apply Hch; exact Hx|].
    subst x. destruct (get_indef_ok sh cfg diff same indef Hd Hs Eg) as [G1 G2].
    split; rewrite G1; cbn [bw_config_new c_state c_tape].
    + eapply good_push_indef; [exact Hg|exact Ecs].
    + exact G2.
  - destruct (sw_nodrop sw); inversion Eb; subst; apply IH; try assumption.
    intros i Hi. apply Hnew; assumption.
  - inversion Eb; subst. apply IH; try assumption. intros i Hi. apply Hnew; assumption.
Qed.

Lemma valid_steps_body_ok (checked : bw_validated_steps) cfg checked' :
  goodc P targets cfg -> (forall x, In x checked -> vs_ok x) ->
  valid_steps_body sw ep checked cfg = Ok checked' ->
  forall x, In x checked' -> vs_ok x.
Proof.
  intros Hg Hch. unfold valid_steps_body.
  destruct (ep_get ep (c_state cfg)) as [[same diff]|] eqn:Eg.
  - assert (Hd : forall e, In e diff -> real_entry (c_state cfg) e).
    { intros e He. unfold real_entry, P. eapply get_entrypoints_real; [exact Hnd|exact Eg|right; exact He]. }
    assert (Hs : forall e, In e same -> real_entry (c_state cfg) e).
    { intros e He. unfold real_entry, P. eapply get_entrypoints_real; [exact Hnd|exact Eg|left; exact He]. }
    rewrite same_loop_fold. cbv zeta.
    destruct (same_fold_ok cfg diff same Hg Hd Hs same (checked_steps (c_tape cfg) diff []) checked Hs
                (checked_steps_ok (c_state cfg) (c_tape cfg) diff [] Hd (fun i (H : In i []) => match H with end))
                Hch) as [F1 F2].
    destruct (fold_left (same_body sw cfg diff same) same (checked_steps (c_tape cfg) diff [], checked))
      as [steps1 checked1]. cbn [fst snd] in F1, F2.
    destruct steps1 as [|i0 r]; intro E; inversion E; subst; [exact F2|].
    intros x Hx. apply in_app_or in Hx. destruct Hx as [Hx|[Hx|[]]]; [apply F2; exact Hx|].
    subst x. split; [exact Hg|exact F1].
  - destruct (c_state cfg =? 0); [|discriminate]. intro E. inversion E; subst. exact Hch.
Qed.

Lemma get_valid_steps_loop_ok : forall cfgs checked res,
  (forall c, In c cfgs -> goodc P targets c) -> (forall x, In x checked -> vs_ok x) ->
  get_valid_steps_loop sw ep cfgs checked = Ok res ->
  forall x, In x res -> vs_ok x.
Proof.
  induction cfgs as [|c cfgs IH]; intros checked res Hg Hch H; cbn [get_valid_steps_loop] in H.
  - inversion H; subst. exact Hch.
  - destruct (valid_steps_body sw ep checked c) as [|c'] eqn:Eb; [discriminate|].
    apply (IH c' res); [intros c0 H0; apply Hg; right; exact H0| |exact H].
    eapply valid_steps_body_ok; [apply Hg; left; reflexivity|exact Hch|exact Eb].
Qed.

(** ---- one round ---- *)
Definition sk_just (l : bw_configs) (p : state * backstepper) : Prop :=
  exists c, In c l /\ c_state c = fst p /\ same_tape (c_tape c) (snd p).

Lemma sk_just_mono l l' p : incl l l' -> sk_just l p -> sk_just l' p.
Proof. intros H (c & A & B). exists c. split; [apply H; exact A|exact B]. Qed.

Lemma sk_just_skip_just l p : sk_just l p -> skip_just l p = true.
Proof.
  intros (c & A & B & C). unfold skip_just. apply existsb_exists. exists c. split; [exact A|].
  rewrite B, N.eqb_refl. cbn [andb]. apply same_tape_bs_same. exact C.
Qed.

Definition RI (hist stepped : bw_configs) (bl : bw_blanks) (sk : bw_skips) : Prop :=
  (forall c, In c stepped -> goodc P targets c) /\
  (forall q, bw_blanks_contains bl q = true -> blank_in (hist ++ stepped) q) /\
  (forall p, In p sk -> sk_just (hist ++ stepped) p).

Lemma step_instrs_i_RI hist cfg :
  (forall c, In c hist -> goodc P targets c) -> goodc P targets cfg ->
  forall instrs stepped bl sk stepped' bl' sk',
  (forall i, In i instrs -> estep (c_state cfg) (c_tape cfg) i /\
                            pulls_indef (c_tape cfg) (snd (fst i)) = false) ->
  step_instrs_i cfg instrs stepped bl sk = inl (stepped', bl', sk') ->
  RI hist stepped bl sk -> RI hist stepped' bl' sk'.
Proof.
  intros Hh Hg.
  induction instrs as [|[[color sh] st] rest IH]; intros stepped bl sk stepped' bl' sk' Hin H Hri;
    cbn [step_instrs_i] in H.
  - inversion H; subst. exact Hri.
  - cbv zeta in H. destruct Hri as (R1 & R2 & R3).
    destruct (Hin (color, sh, st) (or_introl eq_refl)) as [(pr & HP & Hck) Hp]. cbn [fst snd] in HP, Hck, Hp.
    set (tp := backstep (c_tape cfg) sh color) in *.
    assert (Hgt : good P targets (st, tp)) by (eapply good_backstep; eassumption).
    assert (Hin' : forall i, In i rest -> estep (c_state cfg) (c_tape cfg) i /\
                                pulls_indef (c_tape cfg) (snd (fst i)) = false)
      by (intros i Hi; apply Hin; right; exact Hi).
    destruct (bs_blank tp && (st =? 0)); [discriminate|].
    destruct (bs_blank tp && bw_blanks_contains bl st) eqn:E1.
    + apply (IH _ _ _ _ _ _ Hin' H). apply andb_prop in E1 as [B1 B2].
      split; [exact R1|]. split; [exact R2|].
      intros p Hp0. apply in_app_or in Hp0. destruct Hp0 as [Hp0|[Hp0|[]]]; [apply R3; exact Hp0|].
      subst p. destruct (R2 st B2) as (c1 & C1 & C2 & C3).
      exists c1. cbn [fst snd]. split; [exact C1|]. split; [exact C2|].
      assert (Hg1 : goodc P targets c1).
      { apply in_app_or in C1. destruct C1 as [C1|C1]; [apply Hh|apply R1]; exact C1. }
      exact (blank_unique P targets Hmerge (c_state c1, c_tape c1) (st, tp) Hg1 Hgt C2 C3 B1).
    + destruct (BW_MAX_RECS <? _); [discriminate|]. apply (IH _ _ _ _ _ _ Hin' H).
      destruct (descendant_fields st tp cfg) as (D1 & D2 & _).
      set (nc := bw_config_descendant st tp cfg) in *.
      assert (Hinc : incl (hist ++ stepped) (hist ++ stepped ++ [nc])).
      { intros y Hy. apply in_app_or in Hy. apply in_or_app. destruct Hy as [Hy|Hy]; [left; exact Hy|].
        right. apply in_or_app. left. exact Hy. }
      split; [|split].
      * intros c Hc. apply in_app_or in Hc. destruct Hc as [Hc|[Hc|[]]]; [apply R1; exact Hc|].
        subst c. unfold goodc. rewrite D1, D2. exact Hgt.
      * intros q Hq.
        assert (Hold : bw_blanks_contains bl q = true -> blank_in (hist ++ stepped ++ [nc]) q)
          by (intro A; eapply blank_in_mono; [exact Hinc|apply R2; exact A]).
        destruct (bs_blank tp) eqn:Eb; [|apply Hold; exact Hq].
        apply blanks_insert_inv in Hq. destruct Hq as [Hq|Hq]; [|apply Hold; exact Hq].
        subst q. exists nc. split; [|split; [exact D1|rewrite D2; exact Eb]].
        apply in_or_app. right. apply in_or_app. right. left. reflexivity.
      * intros p Hp0. eapply sk_just_mono; [exact Hinc|apply R3; exact Hp0].
Qed.

Lemma step_configs_loop_i_RI hist :
  (forall c, In c hist -> goodc P targets c) ->
  forall vs stepped indefs bl sk stepped' indefs' bl' sk',
  (forall x, In x vs -> vs_ok x) ->
  step_configs_loop_i vs stepped indefs bl sk = inl (stepped', indefs', bl', sk') ->
  RI hist stepped bl sk -> RI hist stepped' bl' sk'.
Proof.
  intro Hh.
  induction vs as [|[instrs cfg] rest IH]; intros stepped indefs bl sk stepped' indefs' bl' sk' Hvs H Hri;
    cbn [step_configs_loop_i] in H.
  - inversion H; subst. exact Hri.
  - destruct (partition (fun i : instr => pulls_indef (c_tape cfg) (snd (fst i))) instrs)
      as [pulls instrs2] eqn:Ep.
    destruct (step_instrs_i cfg instrs2 stepped bl sk) as [[[s1 b1] k1]|r] eqn:Es; [|discriminate].
    destruct (Hvs (instrs, cfg) (or_introl eq_refl)) as [V1 V2]. cbn [fst snd] in V1, V2.
    apply (IH _ _ _ _ _ _ _ _ (fun x Hx => Hvs x (or_intror Hx)) H).
    apply (step_instrs_i_RI hist cfg Hh V1 instrs2 stepped bl sk s1 b1 k1); [|exact Es|exact Hri].
    intros i Hi.
    assert (Hi0 : In i instrs).
    { pose proof (elements_in_partition _ _ Ep i) as [_ Hb]. apply Hb. right. exact Hi. }
    split; [apply V2; exact Hi0|].
    destruct (pulls_indef (c_tape cfg) (snd (fst i))) eqn:Epi; [|reflexivity].
    exfalso. clear - Ep Hi Epi. revert pulls instrs2 Ep Hi.
    induction instrs as [|a l IHl]; intros pulls instrs2 Ep Hi; cbn [partition] in Ep.
    + inversion Ep; subst. destruct Hi.
    + destruct (partition (fun i0 : instr => pulls_indef (c_tape cfg) (snd (fst i0))) l) as [g d] eqn:El.
      destruct (pulls_indef (c_tape cfg) (snd (fst a))) eqn:Ea; inversion Ep; subst.
      * eapply IHl; [reflexivity|exact Hi].
      * destruct Hi as [Hi|Hi]; [subst a; congruence|]. eapply IHl; [reflexivity|exact Hi].
Qed.

(** ---- the whole loop ---- *)
Definition J (si : bw_istate) : Prop :=
  (forall c, In c (is_hist si) -> goodc P targets c) /\
  incl (cr_configs (is_s si)) (is_hist si) /\
  (forall q, bw_blanks_contains (cr_blanks (is_s si)) q = true -> blank_in (is_hist si) q) /\
  is_unjust si = false.

Lemma body_i_J si :
  J si ->
  match cant_reach_body_i sw ep si with
  | inl si' => J si'
  | inr (_, _, u) => u = false
  end.
Proof.
  intros (J1 & J2 & J3 & J4). unfold cant_reach_body_i.
  destruct (cant_reach_body_sk sw ep (is_s si)) as [[s' sk]|r] eqn:Eb; [|exact J4].
  destruct (body_sk_inl _ _ _ _ _ Eb) as (vs & indefs & Hgv & Hsc & _).
  assert (Hvs : forall x, In x vs -> vs_ok x).
  { unfold get_valid_steps in Hgv.
    apply (get_valid_steps_loop_ok (cr_configs (is_s si)) [] vs); [|intros x []|exact Hgv].
    intros c Hc. apply J1. apply J2. exact Hc. }
  unfold step_configs_i in Hsc.
  destruct (step_configs_loop_i_RI (is_hist si) J1 vs [] [] (cr_blanks (is_s si)) []
              _ _ _ _ Hvs Hsc) as (R1 & R2 & R3).
  { split; [intros c []|]. split; [|intros p []]. intros q Hq. rewrite app_nil_r. apply J3. exact Hq. }
  unfold J. cbn [is_hist is_s is_unjust]. split; [|split; [|split]].
  - intros c Hc. apply in_app_or in Hc. destruct Hc as [Hc|Hc]; [apply J1|apply R1]; exact Hc.
  - apply incl_appr. apply incl_refl.
  - exact R2.
  - rewrite J4. cbn [orb]. apply negb_false_iff. apply forallb_forall.
    intros p Hp. apply sk_just_skip_just. apply R3. exact Hp.
Qed.

Lemma iter_J : forall n si, J si ->
  match iter_nat n (cant_reach_body_i sw ep) si with
  | inl si' => J si'
  | inr (_, _, u) => u = false
  end.
Proof.
  induction n as [|n IH]; intros si Hj; cbn [iter_nat]; [exact Hj|].
  pose proof (body_i_J si Hj) as Hb.
  destruct (cant_reach_body_i sw ep si) as [si'|[[r f] u]]; [apply IH; exact Hb|exact Hb].
Qed.

(** the general theorem: targets with empty spans that merge *)
Theorem skips_justified_gen depth g :
  (forall c, In c (g comp) -> targets (c_state c, c_tape c) /\
             sp_blocks (bs_lspan (c_tape c)) = [] /\ sp_blocks (bs_rspan (c_tape c)) = []) ->
  bw_skips_justified sw comp depth g = true.
Proof.
  intro Hg. unfold bw_skips_justified, cant_reach_i.
  destruct (g comp) as [|c0 cs] eqn:Eg; [reflexivity|].
  fold ep.
  assert (Hsub : incl (filter (fun cfg => ep_contains_key ep (c_state cfg)) (c0 :: cs)) (c0 :: cs)).
  { intros y Hy. apply filter_In in Hy. apply Hy. }
  destruct (filter (fun cfg => ep_contains_key ep (c_state cfg)) (c0 :: cs)) as [|c1 cs1] eqn:Ef;
    [reflexivity|].
  rewrite for_upto_iter.
  set (si0 := mkIS (mkCR 0 (c1 :: cs1) (get_blanks (c1 :: cs1)) []) (c1 :: cs1) false false).
  pose proof (iter_J (N.to_nat depth) si0) as H.
  assert (Hj0 : J si0).
  { unfold J, si0. cbn [is_hist is_s is_unjust cr_configs cr_blanks].
    split; [|split; [apply incl_refl|split; [|reflexivity]]].
    - intros c Hc. destruct (Hg c (Hsub c Hc)) as (T & L & R). split; cbn [snd].
      + unfold bs_wf, span_wf. rewrite L, R. split; exact I.
      + intros _. exists (c_state c, c_tape c), 0%nat. split; [exact T|constructor].
    - intros q Hq. unfold get_blanks in Hq.
      destruct (get_blanks_in _ _ _ Hq) as [A|A]; [discriminate|exact A]. }
  specialize (H Hj0).
  destruct (iter_nat (N.to_nat depth) (cant_reach_body_i sw ep) si0) as [si|[[r f] u]]; cbn [snd].
  - destruct H as (_ & _ & _ & H). rewrite H. reflexivity.
  - rewrite H. reflexivity.
Qed.
End Run.

(** ------------------------------------------------------------------ *)
(** * 9. The two goals *)

Lemma halt_slots_sw_none sw comp q c : In (q, c) (halt_slots_sw sw comp) -> cp_get comp (q, c) = None.
Proof.
  unfold halt_slots_sw. destruct (sw_fullparams sw).
  - destruct (cp_params_full comp) as [ms mc]. intro H. apply halt_slots_params_In in H. apply H.
  - rewrite halt_slots_as_params. destruct (cp_params comp) as [ms mc]. intro H.
    apply halt_slots_params_In in H. apply H.
Qed.

Theorem halt_skips_justified sw comp depth :
  NoDup (map fst comp) -> bw_skips_justified sw comp depth (halt_configs sw) = true.
Proof.
  intro Hnd.
  apply (skips_justified_gen sw comp Hnd _ (halt_merge (to_prog comp))).
  intros c Hc. unfold halt_configs in Hc. apply in_map_iff in Hc. destruct Hc as ([q co] & E & Hin).
  subst c. cbn [fst snd bw_config_init_halt bw_config_new c_state c_tape bs_init_halt bs_scan bs_lspan bs_rspan sp_blocks].
  split; [|split; reflexivity]. split; [|reflexivity].
  exact (halt_slots_sw_none sw comp q co Hin).
Qed.

Lemma zr_shifts_In comp q d : In (q, d) (zr_shifts comp) -> exists pr, In ((q, 0), (pr, d, q)) comp.
Proof.
  unfold zr_shifts. intro H. apply in_flat_map in H. destruct H as ([[st co] [[pr sh] tr]] & Hin & H).
  destruct ((co =? 0) && (tr =? st)) eqn:E; [|destruct H].
  apply andb_prop in E as [E1 E2]. apply N.eqb_eq in E1, E2. subst co tr.
  destruct H as [H|[]]. inversion H; subst. exists pr. exact Hin.
Qed.

Theorem spinout_skips_justified sw comp depth :
  NoDup (map fst comp) -> bw_skips_justified sw comp depth zero_reflexive_configs = true.
Proof.
  intro Hnd.
  apply (skips_justified_gen sw comp Hnd _ (spin_merge (to_prog comp))).
  intros c Hc. unfold zero_reflexive_configs in Hc. apply in_map_iff in Hc. destruct Hc as ([q d] & E & Hin).
  subst c. cbn [fst snd bw_config_init_spinout bw_config_new c_state c_tape].
  split; [|destruct d; split; reflexivity].
  destruct (zr_shifts_In comp q d Hin) as (pr & Hp). exists pr, d. cbn [fst snd].
  split; [|reflexivity]. unfold to_prog. apply cp_get_nodup; assumption.
Qed.

(** THE RESULT: the run guard of the global soundness theorem always holds
    (whatever the switches, the depth and the answer of the run) *)
Theorem skips_always_justified sw comp depth :
  NoDup (map fst comp) ->
  bw_skips_justified sw comp depth (halt_configs sw) = true /\
  bw_skips_justified sw comp depth zero_reflexive_configs = true.
Proof. intro H. split; [apply halt_skips_justified|apply spinout_skips_justified]; exact H. Qed.

(** the decidable form of the hypothesis: the BTreeMap invariant *)
Lemma sortedP_nodup (p : comp_prog) : InstrsRoundTrip.sortedP p -> NoDup (map fst p).
Proof.
  induction p as [|kv p IH]; intros H; cbn [map]; [constructor|].
  destruct H as [Hab Hs]. constructor; [|apply IH; exact Hs].
  intro Hin. apply in_map_iff in Hin. destruct Hin as (kv' & E & Hin).
  unfold InstrsRoundTrip.above in Hab. rewrite Forall_forall in Hab. specialize (Hab kv' Hin).
  rewrite E in Hab. apply InstrsRoundTrip.slot_ltb_neq in Hab. rewrite slot_eqb_refl in Hab. discriminate.
Qed.

Lemma cp_sortedb_nodup (p : comp_prog) : InstrsRoundTrip.cp_sortedb p = true -> NoDup (map fst p).
Proof. intro H. apply sortedP_nodup. apply InstrsRoundTrip.cp_sortedb_sortedP. exact H. Qed.

(** every parsed program satisfies it ([from_str] builds the table with
    [cp_insert]) *)
Lemma strongly_sorted_nodup (l : list slot) : StronglySorted GraphConn.slot_lt l -> NoDup l.
Proof.
  induction 1 as [|a l Hs IH Hall]; constructor; [|exact IH].
  intro Hin. rewrite Forall_forall in Hall. specialize (Hall a Hin).
  unfold GraphConn.slot_lt in Hall. apply GraphConn.slot_ltb_neq in Hall.
  rewrite slot_eqb_refl in Hall. discriminate.
Qed.

Lemma from_str_nodup s (p : comp_prog) : from_str s = Some p -> NoDup (map fst p).
Proof. intro H. apply strongly_sorted_nodup. exact (GraphConn.from_str_wf s p H). Qed.

(** the hypothesis is necessary: a list with a repeated slot (not a
    [BTreeMap]) on which a pruned configuration is no duplicate, in a refuted
    run *)
Definition dup_prog : comp_prog :=
  [((0,1),(1,false,1)); ((1,0),(0,true,2)); ((1,0),(0,false,2))].

Example dup_keys_unjustified :
  let sw := mkSw true true in
  sw_nodrop sw = true /\
  cant_halt_sw sw dup_prog 10 = Ok (BwRefuted 2) /\
  bw_skips_justified sw dup_prog 10 (halt_configs sw) = false.
Proof. cbv zeta. repeat split; vm_compute; reflexivity. Qed.

(** ------------------------------------------------------------------ *)
(** * 10. The global soundness theorems without the run guard *)
Theorem bw_halt_refuted_sound_nodrop sw comp depth s :
  NoDup (map fst comp) ->
  sw_nodrop sw = true ->
  halt_box_ok sw comp = true ->
  to_prog comp (0, 0) <> None ->
  cant_halt_sw sw comp depth = Ok (BwRefuted s) ->
  forall n sl, ~ halts_at (to_prog comp) init_config n sl.
Proof.
  intros Hnd Hsw Hbox H00. apply bw_halt_refuted_sound; try assumption.
  apply halt_skips_justified. exact Hnd.
Qed.

Theorem bw_spinout_refuted_sound_nodrop sw comp depth s :
  NoDup (map fst comp) ->
  sw_nodrop sw = true ->
  cant_spin_out_sw sw comp depth = Ok (BwRefuted s) ->
  forall n, ~ spins_out_at (to_prog comp) init_config n.
Proof.
  intros Hnd Hsw. apply bw_spinout_refuted_sound; [exact Hsw|].
  apply spinout_skips_justified. exact Hnd.
Qed.

Theorem bw_refuted_sound_nodrop sw comp depth s :
  NoDup (map fst comp) ->
  sw_nodrop sw = true ->
  (halt_box_ok sw comp = true -> to_prog comp (0, 0) <> None ->
   cant_halt_sw sw comp depth = Ok (BwRefuted s) ->
   forall n sl, ~ halts_at (to_prog comp) init_config n sl) /\
  (cant_blank_sw sw comp depth = Ok (BwRefuted s) ->
   forall n, ~ erases_at (to_prog comp) init_config n) /\
  (cant_spin_out_sw sw comp depth = Ok (BwRefuted s) ->
   forall n, ~ spins_out_at (to_prog comp) init_config n).
Proof.
  intros Hnd Hsw. split; [|split].
  - apply bw_halt_refuted_sound_nodrop; assumption.
  - apply bw_blank_refuted_sound; exact Hsw.
  - apply bw_spinout_refuted_sound_nodrop; assumption.
Qed.

Print Assumptions skips_always_justified.
Print Assumptions dup_keys_unjustified.
Print Assumptions bw_halt_refuted_sound_nodrop.
Print Assumptions bw_spinout_refuted_sound_nodrop.
Print Assumptions bw_refuted_sound_nodrop.
