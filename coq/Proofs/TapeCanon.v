(** C12: canonical form of the compressed tape is an invariant of [step];
    canonical tapes are unique representations of their cells; observers
    equal what one reads off the unrolled cells. *)
From BB Require Import Base TM TapeModel.

(** ---- canonical spans ---- *)
Fixpoint adj_differ (s : span) : Prop :=
  match s with
  | b1 :: ((b2 :: _) as s') => fst b1 <> fst b2 /\ adj_differ s'
  | _ => True
  end.
Definition counts_pos (s : span) : Prop := Forall (fun b => 1 <= snd b) s.
Definition last_nonzero (s : span) : Prop :=
  match rev s with [] => True | b :: _ => fst b <> 0 end.
Definition canon (s : span) : Prop := counts_pos s /\ adj_differ s /\ last_nonzero s.
Definition canon_tape (t : tape) : Prop := canon (lspan t) /\ canon (rspan t).

Definition unroll_tape (t : tape) : ztape :=
  {| zl := unroll_span (lspan t); zc := scan t; zr := unroll_span (rspan t) |}.

Lemma last_nonzero_cons b s : s <> [] -> last_nonzero (b :: s) <-> last_nonzero s.
Proof.
  intros Hs. unfold last_nonzero. cbn [rev].
  destruct (rev s) as [|x r] eqn:E.
  - apply (f_equal (@rev _)) in E. rewrite rev_involutive in E. cbn in E. contradiction.
  - cbn. tauto.
Qed.

Lemma last_nonzero_single b : last_nonzero [b] <-> fst b <> 0.
Proof. unfold last_nonzero. cbn. tauto. Qed.

Lemma last_nonzero_tail b s : last_nonzero (b :: s) -> last_nonzero s.
Proof.
  destruct s as [|c s]; [intros; exact I|].
  intros H. apply (last_nonzero_cons b (c :: s)); [discriminate|exact H].
Qed.

Lemma canon_nil : canon [].
Proof. repeat split; cbn; auto. constructor. Qed.

Lemma canon_tail b s : canon (b :: s) -> canon s.
Proof.
  intros (Hc & Ha & Hl). repeat split.
  - inversion Hc; assumption.
  - destruct s as [|c s]; cbn in *; tauto.
  - eapply last_nonzero_tail; eassumption.
Qed.

(** replacing the count of the head block keeps canonicity *)
Lemma canon_head_count c n m s : canon ((c, n) :: s) -> 1 <= m -> canon ((c, m) :: s).
Proof.
  intros (Hc & Ha & Hl) Hm. repeat split.
  - inversion Hc; subst. constructor; cbn; auto.
  - destruct s as [|d s]; cbn in *; tauto.
  - destruct s as [|d s].
    + apply last_nonzero_single. apply last_nonzero_single in Hl. exact Hl.
    + apply last_nonzero_cons; [discriminate|].
      eapply last_nonzero_tail; exact Hl.
Qed.

Lemma canon_cons c n s :
  canon s -> 1 <= n -> (match s with [] => c <> 0 | b :: _ => c <> fst b end) -> canon ((c, n) :: s).
Proof.
  intros (Hc & Ha & Hl) Hn Hd. repeat split.
  - constructor; cbn; auto.
  - destruct s as [|d s]; cbn in *; auto.
  - destruct s as [|d s].
    + apply last_nonzero_single. exact Hd.
    + apply last_nonzero_cons; [discriminate|exact Hl].
Qed.

(** ---- pull / push preserve canonicity ---- *)
Lemma pull_canon s sc skip :
  canon s -> let '(s', _, stepped) := pull s sc skip in canon s' /\ 1 <= stepped.
Proof.
  intros Hs. unfold pull.
  assert (Hin : forall s1 st, canon s1 -> 1 <= st ->
     let '(s', _, stepped) :=
       match s1 with
       | [] => (s1, 0, st)
       | (c, n) :: rest => if 1 <? n then ((c, n - 1) :: rest, c, st) else (rest, c, st)
       end in canon s' /\ 1 <= stepped).
  { intros s1 st H1 Hst. destruct s1 as [|[c n] rest]; [split; assumption|].
    destruct (1 <? n) eqn:E.
    - split; [|assumption]. apply N.ltb_lt in E. eapply canon_head_count; [eassumption|lia].
    - split; [|assumption]. eapply canon_tail; eassumption. }
  destruct s as [|[c n] rest].
  - apply (Hin [] 1); [assumption|lia].
  - destruct (skip && (c =? sc)).
    + apply (Hin rest (1 + n)); [eapply canon_tail; eassumption|lia].
    + apply (Hin ((c, n) :: rest) 1); [assumption|lia].
Qed.

Lemma push_canon s print stepped : canon s -> 1 <= stepped -> canon (push s print stepped).
Proof.
  intros Hs Hst. unfold push. destruct s as [|[c n] rest].
  - destruct (print =? 0) eqn:E; [apply canon_nil|].
    apply N.eqb_neq in E. apply canon_cons; [apply canon_nil|assumption|assumption].
  - destruct (c =? print) eqn:E.
    + eapply canon_head_count; [eassumption|].
      destruct Hs as (Hc & _). inversion Hc; subst. cbn in *. lia.
    + apply N.eqb_neq in E. apply canon_cons; [assumption|assumption|cbn; congruence].
Qed.

Theorem canon_step t sh pr skip : canon_tape t -> canon_tape (fst (step t sh pr skip)).
Proof.
  intros [Hl Hr]. unfold step. destruct sh.
  - pose proof (pull_canon (rspan t) (scan t) skip Hr) as H.
    destruct (pull (rspan t) (scan t) skip) as [[r' nx] stepped]. destruct H as [H1 H2].
    cbn. split; cbn; [apply push_canon; assumption|assumption].
  - pose proof (pull_canon (lspan t) (scan t) skip Hl) as H.
    destruct (pull (lspan t) (scan t) skip) as [[l' nx] stepped]. destruct H as [H1 H2].
    cbn. split; cbn; [assumption|apply push_canon; assumption].
Qed.

(** every history of steps, from any canonical tape (in particular the blank one) *)
Definition tape_op := (shift * colour * bool)%type.
Definition do_op (t : tape) (o : tape_op) : tape :=
  let '(sh, pr, skip) := o in fst (step t sh pr skip).

Theorem canon_history ops t : canon_tape t -> canon_tape (fold_left do_op ops t).
Proof.
  revert t. induction ops as [|[[sh pr] skip] ops IH]; cbn [fold_left]; intros t H; [exact H|].
  apply IH. unfold do_op. apply canon_step. exact H.
Qed.

Lemma canon_init sc : canon_tape (init_tape sc).
Proof. split; apply canon_nil. Qed.

Lemma canon_init_stepped : canon_tape init_stepped.
Proof.
  split; [|apply canon_nil]. cbn. apply canon_cons; [apply canon_nil|lia|cbn; lia].
Qed.

(** ---- run-length encoding of a cell list: the spec-side reading ---- *)
Fixpoint rle (l : list colour) : span :=
  match l with
  | [] => []
  | c :: l' => match rle l' with
               | (c', n) :: r => if c =? c' then (c', n + 1) :: r else (c, 1) :: (c', n) :: r
               | [] => [(c, 1)]
               end
  end.

Lemma rle_repeat_cons c k rest :
  (match rle rest with (c', _) :: _ => c <> c' | [] => True end) ->
  rle (repeat c (S k) ++ rest) = (c, N.of_nat (S k)) :: rle rest.
Proof.
  intros Hd. induction k as [|k IH].
  - cbn [repeat app rle]. destruct (rle rest) as [|[c' n'] r].
    + reflexivity.
    + apply N.eqb_neq in Hd. rewrite Hd. reflexivity.
  - change (repeat c (S (S k)) ++ rest) with (c :: (repeat c (S k) ++ rest)).
    cbn [rle]. rewrite IH. rewrite N.eqb_refl. f_equal. f_equal. lia.
Qed.

Lemma unroll_cons c n s :
  unroll_span ((c, n) :: s) = repeat c (N.to_nat n) ++ unroll_span s.
Proof. reflexivity. Qed.

Theorem rle_unroll s : counts_pos s -> adj_differ s -> rle (unroll_span s) = s.
Proof.
  induction s as [|[c n] s IH]; intros Hc Ha; [reflexivity|].
  inversion Hc as [|? ? Hn Hc']; subst. cbn in Hn.
  rewrite unroll_cons.
  destruct (N.to_nat n) as [|k] eqn:E; [lia|].
  assert (IH' : rle (unroll_span s) = s).
  { apply IH; [assumption|]. destruct s as [|d s]; cbn in *; tauto. }
  rewrite rle_repeat_cons.
  - rewrite IH'. f_equal. f_equal. lia.
  - rewrite IH'. destruct s as [|[d m] s]; [exact I|]. cbn in Ha. tauto.
Qed.

(** ---- lists with non-zero last element are determined by their cells ---- *)
Definition list_last_nonzero (l : list colour) : Prop :=
  match rev l with [] => True | x :: _ => x <> 0 end.

Lemma cell_nil i : cell [] i = 0.
Proof. unfold cell. destruct i; reflexivity. Qed.

Lemma lln_tail x l : list_last_nonzero (x :: l) -> list_last_nonzero l.
Proof.
  unfold list_last_nonzero. cbn [rev]. destruct (rev l) as [|y r]; [intros; exact I|].
  cbn. tauto.
Qed.

Lemma lln_nonblank l : l <> [] -> list_last_nonzero l -> exists i, cell l i <> 0.
Proof.
  intros Hne H. unfold list_last_nonzero in H.
  destruct (rev l) as [|y r] eqn:E.
  - apply (f_equal (@rev _)) in E. rewrite rev_involutive in E. cbn in E. contradiction.
  - exists (length r). apply (f_equal (@rev _)) in E. rewrite rev_involutive in E. subst l.
    cbn [rev]. unfold cell. rewrite app_nth2; rewrite rev_length; [|lia].
    rewrite Nat.sub_diag. cbn. exact H.
Qed.

Lemma side_eq_lln a b :
  list_last_nonzero a -> list_last_nonzero b -> side_eq a b -> a = b.
Proof.
  revert b. induction a as [|x a IH]; intros b Ha Hb He.
  - destruct b as [|y b]; [reflexivity|].
    destruct (lln_nonblank (y :: b)) as [i Hi]; [discriminate|assumption|].
    specialize (He i). rewrite cell_nil in He. congruence.
  - destruct b as [|y b].
    + destruct (lln_nonblank (x :: a)) as [i Hi]; [discriminate|assumption|].
      specialize (He i). rewrite cell_nil in He. congruence.
    + f_equal.
      * exact (He O).
      * apply IH; [eapply lln_tail; eassumption|eapply lln_tail; eassumption|].
        intro i. exact (He (S i)).
Qed.

Lemma repeat_snoc {A} (c : A) k : repeat c (S k) = repeat c k ++ [c].
Proof. induction k as [|k IH]; [reflexivity|]. cbn [repeat app] in *. rewrite <- IH. reflexivity. Qed.

Lemma unroll_app a b : unroll_span (a ++ b) = unroll_span a ++ unroll_span b.
Proof. unfold unroll_span. apply flat_map_app. Qed.

Lemma canon_unroll_lln s : canon s -> list_last_nonzero (unroll_span s).
Proof.
  intros (Hc & _ & Hl). unfold last_nonzero in Hl. unfold list_last_nonzero.
  destruct (rev s) as [|[c n] r] eqn:E.
  - apply (f_equal (@rev _)) in E. rewrite rev_involutive in E. subst s. exact I.
  - apply (f_equal (@rev _)) in E. rewrite rev_involutive in E. subst s.
    cbn [rev] in *. rewrite unroll_app. cbn [unroll_span flat_map fst snd]. rewrite app_nil_r.
    assert (Hn : 1 <= n).
    { unfold counts_pos in Hc. rewrite Forall_forall in Hc.
      specialize (Hc (c, n)). cbn in Hc. apply Hc. apply in_or_app. right. left. reflexivity. }
    destruct (N.to_nat n) as [|k] eqn:Ek; [lia|].
    rewrite repeat_snoc. rewrite app_assoc. rewrite rev_app_distr. cbn. exact Hl.
Qed.

Theorem canon_unique a b :
  canon a -> canon b -> side_eq (unroll_span a) (unroll_span b) -> a = b.
Proof.
  intros Ha Hb He.
  assert (E : unroll_span a = unroll_span b).
  { apply side_eq_lln; [apply canon_unroll_lln; assumption|apply canon_unroll_lln; assumption|assumption]. }
  destruct Ha as (Ha1 & Ha2 & _). destruct Hb as (Hb1 & Hb2 & _).
  rewrite <- (rle_unroll a Ha1 Ha2), <- (rle_unroll b Hb1 Hb2). rewrite E. reflexivity.
Qed.

Theorem canon_tape_unique a b :
  canon_tape a -> canon_tape b -> tape_eq (unroll_tape a) (unroll_tape b) -> a = b.
Proof.
  intros [Hal Har] [Hbl Hbr] (El & Ec & Er). cbn in *.
  destruct a as [sa la ra], b as [sb lb rb]. cbn in *. f_equal.
  - exact Ec.
  - apply canon_unique; assumption.
  - apply canon_unique; assumption.
Qed.

(** Rust's derived == on tapes is [tape_eqb]; it decides Leibniz equality. *)
Lemma span_eqb_eq a b : span_eqb a b = true <-> a = b.
Proof.
  revert b. induction a as [|[c n] a IH]; intros [|[d m] b]; cbn; split; intro H;
    try reflexivity; try discriminate.
  - apply andb_prop in H as [H1 H2]. unfold block_eqb in H1. cbn in H1.
    apply andb_prop in H1 as [Hc Hn]. apply N.eqb_eq in Hc, Hn. apply IH in H2. congruence.
  - inversion H; subst. unfold block_eqb. cbn. rewrite !N.eqb_refl. cbn. apply IH. reflexivity.
Qed.

Lemma tape_eqb_eq a b : tape_eqb a b = true <-> a = b.
Proof.
  destruct a as [sa la ra], b as [sb lb rb]. unfold tape_eqb. cbn. split; intro H.
  - apply andb_prop in H as [H H3]. apply andb_prop in H as [H1 H2].
    apply N.eqb_eq in H1. apply span_eqb_eq in H2, H3. congruence.
  - inversion H; subst. rewrite N.eqb_refl. cbn.
    rewrite (proj2 (span_eqb_eq lb lb) eq_refl), (proj2 (span_eqb_eq rb rb) eq_refl). reflexivity.
Qed.

Theorem tape_eq_iff_cells a b :
  canon_tape a -> canon_tape b ->
  (tape_eqb a b = true <-> tape_eq (unroll_tape a) (unroll_tape b)).
Proof.
  intros Ha Hb. split; intro H.
  - apply tape_eqb_eq in H. subst b. repeat split.
  - apply tape_eqb_eq. apply canon_tape_unique; assumption.
Qed.
