(** C04/C15 facts about the backward reasoner model: limit monotonicity and
    the machine-checked witnesses of the known defects F1, F2. *)
From BB Require Import Base TM Ref InstrsModel TapeModel ReasonModel Loops.

Lemma cant_reach_mono sw comp g d d' :
  cant_reach sw comp d g <> Ok BwStepLimit -> d <= d' ->
  cant_reach sw comp d' g = cant_reach sw comp d g.
Proof.
  unfold cant_reach. intros H Hd.
  destruct (g comp) as [|c0 cs]; [reflexivity|].
  destruct (filter _ (c0 :: cs)) as [|c1 cs1]; [reflexivity|].
  destruct (for_upto d _ _) as [s|r] eqn:E.
  - congruence.
  - rewrite (for_upto_mono _ _ _ _ _ E Hd). reflexivity.
Qed.

Theorem bw_mono sw comp d d' :
  d <= d' ->
  (cant_halt_sw sw comp d <> Ok BwStepLimit -> cant_halt_sw sw comp d' = cant_halt_sw sw comp d) /\
  (cant_blank_sw sw comp d <> Ok BwStepLimit -> cant_blank_sw sw comp d' = cant_blank_sw sw comp d) /\
  (cant_spin_out_sw sw comp d <> Ok BwStepLimit -> cant_spin_out_sw sw comp d' = cant_spin_out_sw sw comp d).
Proof.
  intro Hd. unfold cant_halt_sw, cant_blank_sw, cant_spin_out_sw.
  repeat split; intro H; apply cant_reach_mono; assumption.
Qed.

(** ---- witnesses ---- *)
(* 1RB 1LA  0RC 1RC  1LA ... *)
Definition f1_halt_prog : comp_prog :=
  [((0,0),(1,true,1)); ((0,1),(1,false,0)); ((1,0),(0,true,2)); ((1,1),(1,true,2)); ((2,0),(1,false,0))].
(* 1RC 0RC  0LB 1RA  1LB 0LC *)
Definition f1_spin_prog : comp_prog :=
  [((0,0),(1,true,2)); ((0,1),(0,true,2)); ((1,0),(0,false,1)); ((1,1),(1,true,0));
   ((2,0),(1,false,1)); ((2,1),(0,false,2))].
(* 0LB ...  ... ... *)
Definition f2_halt_prog : comp_prog := [((0,0),(0,false,1))].

Lemma f1_halt_witness :
  cant_halt f1_halt_prog 30 = Ok (BwRefuted 9) /\
  halts_at (to_prog f1_halt_prog) init_config 11 (2, 1) /\
  cant_halt_sw (mkSw true false) f1_halt_prog 30 = Ok BwLinRec.
Proof.
  split; [vm_compute; reflexivity|]. split; [|vm_compute; reflexivity].
  unfold halts_at. eexists. eexists. split; [vm_compute; reflexivity|]. split; vm_compute; reflexivity.
Qed.

Lemma f1_spin_witness :
  cant_spin_out f1_spin_prog 40 = Ok (BwRefuted 4) /\
  spins_out_at (to_prog f1_spin_prog) init_config 12.
Proof.
  split; [vm_compute; reflexivity|].
  unfold spins_out_at. eexists. split; [vm_compute; reflexivity|].
  unfold spinout_cfg. split; [vm_compute; reflexivity|].
  exists 0, false. split; [vm_compute; reflexivity|].
  intro i. vm_compute. destruct i; reflexivity.
Qed.

Lemma f2_halt_witness :
  cant_halt f2_halt_prog 3 = Ok (BwRefuted 0) /\
  halts_at (to_prog f2_halt_prog) init_config 1 (1, 0) /\
  cant_halt_sw (mkSw false true) f2_halt_prog 3 = Ok BwInit.
Proof.
  split; [vm_compute; reflexivity|]. split; [|vm_compute; reflexivity].
  unfold halts_at. eexists. eexists. split; [vm_compute; reflexivity|]. split; vm_compute; reflexivity.
Qed.
