(** C04, the GUARDED GLOBAL soundness theorem of the backward reasoner
    (model: Model/ReasonModel.v + the instrumented copy Model/ReasonInstr.v;
    code: /repo/src/reason.rs).  Built on the local lemmas of
    Proofs/BackstepSound.v.

    RESULT ([bw_refuted_sound_guarded], and the three theorems it combines):
    for every depth, if the answer is [Refuted s] then the machine started on
    the blank tape never halts / never erases the tape / never spins out,
    PROVIDED
      - [sw_nodrop sw = true]: the branch of reason.rs:175-177 keeps the
        same-state predecessor as a plain step (excludes defect F1);
      - halt only, [halt_box_ok sw comp = true]: the table size used for the
        halt targets also accounts for the instruction contents - either the
        switch [sw_fullparams], or, for the unchanged [params()], a table
        whose target states / printed colours all occur as keys (excludes F2);
      - halt only, [to_prog comp (0,0) <> None]: the initial configuration
        is never tested as a target, "... 1RA" is refuted although it halts
        at step 0 ([init_target_not_checked]);
      - halt and spin-out only, [bw_skips_justified ... = true]: a decidable
        guard on the concrete run, computed by the instrumented loop
        ([cant_reach_i], same answer: [cant_reach_i_spec]): every
        configuration pruned by [blanks.contains(&state) => continue]
        (reason.rs:275-277) was identical to a configuration that is or was
        in the frontier.  [bw_no_blank_skip] (the pruning never fired) is a
        stronger sufficient guard ([no_blank_skip_justified]).  No violation
        of the guard is known (see Properties/C04.v); for erasing the tape the
        guard is not needed at all ([bw_blank_refuted_sound]: all tape ends are
        [EndBlanks], so a "blank" abstract tape is exactly the blank tape).

    ARCHITECTURE: backward induction on the real run.  If the event happens
    at time n >= 1, the configuration at time n is covered by a target, and
    the target survives the [retain] filter because its state has an entry
    point (the instruction of step n).  (n = 0: halting is excluded by the
    hypothesis on A0, erasing needs a non-blank tape, spinning out at time 0
    implies spinning out at time 1.)  Strong induction on j >= 1
    ([no_cover_gen]): no frontier of the run covers the real configuration
    at time j.  One round ([frontier_round_sound]) on a frontier covering
    time j: (a) it has a valid step - so the answer of this round is not
    Refuted - because the real predecessor, or the real predecessor of the
    maximal same-state sweep ending at j ([sweep_extend]; a sweep starting at
    time 0 contradicts [check_spinout = Some true]), yields one; (b) if the
    step pulls an indefinite block, [indef_steps] becomes non-empty and stays
    so, and the answer can never be Refuted ([indef_persist]); (c) Init /
    LinRec / DepthLimit exits are not Refuted; (d) otherwise the real
    configuration at an earlier time j' < j is covered by the next frontier,
    or (e) by a configuration pruned by the [blanks] test, which [skips_ok]
    maps back to a configuration of some frontier of the run: induction
    hypothesis for j'.  j' = 0 is impossible: a tape covering the blank tape
    is "blank" ([bs_conc_blank]) and [step_configs] exits with Init. *)
From BB Require Import Base TM Ref InstrsModel TapeModel TapeCanon TapeObs StepSim Loops.
From BB Require Import ReasonModel ReasonInstr ReasonFacts BackstepSound.

(** ------------------------------------------------------------------ *)
(** * 0. The instrumented functions compute the model's results *)

Lemma step_instrs_i_spec cfg : forall instrs stepped bl sk,
  match step_instrs_i cfg instrs stepped bl sk with
  | inl (a, b, _) => step_instrs cfg instrs stepped bl = inl (a, b)
  | inr r => step_instrs cfg instrs stepped bl = inr r
  end.
Proof.
  induction instrs as [|[[color sh] st] rest IH]; intros stepped bl sk;
    cbn [step_instrs_i step_instrs]; [reflexivity|]. cbv zeta.
  destruct (bs_blank (backstep (c_tape cfg) sh color) && (st =? 0)); [reflexivity|].
  destruct (bs_blank (backstep (c_tape cfg) sh color) && bw_blanks_contains bl st); [apply IH|].
  destruct (BW_MAX_RECS <? _); [reflexivity|apply IH].
Qed.

Lemma step_configs_loop_i_spec : forall vs stepped indefs bl sk,
  match step_configs_loop_i vs stepped indefs bl sk with
  | inl (a, b, c, _) => step_configs_loop vs stepped indefs bl = inl (a, b, c)
  | inr r => step_configs_loop vs stepped indefs bl = inr r
  end.
Proof.
  induction vs as [|[instrs cfg] rest IH]; intros stepped indefs bl sk;
    cbn [step_configs_loop_i step_configs_loop]; [reflexivity|].
  destruct (partition _ instrs) as [pulls instrs2].
  pose proof (step_instrs_i_spec cfg instrs2 stepped bl sk) as H.
  destruct (step_instrs_i cfg instrs2 stepped bl sk) as [[[s1 b1] k1]|r]; rewrite H; [apply IH|reflexivity].
Qed.

Lemma cant_reach_body_sk_spec sw ep s :
  cant_reach_body sw ep s =
  match cant_reach_body_sk sw ep s with inl (s', _) => inl s' | inr r => inr r end.
Proof.
  unfold cant_reach_body, cant_reach_body_sk.
  destruct (get_valid_steps sw (cr_configs s) ep) as [|vs]; [reflexivity|]. cbv zeta.
  destruct (N.of_nat (length vs) =? 0); [destruct (cr_indef_steps s); reflexivity|].
  destruct (BW_MAX_STACK_DEPTH <? N.of_nat (length vs)); [reflexivity|].
  unfold step_configs, step_configs_i.
  pose proof (step_configs_loop_i_spec vs [] [] (cr_blanks s) []) as H.
  destruct (step_configs_loop_i vs [] [] (cr_blanks s) []) as [[[[a b] c] k]|r]; rewrite H; [|reflexivity].
  destruct (BW_MAX_STACK_DEPTH <? _); reflexivity.
Qed.

(** lock-step simulation of two bounded loops *)
Lemma iter_nat_sim {S1 S2 R1 R2 : Type} (b1 : S1 -> S1 + R1) (b2 : S2 -> S2 + R2)
      (RS : S1 -> S2 -> Prop) (RR : R1 -> R2 -> Prop) :
  (forall s1 s2, RS s1 s2 ->
     match b1 s1, b2 s2 with
     | inl a, inl b => RS a b | inr a, inr b => RR a b | _, _ => False end) ->
  forall n s1 s2, RS s1 s2 ->
     match iter_nat n b1 s1, iter_nat n b2 s2 with
     | inl a, inl b => RS a b | inr a, inr b => RR a b | _, _ => False end.
Proof.
  intros Hb. induction n as [|n IH]; intros s1 s2 H; cbn [iter_nat]; [exact H|].
  specialize (Hb s1 s2 H). destruct (b1 s1) as [a|a], (b2 s2) as [b|b]; try contradiction.
  - apply IH. exact Hb.
  - exact Hb.
Qed.

Lemma cant_reach_body_i_sim sw ep si :
  match cant_reach_body_i sw ep si, cant_reach_body sw ep (is_s si) with
  | inl a, inl b => is_s a = b
  | inr a, inr b => fst (fst a) = b
  | _, _ => False
  end.
Proof.
  unfold cant_reach_body_i. rewrite cant_reach_body_sk_spec.
  destruct (cant_reach_body_sk sw ep (is_s si)) as [[s' sk]|r]; reflexivity.
Qed.

Theorem cant_reach_i_spec sw comp depth g :
  fst (fst (cant_reach_i sw comp depth g)) = cant_reach sw comp depth g.
Proof.
  unfold cant_reach_i, cant_reach. destruct (g comp) as [|c0 cs]; [reflexivity|].
  destruct (filter _ (c0 :: cs)) as [|c1 cs1]; [reflexivity|].
  rewrite !for_upto_iter.
  set (ep := get_entrypoints comp). set (cfgs := c1 :: cs1).
  pose proof (iter_nat_sim (cant_reach_body_i sw ep) (cant_reach_body sw ep)
                (fun si s => is_s si = s) (fun a b => fst (fst a) = b)) as H.
  assert (Hb : forall s1 s2, is_s s1 = s2 ->
            match cant_reach_body_i sw ep s1, cant_reach_body sw ep s2 with
            | inl a, inl b => is_s a = b | inr a, inr b => fst (fst a) = b | _, _ => False end).
  { intros s1 s2 E. subst s2. apply cant_reach_body_i_sim. }
  specialize (H Hb).
  specialize (H (N.to_nat depth) (mkIS (mkCR 0 cfgs (get_blanks cfgs) []) cfgs false false)
                (mkCR 0 cfgs (get_blanks cfgs) []) eq_refl).
  destruct (iter_nat (N.to_nat depth) (cant_reach_body_i sw ep) _) as [a|a],
           (iter_nat (N.to_nat depth) (cant_reach_body sw ep) _) as [b|b]; try contradiction.
  - reflexivity.
  - exact H.
Qed.

(** ------------------------------------------------------------------ *)
(** * 1. Real runs *)
Section Runs.
Variable P : prog.

Lemma tm_steps_plus a b c0 :
  tm_steps P (a + b) c0 = match tm_steps P a c0 with Some c1 => tm_steps P b c1 | None => None end.
Proof.
  revert c0. induction a as [|a IH]; intro c0; [reflexivity|].
  cbn [Nat.add tm_steps]. destruct (tm_step P c0); [apply IH|reflexivity].
Qed.

Lemma tm_steps_snoc j c0 :
  tm_steps P (S j) c0 = match tm_steps P j c0 with Some c1 => tm_step P c1 | None => None end.
Proof.
  replace (S j) with (j + 1)%nat by lia. rewrite tm_steps_plus.
  destruct (tm_steps P j c0) as [c1|]; [|reflexivity].
  cbn [tm_steps]. destruct (tm_step P c1); reflexivity.
Qed.

(** the predecessor on a run *)
Lemma run_pred j c0 q' z' :
  tm_steps P (S j) c0 = Some (q', z') ->
  exists q z pr sh, tm_steps P j c0 = Some (q, z) /\ P (q, zc z) = Some (pr, sh, q') /\
                    z' = tm_move z sh pr /\ tm_step P (q, z) = Some (q', z').
Proof.
  rewrite tm_steps_snoc. destruct (tm_steps P j c0) as [[q z]|]; [|discriminate].
  intro H. pose proof H as H2. unfold tm_step in H.
  destruct (P (q, zc z)) as [[[pr sh] q1]|] eqn:E; [|discriminate].
  inversion H; subst. exists q, z, pr, sh. repeat split; assumption.
Qed.
End Runs.

(** ------------------------------------------------------------------ *)
(** * 2. A tape covering a blank tape is "blank" *)
Lemma blocks_conc_all_blank bs e : forall l,
  blocks_conc bs e l -> all_blank l -> forallb (fun b : block => fst b =? 0) bs = true.
Proof.
  induction bs as [|b rest IH]; intros l H Hb; cbn [blocks_conc forallb] in *; [reflexivity|].
  destruct H as (k & Hk & Hc & Hr).
  assert (Hk1 : (1 <= k)%nat).
  { destruct (snd b =? 0) eqn:E0; [exact Hk|]. apply N.eqb_neq in E0. lia. }
  apply andb_true_intro. split.
  - apply N.eqb_eq. rewrite <- (Hc 0%nat ltac:(lia)). apply Hb.
  - apply (IH (skipn k l)); [exact Hr|]. intro i. rewrite cell_skipn. apply Hb.
Qed.

Lemma bs_conc_blank t z : bs_conc t z -> tape_blank z -> bs_blank t = true.
Proof.
  intros (C1 & C2 & C3) (B1 & B2 & B3). unfold bs_blank.
  apply andb_true_intro. split; [apply andb_true_intro; split|].
  - apply N.eqb_eq. congruence.
  - eapply blocks_conc_all_blank; eauto.
  - eapply blocks_conc_all_blank; eauto.
Qed.

Lemma blank_tape_blank : tape_blank blank_tape.
Proof. repeat split; intro i; apply cell_nil. Qed.

(** a "blank" abstract tape covers the blank tape, whatever its ends *)
Lemma blocks_conc_of_blank bs e : forall l,
  forallb (fun b : block => fst b =? 0) bs = true -> all_blank l -> blocks_conc bs e l.
Proof.
  induction bs as [|b rest IH]; intros l Hf Hb; cbn [blocks_conc forallb] in *.
  - destruct e; [exact Hb|exact I].
  - apply andb_prop in Hf as [Hf1 Hf2]. apply N.eqb_eq in Hf1.
    exists (if snd b =? 0 then 1%nat else N.to_nat (snd b)). split; [|split].
    + destruct (snd b =? 0); [lia|reflexivity].
    + intros i _. rewrite Hf1. apply Hb.
    + apply IH; [exact Hf2|]. intro i. rewrite cell_skipn. apply Hb.
Qed.

Lemma bs_blank_covers_blank t z : bs_blank t = true -> tape_blank z -> bs_conc t z.
Proof.
  intros Hb (B1 & B2 & B3). unfold bs_blank in Hb.
  apply andb_prop in Hb as [Hb Hb3]. apply andb_prop in Hb as [Hb1 Hb2]. apply N.eqb_eq in Hb1.
  split; [congruence|]. split; apply blocks_conc_of_blank; assumption.
Qed.

(** ------------------------------------------------------------------ *)
(** * 3. [step_configs_i]: what happens to one validated step *)

Lemma step_instrs_i_mono cfg : forall instrs stepped bl sk stepped' bl' sk',
  step_instrs_i cfg instrs stepped bl sk = inl (stepped', bl', sk') ->
  incl stepped stepped' /\ incl sk sk' /\ blanks_le bl bl'.
Proof.
  induction instrs as [|[[color sh] st] rest IH]; intros stepped bl sk stepped' bl' sk' H;
    cbn [step_instrs_i] in H.
  - inversion H; subst. repeat split; try apply incl_refl. intros x Hx; exact Hx.
  - cbv zeta in H.
    destruct (bs_blank (backstep (c_tape cfg) sh color) && (st =? 0)); [discriminate|].
    destruct (bs_blank (backstep (c_tape cfg) sh color) && bw_blanks_contains bl st).
    + apply IH in H. destruct H as (H1 & H2 & H3). repeat split; try assumption.
      eapply incl_tran; [|exact H2]. apply incl_appl. apply incl_refl.
    + destruct (BW_MAX_RECS <? _); [discriminate|]. apply IH in H. destruct H as (H1 & H2 & H3).
      repeat split; try assumption.
      * eapply incl_tran; [|exact H1]. apply incl_appl. apply incl_refl.
      * intros x Hx. apply H3. destruct (bs_blank _); [apply blanks_insert_mono|]; exact Hx.
Qed.

(** the fate of one instruction: Init did not fire on it, and it was either
    stepped into the frontier or pruned by the [blanks] test *)
Definition instr_fate (cfg : bw_config) (i : instr) (stepped' : bw_configs) (sk' : bw_skips) : Prop :=
  let tp := backstep (c_tape cfg) (snd (fst i)) (fst (fst i)) in
  ~ (bs_blank tp = true /\ snd i = 0) /\
  ((exists c, In c stepped' /\ c_state c = snd i /\ c_tape c = tp) \/ In (snd i, tp) sk').

Lemma step_instrs_i_covers cfg i : forall instrs stepped bl sk stepped' bl' sk',
  In i instrs -> step_instrs_i cfg instrs stepped bl sk = inl (stepped', bl', sk') ->
  instr_fate cfg i stepped' sk'.
Proof.
  induction instrs as [|[[color sh] st] rest IH]; intros stepped bl sk stepped' bl' sk' Hin Es;
    [destruct Hin|].
  cbn [step_instrs_i] in Es. cbv zeta in Es.
  destruct (bs_blank (backstep (c_tape cfg) sh color) && (st =? 0)) eqn:E0; [discriminate|].
  assert (Hni : ~ (bs_blank (backstep (c_tape cfg) sh color) = true /\ st = 0)).
  { intros [A B]. rewrite A, B in E0. discriminate. }
  destruct (bs_blank (backstep (c_tape cfg) sh color) && bw_blanks_contains bl st) eqn:E1.
  - destruct Hin as [Hi|Hin]; [|eapply IH; eauto].
    subst i. apply step_instrs_i_mono in Es. destruct Es as (_ & Hk & _).
    split; [exact Hni|]. right. cbn [fst snd]. apply Hk. apply in_or_app. right. left. reflexivity.
  - destruct (BW_MAX_RECS <? _) eqn:E2; [discriminate|].
    destruct Hin as [Hi|Hin]; [|eapply IH; eauto].
    subst i. apply step_instrs_i_mono in Es. destruct Es as (Hs & _ & _).
    split; [exact Hni|]. left. cbn [fst snd].
    exists (bw_config_descendant st (backstep (c_tape cfg) sh color) cfg).
    split; [apply Hs; apply in_or_app; right; left; reflexivity|].
    destruct (descendant_fields st (backstep (c_tape cfg) sh color) cfg) as (A & B & _). split; assumption.
Qed.

Lemma instr_fate_mono cfg i s1 k1 s2 k2 :
  incl s1 s2 -> incl k1 k2 -> instr_fate cfg i s1 k1 -> instr_fate cfg i s2 k2.
Proof.
  intros Hs Hk [Hn [(c & H1 & H2)|H]]; (split; [exact Hn|]).
  - left. exists c. split; [apply Hs; exact H1|exact H2].
  - right. apply Hk. exact H.
Qed.

Lemma step_configs_loop_i_mono : forall vs stepped indefs bl sk stepped' indefs' bl' sk',
  step_configs_loop_i vs stepped indefs bl sk = inl (stepped', indefs', bl', sk') ->
  incl stepped stepped' /\ incl sk sk' /\ (indefs <> [] -> indefs' <> []).
Proof.
  induction vs as [|[instrs cfg] rest IH]; intros stepped indefs bl sk stepped' indefs' bl' sk' H;
    cbn [step_configs_loop_i] in H.
  - inversion H; subst. repeat split; try apply incl_refl. auto.
  - destruct (partition _ instrs) as [pulls instrs2].
    destruct (step_instrs_i cfg instrs2 stepped bl sk) as [[[s1 b1] k1]|r] eqn:Es; [|discriminate].
    apply step_instrs_i_mono in Es. destruct Es as (E1 & E2 & _).
    apply IH in H. destruct H as (H1 & H2 & H3).
    split; [eapply incl_tran; eauto|]. split; [eapply incl_tran; eauto|].
    intro Hn. apply H3. destruct pulls; [exact Hn|]. destruct indefs; discriminate.
Qed.

Theorem step_configs_i_covers instrs cfg i : forall vs stepped indefs bl sk stepped' indefs' bl' sk',
  In (instrs, cfg) vs -> In i instrs ->
  step_configs_loop_i vs stepped indefs bl sk = inl (stepped', indefs', bl', sk') ->
  if pulls_indef (c_tape cfg) (snd (fst i)) then indefs' <> []
  else instr_fate cfg i stepped' sk'.
Proof.
  induction vs as [|[instrs0 cfg0] rest IH]; intros stepped indefs bl sk stepped' indefs' bl' sk' Hv Hi H;
    [destruct Hv|].
  cbn [step_configs_loop_i] in H.
  destruct (partition (fun i0 : instr => pulls_indef (c_tape cfg0) (snd (fst i0))) instrs0)
    as [pulls instrs2] eqn:Ep.
  destruct (step_instrs_i cfg0 instrs2 stepped bl sk) as [[[s1 b1] k1]|r] eqn:Es; [|discriminate].
  destruct Hv as [Hv|Hv]; [|eapply IH; eauto].
  inversion Hv; subst instrs0 cfg0. clear Hv.
  pose proof (partition_In _ i _ _ _ Ep Hi) as Hpart. cbv beta in Hpart.
  apply step_configs_loop_i_mono in H. destruct H as (L1 & L2 & L3).
  destruct (pulls_indef (c_tape cfg) (snd (fst i))).
  - apply L3. destruct pulls; [destruct Hpart|]. destruct indefs; discriminate.
  - eapply instr_fate_mono; [exact L1|exact L2|].
    eapply step_instrs_i_covers; eauto.
Qed.

(** every configuration of the new frontier was produced by [step_instrs_i]:
    it is not ("blank", state 0) *)
Lemma step_instrs_i_no_init cfg : forall instrs stepped bl sk stepped' bl' sk',
  step_instrs_i cfg instrs stepped bl sk = inl (stepped', bl', sk') ->
  (forall c, In c stepped -> ~ (bs_blank (c_tape c) = true /\ c_state c = 0)) ->
  forall c, In c stepped' -> ~ (bs_blank (c_tape c) = true /\ c_state c = 0).
Proof.
  induction instrs as [|[[color sh] st] rest IH]; intros stepped bl sk stepped' bl' sk' H Hold;
    cbn [step_instrs_i] in H.
  - inversion H; subst. exact Hold.
  - cbv zeta in H.
    destruct (bs_blank (backstep (c_tape cfg) sh color) && (st =? 0)) eqn:E0; [discriminate|].
    destruct (bs_blank (backstep (c_tape cfg) sh color) && bw_blanks_contains bl st).
    + eapply IH; eauto.
    + destruct (BW_MAX_RECS <? _); [discriminate|]. eapply IH; [exact H|].
      intros c Hc. apply in_app_or in Hc. destruct Hc as [Hc|[Hc|[]]]; [apply Hold; exact Hc|].
      subst c. destruct (descendant_fields st (backstep (c_tape cfg) sh color) cfg) as (A & B & _).
      rewrite A, B. intros [X Y]. rewrite X, Y in E0. discriminate.
Qed.

Lemma step_configs_loop_i_no_init : forall vs stepped indefs bl sk stepped' indefs' bl' sk',
  step_configs_loop_i vs stepped indefs bl sk = inl (stepped', indefs', bl', sk') ->
  (forall c, In c stepped -> ~ (bs_blank (c_tape c) = true /\ c_state c = 0)) ->
  forall c, In c stepped' -> ~ (bs_blank (c_tape c) = true /\ c_state c = 0).
Proof.
  induction vs as [|[instrs cfg] rest IH]; intros stepped indefs bl sk stepped' indefs' bl' sk' H Hold;
    cbn [step_configs_loop_i] in H.
  - inversion H; subst. exact Hold.
  - destruct (partition _ instrs) as [pulls instrs2].
    destruct (step_instrs_i cfg instrs2 stepped bl sk) as [[[s1 b1] k1]|r] eqn:Es; [|discriminate].
    eapply IH; [exact H|]. eapply step_instrs_i_no_init; eauto.
Qed.

(** ------------------------------------------------------------------ *)
(** * 4. The valid step that the real predecessor yields *)

Lemma plain_valid_step sw comp cfgs cfg vs q z q' pr sh :
  In cfg cfgs -> c_state cfg = q' -> bs_conc (c_tape cfg) (tm_move z sh pr) ->
  to_prog comp (q, zc z) = Some (pr, sh, q') ->
  get_valid_steps sw cfgs (get_entrypoints comp) = Ok vs ->
  (q = q' -> check_spinout (c_tape cfg) sh (zc z) = None \/
             (check_spinout (c_tape cfg) sh (zc z) = Some false /\ sw_nodrop sw = true)) ->
  exists steps, In (steps, cfg) vs /\ In (zc z, sh, q) steps.
Proof.
  intros Hin Hq Hc HP Hgv Hsame.
  destruct (get_entrypoints_complete comp q (zc z) pr sh q' HP) as (same & diff & Hg & He).
  destruct (get_valid_steps_loop_keeps sw _ cfg cfgs [] vs Hin Hgv) as (c1 & c2 & Hb & Hinc).
  rewrite <- Hq in Hg.
  destruct (valid_steps_body_covers sw _ c1 cfg same diff Hg) as (c2' & Hb' & _ & Hd & Hsm).
  rewrite Hb in Hb'. inversion Hb'; subst c2'. clear Hb'.
  assert (Hck : check_step (c_tape cfg) sh pr = true) by (eapply check_step_sound; eauto).
  assert (Hst : exists steps, In (steps, cfg) c2 /\ In (zc z, sh, q) steps).
  { destruct (q =? q') eqn:E.
    - apply N.eqb_eq in E. specialize (Hsm _ He Hck). cbn [fst snd] in Hsm.
      destruct (Hsame E) as [Hn|[Hf Hsw]].
      + rewrite Hn in Hsm. exact Hsm.
      + rewrite Hf in Hsm. exact (Hsm Hsw).
    - exact (Hd _ He Hck). }
  destruct Hst as (steps & Hv & Hi). exists steps. split; [apply Hinc; exact Hv|exact Hi].
Qed.

Lemma sweep_valid_step sw comp cfgs cfg vs q c pr sh k z z' q0 z0 pr0 sh0 :
  In cfg cfgs -> c_state cfg = q -> bs_conc (c_tape cfg) z' ->
  to_prog comp (q, c) = Some (pr, sh, q) ->
  (1 <= k)%nat -> sweep_run (to_prog comp) q c k z z' ->
  check_spinout (c_tape cfg) sh c = Some true ->
  to_prog comp (q0, zc z0) = Some (pr0, sh0, q) ->
  tm_step (to_prog comp) (q0, z0) = Some (q, z) ->
  (q0, zc z0) <> (q, c) ->
  get_valid_steps sw cfgs (get_entrypoints comp) = Ok vs ->
  exists steps,
    In (steps, bw_config_new q (push_indef (c_tape cfg) sh)) vs /\ In (zc z0, sh0, q0) steps /\
    bs_conc (push_indef (c_tape cfg) sh) (tm_move z0 sh0 pr0).
Proof.
  intros Hin Hq Hc HP Hk Hsw Hcs HP0 Hs0 Hne Hgv.
  destruct (get_entrypoints_complete comp q c pr sh q HP) as (same & diff & Hg & He).
  rewrite N.eqb_refl in He.
  destruct (get_entrypoints_complete comp q0 (zc z0) pr0 sh0 q HP0) as (same' & diff' & Hg' & He').
  rewrite Hg in Hg'. inversion Hg'; subst same' diff'. clear Hg'.
  destruct (get_valid_steps_loop_keeps sw _ cfg cfgs [] vs Hin Hgv) as (c1 & c2 & Hb & Hinc).
  rewrite <- Hq in Hg.
  destruct (valid_steps_body_covers sw _ c1 cfg same diff Hg) as (c2' & Hb' & _ & _ & Hsm).
  rewrite Hb in Hb'. inversion Hb'; subst c2'. clear Hb'.
  destruct (sweep_run_mv _ q c pr sh HP k z z' Hsw) as [Ez' Hj].
  assert (Hck : check_step (c_tape cfg) sh pr = true).
  { destruct k as [|k']; [lia|]. rewrite mv_n_snoc in Ez'. subst z'.
    eapply check_step_sound. exact Hc. }
  specialize (Hsm _ He Hck). cbn [fst snd] in Hsm. rewrite Hcs in Hsm.
  destruct (indef_pred_covered (to_prog comp) q c pr sh k z z' q0 z0 pr0 sh0 cfg diff same true
              HP Hk Hsw Hq Hc Hcs Hs0 HP0 Hne) as [(steps & Hgi & Hi) Hbk].
  { destruct (q0 =? q); [right|left]; exact He'. }
  specialize (Hsm _ Hgi). apply Hinc in Hsm.
  assert (Hz : bs_conc (push_indef (c_tape cfg) sh) z) by (eapply indef_covers; eauto).
  assert (Ez : z = tm_move z0 sh0 pr0).
  { unfold tm_step in Hs0. rewrite HP0 in Hs0. inversion Hs0. reflexivity. }
  subst z. exists steps. split; [exact Hsm|]. split; [exact Hi|exact Hz].
Qed.

(** [check_spinout = Some true] says that the cell next to the head on the
    push side does NOT have the scanned colour *)
Lemma check_spinout_true_cell t sh c z :
  check_spinout t sh c = Some true -> bs_conc t z ->
  cell (side sh z) 0 <> c.
Proof.
  intros H (C1 & C2 & C3). apply check_spinout_spec in H. cbn zeta in H.
  destruct H as (Hs & _ & _ & Hb). symmetry in Hb. apply negb_true_iff in Hb.
  intro E. rewrite <- Hs in E.
  destruct sh; cbn [side] in E.
  - rewrite (bspan_matches_color_sound _ _ _ C3 E) in Hb. discriminate.
  - rewrite (bspan_matches_color_sound _ _ _ C2 E) in Hb. discriminate.
Qed.

(** a sweep that starts on the blank tape ends with a blank push side *)
Lemma sweep_from_blank_side k sh pr : cell (side sh (mv_n k sh pr blank_tape)) 0 = 0.
Proof.
  destruct sh; cbn [side].
  - destruct (mv_n_R k pr blank_tape) as (_ & M & _). rewrite M. cbn [blank_tape zr].
    rewrite skipn_nil. apply cell_nil.
  - destruct (mv_n_L k pr blank_tape) as (_ & M & _). rewrite M. cbn [blank_tape zl].
    rewrite skipn_nil. apply cell_nil.
Qed.

(** ------------------------------------------------------------------ *)
(** * 5. One round, relative to the real run from the blank tape *)
Section Round.
Variables (sw : bw_switches) (comp : comp_prog).
Hypothesis Hsw : sw_nodrop sw = true.
Let P := to_prog comp.
Let ep := get_entrypoints comp.

Definition rcfg (j : nat) (c : config) : Prop := tm_steps P j init_config = Some c.

Definition covers (cfgs : bw_configs) (c : config) : Prop :=
  exists cfg, In cfg cfgs /\ c_state cfg = fst c /\ bs_conc (c_tape cfg) (snd c).

(** "the round has a validated step that leads to the real configuration at
    an earlier time [j' < j]" *)
Definition has_real_step (vs : bw_validated_steps) (j : nat) : Prop :=
  exists j' q z pr sh q1 steps cfg',
    (j' < j)%nat /\ rcfg j' (q, z) /\ P (q, zc z) = Some (pr, sh, q1) /\
    In (steps, cfg') vs /\ In (zc z, sh, q) steps /\
    bs_conc (c_tape cfg') (tm_move z sh pr).

Lemma sweep_extend cfgs cfg vs q c0 pr sh j z' :
  In cfg cfgs -> c_state cfg = q -> bs_conc (c_tape cfg) z' ->
  P (q, c0) = Some (pr, sh, q) ->
  check_spinout (c_tape cfg) sh c0 = Some true ->
  get_valid_steps sw cfgs ep = Ok vs ->
  forall i0 k zi, (i0 + k = j)%nat -> (1 <= k)%nat -> rcfg i0 (q, zi) ->
    sweep_run P q c0 k zi z' -> has_real_step vs j.
Proof.
  intros Hin Hq Hc HP Hcs Hgv.
  induction i0 as [|i1 IH]; intros k zi Hik Hk Hr Hsw0.
  - (* the sweep starts at time 0 on the blank tape: impossible *)
    exfalso. unfold rcfg in Hr. cbn [tm_steps] in Hr. unfold init_config in Hr.
    inversion Hr; subst q zi.
    destruct (proj2 Hsw0 0%nat ltac:(lia)) as (z0 & Hz0 & Hc0).
    cbn [tm_steps] in Hz0. inversion Hz0; subst z0. cbn [blank_tape zc] in Hc0. subst c0.
    destruct (sweep_run_mv P _ 0 pr sh HP k blank_tape z' Hsw0) as [Ez' _]. subst z'.
    apply (check_spinout_true_cell _ _ _ _ Hcs Hc). apply sweep_from_blank_side.
  - (* look at the configuration before the sweep *)
    unfold rcfg in Hr. destruct (run_pred P i1 init_config q zi Hr) as (q0 & z0 & pr0 & sh0 & Hr0 & HP0 & Ezi & Hs0).
    destruct (N.eq_dec q0 q) as [Eq|Nq]; [destruct (N.eq_dec (zc z0) c0) as [Ec|Nc]|].
    + (* still the sweeping instruction: extend *)
      subst q0. apply (IH (S k) z0); [lia|lia|exact Hr0|].
      assert (E : (pr0, sh0) = (pr, sh)).
      { rewrite Ec in HP0. unfold P in *. rewrite HP in HP0. inversion HP0. reflexivity. }
      inversion E; subst pr0 sh0. destruct Hsw0 as [R1 R2]. split.
      * cbn [tm_steps]. rewrite Hs0. exact R1.
      * intros [|jj] Hjj.
        -- exists z0. split; [reflexivity|exact Ec].
        -- destruct (R2 jj ltac:(lia)) as (zj & Hzj & Hcj). exists zj.
           cbn [tm_steps]. rewrite Hs0. split; assumption.
    + destruct (sweep_valid_step sw comp cfgs cfg vs q c0 pr sh k zi z' q0 z0 pr0 sh0
                  Hin Hq Hc HP Hk Hsw0 Hcs) as (steps & V1 & V2 & V3).
      * subst q0. exact HP0.
      * subst q0. exact Hs0.
      * intro E. inversion E. contradiction.
      * exact Hgv.
      * exists i1, q0, z0, pr0, sh0, q, steps, (bw_config_new q (push_indef (c_tape cfg) sh)).
        split; [lia|]. split; [exact Hr0|]. split; [exact HP0|]. split; [exact V1|]. split; [exact V2|exact V3].
    + destruct (sweep_valid_step sw comp cfgs cfg vs q c0 pr sh k zi z' q0 z0 pr0 sh0
                  Hin Hq Hc HP Hk Hsw0 Hcs HP0 Hs0) as (steps & V1 & V2 & V3).
      * intro E. inversion E. contradiction.
      * exact Hgv.
      * exists i1, q0, z0, pr0, sh0, q, steps, (bw_config_new q (push_indef (c_tape cfg) sh)).
        split; [lia|]. split; [exact Hr0|]. split; [exact HP0|]. split; [exact V1|]. split; [exact V2|exact V3].
Qed.

Lemma frontier_valid_step cfgs vs j c :
  (1 <= j)%nat -> rcfg j c -> covers cfgs c ->
  get_valid_steps sw cfgs ep = Ok vs -> has_real_step vs j.
Proof.
  intros Hj Hr (cfg & Hin & Hq & Hc) Hgv. destruct j as [|j0]; [lia|]. destruct c as [q' z'].
  cbn [fst snd] in *. unfold rcfg in Hr.
  destruct (run_pred P j0 init_config q' z' Hr) as (q & z & pr & sh & Hr0 & HP & Ez & Hs).
  assert (Hplain : (q = q' -> check_spinout (c_tape cfg) sh (zc z) = None \/
                      (check_spinout (c_tape cfg) sh (zc z) = Some false /\ sw_nodrop sw = true)) ->
                   has_real_step vs (S j0)).
  { intro Hsame. subst z'.
    destruct (plain_valid_step sw comp cfgs cfg vs q z q' pr sh Hin Hq Hc HP Hgv Hsame) as (steps & V1 & V2).
    exists j0, q, z, pr, sh, q', steps, cfg.
    split; [lia|]. split; [exact Hr0|]. split; [exact HP|]. split; [exact V1|]. split; [exact V2|exact Hc]. }
  destruct (check_spinout (c_tape cfg) sh (zc z)) as [[|]|] eqn:Ecs.
  - destruct (N.eq_dec q q') as [E|NE].
    + subst q. apply (sweep_extend cfgs cfg vs q' (zc z) pr sh (S j0) z' Hin Hq Hc HP Ecs Hgv j0 1%nat z);
        [lia|lia|exact Hr0|].
      split.
      * cbn [tm_steps]. rewrite Hs. reflexivity.
      * intros jj Hjj. assert (jj = 0%nat) by lia. subst jj. exists z. split; reflexivity.
    + apply Hplain. intro; contradiction.
  - apply Hplain. intros _. right. split; [reflexivity|exact Hsw].
  - apply Hplain. intros _. left. reflexivity.
Qed.

(** what one successful round guarantees: an indefinite pull was recorded, or
    the real configuration at an earlier time j' >= 1 is covered by the new
    frontier, or by a configuration that the [blanks] test pruned *)
Definition round_outcome (cfgs' : bw_configs) (indefs : bw_validated_steps) (sk : bw_skips)
           (j : nat) : Prop :=
  indefs <> [] \/
  exists j' c, (1 <= j')%nat /\ (j' < j)%nat /\ rcfg j' c /\
    (covers cfgs' c \/ exists tp, In (fst c, tp) sk /\ bs_conc tp (snd c)).

(** THE ONE-ROUND FRONTIER INVARIANT (plain steps and sweeps combined) *)
Theorem frontier_round_sound cfgs bl vs j c :
  (1 <= j)%nat -> rcfg j c -> covers cfgs c ->
  get_valid_steps sw cfgs ep = Ok vs ->
  vs <> [] /\
  forall cfgs' indefs bl' sk,
    step_configs_i vs bl = inl (cfgs', indefs, bl', sk) -> round_outcome cfgs' indefs sk j.
Proof.
  intros Hj Hr Hcov Hgv.
  destruct (frontier_valid_step cfgs vs j c Hj Hr Hcov Hgv)
    as (j' & q & z & pr & sh & q1 & steps & cfg' & Hlt & Hr' & HP & V1 & V2 & V3).
  split; [intro E; rewrite E in V1; destruct V1|].
  intros cfgs' indefs bl' sk Hsc. unfold step_configs_i in Hsc.
  pose proof (step_configs_i_covers steps cfg' (zc z, sh, q) vs [] [] bl [] cfgs' indefs bl' sk V1 V2 Hsc) as H.
  cbn [fst snd] in H. unfold round_outcome.
  destruct (pulls_indef (c_tape cfg') sh) eqn:Ep; [left; exact H|]. right.
  assert (Hb : bs_conc (backstep (c_tape cfg') sh (zc z)) z) by (eapply backstep_covers; eauto).
  destruct H as [Hni Hf]. cbn [fst snd] in *.
  destruct j' as [|j1].
  - (* the predecessor is the initial configuration: Init would have fired *)
    exfalso. unfold rcfg in Hr'. cbn [tm_steps] in Hr'. unfold init_config in Hr'.
    inversion Hr'; subst q z. apply Hni. split; [|reflexivity].
    eapply bs_conc_blank; [exact Hb|apply blank_tape_blank].
  - exists (S j1), (q, z). split; [lia|]. split; [exact Hlt|]. split; [exact Hr'|].
    destruct Hf as [(c1 & H1 & H2 & H3)|Hk].
    + left. exists c1. cbn [fst snd]. split; [exact H1|]. split; [exact H2|]. rewrite H3. exact Hb.
    + right. exists (backstep (c_tape cfg') sh (zc z)). cbn [fst snd]. split; [exact Hk|exact Hb].
Qed.
End Round.

(** ------------------------------------------------------------------ *)
(** * 6. The whole run *)

Lemma iter_nat_snoc {St Rs : Type} (body : St -> St + Rs) r s :
  iter_nat (S r) body s =
  match iter_nat r body s with inl s1 => body s1 | inr x => inr x end.
Proof.
  replace (S r) with (r + 1)%nat by lia. rewrite iter_nat_add.
  destruct (iter_nat r body s) as [s1|x]; [|reflexivity].
  cbn [iter_nat]. destruct (body s1); reflexivity.
Qed.

Lemma step_configs_i_err vs bl r : step_configs_i vs bl = inr r -> r = BwInit \/ r = BwLinRec.
Proof.
  unfold step_configs_i. intro H. pose proof (step_configs_loop_i_spec vs [] [] bl []) as S.
  rewrite H in S. eapply step_configs_loop_err. exact S.
Qed.

Lemma body_sk_refuted sw ep s y :
  cant_reach_body_sk sw ep s = inr (Ok (BwRefuted y)) ->
  get_valid_steps sw (cr_configs s) ep = Ok [] /\ cr_indef_steps s = [].
Proof.
  unfold cant_reach_body_sk.
  destruct (get_valid_steps sw (cr_configs s) ep) as [|vs]; [discriminate|]. cbv zeta.
  destruct (N.of_nat (length vs) =? 0) eqn:E0.
  - apply N.eqb_eq in E0. destruct vs; [|cbn [length] in E0; lia].
    destruct (cr_indef_steps s); [split; reflexivity|discriminate].
  - destruct (BW_MAX_STACK_DEPTH <? N.of_nat (length vs)); [discriminate|].
    destruct (step_configs_i vs (cr_blanks s)) as [[[[a b] c] k]|r] eqn:Es.
    + destruct (BW_MAX_STACK_DEPTH <? _); discriminate.
    + intro H. inversion H; subst r. apply step_configs_i_err in Es. destruct Es; discriminate.
Qed.

Lemma body_sk_inl sw ep s s' sk :
  cant_reach_body_sk sw ep s = inl (s', sk) ->
  exists vs indefs,
    get_valid_steps sw (cr_configs s) ep = Ok vs /\
    step_configs_i vs (cr_blanks s) = inl (cr_configs s', indefs, cr_blanks s', sk) /\
    cr_indef_steps s' = cr_indef_steps s ++ indefs.
Proof.
  unfold cant_reach_body_sk.
  destruct (get_valid_steps sw (cr_configs s) ep) as [|vs]; [discriminate|]. cbv zeta.
  destruct (N.of_nat (length vs) =? 0); [destruct (cr_indef_steps s); discriminate|].
  destruct (BW_MAX_STACK_DEPTH <? N.of_nat (length vs)); [discriminate|].
  destruct (step_configs_i vs (cr_blanks s)) as [[[[a b] c] k]|r] eqn:Es; [|discriminate].
  destruct (BW_MAX_STACK_DEPTH <? _); [discriminate|].
  intro H. inversion H; subst. exists vs, b. cbn [cr_configs cr_blanks cr_indef_steps].
  split; [reflexivity|]. split; [exact Es|reflexivity].
Qed.

Lemma tape_end_eqb_eq a b : tape_end_eqb a b = true -> a = b.
Proof. destruct a, b; cbn [tape_end_eqb]; intro H; try reflexivity; discriminate. Qed.

Lemma bspan_eqb_eq a b : bspan_eqb a b = true -> a = b.
Proof.
  unfold bspan_eqb. intro H. apply andb_prop in H as [H1 H2].
  apply span_eqb_eq in H1. apply tape_end_eqb_eq in H2.
  destruct a as [ba ea], b as [bb eb]. cbn [sp_blocks sp_end] in *. subst. reflexivity.
Qed.

Lemma bs_same_conc a b z : bs_same a b = true -> bs_conc b z -> bs_conc a z.
Proof.
  unfold bs_same. intro H. apply andb_prop in H as [H H3]. apply andb_prop in H as [H1 H2].
  apply N.eqb_eq in H1. apply bspan_eqb_eq in H2, H3.
  unfold bs_conc. rewrite H1, H2, H3. auto.
Qed.

(** ---- facts for the un-guarded treatment of [cant_blank]: every tape of
    the run has both ends [EndBlanks], so a "blank" tape covers exactly the
    blank tape ([bs_blank_exact]) and the [blanks] pruning is sound ---- *)
Definition ends_blank (t : backstepper) : Prop :=
  sp_end (bs_lspan t) = EndBlanks /\ sp_end (bs_rspan t) = EndBlanks.

Lemma backstep_ends_blank t sh read : ends_blank t -> ends_blank (backstep t sh read).
Proof. intros [A B]. destruct (backstep_ends t sh read) as [C D]. split; congruence. Qed.

Lemma push_indef_ends_blank t sh : ends_blank t -> ends_blank (push_indef t sh).
Proof. intros [A B]. destruct (push_indef_ends t sh) as [C D]. split; congruence. Qed.

(** where the configurations of the validated steps come from *)
Definition from_cfg (cfg c : bw_config) : Prop :=
  c = cfg \/ exists sh, c = bw_config_new (c_state cfg) (push_indef (c_tape cfg) sh).

Lemma from_cfg_ends cfg c : from_cfg cfg c -> ends_blank (c_tape cfg) -> ends_blank (c_tape c).
Proof.
  intros [E|(sh & E)] H; subst c; [exact H|].
  cbn [bw_config_new c_tape]. apply push_indef_ends_blank. exact H.
Qed.

Lemma get_indef_form push cfg diff same indef :
  get_indef push cfg diff same = Some indef ->
  snd indef = bw_config_new (c_state cfg) (push_indef (c_tape cfg) push).
Proof.
  unfold get_indef. destruct (indef_filter cfg push same _); [discriminate|].
  destruct (checked_steps _ _ _); [discriminate|]. intro H. inversion H. reflexivity.
Qed.

Lemma same_fold_from sw cfg diff same (Q : list instr * bw_config -> Prop) es : forall steps checked,
  (forall x, In x checked -> Q x \/ from_cfg cfg (snd x)) ->
  forall x, In x (snd (fold_left (same_body sw cfg diff same) es (steps, checked))) ->
            Q x \/ from_cfg cfg (snd x).
Proof.
  induction es as [|e es IH]; intros steps checked H; cbn [fold_left]; [exact H|].
  destruct (same_body sw cfg diff same (steps, checked) e) as [s1 c1] eqn:Eb. apply IH.
  unfold same_body in Eb. destruct e as [[st co] [pr sh]].
  destruct (negb (check_step (c_tape cfg) sh pr)); [inversion Eb; subst; exact H|].
  destruct (check_spinout (c_tape cfg) sh co) as [[|]|]; cbn [negb] in Eb.
  - destruct (get_indef sh cfg diff same) as [indef|] eqn:Eg; inversion Eb; subst; [|exact H].
    intros x Hx. apply in_app_or in Hx. destruct Hx as [Hx|[Hx|[]]]; [apply H; exact Hx|].
    subst x. right. right. exists sh. eapply get_indef_form. exact Eg.
  - destruct (sw_nodrop sw); inversion Eb; subst; exact H.
  - inversion Eb; subst. exact H.
Qed.

Lemma valid_steps_body_from sw ep checked cfg checked' :
  valid_steps_body sw ep checked cfg = Ok checked' ->
  forall x, In x checked' -> In x checked \/ from_cfg cfg (snd x).
Proof.
  unfold valid_steps_body. destruct (ep_get ep (c_state cfg)) as [[same diff]|].
  - rewrite same_loop_fold.
    pose proof (same_fold_from sw cfg diff same (fun x => In x checked) same
                  (checked_steps (c_tape cfg) diff []) checked (fun x Hx => or_introl Hx)) as H.
    destruct (fold_left _ same _) as [steps1 checked1]. cbn [snd] in H.
    destruct steps1; intro E; inversion E; subst; [exact H|].
    intros x Hx. apply in_app_or in Hx. destruct Hx as [Hx|[Hx|[]]]; [apply H; exact Hx|].
    subst x. right. left. reflexivity.
  - destruct (c_state cfg =? 0); [|discriminate]. intro E. inversion E; subst. intros x Hx. left. exact Hx.
Qed.

Lemma get_valid_steps_loop_from sw ep : forall cfgs checked res,
  get_valid_steps_loop sw ep cfgs checked = Ok res ->
  forall x, In x res -> In x checked \/ exists cfg, In cfg cfgs /\ from_cfg cfg (snd x).
Proof.
  induction cfgs as [|c cfgs IH]; intros checked res H x Hx; cbn [get_valid_steps_loop] in H.
  - inversion H; subst. left. exact Hx.
  - destruct (valid_steps_body sw ep checked c) as [|c'] eqn:Eb; [discriminate|].
    destruct (IH _ _ H x Hx) as [Hc|(cfg & Hc & Hf)].
    + destruct (valid_steps_body_from _ _ _ _ _ Eb x Hc) as [Ho|Hf]; [left; exact Ho|].
      right. exists c. split; [left; reflexivity|exact Hf].
    + right. exists cfg. split; [right; exact Hc|exact Hf].
Qed.

Lemma blanks_insert_inv b s x :
  bw_blanks_contains (bw_blanks_insert b s) x = true -> x = s \/ bw_blanks_contains b x = true.
Proof.
  unfold bw_blanks_insert. destruct (bw_blanks_contains b s); [right; assumption|].
  unfold bw_blanks_contains. rewrite existsb_app. intro H. apply orb_true_iff in H.
  destruct H as [H|H]; [right; exact H|]. cbn [existsb] in H. rewrite orb_false_r in H.
  apply N.eqb_eq in H. left. exact H.
Qed.

Definition blank_in (cs : bw_configs) (q : state) : Prop :=
  exists c, In c cs /\ c_state c = q /\ bs_blank (c_tape c) = true.

Lemma blank_in_mono cs cs' q : incl cs cs' -> blank_in cs q -> blank_in cs' q.
Proof. intros H (c & A & B). exists c. split; [apply H; exact A|exact B]. Qed.

Definition bl_ok (bl0 : bw_blanks) (stepped : bw_configs) (bl : bw_blanks) : Prop :=
  forall q, bw_blanks_contains bl q = true -> bw_blanks_contains bl0 q = true \/ blank_in stepped q.
Definition sk_ok (bl0 : bw_blanks) (stepped : bw_configs) (p : state * backstepper) : Prop :=
  bs_blank (snd p) = true /\ ends_blank (snd p) /\
  (bw_blanks_contains bl0 (fst p) = true \/ blank_in stepped (fst p)).
Definition round_ok (bl0 : bw_blanks) (stepped : bw_configs) (bl : bw_blanks) (sk : bw_skips) : Prop :=
  bl_ok bl0 stepped bl /\ (forall p, In p sk -> sk_ok bl0 stepped p) /\
  (forall c, In c stepped -> ends_blank (c_tape c)).

Lemma step_instrs_i_blank cfg bl0 : ends_blank (c_tape cfg) ->
  forall instrs stepped bl sk stepped' bl' sk',
  step_instrs_i cfg instrs stepped bl sk = inl (stepped', bl', sk') ->
  round_ok bl0 stepped bl sk -> round_ok bl0 stepped' bl' sk'.
Proof.
  intro He.
  induction instrs as [|[[color sh] st] rest IH]; intros stepped bl sk stepped' bl' sk' H Hok;
    cbn [step_instrs_i] in H.
  - inversion H; subst. exact Hok.
  - cbv zeta in H. destruct Hok as (O1 & O2 & O3).
    set (tp := backstep (c_tape cfg) sh color) in *.
    assert (Hte : ends_blank tp) by (apply backstep_ends_blank; exact He).
    destruct (bs_blank tp && (st =? 0)); [discriminate|].
    destruct (bs_blank tp && bw_blanks_contains bl st) eqn:E1.
    + apply (IH _ _ _ _ _ _ H). apply andb_prop in E1 as [B1 B2]. split; [exact O1|]. split; [|exact O3].
      intros p Hp. apply in_app_or in Hp. destruct Hp as [Hp|[Hp|[]]]; [apply O2; exact Hp|].
      subst p. split; [exact B1|]. split; [exact Hte|]. cbn [fst]. apply O1. exact B2.
    + destruct (BW_MAX_RECS <? _); [discriminate|]. apply (IH _ _ _ _ _ _ H).
      destruct (descendant_fields st tp cfg) as (D1 & D2 & _).
      assert (Hinc : incl stepped (stepped ++ [bw_config_descendant st tp cfg]))
        by (apply incl_appl; apply incl_refl).
      split; [|split].
      * intros q Hq. destruct (bs_blank tp) eqn:Eb.
        -- apply blanks_insert_inv in Hq. destruct Hq as [Hq|Hq].
           ++ subst q. right. exists (bw_config_descendant st tp cfg).
              split; [apply in_or_app; right; left; reflexivity|]. split; [exact D1|]. rewrite D2. exact Eb.
           ++ destruct (O1 q Hq) as [A|A]; [left; exact A|right; eapply blank_in_mono; eauto].
        -- destruct (O1 q Hq) as [A|A]; [left; exact A|right; eapply blank_in_mono; eauto].
      * intros p Hp. destruct (O2 p Hp) as (A & B & [C|C]); (split; [exact A|]; split; [exact B|]).
        -- left. exact C.
        -- right. eapply blank_in_mono; eauto.
      * intros c Hc. apply in_app_or in Hc. destruct Hc as [Hc|[Hc|[]]]; [apply O3; exact Hc|].
        subst c. rewrite D2. exact Hte.
Qed.

Lemma step_configs_loop_i_blank bl0 : forall vs stepped indefs bl sk stepped' indefs' bl' sk',
  (forall x, In x vs -> ends_blank (c_tape (snd x))) ->
  step_configs_loop_i vs stepped indefs bl sk = inl (stepped', indefs', bl', sk') ->
  round_ok bl0 stepped bl sk -> round_ok bl0 stepped' bl' sk'.
Proof.
  induction vs as [|[instrs cfg] rest IH]; intros stepped indefs bl sk stepped' indefs' bl' sk' He H Hok;
    cbn [step_configs_loop_i] in H.
  - inversion H; subst. exact Hok.
  - destruct (partition _ instrs) as [pulls instrs2].
    destruct (step_instrs_i cfg instrs2 stepped bl sk) as [[[s1 b1] k1]|r] eqn:Es; [|discriminate].
    apply (IH _ _ _ _ _ _ _ _ (fun x Hx => He x (or_intror Hx)) H).
    apply (step_instrs_i_blank cfg bl0 (He (instrs, cfg) (or_introl eq_refl)) _ _ _ _ _ _ _ Es Hok).
Qed.

Lemma get_blanks_in : forall cfgs acc q,
  bw_blanks_contains
    (fold_left (fun b cfg => if bs_blank (c_tape cfg) then bw_blanks_insert b (c_state cfg) else b) cfgs acc) q = true ->
  bw_blanks_contains acc q = true \/ blank_in cfgs q.
Proof.
  induction cfgs as [|c cfgs IH]; intros acc q H; cbn [fold_left] in H; [left; exact H|].
  destruct (IH _ _ H) as [A|A].
  - destruct (bs_blank (c_tape c)) eqn:Eb; [|left; exact A].
    apply blanks_insert_inv in A. destruct A as [A|A]; [|left; exact A].
    right. exists c. split; [left; reflexivity|]. split; [symmetry; exact A|exact Eb].
  - right. eapply blank_in_mono; [|exact A]. apply incl_tl. apply incl_refl.
Qed.

Section Global.
Variables (sw : bw_switches) (comp : comp_prog).
Hypothesis Hsw : sw_nodrop sw = true.
Let P := to_prog comp.
Let ep := get_entrypoints comp.
Let body_i := cant_reach_body_i sw ep.

Variables (si0 : bw_istate) (NN : nat) (x : N) (fl ul : bool).
Hypothesis Hfin : iter_nat NN body_i si0 = inr (Ok (BwRefuted x), fl, ul).

Definition reach_i (r : nat) (si : bw_istate) : Prop := iter_nat r body_i si0 = inl si.

Lemma reach_step r si si' : reach_i r si -> body_i si = inl si' -> reach_i (S r) si'.
Proof. unfold reach_i. intros H Hb. rewrite iter_nat_snoc, H. exact Hb. Qed.

Lemma reach_pred r si' : reach_i (S r) si' -> exists si, reach_i r si /\ body_i si = inl si'.
Proof.
  unfold reach_i. rewrite iter_nat_snoc. destruct (iter_nat r body_i si0) as [si|y]; [|discriminate].
  intro H. exists si. split; [reflexivity|exact H].
Qed.

Lemma reach_fin r si : reach_i r si ->
  exists m, iter_nat m body_i si = inr (Ok (BwRefuted x), fl, ul).
Proof.
  unfold reach_i. intro H. destruct (Nat.le_gt_cases NN r) as [L|L].
  - rewrite (iter_nat_inr_mono body_i NN r si0 _ Hfin L) in H. discriminate.
  - exists (NN - r)%nat. pose proof Hfin as F. replace NN with (r + (NN - r))%nat in F by lia.
    rewrite iter_nat_add, H in F. exact F.
Qed.

Lemma body_i_inr si res f u :
  body_i si = inr (res, f, u) ->
  cant_reach_body_sk sw ep (is_s si) = inr res /\ f = is_fired si /\ u = is_unjust si.
Proof.
  unfold body_i, cant_reach_body_i.
  destruct (cant_reach_body_sk sw ep (is_s si)) as [[s' sk]|r]; [discriminate|].
  intro H. inversion H. repeat split.
Qed.

Lemma body_i_inl si si' :
  body_i si = inl si' ->
  exists sk, cant_reach_body_sk sw ep (is_s si) = inl (is_s si', sk) /\
    is_hist si' = is_hist si ++ cr_configs (is_s si') /\
    is_unjust si' = is_unjust si || negb (forallb (skip_just (is_hist si')) sk).
Proof.
  unfold body_i, cant_reach_body_i.
  destruct (cant_reach_body_sk sw ep (is_s si)) as [[s' sk]|r]; [|discriminate].
  intro H. inversion H. exists sk. cbn [is_s is_hist is_unjust]. repeat split.
Qed.

Lemma unjust_mono : forall m si res f u,
  is_unjust si = true -> iter_nat m body_i si = inr (res, f, u) -> u = true.
Proof.
  induction m as [|m IH]; intros si res f u Hu H; cbn [iter_nat] in H; [discriminate|].
  destruct (body_i si) as [si'|[[r1 f1] u1]] eqn:Eb.
  - apply (IH si' res f u); [|exact H]. apply body_i_inl in Eb. destruct Eb as (sk & _ & _ & E).
    rewrite E, Hu. reflexivity.
  - inversion H; subst. apply body_i_inr in Eb. destruct Eb as (_ & _ & E). congruence.
Qed.

Lemma indef_persist : forall m si y f u,
  cr_indef_steps (is_s si) <> [] -> iter_nat m body_i si = inr (Ok (BwRefuted y), f, u) -> False.
Proof.
  induction m as [|m IH]; intros si y f u Hi H; cbn [iter_nat] in H; [discriminate|].
  destruct (body_i si) as [si'|[[r1 f1] u1]] eqn:Eb.
  - apply (IH si' y f u); [|exact H]. apply body_i_inl in Eb. destruct Eb as (sk & E & _).
    apply body_sk_inl in E. destruct E as (vs & indefs & _ & _ & E). rewrite E.
    intro E2. apply app_eq_nil in E2. destruct E2 as [E2 _]. contradiction.
  - inversion H; subst. apply body_i_inr in Eb. destruct Eb as (E & _).
    apply body_sk_refuted in E. destruct E as [_ E]. contradiction.
Qed.

(** "every configuration that the [blanks] test pruned is covered by a
    configuration of some frontier of the run": what the induction needs *)
Definition skips_ok : Prop :=
  forall r si si' sk, reach_i r si -> body_i si = inl si' ->
    cant_reach_body_sk sw ep (is_s si) = inl (is_s si', sk) ->
    forall q tp z, In (q, tp) sk -> bs_conc tp z ->
      exists r2 si2, reach_i r2 si2 /\ covers (cr_configs (is_s si2)) (q, z).

(** no frontier of the run covers the real configuration at a time j >= 1 *)
Theorem no_cover_gen : skips_ok ->
  forall j, (1 <= j)%nat -> forall c, rcfg comp j c ->
  forall r si, reach_i r si -> covers (cr_configs (is_s si)) c -> False.
Proof.
  intro Hok.
  induction j as [j IHj] using (well_founded_induction lt_wf).
  intros Hj c Hc r si Hr Hcov.
  destruct (reach_fin r si Hr) as (m & Hm).
  destruct m as [|m]; [discriminate|]. cbn [iter_nat] in Hm.
  destruct (body_i si) as [si'|[[r1 f1] u1]] eqn:Eb.
  - destruct (body_i_inl si si' Eb) as (sk & Hsk & _ & _).
    destruct (body_sk_inl _ _ _ _ _ Hsk) as (vs & indefs & Hgv & Hsc & Ei).
    destruct (frontier_round_sound sw comp Hsw (cr_configs (is_s si)) (cr_blanks (is_s si)) vs j c
                Hj Hc Hcov Hgv) as [_ Hround].
    destruct (Hround _ _ _ _ Hsc) as [Hi|(j' & c' & Hj1 & Hj2 & Hc' & [Hcov'|(tp & Hk & Hb)])].
    + apply (indef_persist m si' x fl ul); [|exact Hm]. rewrite Ei.
      intro E. apply app_eq_nil in E. destruct E as [_ E]. contradiction.
    + exact (IHj j' Hj2 Hj1 c' Hc' (S r) si' (reach_step _ _ _ Hr Eb) Hcov').
    + destruct c' as [q' z']. cbn [fst snd] in *.
      destruct (Hok r si si' sk Hr Eb Hsk q' tp z' Hk Hb) as (r2 & si2 & R1 & R2).
      exact (IHj j' Hj2 Hj1 (q', z') Hc' r2 si2 R1 R2).
  - inversion Hm; subst. apply body_i_inr in Eb. destruct Eb as (E & _).
    apply body_sk_refuted in E. destruct E as [E _].
    destruct (frontier_round_sound sw comp Hsw (cr_configs (is_s si)) (cr_blanks (is_s si)) [] j c
                Hj Hc Hcov E) as [Hne _]. apply Hne. reflexivity.
Qed.

(** ---- [skips_ok] from the decidable guard ---- *)
Section ByFlag.
Hypothesis Hhist0 : is_hist si0 = cr_configs (is_s si0).
Hypothesis Hul : ul = false.

Lemma hist_inv : forall r si, reach_i r si ->
  forall c, In c (is_hist si) -> exists r2 si2, reach_i r2 si2 /\ In c (cr_configs (is_s si2)).
Proof.
  induction r as [|r IH]; intros si Hr c Hc.
  - unfold reach_i in Hr. cbn [iter_nat] in Hr. inversion Hr; subst si.
    exists 0%nat, si0. split; [reflexivity|]. rewrite <- Hhist0. exact Hc.
  - destruct (reach_pred r si Hr) as (sp & Hp & Hb).
    destruct (body_i_inl sp si Hb) as (sk & _ & Eh & _). rewrite Eh in Hc.
    apply in_app_or in Hc. destruct Hc as [Hc|Hc].
    + eapply IH; eauto.
    + exists (S r), si. split; assumption.
Qed.

Lemma skips_ok_flag : skips_ok.
Proof.
  intros r si si' sk Hr Hb Hsk q tp z Hin Hz.
  pose proof (reach_step r si si' Hr Hb) as Hr'.
  destruct (reach_fin _ _ Hr') as (m & Hm). rewrite Hul in Hm.
  destruct (body_i_inl si si' Hb) as (sk' & Hsk' & _ & Eu).
  rewrite Hsk in Hsk'. inversion Hsk'; subst sk'. clear Hsk'.
  destruct (is_unjust si') eqn:Eu'.
  { pose proof (unjust_mono m si' _ _ _ Eu' Hm). discriminate. }
  symmetry in Eu. apply orb_false_iff in Eu. destruct Eu as [_ Eu].
  apply negb_false_iff in Eu. rewrite forallb_forall in Eu. specialize (Eu _ Hin).
  unfold skip_just in Eu. apply existsb_exists in Eu. destruct Eu as (cfg & Hc & Ec).
  cbn [fst snd] in Ec. apply andb_prop in Ec as [E1 E2]. apply N.eqb_eq in E1.
  destruct (hist_inv _ _ Hr' cfg Hc) as (r2 & si2 & R1 & R2).
  exists r2, si2. split; [exact R1|]. exists cfg. cbn [fst snd].
  split; [exact R2|]. split; [exact E1|]. eapply bs_same_conc; eauto.
Qed.
End ByFlag.

(** ---- [skips_ok] when every tape has both ends [EndBlanks] (cant_blank) ---- *)
Section ByEnds.
Hypothesis Hends0 : forall c, In c (cr_configs (is_s si0)) -> ends_blank (c_tape c).
Hypothesis Hblanks0 : forall q, bw_blanks_contains (cr_blanks (is_s si0)) q = true ->
                                blank_in (cr_configs (is_s si0)) q.

Lemma round_blank si s' sk :
  (forall c, In c (cr_configs (is_s si)) -> ends_blank (c_tape c)) ->
  cant_reach_body_sk sw ep (is_s si) = inl (s', sk) ->
  round_ok (cr_blanks (is_s si)) (cr_configs s') (cr_blanks s') sk.
Proof.
  intros He Hsk. destruct (body_sk_inl _ _ _ _ _ Hsk) as (vs & indefs & Hgv & Hsc & _).
  unfold step_configs_i in Hsc.
  apply (step_configs_loop_i_blank (cr_blanks (is_s si)) vs [] [] (cr_blanks (is_s si)) []
           _ _ _ _) in Hsc; [exact Hsc| |].
  - intros xx Hx. unfold get_valid_steps in Hgv.
    destruct (get_valid_steps_loop_from _ _ _ _ _ Hgv xx Hx) as [[]|(cfg & Hc & Hf)].
    eapply from_cfg_ends; [exact Hf|apply He; exact Hc].
  - split; [intros q Hq; left; exact Hq|]. split; intros ? [].
Qed.

Lemma ends_inv : forall r si, reach_i r si ->
  (forall c, In c (cr_configs (is_s si)) -> ends_blank (c_tape c)) /\
  (forall q, bw_blanks_contains (cr_blanks (is_s si)) q = true ->
             exists r2 si2, reach_i r2 si2 /\ blank_in (cr_configs (is_s si2)) q).
Proof.
  induction r as [|r IH]; intros si Hr.
  - unfold reach_i in Hr. cbn [iter_nat] in Hr. inversion Hr; subst si.
    split; [exact Hends0|]. intros q Hq. exists 0%nat, si0. split; [reflexivity|apply Hblanks0; exact Hq].
  - destruct (reach_pred r si Hr) as (sp & Hp & Hb).
    destruct (IH sp Hp) as [I1 I2].
    destruct (body_i_inl sp si Hb) as (sk & Hsk & _ & _).
    destruct (round_blank sp (is_s si) sk I1 Hsk) as (O1 & _ & O3).
    split; [exact O3|]. intros q Hq. destruct (O1 q Hq) as [A|A].
    + apply I2. exact A.
    + exists (S r), si. split; assumption.
Qed.

Lemma skips_ok_ends : skips_ok.
Proof.
  intros r si si' sk Hr Hb Hsk q tp z Hin Hz.
  destruct (ends_inv r si Hr) as [I1 I2].
  destruct (round_blank si (is_s si') sk I1 Hsk) as (_ & O2 & _).
  destruct (O2 _ Hin) as (B1 & [B2 B3] & B4). cbn [fst snd] in *.
  assert (Hzb : tape_blank z) by (eapply bs_blank_exact; eauto).
  assert (Hfin2 : forall r2 si2, reach_i r2 si2 -> blank_in (cr_configs (is_s si2)) q ->
            exists r3 si3, reach_i r3 si3 /\ covers (cr_configs (is_s si3)) (q, z)).
  { intros r2 si2 R1 (c & C1 & C2 & C3). exists r2, si2. split; [exact R1|].
    exists c. cbn [fst snd]. split; [exact C1|]. split; [exact C2|].
    apply bs_blank_covers_blank; assumption. }
  destruct B4 as [B4|B4].
  - destruct (I2 q B4) as (r2 & si2 & R1 & R2). eapply Hfin2; eauto.
  - apply (Hfin2 (S r) si'); [eapply reach_step; eauto|exact B4].
Qed.
End ByEnds.
End Global.

(** ------------------------------------------------------------------ *)
(** * 7. From the loop to [cant_reach] (prologue: the [retain] filter and
      [get_blanks]) *)

Theorem cant_reach_refuted_sound_gen sw comp depth g s n c :
  sw_nodrop sw = true ->
  (bw_skips_justified sw comp depth g = true \/
   (forall cfg, In cfg (g comp) -> ends_blank (c_tape cfg))) ->
  cant_reach sw comp depth g = Ok (BwRefuted s) ->
  (1 <= n)%nat -> rcfg comp n c -> covers (g comp) c -> False.
Proof.
  intros Hsw Hg Hr Hn Hc Hcov.
  rewrite <- cant_reach_i_spec in Hr. unfold bw_skips_justified in Hg.
  destruct (cant_reach_i sw comp depth g) as [[res f] u] eqn:E. cbn [fst snd] in Hr, Hg. subst res.
  unfold cant_reach_i in E.
  destruct Hcov as (cfg & Hin & Hq & Hb).
  destruct (g comp) as [|c0 cs] eqn:Eg; [destruct Hin|].
  set (ep := get_entrypoints comp) in *.
  assert (Hf : In cfg (filter (fun cfg => ep_contains_key ep (c_state cfg)) (c0 :: cs))).
  { apply filter_In. split; [exact Hin|]. destruct n as [|n0]; [lia|]. destruct c as [q' z'].
    unfold rcfg in Hc.
    destruct (run_pred _ n0 init_config q' z' Hc) as (q & z & pr & sh & _ & HP & _ & _).
    destruct (get_entrypoints_complete comp q (zc z) pr sh q' HP) as (same & diff & Hge & _).
    unfold ep_contains_key. cbn [fst] in Hq. rewrite Hq. fold ep in Hge. rewrite Hge. reflexivity. }
  assert (Hsub : incl (filter (fun cfg => ep_contains_key ep (c_state cfg)) (c0 :: cs)) (c0 :: cs)).
  { intros y Hy. apply filter_In in Hy. apply Hy. }
  destruct (filter (fun cfg => ep_contains_key ep (c_state cfg)) (c0 :: cs)) as [|c1 cs1] eqn:Ef;
    [destruct Hf|].
  rewrite for_upto_iter in E.
  set (si0 := mkIS (mkCR 0 (c1 :: cs1) (get_blanks (c1 :: cs1)) []) (c1 :: cs1) false false) in *.
  destruct (iter_nat (N.to_nat depth) (cant_reach_body_i sw ep) si0) as [si|r] eqn:Ei;
    [inversion E|]. subst r.
  assert (Hok : skips_ok sw comp si0).
  { destruct Hg as [Hg|Hg].
    - apply negb_true_iff in Hg. apply (skips_ok_flag sw comp si0 (N.to_nat depth) s f u Ei eq_refl Hg).
    - apply (skips_ok_ends sw comp si0).
      + intros y Hy. apply Hg. apply Hsub. exact Hy.
      + intros q0 Hq0. cbn [is_s cr_blanks cr_configs] in *. unfold get_blanks in Hq0.
        destruct (get_blanks_in _ _ _ Hq0) as [A|A]; [discriminate|exact A]. }
  apply (no_cover_gen sw comp Hsw si0 (N.to_nat depth) s f u Ei Hok n Hn c Hc 0%nat si0 eq_refl).
  exists cfg. split; [exact Hf|]. split; assumption.
Qed.

Theorem cant_reach_refuted_sound sw comp depth g s n c :
  sw_nodrop sw = true ->
  bw_skips_justified sw comp depth g = true ->
  cant_reach sw comp depth g = Ok (BwRefuted s) ->
  (1 <= n)%nat -> rcfg comp n c -> covers (g comp) c -> False.
Proof. intros Hsw Hg. apply cant_reach_refuted_sound_gen; [exact Hsw|left; exact Hg]. Qed.

(** ------------------------------------------------------------------ *)
(** * 8. The three events *)

Lemma rcfg_0 comp c : rcfg comp 0 c -> c = init_config.
Proof. unfold rcfg. cbn [tm_steps]. intro H. inversion H. reflexivity. Qed.

(** ---- halting ---- *)
Theorem bw_halt_refuted_sound_core sw comp depth s :
  sw_nodrop sw = true ->
  (forall n q t, tm_steps (to_prog comp) n init_config = Some (q, t) ->
                 to_prog comp (q, zc t) = None -> In (q, zc t) (halt_slots_sw sw comp)) ->
  to_prog comp (0, 0) <> None ->
  bw_skips_justified sw comp depth (halt_configs sw) = true ->
  cant_halt_sw sw comp depth = Ok (BwRefuted s) ->
  forall n sl, ~ halts_at (to_prog comp) init_config n sl.
Proof.
  intros Hsw Hslots H00 Hg Hr n sl (q & t & Hrun & Esl & Hn). subst sl.
  destruct n as [|n0].
  - cbn [tm_steps] in Hrun. unfold init_config in Hrun. inversion Hrun; subst q t.
    apply H00. exact Hn.
  - apply (cant_reach_refuted_sound sw comp depth (halt_configs sw) s (S n0) (q, t) Hsw Hg Hr);
      [lia|exact Hrun|].
    exists (bw_config_init_halt q (zc t)). split; [|split].
    + unfold halt_configs.
      apply (in_map (fun sl : slot => bw_config_init_halt (fst sl) (snd sl)) _ (q, zc t)).
      eapply Hslots; eauto.
    + reflexivity.
    + cbn [bw_config_init_halt bw_config_new c_tape snd]. eapply halt_target_covered. exact Hn.
Qed.

(** ---- the table-size guard (F2) ---- *)
Lemma In_N_range' f : forall lo x, In x (N_range f lo) <-> lo <= x < lo + N.of_nat f.
Proof.
  induction f as [|f IH]; intros lo x; cbn [N_range In].
  - split; [intros []|lia].
  - rewrite IH. split; [intros [H|H]; lia|intro H]. destruct (N.eq_dec lo x); [left; assumption|right; lia].
Qed.

Lemma In_range0' m x : In x (range 0 (m + 1)) <-> x <= m.
Proof. unfold range. rewrite In_N_range'. lia. Qed.

Lemma halt_slots_params_In p ms mc q c :
  In (q, c) (halt_slots_params p (ms, mc)) <-> q <= ms /\ c <= mc /\ cp_get p (q, c) = None.
Proof.
  unfold halt_slots_params. rewrite in_flat_map. split.
  - intros (st & H1 & H2). apply in_flat_map in H2. destruct H2 as (co & H2 & H3).
    apply In_range0' in H1, H2. unfold cp_mem in H3.
    destruct (cp_get p (st, co)) eqn:E; [destruct H3|]. destruct H3 as [H3|[]]. inversion H3; subst.
    repeat split; assumption.
  - intros (H1 & H2 & H3). exists q. split; [apply In_range0'; exact H1|].
    apply in_flat_map. exists c. split; [apply In_range0'; exact H2|].
    unfold cp_mem. rewrite H3. left. reflexivity.
Qed.

Lemma halt_slots_as_params p : halt_slots p = halt_slots_params p (cp_params p).
Proof. unfold halt_slots, halt_slots_params. destruct (cp_params p). reflexivity. Qed.

(** the decidable F2 guard: the table size used for the halt targets is the
    one that also accounts for the instruction contents *)
Definition halt_box_ok (sw : bw_switches) (comp : comp_prog) : bool :=
  sw_fullparams sw ||
  ((fst (cp_params_full comp) =? fst (cp_params comp)) && (snd (cp_params_full comp) =? snd (cp_params comp))).

Lemma halt_box_ok_slots sw comp :
  halt_box_ok sw comp = true -> halt_slots_sw sw comp = halt_slots_params comp (cp_params_full comp).
Proof.
  unfold halt_box_ok, halt_slots_sw. destruct (sw_fullparams sw); [reflexivity|]. cbn [orb].
  intro H. apply andb_prop in H as [H1 H2]. apply N.eqb_eq in H1, H2.
  rewrite halt_slots_as_params. f_equal.
  destruct (cp_params_full comp), (cp_params comp). cbn [fst snd] in *. subst. reflexivity.
Qed.

Lemma cp_params_full_bound (p : comp_prog) : forall acc,
  let r := fold_left (fun acc kv =>
               let '((st, co), (pr, _, tr)) := kv in
               (N.max (N.max (fst acc) st) tr, N.max (N.max (snd acc) co) pr)) p acc in
  fst acc <= fst r /\ snd acc <= snd r /\
  forall st co pr sh tr, In ((st, co), (pr, sh, tr)) p ->
    st <= fst r /\ tr <= fst r /\ co <= snd r /\ pr <= snd r.
Proof.
  induction p as [|[[st0 co0] [[pr0 sh0] tr0]] p IH]; intros acc; cbn [fold_left].
  - cbv zeta. split; [lia|]. split; [lia|]. intros ? ? ? ? ? [].
  - cbv zeta.
    specialize (IH (N.max (N.max (fst acc) st0) tr0, N.max (N.max (snd acc) co0) pr0)).
    cbv zeta in IH. cbn [fst snd] in IH. destruct IH as (I1 & I2 & I3).
    split; [lia|]. split; [lia|].
    intros st co pr sh tr [H|H].
    + inversion H; subst. lia.
    + apply (I3 _ _ _ _ _ H).
Qed.

Definition in_box (ms mc : N) (c : config) : Prop :=
  fst c <= ms /\ zc (snd c) <= mc /\
  (forall i, cell (zl (snd c)) i <= mc) /\ (forall i, cell (zr (snd c)) i <= mc).

Lemma run_in_box comp n : forall c,
  tm_steps (to_prog comp) n init_config = Some c ->
  in_box (fst (cp_params_full comp)) (snd (cp_params_full comp)) c.
Proof.
  induction n as [|n IH]; intros c H.
  - cbn [tm_steps] in H. inversion H; subst c. unfold in_box, init_config, blank_tape.
    cbn [fst snd zl zc zr]. repeat split; try lia; intro i; rewrite cell_nil; lia.
  - destruct c as [q' z'].
    destruct (run_pred _ n init_config q' z' H) as (q & z & pr & sh & Hr & HP & Ez & _).
    specialize (IH _ Hr). destruct IH as (B1 & B2 & B3 & B4). cbn [fst snd] in *.
    apply cp_get_In in HP.
    destruct (cp_params_full_bound comp (0, 0)) as (_ & _ & Hb). cbv zeta in Hb.
    destruct (Hb _ _ _ _ _ HP) as (_ & Hq & _ & Hpr). fold (cp_params_full comp) in Hq, Hpr.
    subst z'. unfold in_box. cbn [fst snd]. split; [exact Hq|].
    destruct sh; cbn [tm_move zl zc zr].
    + split; [rewrite cell_hd0; apply B4|]. split.
      * intros [|i]; [exact Hpr|]. rewrite cell_cons. apply B3.
      * intro i. rewrite cell_tl. apply B4.
    + split; [rewrite cell_hd0; apply B3|]. split.
      * intro i. rewrite cell_tl. apply B3.
      * intros [|i]; [exact Hpr|]. rewrite cell_cons. apply B4.
Qed.

Lemma halt_box_ok_complete sw comp :
  halt_box_ok sw comp = true ->
  forall n q t, tm_steps (to_prog comp) n init_config = Some (q, t) ->
                to_prog comp (q, zc t) = None -> In (q, zc t) (halt_slots_sw sw comp).
Proof.
  intros Hbox n q t Hr Hn. rewrite (halt_box_ok_slots _ _ Hbox).
  destruct (run_in_box comp n _ Hr) as (B1 & B2 & _). cbn [fst snd] in *.
  destruct (cp_params_full comp) as [ms mc] eqn:E. cbn [fst snd] in *.
  apply halt_slots_params_In. repeat split; assumption.
Qed.

Theorem bw_halt_refuted_sound sw comp depth s :
  sw_nodrop sw = true ->
  halt_box_ok sw comp = true ->
  to_prog comp (0, 0) <> None ->
  bw_skips_justified sw comp depth (halt_configs sw) = true ->
  cant_halt_sw sw comp depth = Ok (BwRefuted s) ->
  forall n sl, ~ halts_at (to_prog comp) init_config n sl.
Proof.
  intros Hsw Hbox. apply bw_halt_refuted_sound_core; [exact Hsw|].
  apply halt_box_ok_complete. exact Hbox.
Qed.

(** ---- erasing the tape ---- *)
Theorem bw_blank_refuted_sound_guarded sw comp depth s :
  sw_nodrop sw = true ->
  bw_skips_justified sw comp depth erase_configs = true ->
  cant_blank_sw sw comp depth = Ok (BwRefuted s) ->
  forall n, ~ erases_at (to_prog comp) init_config n.
Proof.
  intros Hsw Hg Hr n (q0 & t0 & pr & sh & q & Hrun & HP & Epr & Hnz & Hb). subst pr.
  destruct n as [|n0].
  - cbn [tm_steps] in Hrun. unfold init_config in Hrun. inversion Hrun; subst q0 t0.
    apply Hnz. reflexivity.
  - apply (cant_reach_refuted_sound sw comp depth erase_configs s (S n0) (q0, t0) Hsw Hg Hr);
      [lia|exact Hrun|].
    exists (bw_config_init_blank q0 (zc t0)). split; [|split].
    + eapply erase_configs_complete; eauto.
    + reflexivity.
    + cbn [bw_config_init_blank bw_config_new c_tape snd]. eapply blank_target_covered; eauto.
Qed.

(** NO guard on the [blanks] pruning for [cant_blank]: all tapes of the run
    have both ends [EndBlanks], a "blank" abstract tape describes exactly
    the blank tape, and the pruned configuration is covered by the earlier
    "blank" configuration in the same state *)
Theorem bw_blank_refuted_sound sw comp depth s :
  sw_nodrop sw = true ->
  cant_blank_sw sw comp depth = Ok (BwRefuted s) ->
  forall n, ~ erases_at (to_prog comp) init_config n.
Proof.
  intros Hsw Hr n (q0 & t0 & pr & sh & q & Hrun & HP & Epr & Hnz & Hb). subst pr.
  destruct n as [|n0].
  - cbn [tm_steps] in Hrun. unfold init_config in Hrun. inversion Hrun; subst q0 t0.
    apply Hnz. reflexivity.
  - apply (cant_reach_refuted_sound_gen sw comp depth erase_configs s (S n0) (q0, t0) Hsw);
      [|exact Hr|lia|exact Hrun|].
    + right. intros cfg Hin. unfold erase_configs in Hin. apply in_map_iff in Hin.
      destruct Hin as (sl & E & _). subst cfg. split; reflexivity.
    + exists (bw_config_init_blank q0 (zc t0)). split; [|split].
      * eapply erase_configs_complete; eauto.
      * reflexivity.
      * cbn [bw_config_init_blank bw_config_new c_tape snd]. eapply blank_target_covered; eauto.
Qed.

(** ---- spinning out ---- *)
Lemma spinout_cfg_next (P : prog) c :
  spinout_cfg P c -> exists c', tm_step P c = Some c' /\ spinout_cfg P c'.
Proof.
  destruct c as [q t]. intros (H0 & pr & sh & HP & Hb).
  exists (q, tm_move t sh pr). split.
  - unfold tm_step.
    assert (E : P (q, zc t) = Some (pr, sh, q)) by (rewrite H0; exact HP).
    rewrite E. reflexivity.
  - unfold spinout_cfg. split.
    + destruct sh; cbn [tm_move zc side] in *; rewrite cell_hd0; apply Hb.
    + exists pr, sh. split; [exact HP|].
      destruct sh; cbn [tm_move zl zr side] in *; apply all_blank_tl; exact Hb.
Qed.

Theorem bw_spinout_refuted_sound sw comp depth s :
  sw_nodrop sw = true ->
  bw_skips_justified sw comp depth zero_reflexive_configs = true ->
  cant_spin_out_sw sw comp depth = Ok (BwRefuted s) ->
  forall n, ~ spins_out_at (to_prog comp) init_config n.
Proof.
  intros Hsw Hg Hr n (c & Hrun & Hsp).
  assert (H1 : exists n1 c1, (1 <= n1)%nat /\ rcfg comp n1 c1 /\ spinout_cfg (to_prog comp) c1).
  { destruct n as [|n0].
    - destruct (spinout_cfg_next _ _ Hsp) as (c' & Hs & Hsp'). exists 1%nat, c'.
      split; [lia|]. split; [|exact Hsp']. unfold rcfg. cbn [tm_steps] in *. inversion Hrun; subst c.
      rewrite Hs. reflexivity.
    - exists (S n0), c. split; [lia|]. split; assumption. }
  clear n c Hrun Hsp. destruct H1 as (n & [q z] & Hn & Hrun & Hsp).
  destruct (spinout_target_covered _ _ _ Hsp) as (pr & d & HP & Hb).
  apply (cant_reach_refuted_sound sw comp depth zero_reflexive_configs s n (q, z) Hsw Hg Hr Hn Hrun).
  exists (bw_config_init_spinout q d). split; [|split].
  - eapply zero_reflexive_configs_complete; eauto.
  - reflexivity.
  - exact Hb.
Qed.

(** ---- the guarded global theorem ---- *)
Theorem bw_refuted_sound_guarded sw comp depth s :
  sw_nodrop sw = true ->
  (halt_box_ok sw comp = true -> to_prog comp (0, 0) <> None ->
   bw_skips_justified sw comp depth (halt_configs sw) = true ->
   cant_halt_sw sw comp depth = Ok (BwRefuted s) ->
   forall n sl, ~ halts_at (to_prog comp) init_config n sl) /\
  (cant_blank_sw sw comp depth = Ok (BwRefuted s) ->
   forall n, ~ erases_at (to_prog comp) init_config n) /\
  (bw_skips_justified sw comp depth zero_reflexive_configs = true ->
   cant_spin_out_sw sw comp depth = Ok (BwRefuted s) ->
   forall n, ~ spins_out_at (to_prog comp) init_config n).
Proof.
  intro Hsw. split; [|split].
  - apply bw_halt_refuted_sound; exact Hsw.
  - apply bw_blank_refuted_sound; exact Hsw.
  - apply bw_spinout_refuted_sound; exact Hsw.
Qed.

(** the stronger guard "the pruning never fired" implies the weaker one *)
Lemma iter_fired_unjust sw ep : forall m si,
  (is_unjust si = true -> is_fired si = true) ->
  match iter_nat m (cant_reach_body_i sw ep) si with
  | inl si' => is_unjust si' = true -> is_fired si' = true
  | inr (_, f, u) => u = true -> f = true
  end.
Proof.
  induction m as [|m IH]; intros si H; cbn [iter_nat]; [exact H|].
  unfold cant_reach_body_i at 1.
  destruct (cant_reach_body_sk sw ep (is_s si)) as [[s' sk]|r]; [|exact H].
  apply IH. cbn [is_unjust is_fired]. destruct sk as [|k0 sk].
  - cbn [forallb negb]. rewrite !orb_false_r. exact H.
  - intros _. apply orb_true_r.
Qed.

Lemma no_blank_skip_justified sw comp depth g :
  bw_no_blank_skip sw comp depth g = true -> bw_skips_justified sw comp depth g = true.
Proof.
  unfold bw_no_blank_skip, bw_skips_justified, cant_reach_i.
  destruct (g comp) as [|c0 cs]; [reflexivity|].
  destruct (filter _ (c0 :: cs)) as [|c1 cs1]; [reflexivity|].
  rewrite for_upto_iter.
  match goal with |- context [iter_nat ?m ?b ?s] =>
    pose proof (iter_fired_unjust sw (get_entrypoints comp) m s) as H end.
  cbn [is_unjust is_fired] in H. specialize (H (fun e => e)).
  destruct (iter_nat _ _ _) as [si|[[r f] u]]; cbn [fst snd] in *.
  - destruct (is_unjust si); [rewrite (H eq_refl); discriminate|reflexivity].
  - destruct u; [rewrite (H eq_refl); discriminate|reflexivity].
Qed.

(** ------------------------------------------------------------------ *)
(** * 9. Non-vacuity: concrete tables that satisfy every guard and are
      refuted after several rounds.  [sw_f2] is the faithful code with only
      the F1 branch repaired. *)
Definition sw_f2 : bw_switches := mkSw true false.

(* 1RB ...  0RB 0LC  1LA 0LA *)
Definition ex_halt_prog : comp_prog :=
  [((0,0),(1,true,1)); ((1,0),(0,true,1)); ((1,1),(0,false,2)); ((2,0),(1,false,0)); ((2,1),(0,false,0))].
(* 1RB 0LC  1RA 0RA  0LB 1LC *)
Definition ex_blank_prog : comp_prog :=
  [((0,0),(1,true,1)); ((0,1),(0,false,2)); ((1,0),(1,true,0)); ((1,1),(0,true,0));
   ((2,0),(0,false,1)); ((2,1),(1,false,2))].
(* 1RB 0RC  1LC 0LC  0RB 0LA : the pruning fires, and is justified *)
Definition ex_blank_prog2 : comp_prog :=
  [((0,0),(1,true,1)); ((0,1),(0,true,2)); ((1,0),(1,false,2)); ((1,1),(0,false,2));
   ((2,0),(0,true,1)); ((2,1),(0,false,0))].
(* 1RB 1LB  0LB 0RC  0LA 1RC : the pruning fires, and is justified *)
Definition ex_spin_prog : comp_prog :=
  [((0,0),(1,true,1)); ((0,1),(1,false,1)); ((1,0),(0,false,1)); ((1,1),(0,true,2));
   ((2,0),(0,false,0)); ((2,1),(1,true,2))].

Example ex_halt_guards :
  sw_nodrop sw_f2 = true /\ halt_box_ok sw_f2 ex_halt_prog = true /\
  to_prog ex_halt_prog (0, 0) <> None /\
  bw_no_blank_skip sw_f2 ex_halt_prog 40 (halt_configs sw_f2) = true /\
  bw_skips_justified sw_f2 ex_halt_prog 40 (halt_configs sw_f2) = true /\
  cant_halt_sw sw_f2 ex_halt_prog 40 = Ok (BwRefuted 12).
Proof. repeat split; try (vm_compute; reflexivity). vm_compute. discriminate. Qed.

Example ex_halt_never : forall n sl, ~ halts_at (to_prog ex_halt_prog) init_config n sl.
Proof.
  apply (bw_halt_refuted_sound sw_f2 ex_halt_prog 40 12); try (vm_compute; reflexivity).
  vm_compute. discriminate.
Qed.

Example ex_blank_guards :
  bw_no_blank_skip sw_f2 ex_blank_prog 40 erase_configs = true /\
  bw_skips_justified sw_f2 ex_blank_prog 40 erase_configs = true /\
  cant_blank_sw sw_f2 ex_blank_prog 40 = Ok (BwRefuted 28) /\
  bw_no_blank_skip sw_f2 ex_blank_prog2 40 erase_configs = false /\
  bw_skips_justified sw_f2 ex_blank_prog2 40 erase_configs = true /\
  cant_blank_sw sw_f2 ex_blank_prog2 40 = Ok (BwRefuted 12).
Proof. repeat split; vm_compute; reflexivity. Qed.

Example ex_blank_never : forall n, ~ erases_at (to_prog ex_blank_prog) init_config n.
Proof. apply (bw_blank_refuted_sound_guarded sw_f2 ex_blank_prog 40 28); vm_compute; reflexivity. Qed.

Example ex_blank2_never : forall n, ~ erases_at (to_prog ex_blank_prog2) init_config n.
Proof. apply (bw_blank_refuted_sound_guarded sw_f2 ex_blank_prog2 40 12); vm_compute; reflexivity. Qed.

Example ex_spin_guards :
  bw_no_blank_skip sw_f2 ex_spin_prog 40 zero_reflexive_configs = false /\
  bw_skips_justified sw_f2 ex_spin_prog 40 zero_reflexive_configs = true /\
  cant_spin_out_sw sw_f2 ex_spin_prog 40 = Ok (BwRefuted 10).
Proof. repeat split; vm_compute; reflexivity. Qed.

Example ex_spin_never : forall n, ~ spins_out_at (to_prog ex_spin_prog) init_config n.
Proof. apply (bw_spinout_refuted_sound sw_f2 ex_spin_prog 40 10); vm_compute; reflexivity. Qed.

(** each static guard of the halt theorem is necessary: dropping it alone
    admits a wrong refutation (F1: [sw_nodrop]; F2: [halt_box_ok]; A0) *)
Example halt_guards_necessary :
  (* without sw_nodrop (F1) *)
  (halt_box_ok bw_faithful f1_halt_prog = true /\ to_prog f1_halt_prog (0, 0) <> None /\
   bw_skips_justified bw_faithful f1_halt_prog 30 (halt_configs bw_faithful) = true /\
   cant_halt_sw bw_faithful f1_halt_prog 30 = Ok (BwRefuted 9) /\
   halts_at (to_prog f1_halt_prog) init_config 11 (2, 1)) /\
  (* without halt_box_ok (F2) *)
  (sw_nodrop sw_f2 = true /\ halt_box_ok sw_f2 f2_halt_prog = false /\
   to_prog f2_halt_prog (0, 0) <> None /\
   bw_skips_justified sw_f2 f2_halt_prog 3 (halt_configs sw_f2) = true /\
   cant_halt_sw sw_f2 f2_halt_prog 3 = Ok (BwRefuted 0) /\
   halts_at (to_prog f2_halt_prog) init_config 1 (1, 0)) /\
  (* without A0 defined *)
  (let comp := [((0, 1), (1, true, 0))] in
   sw_nodrop sw_f2 = true /\ halt_box_ok sw_f2 comp = true /\ to_prog comp (0, 0) = None /\
   bw_skips_justified sw_f2 comp 10 (halt_configs sw_f2) = true /\
   cant_halt_sw sw_f2 comp 10 = Ok (BwRefuted 1) /\
   halts_at (to_prog comp) init_config 0 (0, 0)).
Proof.
  split; [|split].
  - split; [vm_compute; reflexivity|]. split; [vm_compute; discriminate|].
    split; [vm_compute; reflexivity|]. split; [vm_compute; reflexivity|]. apply f1_halt_witness.
  - split; [reflexivity|]. split; [vm_compute; reflexivity|]. split; [vm_compute; discriminate|].
    split; [vm_compute; reflexivity|]. split; [vm_compute; reflexivity|]. apply f2_halt_witness.
  - cbv zeta. split; [reflexivity|]. split; [vm_compute; reflexivity|]. split; [vm_compute; reflexivity|].
    split; [vm_compute; reflexivity|]. split; [vm_compute; reflexivity|].
    exists 0, blank_tape. repeat split.
Qed.

Print Assumptions halt_guards_necessary.
Print Assumptions cant_reach_i_spec.
Print Assumptions frontier_round_sound.
Print Assumptions no_cover_gen.
Print Assumptions skips_ok_flag.
Print Assumptions skips_ok_ends.
Print Assumptions cant_reach_refuted_sound_gen.
Print Assumptions bw_blank_refuted_sound.
Print Assumptions cant_reach_refuted_sound.
Print Assumptions bw_halt_refuted_sound_core.
Print Assumptions bw_halt_refuted_sound.
Print Assumptions bw_blank_refuted_sound_guarded.
Print Assumptions bw_spinout_refuted_sound.
Print Assumptions bw_refuted_sound_guarded.
Print Assumptions no_blank_skip_justified.
Print Assumptions ex_halt_never.
Print Assumptions ex_blank_never.
Print Assumptions ex_spin_never.
