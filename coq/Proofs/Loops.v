(** Generic facts about the bounded loop combinator [for_upto]. *)
From BB Require Import Base.

Section Loops.
Context {St Rs : Type} (body : St -> St + Rs).

Lemma iter_nat_add a b s :
  iter_nat (a + b) body s =
  match iter_nat a body s with inl s' => iter_nat b body s' | inr r => inr r end.
Proof.
  revert s. induction a as [|a IH]; intros s; [reflexivity|].
  cbn [Nat.add iter_nat]. destruct (body s) as [s'|r]; [apply IH|reflexivity].
Qed.

Lemma for_pos_iter p s : for_pos p body s = iter_nat (Pos.to_nat p) body s.
Proof.
  revert s. induction p as [p IH|p IH|]; intros s; cbn [for_pos].
  - rewrite Pos2Nat.inj_xI. cbn [iter_nat]. destruct (body s) as [s0|r]; [|reflexivity].
    replace (2 * Pos.to_nat p)%nat with (Pos.to_nat p + Pos.to_nat p)%nat by lia.
    rewrite iter_nat_add, <- IH. destruct (for_pos p body s0); [apply IH|reflexivity].
  - rewrite Pos2Nat.inj_xO.
    replace (2 * Pos.to_nat p)%nat with (Pos.to_nat p + Pos.to_nat p)%nat by lia.
    rewrite iter_nat_add, <- IH. destruct (for_pos p body s); [apply IH|reflexivity].
  - change (Pos.to_nat 1) with 1%nat. cbn [iter_nat]. destruct (body s); reflexivity.
Qed.

Lemma for_upto_iter n s : for_upto n body s = iter_nat (N.to_nat n) body s.
Proof. destruct n as [|p]; [reflexivity|]. cbn [for_upto N.to_nat]. apply for_pos_iter. Qed.

Lemma iter_nat_inr_mono a b s r : iter_nat a body s = inr r -> (a <= b)%nat -> iter_nat b body s = inr r.
Proof.
  intros H Hab. replace b with (a + (b - a))%nat by lia. rewrite iter_nat_add, H. reflexivity.
Qed.

(** C15 in its generic form: a loop that has produced an answer within n
    iterations produces the same answer with any larger bound. *)
Theorem for_upto_mono n m s r : for_upto n body s = inr r -> n <= m -> for_upto m body s = inr r.
Proof.
  rewrite !for_upto_iter. intros H Hnm. eapply iter_nat_inr_mono; [exact H|lia].
Qed.

Lemma iter_nat_inl_split a b s s' :
  iter_nat (a + b) body s = inl s' -> exists s1, iter_nat a body s = inl s1 /\ iter_nat b body s1 = inl s'.
Proof.
  rewrite iter_nat_add. destruct (iter_nat a body s) as [s1|r]; [|discriminate].
  intros H. exists s1. split; [reflexivity|exact H].
Qed.
End Loops.
